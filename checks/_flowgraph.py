"""Shared bookkeeping for C04 / C05: abstract flow configurations <-> YAML for the real loader, transactions that
steer the branch conditions, case files for harness/cmd/c04, and the TLC trace built from what the real code answered.

Nothing here judges an outcome: the abstract configuration, the inputs and the observations are handed to TLC
(specs/c04_flow_graph/FlowTrace.tla), which evaluates the specification on them.

Abstract configuration (the value the TLA+ modules work on; JSON):
  cfg   = {"flows": [flow, ...], "quotas": [quota, ...]}
  flow  = {"name": "A", "url": "h.test/x", "procs": [{"key": "a", "kind": "Cond|Plain|Gen|Lim"}, ...],
           "req": [conn, ...], "res": [conn, ...]}
  conn  = {"f": end, "t": end}
  end   = {"k": "S", "n": "", "c": "", "at": "start|end"}          stream reference
        | {"k": "P", "n": key, "c": condition, "at": ""}           processor reference (condition only on `from`)
        | {"k": "F", "n": flow name, "c": "", "at": "start|end"}   flow reference
  quota = {"id": "q1", "kind": "fixed|conc", "url": "h.test/*"}
"""
import base64, json

HOST = "h.test"
TXURL = HOST + "/x"
OUTS = {"Cond": ["hit", "miss"], "Plain": [""], "Gen": [""], "Lim": ["below_limit", "above_limit"]}


def S(at):
    return {"k": "S", "n": "", "c": "", "at": at}


def P(n, c=""):
    return {"k": "P", "n": n, "c": c, "at": ""}


def F(n, at):
    return {"k": "F", "n": n, "c": "", "at": at}


def conn(f, t):
    return {"f": f, "t": t}


def flow(name, procs, req, res, url=TXURL):
    return {"name": name, "url": url, "procs": [{"key": k, "kind": v} for k, v in procs], "req": req, "res": res}


# ------------------------------------------------------------------ YAML

def _q(s):
    return json.dumps(s)


def _end_yaml(e, ind):
    pad = " " * ind
    if e["k"] == "S":
        return "%sstream:\n%s  name: globalStream\n%s  at: %s\n" % (pad, pad, pad, e["at"])
    if e["k"] == "F":
        return "%sflow:\n%s  name: %s\n%s  at: %s\n" % (pad, pad, _q(e["n"]), pad, e["at"])
    s = "%sprocessor:\n%s  name: %s\n" % (pad, pad, _q(e["n"]))
    if e["c"]:
        s += "%s  condition: %s\n" % (pad, _q(e["c"]))
    return s


def _proc_yaml(p, lim_quota):
    k, kind = p["key"], p["kind"]
    s = "  %s:\n" % k
    if kind == "Cond" and p.get("impl") in COND_IMPL:
        s += "    processor: Filter\n    parameters:\n" + COND_IMPL[p["impl"]]
    elif kind == "Cond":
        s += "    processor: Filter\n    parameters:\n      - key: header\n        value: \"x-%s=1\"\n" % k.lower()
    elif kind == "Plain" and p.get("impl") == "sanitize":
        # rewrites the request body (and its content-length header); request side only
        s += "    processor: DataSanitation\n"
    elif kind == "Plain" and p.get("impl") == "transform":
        # an unconditional processor that reports the *current* stream type (like HARCollector, WriteCache, traces ...)
        s += ("    processor: TransformAPICall\n    parameters:\n      - key: set\n        value:\n"
              "          \"$.request.headers.x-t-%s\": \"1\"\n" % k.lower())
    elif kind == "Plain":
        # reports StreamTypeAny
        s += "    processor: UserDefinedMetrics\n    parameters:\n      - key: metric_name\n        value: \"m_%s\"\n" % k
    elif kind == "Gen":
        s += "    processor: GenerateResponse\n    parameters:\n      - key: status\n        value: 418\n"
    elif kind == "Lim":
        s += "    processor: Limiter\n    parameters:\n      - key: quota_id\n        value: %s\n" % _q(lim_quota)
    else:
        s += "    processor: %s\n" % kind      # unknown processor type (invalid configurations)
    return s


def _filter_yaml(fl):
    """optional filter criteria of a flow: fl["filt"] = {"status": [..], "methods": [..], "headers": [[k, v]..], "query": [[k, v]..]}"""
    f = fl.get("filt") or {}
    s = ""
    if f.get("methods"):
        s += "  method:\n" + "".join("    - %s\n" % m for m in f["methods"])
    if f.get("headers"):
        s += "  headers:\n" + "".join("    - key: %s\n      value: %s\n" % (k, _q(v)) for k, v in f["headers"])
    if f.get("query"):
        s += "  query_params:\n" + "".join("    - key: %s\n      value: %s\n" % (k, _q(v)) for k, v in f["query"])
    if f.get("status"):
        s += "  status_code:\n" + "".join("    - %d\n" % c for c in f["status"])
    return s


COND_IMPL = {   # what a Cond (Filter processor) decides on, besides the default request/response header
    "status": "      - key: status_code_range\n        value: \"200-299\"\n",
    "method": "      - key: method\n        value: GET\n",
    "url": "      - key: url\n        value: \"h.test/x\"\n",
    "endpoint": "      - key: endpoint\n        value: /x\n",
    "mixed": "      - key: status_code_range\n        value: \"400-499\"\n      - key: method\n        value: GET\n      - key: header\n        value: \"x-f=1\"\n",
}


def flow_yaml(fl, lim_quota="qlim"):
    s = "name: %s\nfilter:\n  url: %s\n%sprocessors:\n" % (fl["name"], _q(fl["url"]), _filter_yaml(fl))
    if not fl["procs"]:
        s = s[:-1] + " {}\n"
    for p in fl["procs"]:
        s += _proc_yaml(p, lim_quota)
    s += "flow:\n"
    for d, key in (("request", "req"), ("response", "res")):
        if not fl[key]:
            s += "  %s: []\n" % d
            continue
        s += "  %s:\n" % d
        for c in fl[key]:
            s += "    - from:\n" + _end_yaml(c["f"], 8) + "      to:\n" + _end_yaml(c["t"], 8)
    return s


def quota_yaml(quotas):
    s = "quotas:\n"
    for q in quotas:
        s += "  - id: %s\n    filter:\n      url: %s\n    strategy:\n" % (q["id"], _q(q["url"]))
        if q["kind"] == "fixed":
            s += "      fixed_window:\n        max: 1\n        interval: 1\n        interval_unit: hour\n"
            s += "        group_by_header: x-group\n"
        else:
            s += "      concurrent:\n        max_request_count: 100000\n"
    return s


def needs_lim_quota(cfg):
    return any(p["kind"] == "Lim" for fl in cfg["flows"] for p in fl["procs"])


def render(cfg):
    files = {}
    for fl in cfg["flows"]:
        files["flows/%s.yaml" % fl["name"]] = flow_yaml(fl)
    quotas = list(cfg.get("quotas", []))
    if needs_lim_quota(cfg):
        # the quota the Limiter processors consult; its filter never matches the test transactions
        quotas = quotas + [{"id": "qlim", "kind": "fixed", "url": HOST + "/limonly"}]
    if quotas:
        files["quotas/quotas.yaml"] = quota_yaml(quotas)
    return files


# ---------------------------------------------------------- transactions

def steerable(cfg):
    """processors whose output is chosen by the transaction: (key, kind)"""
    out = []
    for fl in cfg["flows"]:
        for p in fl["procs"]:
            if p["kind"] in ("Cond", "Lim") and p["key"] not in [k for k, _ in out]:
                out.append((p["key"], p["kind"]))
    return out


def all_inputs(cfg):
    st = steerable(cfg)
    res = []
    for m in range(1 << len(st)):
        res.append({k: (m >> i) & 1 for i, (k, _) in enumerate(st)})
    return res


_txn = [0]


def tx(cfg, d, bits, url=TXURL, flow="A"):
    """one transaction: Cond processor k answers hit iff header X-k = 1; a Limiter answers above_limit iff its
    quota group was used once before (a warm-up transaction with the same fresh group value)."""
    _txn[0] += 1
    tid = "t%d" % _txn[0]
    h = {}
    kinds = dict(steerable(cfg))
    for k, b in bits.items():
        if kinds.get(k) == "Cond" and b:
            h["x-" + k.lower()] = "1"
    t = {"id": tid, "dir": d, "method": "GET", "url": url, "headers": h, "flow": flow, "bits": bits}
    if d == "res":
        t["status"] = 200
    lims = [k for k, kind in kinds.items() if kind == "Lim"]
    if lims and d == "req":
        h["x-group"] = "g" + tid
        if any(bits.get(k) for k in lims):
            # the same request once before (not observed): every Limiter it reached has used up its group
            t["pre"] = [{"id": tid + "w", "dir": "req", "method": "GET", "url": url, "headers": dict(h)}]
    return t


def b64(b):
    return base64.b64encode(b).decode()


# ------------------------------------------------------------------ cases

def limit_of(cfg):
    """executor safety limit on processor executions per transaction (well above the specification's Bound)"""
    n = sum(len(fl["procs"]) for fl in cfg["flows"])
    return 2 ** (n + 1) + 2 * len(cfg.get("quotas", [])) + 64


def url_for(fl):
    """a concrete URL that reaches the flow (a host wildcard flow h.test/* is reached through h.test/w)"""
    return fl["url"][:-1] + "w" if fl["url"].endswith("/*") else fl["url"]


def selected_flows(cfg, url, first):
    """bookkeeping for the trace: the user flows whose filter URL covers the transaction's URL (the one aimed at first).
    Only URLs of the shapes host/path and host/* occur in the generated configurations."""
    url = url.split("?", 1)[0]
    out = [first]
    for fl in cfg["flows"]:
        u = fl.get("url", "")
        if fl["name"] != first and (u == url or (u.endswith("/*") and url.startswith(u[:-1]))):
            out.append(fl["name"])
    return out


def standard_txs(cfg, max_inputs=16):
    """every branch-steering input vector, request and response, for every user flow of the configuration"""
    txs = []
    ins = all_inputs(cfg)[:max_inputs]
    for fl in cfg["flows"]:
        if not fl.get("url"):
            continue
        for bits in ins:
            pair = None
            for d in ("req", "res"):
                t = tx(cfg, d, bits, url=url_for(fl), flow=fl["name"])
                pair = pair or t["id"]
                t["pair"] = pair
                txs.append(t)
    return txs


def vary_impl(cfg, rng):
    """which registry processor stands for an unconditional (Plain) processor - outside the abstract configuration,
    part of the rendering: UserDefinedMetrics reports StreamTypeAny, TransformAPICall the current stream type"""
    for fl in cfg["flows"]:
        for p in fl["procs"]:
            if p["kind"] == "Plain" and "impl" not in p:
                p["impl"] = rng.choice(["metrics", "transform"])
    return cfg


def make_case(cid, cfg, txs=None):
    return {"id": cid, "cfg": cfg, "files": render(cfg), "txs": standard_txs(cfg) if txs is None else txs,
            "limit": limit_of(cfg)}


DIRS = {"StreamTypeRequest": "req", "StreamTypeResponse": "res"}
SYSFLOW = __import__("re").compile(r"^SystemFlow_(.*)_SYSTEM_FLOW_(?:START|END)$")


def sid_order(seq, d):
    out = []
    for s in seq:
        if s["dir"] == d and s.get("sid") and s["sid"] not in out:
            out.append(s["sid"])
    return out


def run_cases(ctx, binary, cases, tag, natural=False, timeout=1500):
    """executes the cases on the real code; returns the events (begin markers removed)"""
    import os
    from vlib import read_ndjson
    d = ctx.sub("run-" + tag)
    cp, op = os.path.join(d, "cases.json"), os.path.join(d, "out.ndjson")
    slim = [{"id": c["id"], "files": c["files"], "limit": c["limit"],
             "txs": [{k: v for k, v in t.items() if k not in ("flow", "bits", "kind", "pair")} for t in c["txs"]]} for c in cases]
    json.dump(slim, open(cp, "w"))
    ctx.run_harness(binary, ["run", cp, op] + (["natural"] if natural else []), timeout=timeout)
    evs = [e for e in read_ndjson(op) if e["ev"] != "begin"]
    for e in evs:
        for s in e.get("seq", []):
            s["dir"] = DIRS.get(s["dir"], s["dir"])
            m = SYSFLOW.match(s["flow"])          # projection: system flow id from the generated flow name
            s["sid"] = m.group(1) if m else ""
    os.remove(cp)
    return evs


def build_trace(cases, events):
    """the TLC trace: per case one load event carrying the configuration, then its exec events.
    Returns (lines, refs) with refs[i] = (case, tx or None, raw event) for line i."""
    by_case = {}
    for e in events:
        by_case.setdefault(e["case"], []).append(e)
    lines, refs = [], []
    for c in cases:
        evs = by_case.get(c["id"], [])
        loads = [e for e in evs if e["ev"] == "load"]
        if len(loads) != 1:
            raise RuntimeError("case %s: %d load events" % (c["id"], len(loads)))
        ld = loads[0]
        lines.append({"ev": "load", "id": c["id"], "cfg": c["cfg"], "outcome": ld["outcome"], "init": ld["init"]})
        refs.append((c, None, ld))
        txs = {t["id"]: t for t in c["txs"]}
        reqorder = {e["tx"]: sid_order(e["seq"], "req") for e in evs if e["ev"] == "exec"}
        for e in evs:
            if e["ev"] != "exec":
                continue
            t = txs[e["tx"]]
            lines.append({"ev": "exec", "id": c["id"] + "/" + e["tx"], "flow": t.get("flow", "A"),
                          "flows": selected_flows(c["cfg"], t.get("url", ""), t.get("flow", "A")), "dir": t["dir"], "seq": e["seq"],
                          "sysreq": reqorder.get(t.get("pair"), []) if t["dir"] == "res" else [],
                          "outcome": e["outcome"], "steps": e["steps"] if e["steps"] >= 0 else 10 ** 6})
            refs.append((c, t, e))
    return lines, refs


def judge(ctx, lines, mode, tag, chunk=3000, par=4, timeout=900):
    """TLC evaluates the specification on every event; returns [(line index, reason)] for the rejected ones.
    Chunks are cut at configuration boundaries (an exec event is judged against the preceding load event)."""
    import os, re, shutil
    from vlib import Broken, write_ndjson, parallel
    if not lines:
        return []
    sd = ctx.spec_dir(SPEC)
    chunks, cur, off = [], [], 0
    for i, ln in enumerate(lines):
        if ln["ev"] == "load" and len(cur) >= chunk:
            chunks.append((off, cur))
            cur, off = [], i
        cur.append(ln)
    chunks.append((off, cur))

    def one(it):
        off, evs = it
        wd = os.path.join(ctx.scratch, "fj-%s-%s-%d" % (mode, tag, off))
        if os.path.isdir(wd):
            shutil.rmtree(wd)
        shutil.copytree(sd, wd)
        p = os.path.join(wd, "trace.ndjson")
        write_ndjson(p, evs)
        ok, hwm, r = ctx.tlc_trace(wd, "FlowTrace", p, cfg="FlowTrace_%s.cfg" % mode, timeout=timeout)
        if r.violated or r.error or hwm != len(evs):
            raise Broken("trace validation FlowTrace/%s (%s, offset %d) did not consume the trace: hwm=%d of %d %r\n%s" % (
                mode, tag, off, hwm, len(evs), r, r.out[-2500:]))
        rej = [(int(m.group(1)) - 1 + off, m.group(2))
               for m in re.finditer(r'<<\s*"REJECT",\s*(\d+),\s*"[^"]*",\s*"([^"]*)"\s*>>', r.out)]
        shutil.rmtree(wd, ignore_errors=True)
        return rej

    out = []
    for r in parallel(one, chunks, n=par):
        out += r
    return sorted(set(out))


SPEC = "c04_flow_graph"


# ------------------------------------------------- seeded random configurations

def random_flow(rng, name, url, keys, big, other=None):
    """a random flow: mostly a forward graph (so that it is accepted), salted with back edges, undeclared conditions,
    second entry points, duplicate connections, fan-out, early-response nodes with and without response connections"""
    kinds = {}
    for k in keys:
        kinds[k] = rng.choice(["Cond", "Cond", "Plain", "Plain", "Gen", "Lim"] if big else ["Cond", "Plain", "Gen"])
    order = list(keys)
    rng.shuffle(order)

    def direction(d):
        conns = []
        usable = [k for k in order if not (d == "res" and kinds[k] == "Lim" and rng.random() < 0.8)]
        if not usable:
            return [conn(S("start"), S("end"))]
        noroot = rng.random() < (0.08 if d == "req" else 0.3)
        if not noroot:
            conns.append(conn(S("start"), P(usable[0])))
        for i, k in enumerate(usable):
            outs = OUTS[kinds[k]]
            if kinds[k] == "Gen" and d == "req" and rng.random() < 0.93:
                continue                                  # an answering processor has no request-side connection
            if kinds[k] == "Lim" and d == "res" and rng.random() < 0.7:
                continue
            for o in outs:
                n = rng.choice([0, 1, 1, 1, 2])
                for _ in range(n):
                    later = usable[i + 1:]
                    r = rng.random()
                    if later and r < 0.62:
                        tgt = P(rng.choice(later))
                    elif r < 0.9:
                        tgt = S("end")
                    else:
                        tgt = P(rng.choice(usable))        # possibly a back edge / self loop
                    c = o if rng.random() < 0.96 else rng.choice(["", "hit", "nope"])
                    conns.append(conn(P(k, c), tgt))
        if rng.random() < 0.05 and conns:
            conns.append(dict(rng.choice(conns)))           # duplicate connection
        if rng.random() < 0.05:
            conns.append(conn(S("start"), P(rng.choice(usable))))   # second entry point
        if other and rng.random() < 0.5:
            src = rng.choice(usable)
            conns.append(rng.choice([conn(P(src, rng.choice(OUTS[kinds[src]])), F(other, "start")), conn(F(other, "end"), P(src))]))
        if rng.random() < 0.5:
            rng.shuffle(conns)
        return conns or [conn(S("start"), S("end"))]

    req, res = direction("req"), direction("res")
    # connect the answering processors to the response side most of the time
    gens = [k for k in order if kinds[k] == "Gen"]
    for g in gens:
        if rng.random() < 0.85:
            others = [k for k in order if k != g and kinds[k] != "Lim"]
            n = rng.choice([1, 1, 1, 2])
            for _ in range(n):
                res.append(conn(P(g), P(rng.choice(others)) if others and rng.random() < 0.7 else S("end")))
    return flow(name, [(k, kinds[k]) for k in keys], req, res, url=url)


def random_config(rng, big):
    n = rng.choice([2, 3, 3, 4] + ([4, 5] if big else []))
    keys = ["a", "b", "c", "d", "e"][:n]
    two = rng.random() < 0.25
    flows = [random_flow(rng, "A", TXURL, keys, big, other=("B" if two else None))]
    if two:
        flows.append(random_flow(rng, "B", rng.choice([HOST + "/y", HOST + "/y", HOST + "/*", TXURL]), ["u", "v", "w"][: rng.choice([1, 2, 3])], False,
                                 other=("A" if rng.random() < 0.1 else None)))
    quotas = []
    if rng.random() < 0.35:
        for q in rng.sample([{"id": "qw", "kind": "conc", "url": HOST + "/*"}, {"id": "qx", "kind": "conc", "url": TXURL},
                             {"id": "qf", "kind": "fixed", "url": TXURL}, {"id": "qy", "kind": "conc", "url": HOST + "/y"}],
                            rng.choice([1, 2, 2, 3])):
            quotas.append(q)
    return {"flows": flows, "quotas": quotas}


def handcrafted():
    """configurations aimed at the parts of the statements the enumerated space does not contain"""
    out = {}
    two_conc = [{"id": "qw", "kind": "conc", "url": HOST + "/*"}, {"id": "qx", "kind": "conc", "url": TXURL}]
    out["sysflows-early"] = {"flows": [flow("A", [("a", "Cond"), ("g", "Gen"), ("p", "Plain")],
        [conn(S("start"), P("a")), conn(P("a", "hit"), P("g")), conn(P("a", "miss"), S("end"))],
        [conn(S("start"), P("p")), conn(P("p"), S("end")), conn(P("g"), P("p"))])], "quotas": two_conc}
    out["sysflows-plain"] = {"flows": [flow("A", [("p", "Plain")], [conn(S("start"), P("p")), conn(P("p"), S("end"))],
        [conn(S("start"), P("p")), conn(P("p"), S("end"))])], "quotas": two_conc + [{"id": "qf", "kind": "fixed", "url": HOST + "/*"}]}
    out["fanout-two-gens"] = {"flows": [flow("A", [("a", "Cond"), ("g1", "Gen"), ("g2", "Gen"), ("p", "Plain"), ("q", "Plain")],
        [conn(S("start"), P("a")), conn(P("a", "hit"), P("g1")), conn(P("a", "hit"), P("g2")), conn(P("a", "hit"), P("q")),
         conn(P("q"), S("end")), conn(P("a", "miss"), S("end"))],
        [conn(P("g1"), P("p")), conn(P("g1"), P("q")), conn(P("p"), S("end")), conn(P("q"), S("end")), conn(P("g2"), S("end"))])], "quotas": []}
    out["diamond"] = {"flows": [flow("A", [("a", "Cond"), ("b", "Plain"), ("c", "Plain"), ("d", "Cond"), ("e", "Plain")],
        [conn(S("start"), P("a")), conn(P("a", "hit"), P("b")), conn(P("a", "hit"), P("c")), conn(P("a", "miss"), P("c")),
         conn(P("b"), P("d")), conn(P("c"), P("d")), conn(P("d", "hit"), P("e")), conn(P("d", "miss"), S("end")), conn(P("e"), S("end"))],
        [conn(S("start"), P("d")), conn(P("d", "hit"), P("e")), conn(P("d", "miss"), P("b")), conn(P("e"), P("b")), conn(P("b"), S("end"))])],
        "quotas": []}
    out["limiter"] = {"flows": [flow("A", [("l", "Lim"), ("m", "Lim"), ("g", "Gen"), ("p", "Plain")],
        [conn(S("start"), P("l")), conn(P("l", "below_limit"), P("m")), conn(P("l", "above_limit"), P("g")),
         conn(P("m", "below_limit"), P("p")), conn(P("m", "above_limit"), P("g")), conn(P("p"), S("end"))],
        [conn(P("g"), P("p")), conn(P("p"), S("end"))])], "quotas": []}
    out["prefix-suffix-flows"] = {"flows": [
        flow("A", [("a", "Cond"), ("g", "Gen"), ("w", "Plain")],
             [conn(F("B", "end"), P("a")), conn(P("a", "hit"), P("g")), conn(P("a", "miss"), S("end"))],
             [conn(S("start"), P("w")), conn(P("w"), F("B", "start")), conn(P("g"), F("B", "start"))]),
        flow("B", [("u", "Plain"), ("v", "Plain")], [conn(S("start"), P("u")), conn(P("u"), S("end"))],
             [conn(S("start"), P("v")), conn(P("v"), S("end"))], url=HOST + "/y")], "quotas": []}
    out["response-side-cycle-behind-gen"] = {"flows": [flow("A", [("g", "Gen"), ("p", "Plain"), ("q", "Plain"), ("r", "Plain")],
        [conn(S("start"), P("q")), conn(P("q"), P("g"))],
        [conn(S("start"), P("r")), conn(P("r"), S("end")), conn(P("g"), P("p")), conn(P("p"), P("q")), conn(P("q"), P("p"))])], "quotas": []}
    same = [{"id": "qa", "kind": "conc", "url": TXURL}, {"id": "qb", "kind": "conc", "url": TXURL}, {"id": "qw", "kind": "conc", "url": HOST + "/*"}]
    out["sysflows-same-filter-early"] = {"flows": [flow("A", [("a", "Cond"), ("g", "Gen"), ("p", "Plain"), ("q", "Plain")],
        [conn(S("start"), P("a")), conn(P("a", "hit"), P("g")), conn(P("a", "miss"), S("end"))],
        [conn(S("start"), P("p")), conn(P("p"), S("end")), conn(P("g"), P("q")), conn(P("q"), P("p"))])], "quotas": same}
    # the response walk behind an answering processor: chains of every kind of processor
    out["answer-chain"] = {"flows": [flow("A", [("a", "Cond"), ("g", "Gen"), ("b", "Cond"), ("p", "Plain"), ("q", "Plain"), ("h", "Gen")],
        [conn(S("start"), P("a")), conn(P("a", "hit"), P("g")), conn(P("a", "miss"), S("end"))],
        [conn(P("g"), P("p")), conn(P("p"), P("b")), conn(P("b", "hit"), P("h")), conn(P("b", "miss"), P("q")), conn(P("h"), P("q")),
         conn(P("q"), S("end"))])], "quotas": []}
    for k, v in list(out.items()):
        if k in ("answer-chain", "sysflows-same-filter-early", "fanout-two-gens", "prefix-suffix-flows"):
            w = json.loads(json.dumps(v))
            for fl in w["flows"]:
                for p in fl["procs"]:
                    if p["kind"] == "Plain":
                        p["impl"] = "transform"
            out[k + "-current-type"] = w
    # flow references: conditional / unconditional, both sides, a library flow used twice and by two flows
    lib = flow("L", [("u", "Cond"), ("v", "Plain")],
               [conn(S("start"), P("u")), conn(P("u", "hit"), P("v")), conn(P("u", "miss"), S("end")), conn(P("v"), S("end"))],
               [conn(S("start"), P("v")), conn(P("v"), S("end"))], url=HOST + "/y")
    out["ref-conditional-into-flow"] = {"flows": [
        flow("A", [("a", "Cond"), ("p", "Plain")],
             [conn(S("start"), P("a")), conn(P("a", "miss"), F("L", "start")), conn(P("a", "hit"), P("p")), conn(P("p"), S("end"))],
             [conn(S("start"), P("a")), conn(P("a", "hit"), F("L", "start")), conn(P("a", "miss"), S("end"))]), lib], "quotas": []}
    out["ref-library-used-by-two-flows"] = {"flows": [
        flow("A", [("a", "Cond"), ("p", "Plain")],
             [conn(F("L", "end"), P("a")), conn(P("a", "hit"), P("p")), conn(P("a", "miss"), S("end")), conn(P("p"), S("end"))],
             [conn(S("start"), P("p")), conn(P("p"), F("L", "start"))]),
        flow("C", [("c", "Cond"), ("r", "Plain")],
             [conn(S("start"), P("c")), conn(P("c", "hit"), F("L", "start")), conn(P("c", "miss"), P("r")), conn(P("r"), S("end"))],
             [conn(F("L", "end"), P("r")), conn(P("r"), S("end"))], url=HOST + "/z"), lib], "quotas": []}
    for d in ("req", "res"):
        triv = [conn(S("start"), P("p")), conn(P("p"), S("end"))]
        loop = [conn(F("L", "end"), P("p")), conn(P("p"), F("L", "start"))]
        loop2 = [conn(F("L", "end"), P("a")), conn(P("a", "hit"), P("p")), conn(P("a", "miss"), S("end")), conn(P("p"), F("L", "start"))]
        for nm, l in (("loop", loop), ("cond-loop", loop2)):
            out["ref-%s-through-library-%s" % (nm, d)] = {"flows": [
                flow("A", [("a", "Cond"), ("p", "Plain")], l if d == "req" else triv, l if d == "res" else triv), lib], "quotas": []}
        out["ref-loop-through-library-second-flow-%s" % d] = {"flows": [
            flow("A", [("a", "Cond"), ("p", "Plain")], triv, triv),
            flow("C", [("c", "Cond"), ("r", "Plain")],
                 [conn(F("L", "end"), P("r")), conn(P("r"), F("L", "start"))] if d == "req" else [conn(S("start"), P("r")), conn(P("r"), S("end"))],
                 [conn(F("L", "end"), P("r")), conn(P("r"), F("L", "start"))] if d == "res" else [conn(S("start"), P("r")), conn(P("r"), S("end"))],
                 url=HOST + "/z"), lib], "quotas": []}
    # several user flows selected for one transaction: the flow of the host and the flow of one endpoint (or two flows of
    # the same endpoint); none / the first / a later flow answers; response sides of the flows that did not answer
    def gate(name, pre, url, resroot=True, chain=False):
        g, gen, aft, tail = pre + "gate", pre + "gen", pre + "after", pre + "tail"
        res = [conn(P(gen), P(aft)), conn(P(aft), S("end"))]
        if chain:
            res = [conn(P(gen), P(aft)), conn(P(aft), P(tail)), conn(P(tail), S("end"))]
        if resroot:
            res = [conn(S("start"), P(tail)), conn(P(tail), S("end"))] + [c for c in res if not (chain and c["f"]["n"] == tail)]
        return flow(name, [(g, "Cond"), (gen, "Gen"), (aft, "Plain"), (tail, "Plain")],
                    [conn(S("start"), P(g)), conn(P(g, "hit"), P(gen)), conn(P(g, "miss"), S("end"))], res, url=url)
    out["multi-host-and-endpoint"] = {"flows": [gate("E", "e", TXURL), gate("H", "h", HOST + "/*")], "quotas": []}
    out["multi-same-endpoint"] = {"flows": [gate("E", "e", TXURL), gate("H", "h", TXURL)], "quotas": []}
    out["multi-rootless-response"] = {"flows": [gate("E", "e", TXURL, resroot=False), gate("H", "h", HOST + "/*", chain=True)], "quotas": []}
    out["multi-three-flows-quotas"] = {"flows": [gate("E", "e", TXURL, chain=True), gate("H", "h", HOST + "/*"), gate("K", "k", TXURL, resroot=False)],
                                       "quotas": [{"id": "qw", "kind": "conc", "url": HOST + "/*"}, {"id": "qx", "kind": "conc", "url": TXURL}]}
    # nested references: A continues behind B, B hands over to C before / after declaring its own way to the stream end
    cfl = flow("C", [("e", "Plain")], [conn(S("start"), P("e")), conn(P("e"), S("end"))], [conn(S("start"), P("e")), conn(P("e"), S("end"))], url=HOST + "/z")
    for nm, bconns in (("handover-first", [conn(P("b", "miss"), F("C", "start")), conn(S("start"), P("b")), conn(P("b", "hit"), P("d")), conn(P("d"), S("end"))]),
                       ("handover-between", [conn(P("b", "hit"), P("d")), conn(P("b", "miss"), F("C", "start")), conn(S("start"), P("b")), conn(P("d"), S("end"))]),
                       ("behind-third", [conn(F("C", "end"), P("b")), conn(P("b", "hit"), P("d")), conn(P("b", "miss"), S("end")), conn(P("d"), S("end"))])):
        for d in ("req", "res"):
            triv_a = [conn(S("start"), P("a")), conn(P("a"), S("end"))]
            triv_b = [conn(S("start"), P("d")), conn(P("d"), S("end"))]
            for side, aconns in (("behind", [conn(F("B", "end"), P("a")), conn(P("a"), S("end"))]), ("into", [conn(S("start"), P("a")), conn(P("a"), F("B", "start"))])):
                out["nested-%s-%s-%s" % (nm, side, d)] = {"flows": [
                    flow("A", [("a", "Plain")], aconns if d == "req" else triv_a, aconns if d == "res" else triv_a),
                    flow("B", [("b", "Cond"), ("d", "Plain")], bconns if d == "req" else triv_b, bconns if d == "res" else triv_b, url=HOST + "/y"),
                    cfl], "quotas": []}
    out["self-reference"] = {"flows": [flow("A", [("p", "Plain")], [conn(S("start"), P("p")), conn(P("p"), F("A", "start"))],
        [conn(S("start"), S("end"))])], "quotas": []}
    return out


# ------------------------------------------------ C05: traffic and quota files the model does not describe

def malformed_txs(rng, n):
    """seeded malformed transactions (content is opaque to the specification: the only claim is that handling
    returns within the step bound without panic)"""
    bodies = [b"\xff\xfe\x00garbage\x80", b"{\"a\": [1, 2,", b"\x1f\x8b\x08\x00broken-gzip", b"", b"{" * 2000 + b"}" * 1999,
              b"\x00" * 64, "😀".encode("utf-16-le"), b"[" * 300]
    blobs = [b"\x00\xff: a\r\nno-colon-line\r\n: emptykey\r\n", b"x-a: 1\r\nx-a: 2\r\n\r\n\r\n", b"\r\n\r\n", b"a:b:c:d\ne\n",
             b"x-a" + b" " * 500 + b":1", b"content-encoding: gzip\r\nx-a: 1\r\n", b"\xc3\x28: \xa0\xa1\r\n", b":" * 100]
    urls = [TXURL, TXURL, TXURL, "", "/", "%%%", TXURL + "?%zz=1&&&=", "http://[::1", HOST + "/" + "x/" * 300, HOST + "/x\r\nx-a: 1",
            HOST + ":99999/x", "h.test//x", TXURL + "#frag", "H.TEST/X", " " + TXURL, TXURL + "/../../y"]
    methods = ["GET", "POST", "", "GET\r\nX", "ü", "get"]
    statuses = [200, 0, -1, 99999, 418, 2 ** 31 - 1]
    out = []
    for i in range(n):
        d = rng.choice(["req", "res"])
        _txn[0] += 1
        t = {"id": "m%d" % _txn[0], "dir": d, "method": rng.choice(methods), "url": rng.choice(urls), "headers": {},
             "flow": "A", "bits": {}, "kind": "malformed", "full": rng.random() < 0.5}
        if rng.random() < 0.7:
            t["headers_raw_b64"] = b64(rng.choice(blobs))
        if rng.random() < 0.4:
            t["headers"] = {rng.choice(["x-a", "x-b", "content-encoding", "content-type", "x-group"]): rng.choice(["1", "gzip", "deflate", "", "\x7f"])}
        if rng.random() < 0.8:
            t["body_b64"] = b64(rng.choice(bodies))
        if d == "res":
            t["status"] = rng.choice(statuses)
        out.append(t)
    return out


def criteria_cases(rng, thorough):
    """C05: every kind of flow filter criterion (status code lists, methods, headers, query parameters, combinations) on one
    flow, early responses produced by ANOTHER flow selected for an overlapping URL, by the flow itself and behind a Limiter,
    with and without quota system flows; Filter processors deciding on status / method / url on the walk behind the answer.
    Filters are evaluated again on the response side after an early response - with no response object in the stream.
    Which flows are selected is C03's subject: here only 'returns without panic within the bound' is claimed (nomodel)."""
    crits = {"status200": {"status": [200]}, "status418": {"status": [418]}, "status-list": {"status": [200, 418, 500]},
             "get": {"methods": ["GET"]}, "post": {"methods": ["POST"]}, "header": {"headers": [["x-f", "1"]]},
             "query": {"query": [["q", "1"]]}, "all": {"status": [200, 418], "methods": ["GET", "POST"], "headers": [["x-f", "1"]], "query": [["q", "1"]]},
             "none": {}}
    conc = [{"id": "qw", "kind": "conc", "url": HOST + "/*"}]
    fixed = [{"id": "qf", "kind": "fixed", "url": TXURL}]
    cases = []

    def answering(kind):
        if kind == "gen":        # a Filter decides, the request is answered on hit
            return flow("A", [("a", "Cond"), ("g", "Gen"), ("p", "Plain"), ("s", "Cond")],
                        [conn(S("start"), P("a")), conn(P("a", "hit"), P("g")), conn(P("a", "miss"), S("end"))],
                        [conn(S("start"), P("p")), conn(P("p"), S("end")), conn(P("g"), P("s")), conn(P("s", "hit"), P("p")), conn(P("s", "miss"), S("end"))])
        return flow("A", [("l", "Lim"), ("g", "Gen"), ("p", "Plain"), ("s", "Cond")],     # answered when the limiter is above its limit
                    [conn(S("start"), P("l")), conn(P("l", "above_limit"), P("g")), conn(P("l", "below_limit"), S("end"))],
                    [conn(S("start"), P("p")), conn(P("p"), S("end")), conn(P("g"), P("s")), conn(P("s", "hit"), P("p")), conn(P("s", "miss"), S("end"))])

    n = 0
    for cname, crit in sorted(crits.items()):
        for producer in ("gen", "lim"):
            for where in ("other", "same"):
                for quotas in ([], conc, conc + fixed):
                    if not thorough and rng.random() < 0.45 and not (cname.startswith("status") and producer == "gen" and where == "other"):
                        continue
                    a = answering(producer)
                    simpl = rng.choice(["status", "method", "url", "endpoint", "mixed", None])
                    for p in a["procs"]:
                        if p["key"] == "s" and simpl:
                            p["impl"] = simpl
                    b = flow("B", [("u", "Plain"), ("w", "Cond")], [conn(S("start"), P("w")), conn(P("w", "hit"), P("u")), conn(P("w", "miss"), S("end")), conn(P("u"), S("end"))],
                             [conn(S("start"), P("u")), conn(P("u"), P("w")), conn(P("w", "hit"), S("end")), conn(P("w", "miss"), S("end"))],
                             url=rng.choice([HOST + "/*", HOST + "/*", TXURL]))
                    bimpl = rng.choice(["status", "mixed", None])
                    if bimpl:
                        b["procs"][1]["impl"] = bimpl
                    if where == "other":
                        b["filt"] = crit
                    else:
                        a["filt"] = crit
                    cfg = vary_impl({"flows": [a, b], "quotas": quotas}, rng)
                    txs = []
                    for bits in all_inputs(cfg):
                        for method in ("GET", "POST"):
                            for hf in (False, True):
                                for q in ("", "?q=1", "?q=2&z"):
                                    if not thorough and rng.random() < 0.5:
                                        continue
                                    for d in ("req", "res"):
                                        t = tx(cfg, d, bits, url=TXURL + q, flow="A")
                                        t["method"] = method
                                        if hf:
                                            t["headers"]["x-f"] = "1"
                                        if d == "res":
                                            t["status"] = rng.choice([200, 418, 500, 0])
                                        t["kind"] = "criteria"
                                        txs.append(t)
                    c = make_case("crit%d-%s-%s-%s-q%d" % (n, cname, producer, where, len(quotas)), cfg, txs)
                    c["nomodel"] = True
                    cases.append(c)
                    n += 1
    return cases


def mutating_cases(rng, thorough):
    """C05, 'all traffic' where headers are parsed: malformed header blocks (as HAProxy would hand them to readRequestArgs /
    readResponseArgs -> utils.ParseHeaders) and odd bodies through flows whose processors REWRITE the transaction
    (DataSanitation: body + content-length, TransformAPICall: headers / request object) and the fold of the resulting
    actions into the SPOE reply.  nomodel: only 'returns without panic within the bound' is claimed."""
    def fl(req, res=None):
        procs = [("c", "Cond"), ("d", "Plain"), ("t", "Plain"), ("t2", "Plain"), ("m", "Plain"), ("g", "Gen")]
        f = flow("A", procs, req, res or [conn(S("start"), P("t2")), conn(P("t2"), S("end"))])
        for p in f["procs"]:
            p["impl"] = {"d": "sanitize", "t": "transform", "t2": "transform", "m": "metrics"}.get(p["key"], "")
            if not p["impl"]:
                del p["impl"]
        return f
    shapes = {
        "sanitize": fl([conn(S("start"), P("d")), conn(P("d"), S("end"))]),
        "transform": fl([conn(S("start"), P("t")), conn(P("t"), S("end"))]),
        "sanitize-transform": fl([conn(S("start"), P("d")), conn(P("d"), P("t")), conn(P("t"), P("m")), conn(P("m"), S("end"))]),
        "branch": fl([conn(S("start"), P("c")), conn(P("c", "hit"), P("d")), conn(P("c", "miss"), P("t")), conn(P("d"), S("end")), conn(P("t"), S("end"))]),
        "transform-then-answer": fl([conn(S("start"), P("t")), conn(P("t"), P("d")), conn(P("d"), P("g"))],
                                    [conn(S("start"), P("m")), conn(P("m"), S("end")), conn(P("g"), P("t2")), conn(P("t2"), P("m"))]),
    }
    blocks = [b"no-colon-line", b" leading: space", b"bad name: v", b"x-a: 1\r\nno-colon", b"", b":", b": novalue", b"\x00\x01: x",
              b"x-a: 1\r\n x-cont: folded", b"content-type: application/json\r\nx-c: 1", b"content-length: 3\r\ncontent-type: text/plain",
              b"x-c: 1\r\n\r\nafter-blank: 1", b"x-c:1\nx-d:2", b"X-C: 1\r\nx-c: 0", b"content-encoding: gzip\r\nbroken"]
    bodies = [b'{"email":"john.doe@example.com","n":1}', b"contact john.doe@example.com or +1 555-123-4567, card 4111 1111 1111 1111", b"",
              b"\xff\xfe\x00", b'{"a":', b"[" * 200, b"a@b.co " * 300]
    quotas = [[], [{"id": "qw", "kind": "conc", "url": HOST + "/*"}]]
    cases = []
    for name, f in sorted(shapes.items()):
        for qi, q in enumerate(quotas):
            cfg = {"flows": [json.loads(json.dumps(f))], "quotas": q}
            txs = []
            for blk in blocks:
                for body in (bodies if thorough else rng.sample(bodies, 3)):
                    for d in ("req", "res"):
                        _txn[0] += 1
                        t = {"id": "h%d" % _txn[0], "dir": d, "method": rng.choice(["GET", "POST"]), "url": TXURL, "headers": {}, "flow": "A",
                             "bits": {}, "kind": "malformed", "headers_raw_b64": b64(blk) if blk else "", "body_b64": b64(body),
                             "full": rng.random() < 0.6}
                        if not blk:
                            del t["headers_raw_b64"]
                        if d == "res":
                            t["status"] = 200
                        txs.append(t)
            c = make_case("mut-%s-q%d" % (name, qi), cfg, standard_txs(cfg) + txs)
            c["nomodel"] = True
            cases.append(c)
    return cases


def odd_url_txs():
    """a fixed list of transactions whose URL net/url cannot parse (or that carry no scheme) but which still reach the
    flows and quota system flows declared for h.test/* - HAProxy forwards such URLs unchanged"""
    urls = [HOST + "/%zz", HOST + "/x%", HOST + "/x\x7f", HOST + "/x y", HOST + "/x\r\n", HOST + "/x%zz/y", TXURL + "?%zz=1", TXURL + "?a=%",
            TXURL + "?a=1;b=2", TXURL, HOST + "/y", HOST + "/"]
    out = []
    for u in urls:
        for d in ("req", "res"):
            for ns in (False, True):
                _txn[0] += 1
                t = {"id": "u%d" % _txn[0], "dir": d, "method": "GET", "url": u, "headers": {}, "flow": "A", "bits": {}, "kind": "malformed"}
                if ns:
                    t["no_scheme"] = True
                if d == "res":
                    t["status"] = 200
                out.append(t)
    return out


QUOTA_FILES = {
    "valid-two-paths": ("quotas:\n  - id: q1\n    filter:\n      url: h.test/x\n    strategy:\n      fixed_window:\n        max: 5\n        interval: 1\n        interval_unit: minute\n"
                        "  - id: q2\n    filter:\n      url: h.test/*\n    strategy:\n      concurrent:\n        max_request_count: 3\n", None),
    "valid-children-percentages": ("quotas:\n  - id: parent\n    filter:\n      url: h.test/*\n    strategy:\n      fixed_window:\n        max: 10\n        interval: 1\n        interval_unit: minute\n"
                                   "internal_limits:\n  - id: childA\n    parent_id: parent\n    filter:\n      url: h.test/x\n    strategy:\n      allocation_percentage: 60\n"
                                   "  - id: childB\n    parent_id: parent\n    filter:\n      url: h.test/x\n      headers:\n        - key: x-a\n          value: \"1\"\n    strategy:\n      allocation_percentage: 40\n", None),
    "missing-filter": ("quotas:\n  - id: q1\n    strategy:\n      fixed_window:\n        max: 5\n        interval: 1\n        interval_unit: minute\n", None),
    "two-hosts-one-file": ("quotas:\n  - id: q1\n    filter:\n      url: h.test/x\n    strategy:\n      fixed_window:\n        max: 5\n        interval: 1\n        interval_unit: minute\n"
                           "  - id: q2\n    filter:\n      url: other.test/x\n    strategy:\n      fixed_window:\n        max: 5\n        interval: 1\n        interval_unit: minute\n", None),
    "unknown-parent": ("quotas:\n  - id: q1\n    filter:\n      url: h.test/x\n    strategy:\n      fixed_window:\n        max: 5\n        interval: 1\n        interval_unit: minute\n"
                       "internal_limits:\n  - id: c1\n    parent_id: nobody\n    filter:\n      url: h.test/x\n    strategy:\n      allocation_percentage: 50\n", None),
    "percentages-over-100": ("quotas:\n  - id: parent\n    filter:\n      url: h.test/*\n    strategy:\n      fixed_window:\n        max: 10\n        interval: 1\n        interval_unit: minute\n"
                             "internal_limits:\n  - id: c1\n    parent_id: parent\n    filter:\n      url: h.test/x\n    strategy:\n      allocation_percentage: 80\n"
                             "  - id: c2\n    parent_id: parent\n    filter:\n      url: h.test/x\n    strategy:\n      allocation_percentage: 150\n", None),
    "child-is-own-parent": ("quotas:\n  - id: parent\n    filter:\n      url: h.test/*\n    strategy:\n      fixed_window:\n        max: 10\n        interval: 1\n        interval_unit: minute\n"
                            "internal_limits:\n  - id: c1\n    parent_id: c1\n    filter:\n      url: h.test/x\n    strategy:\n      allocation_percentage: 50\n", None),
    "spillover-without-renewal": ("quotas:\n  - id: q1\n    filter:\n      url: h.test/x\n    strategy:\n      fixed_window:\n        max: 5\n        interval: 1\n        interval_unit: month\n        spillover:\n          max: 3\n", None),
    "negative-max": ("quotas:\n  - id: q1\n    filter:\n      url: h.test/x\n    strategy:\n      fixed_window:\n        max: -5\n        interval: 0\n        interval_unit: fortnight\n", None),
    "no-strategy": ("quotas:\n  - id: q1\n    filter:\n      url: h.test/x\n", None),
    "empty-strategy": ("quotas:\n  - id: q1\n    filter:\n      url: h.test/x\n    strategy: {}\n", None),
    "duplicate-ids": ("quotas:\n  - id: q1\n    filter:\n      url: h.test/x\n    strategy:\n      concurrent:\n        max_request_count: 3\n"
                      "  - id: q1\n    filter:\n      url: h.test/x\n    strategy:\n      concurrent:\n        max_request_count: 4\n", None),
    "empty-file": ("", None),
    "garbage-yaml": ("quotas: [unclosed\n  - id: {\n", None),
    "null-quota-entry": ("quotas:\n  -\n  - id: q1\n    filter:\n      url: h.test/x\n    strategy:\n      concurrent:\n        max_request_count: 3\n", None),
    "null-internal-entry": ("quotas:\n  - id: q1\n    filter:\n      url: h.test/x\n    strategy:\n      concurrent:\n        max_request_count: 3\ninternal_limits:\n  -\n", None),
    "null-filter-and-strategy": ("quotas:\n  - id: q1\n    filter:\n    strategy:\n", None),
    "header-based": ("quotas:\n  - id: q1\n    filter:\n      url: h.test/x\n    strategy:\n      header_based:\n        quota_header: x-remaining\n        reset_header: x-reset\n", None),
    "same-host-two-files": ("quotas:\n  - id: q1\n    filter:\n      url: h.test/x\n    strategy:\n      concurrent:\n        max_request_count: 3\n",
                            "quotas:\n  - id: q2\n    filter:\n      url: h.test/y\n    strategy:\n      concurrent:\n        max_request_count: 3\n"),
    "monthly-renewal-bad-day": ("quotas:\n  - id: q1\n    filter:\n      url: h.test/x\n    strategy:\n      fixed_window:\n        max: 5\n        interval: 1\n        interval_unit: month\n"
                                "        monthly_renewal:\n          day: 42\n          hour: 25\n          minute: 61\n          timezone: Mars\n", None),
    "limiter-quota-missing": (None, None),
}


def _hier_files():
    """internal-limit hierarchies three and four levels deep, in every declaration order"""
    import itertools
    head = "quotas:\n  - id: plan\n    filter:\n      url: h.test/*\n    strategy:\n      fixed_window:\n        max: 100\n        interval: 1\n        interval_unit: minute\ninternal_limits:\n"

    def il(i, parent, pct, hdr):
        return ("  - id: %s\n    parent_id: %s\n    filter:\n      url: h.test/x\n      headers:\n        - key: x-%s\n          value: \"1\"\n"
                "    strategy:\n      allocation_percentage: %d\n" % (i, parent, hdr, pct))
    shapes = {"chain": [("team", "plan", 60), ("service", "team", 50), ("unit", "service", 50)],
              "tree": [("team", "plan", 60), ("service", "team", 50), ("other", "plan", 40)],
              "chain3": [("team", "plan", 60), ("service", "team", 50)]}
    out = {}
    for sh, items in shapes.items():
        for perm in itertools.permutations(range(len(items))):
            out["hier-%s-%s" % (sh, "".join(map(str, perm)))] = (head + "".join(il(items[j][0], items[j][1], items[j][2], items[j][0]) for j in perm), None)
    return out


def quota_cases(rng):
    """quota files (valid and invalid) next to a small valid flow; the abstract configuration does not describe them
    (nomodel): only the loader claims of C05 apply"""
    base = {"flows": [flow("A", [("a", "Cond"), ("g", "Gen"), ("p", "Plain")],
                           [conn(S("start"), P("a")), conn(P("a", "hit"), P("g")), conn(P("a", "miss"), S("end"))],
                           [conn(S("start"), P("p")), conn(P("p"), S("end")), conn(P("g"), P("p"))])], "quotas": []}
    cases = []
    files = dict(QUOTA_FILES)
    files.update(_hier_files())
    for name, (f1, f2) in sorted(files.items()):
        c = make_case("quota-" + name, base)
        c["nomodel"] = True
        if f1 is None:
            lim = {"flows": [flow("A", [("l", "Lim")], [conn(S("start"), P("l")), conn(P("l", "below_limit"), S("end"))],
                                  [conn(S("start"), S("end"))])], "quotas": []}
            c = make_case("quota-" + name, lim)
            c["nomodel"] = True
            c["files"].pop("quotas/quotas.yaml", None)
        else:
            c["files"]["quotas/q1.yaml"] = f1
            if f2 is not None:
                c["files"]["quotas/q2.yaml"] = f2
        c["txs"] = c["txs"] + malformed_txs(rng, 4)
        cases.append(c)
    return cases


# ------------------------------------------------------------------ driver

NONVAC = {   # model variants that must be refuted by TLC (non-vacuity): the code before each repair / witnesses of reachability
    "C04": {"quick": [("MC_nv_c04_nostop.cfg", "sibling edges iterated after an answer"),
                      ("MC_nv_c04_noresume.cfg", "response walk resumed at edges[0] only / skipped without root"),
                      ("MC_nv_wit_answer.cfg", "witness: some walk is answered by a Gen and continues on the response side")],
            "thorough": [("MC_nv_c04_nostartnode.cfg", "start node of the answering flow kept for the user flows visited after it"),
                         ("MC_nv_c04_noexit.cfg", "exits of a flow referenced with 'from: flow at end' not linked on the response side"),
                         ("MC_nv_wit_fanout.cfg", "witness: some processor runs twice in one walk (fan-out reconverging)")]},
    "C05": {"quick": [("MC_nv_c05_rootcycles.cfg", "cycle check only from the root's edges"),
                      ("MC_nv_c05_norefcheck.cfg", "circular flow reference recursing without end")],
            "thorough": [("MC_nv_wit_answer.cfg", "witness: some walk is answered by a Gen and continues on the response side")]},
}


def export_configs(ctx, tier):
    import os, shutil
    from vlib import Broken
    sd = ctx.spec_dir(SPEC)
    wd = os.path.join(ctx.scratch, "gen-" + tier)
    if os.path.isdir(wd):
        shutil.rmtree(wd)
    shutil.copytree(sd, wd)
    r = ctx.tlc(wd, "GenExportC04", "GenExport_%s.cfg" % tier, workers=1, timeout=1500, label="configuration space export (%s)" % tier)
    p = os.path.join(wd, "gen_configs.json")
    if not r.ok or not os.path.exists(p):
        raise Broken("configuration export failed: %r\n%s" % (r, r.out[-2000:]))
    d = json.load(open(p))["configs"]
    shutil.rmtree(wd, ignore_errors=True)
    d.sort(key=lambda x: json.dumps(x["cfg"], sort_keys=True))
    return d


def model_check(ctx, prop, tier):
    """exhaustive I => P on the tier's configuration space + the variants that must be refuted"""
    import os, shutil
    from vlib import Broken, parallel
    sd = ctx.spec_dir(SPEC)

    def fresh(tag):
        wd = os.path.join(ctx.scratch, "mc-" + tag)
        if not os.path.isdir(wd):
            shutil.copytree(sd, wd)
        return wd

    jobs = [("main", "MC_%s_%s.cfg" % (tier, prop.lower()), None)]
    nv = list(NONVAC[prop]["quick"]) + (NONVAC[prop]["thorough"] if ctx.thorough else [])
    jobs += [("nv%d" % i, cfg, why) for i, (cfg, why) in enumerate(nv)]

    if ctx.thorough:
        jobs.append(("cov", "MC_nv_cov.cfg", "coverage"))

    def one(job):
        tag, cfg, why = job
        wd = fresh(tag)
        if why == "coverage":
            import re
            r = ctx.tlc(wd, "MC_C04", cfg, timeout=1500, workers=2, extra=["-coverage", "1"],
                        label="per-action coverage of the engine model (must be non-zero for every action)")
            if not r.ok:
                raise Broken("coverage run failed: %r" % r)
            counts = {m.group(1): int(m.group(2)) for m in re.finditer(r"^<(\w+) line \d+, col \d+ to line \d+, col \d+ of module FlowEngineI>: (\d+):", r.out, re.M)}
            missing = [a for a in ("Start", "ProcStep", "EdgeStep", "WalkOver") if counts.get(a, 0) == 0]
            if missing:
                raise Broken("vacuous model: actions never taken: %s (%s)" % (missing, counts))
            ctx.notes.append("TLC -coverage 1 on the nv space: " + ", ".join("%s=%d" % kv for kv in sorted(counts.items())))
            return r
        if why is None:
            return ctx.tlc_exhaustive(wd, "MC_C04", cfg, timeout=3000, workers=(8 if ctx.thorough else 3),
                                      label="I => P over the %s configuration space (%s)" % (tier, prop))
        r = ctx.tlc(wd, "MC_C04", cfg, timeout=1500, workers=2, label="must be refuted: " + why)
        if r.violated is None:
            raise Broken("non-vacuity: TLC did not refute '%s' (%s): %r" % (why, cfg, r))
        return r
    parallel(one, jobs, n=min(3, len(jobs)))      # with the export running next to it: at most 4 JVMs


def exercise(ctx, prop, binary, cases, tag, reported, drift=True):
    """run the cases on the real code, let TLC judge every event for `prop`, reproduce and report rejections"""
    from vlib import Broken
    evs = run_cases(ctx, binary, cases, tag)
    lines, refs = build_trace(cases, evs)
    rej = judge(ctx, lines, prop, tag)
    bad = {i for i, _ in rej}
    ctx.cov["evaluations"] += len(lines)
    ctx.cov["traces_validated_against_impl"] += len(lines) - len(bad)
    if drift:
        keep = [i for i, (c, t, e) in enumerate(refs) if not c.get("nomodel")]
        sub = [lines[i] for i in keep if lines[i]["ev"] == "load"]
        dr = judge(ctx, sub, "I", tag + "-i")
        if dr:
            ctx.cov["model_drift"] = True
            ex = sub[dr[0][0]]
            ctx.notes.append("MODEL-DRIFT (%s): the real loader and the loader model FlowGraphI disagree on %d of %d configurations, e.g. %s: real=%s %s" % (
                tag, len(dr), len(sub), ex["id"], ex["outcome"], dr[0][1]))
            ctx.log("MODEL-DRIFT %s: %d configurations (first: %s real=%s %s)" % (tag, len(dr), ex["id"], ex["outcome"], dr[0][1]))
    # reproduce (deterministic driver: once) - at most 3 per reason
    per = {}
    for i, why in rej:
        c, t, e = refs[i]
        if per.get(why, 0) >= 3:
            reported.setdefault("more", {}).setdefault(why, 0)
            reported["more"][why] += 1
            continue
        per[why] = per.get(why, 0) + 1
        evs2 = run_cases(ctx, binary, [c], tag + "-repro", natural=(prop == "C05"))
        l2, r2 = build_trace([c], evs2)
        rej2 = {l2[j]["id"]: w for j, w in judge(ctx, l2, prop, tag + "-repro")}
        if lines[i]["id"] not in rej2:
            raise Broken("rejection not reproduced (%s %s): %s" % (tag, why, json.dumps(lines[i])[:800]))
        real = [x for x in evs2 if (x["ev"] == "load" and t is None) or (t is not None and x.get("tx") == t["id"])]
        witness = {"class": rej2[lines[i]["id"]], "case": c["id"], "outcome": lines[i]["outcome"],
                   "detail": (real[0].get("err", "") if real else "")[:300]}
        if t is not None:
            witness.update({"dir": t["dir"], "bits": t.get("bits", {}), "executed": [[s["flow"], s["key"], s["dir"], s["out"]] for s in lines[i]["seq"][:24]]})
        ctx.violation(witness, {"mode": prop, "case": {k: c[k] for k in ("id", "cfg", "files", "txs", "limit")}, "line": lines[i]["id"]})
    return lines, refs, bad


def nontrivial_c04(line):
    if line["ev"] != "exec" or line["outcome"] not in ("ok", "error"):
        return False
    user = [s for s in line["seq"] if not s.get("sid")]
    return len(user) >= 2 and (any(s["out"] for s in user) or any(s["dir"] == "res" for s in user) and line["dir"] == "req")


def run_property(ctx, prop):
    import os
    from vlib import Broken, parallel
    T = ctx.thorough
    tier = "thorough" if T else "quick"
    # the box is shared: keep every JVM of this check well below TLC's default heap (25% of RAM each)
    os.environ.setdefault("JAVA_TOOL_OPTIONS", "-Xmx5g" if T else "-Xmx3g")
    binary = ctx.build_harness("c04")
    ctx.cov["checker_cmd"] = ("tlc -config MC_%s_%s.cfg MC_C04.tla ; tlc -config GenExport_%s.cfg GenExportC04.tla ; "
                              "tlc -config FlowTrace_%s.cfg FlowTrace.tla" % (tier, prop.lower(), tier, prop))
    ctx.cov["trusted_base"] = ["TLC", "CommunityModules Json", "Go toolchain",
                               "checks/_flowgraph.py rendering of the abstract configuration to YAML (registry processors Filter / "
                               "UserDefinedMetrics / GenerateResponse / Limiter) and projection of flow names to system flow ids",
                               "verifhook point proc.exec (flow, key, dir, out) after Processor.Execute",
                               "harness/cmd/c04 child-process isolation (panic / fatal error / step limit become outcomes)"]
    reported = {}
    seen_nt, seen_cfg = set(), set()

    def account(lines, refs, bad):
        for i, ln in enumerate(lines):
            c, t, e = refs[i]
            key = json.dumps(c["cfg"], sort_keys=True) + json.dumps(c.get("files", {}).get("quotas/q1.yaml", ""))
            if prop == "C04":
                if nontrivial_c04(ln):
                    seen_nt.add(key + json.dumps([t.get("bits"), t["dir"], t.get("flow")], sort_keys=True))
            else:
                if ln["ev"] == "load" and ln["outcome"] == "rejected":
                    seen_cfg.add(key)
                if ln["ev"] == "exec" and ln["steps"] >= 1:
                    seen_cfg.add(key)
        ctx.cov["distinct_nontrivial"] = len(seen_nt) if prop == "C04" else len(seen_cfg)

    # (1) exhaustive model checking and (2) generation of the configuration space run side by side
    ctx.spec_dir(SPEC)      # scratch copy of the specs made once, before the threads start
    res = parallel(lambda f: f(), [lambda: model_check(ctx, prop, tier), lambda: export_configs(ctx, tier)], n=2)
    gen = res[1]
    acc = [g for g in gen if g["accepts"] == "accepted"]
    oth = [g for g in gen if g["accepts"] != "accepted"]
    na, no = (1600, 350) if not T else (9000, 4000)
    ctx.rng.shuffle(acc)
    ctx.rng.shuffle(oth)
    sel = acc[:na] + oth[:no]
    ctx.cov["exhaustive"] = len(sel) == len(gen)
    ctx.log("configuration space %s: %d configurations (%d accepted by the model); replaying %d" % (tier, len(gen), len(acc), len(sel)))
    cases = [make_case("g%d" % i, vary_impl(g["cfg"], ctx.rng)) for i, g in enumerate(sel)]
    lines, refs, bad = exercise(ctx, prop, binary, cases, "gen", reported)
    account(lines, refs, bad)
    k = next((i for i, l in enumerate(lines) if nontrivial_c04(l)), None)
    if k is not None:
        ctx.sample({"kind": "generated configuration + real execution", "flow_yaml": sorted(refs[k][0]["files"].items())[0][1][-900:],
                    "transaction": {"dir": lines[k]["dir"], "bits": refs[k][1].get("bits")},
                    "executed": [[s["key"], s["dir"], s["out"]] for s in lines[k]["seq"]]})

    # (3) code -> spec: seeded random configurations beyond the enumerated space + hand-written ones
    nr = 450 if not T else 4000
    rcases = [make_case("h-" + k, v) for k, v in sorted(handcrafted().items())]
    rcases += [make_case("h2-" + k, vary_impl(json.loads(json.dumps(v)), ctx.rng)) for k, v in sorted(handcrafted().items())]
    rcases += [make_case("r%d" % i, vary_impl(random_config(ctx.rng, True), ctx.rng)) for i in range(nr)]
    if prop == "C05":
        for c in rcases[:: (6 if not T else 4)]:
            c["txs"] = c["txs"] + malformed_txs(ctx.rng, 6 if not T else 12)
        for c in rcases:
            if c["cfg"].get("quotas") and (c["id"].startswith("h") or T):
                c["txs"] = c["txs"] + odd_url_txs()
        rcases += quota_cases(ctx.rng) + flow_file_cases(ctx.rng) + yaml_mutants(ctx.rng, 400 if not T else 4000)
        rcases += criteria_cases(ctx.rng, T) + mutating_cases(ctx.rng, T)
    lines2, refs2, bad2 = exercise(ctx, prop, binary, rcases, "rand", reported)
    account(lines2, refs2, bad2)
    k = next((i for i, l in enumerate(lines2) if l["ev"] == "exec" and any(s.get("sid") for s in l["seq"]) and l["dir"] == "req"), None)
    if k is not None:
        ctx.sample({"kind": "recorded transaction with system flows", "executed": [[s["flow"], s["key"], s["dir"], s["out"]] for s in lines2[k]["seq"]]})
    nload = sum(1 for l in lines + lines2 if l["ev"] == "load")
    nacc = sum(1 for l in lines + lines2 if l["ev"] == "load" and l["outcome"] == "accepted")
    ctx.log("real loader: %d configurations loaded, %d accepted; %d transactions executed; %d events rejected by the specification" % (
        nload, nacc, sum(1 for l in lines + lines2 if l["ev"] == "exec"), len(bad) + len(bad2)))
    if nacc < 50 or not any(nontrivial_c04(l) for l in lines + lines2):
        raise Broken("vacuous run: %d accepted configurations" % nacc)
    for why, n in reported.get("more", {}).items():
        ctx.notes.append("%d further rejections of class %s not reproduced individually" % (n, why))

    # (4) binding self-test (thorough): corrupted recordings must be rejected by TLC
    if T:
        allr = [(l, r) for l, r in zip(lines + lines2, refs + refs2)]
        cand = [l for l, r in allr if l["ev"] == "exec" and l["outcome"] == "ok" and len(l.get("flows", [])) == 1 and len(l["seq"]) >= 3
                and not any(s.get("sid") for s in l["seq"]) and len({s["key"] for s in l["seq"]}) == len(l["seq"])][:120]
        loads = {l["id"]: l for l, r in allr if l["ev"] == "load"}
        # the property claims nothing about configurations that are not WellFormed: TLC tells which recordings it is bound
        # to (a walk consisting of one processor that is on no connection is rejected exactly for those)
        probes = []
        for g in cand:
            e = json.loads(json.dumps(g))
            e["seq"] = [dict(e["seq"][0], key="zz-on-no-connection")]
            e["id"] = g["id"] + "#probe"
            probes += [loads[g["id"].split("/")[0]], e]
        bound = {i // 2 for i, _ in judge(ctx, probes, "C04", "selftest-probe")}
        good = [g for k, g in enumerate(cand) if k in bound][:40]
        if len(good) < 10:
            raise Broken("self-test: not enough recorded walks the property is bound to (%d of %d)" % (len(good), len(cand)))
        corrupted, expect = [], []
        for g in good:
            ld = loads[g["id"].split("/")[0]]
            for variant in ("swap", "drop", "insert", "crash", "steps"):
                e = json.loads(json.dumps(g))
                if variant == "swap":              # the entry processor and its successor exchanged
                    e["seq"][0], e["seq"][1] = e["seq"][1], e["seq"][0]
                elif variant == "drop":            # a processor missing from the middle of the walk
                    del e["seq"][1]
                elif variant == "insert":          # a processor that is on no connection
                    e["seq"].insert(1, dict(e["seq"][1], key="zz-on-no-connection"))
                    e["steps"] += 1
                elif variant == "crash":
                    e["outcome"] = "crash"
                else:
                    e["steps"] = 10 ** 6
                e["id"] = g["id"] + "#" + variant
                corrupted += [ld, e]
                expect.append((len(corrupted) - 1, variant))
        rejc = {i for i, _ in judge(ctx, corrupted, prop, "selftest")}
        want = {"C04": ("swap", "drop", "insert"), "C05": ("crash", "steps")}[prop]
        missed = [(i, v) for i, v in expect if v in want and i not in rejc]
        if missed:
            raise Broken("self-test: %d corrupted recordings accepted, e.g. %s" % (len(missed), json.dumps(corrupted[missed[0][0]])[:600]))
        ctx.notes.append("self-test: %d corrupted recordings (%s) all rejected by FlowTrace/%s" % (
            sum(1 for _, v in expect if v in want), "/".join(want), prop))


def replay_property(ctx, prop, path):
    import os
    os.environ.setdefault("JAVA_TOOL_OPTIONS", "-Xmx3g")
    obj = json.load(open(path))
    rp = obj["replay"]
    binary = ctx.build_harness("c04")
    c = rp["case"]
    evs = run_cases(ctx, binary, [c], "replay", natural=(prop == "C05"))
    lines, refs = build_trace([c], evs)
    rej = dict((lines[i]["id"], w) for i, w in judge(ctx, lines, prop, "replay"))
    for l in lines:
        if l["ev"] == "load":
            print("load %s: %s init=%s" % (l["id"], l["outcome"], l["init"]))
        else:
            print("exec %s %s %s steps=%s: %s%s" % (l["id"], l["dir"], l["outcome"], l["steps"],
                  " ".join("%s/%s:%s" % (s["key"], s["dir"], s["out"] or "-") for s in l["seq"][:30]),
                  ("   <-- REJECTED: " + rej[l["id"]]) if l["id"] in rej else ""))
    if rej:
        print("VIOLATION property=%s replay=%s" % (prop, path))
        for k, w in list(rej.items())[:5]:
            print("   rejected %s: %s" % (k, w))
        return 1
    print("replay accepted by the specification")
    return 0


_HEAD = "name: A\nfilter:\n  url: h.test/x\nprocessors:\n  p:\n    processor: UserDefinedMetrics\n    parameters:\n      - key: metric_name\n        value: m_p\n"
_OKFLOW = ("flow:\n  request:\n    - from:\n        stream:\n          name: globalStream\n          at: start\n      to:\n        processor:\n          name: p\n"
           "    - from:\n        processor:\n          name: p\n      to:\n        stream:\n          name: globalStream\n          at: end\n"
           "  response:\n    - from:\n        stream:\n          name: globalStream\n          at: start\n      to:\n        stream:\n          name: globalStream\n          at: end\n")
FLOW_FILES = {
    "ok": _HEAD + _OKFLOW,
    "null-processor": "name: A\nfilter:\n  url: h.test/x\nprocessors:\n  p:\n" + _OKFLOW,
    "no-filter": "name: A\nprocessors: {}\n" + _OKFLOW,
    "null-filter-url": "name: A\nfilter:\n  url:\nprocessors: {}\n" + _OKFLOW,
    "null-parameter": _HEAD.replace("    parameters:\n", "    parameters:\n      -\n") + _OKFLOW,
    "null-connection": _HEAD + "flow:\n  request:\n    -\n  response:\n    -\n",
    "null-from": _HEAD + "flow:\n  request:\n    - from:\n      to:\n        processor:\n          name: p\n  response:\n    - from:\n      to:\n",
    "empty-endpoints": _HEAD + "flow:\n  request:\n    - from: {}\n      to: {}\n  response:\n    - from: {}\n      to: {}\n",
    "null-stream-ref": _HEAD + "flow:\n  request:\n    - from:\n        stream:\n      to:\n        processor:\n          name: p\n  response:\n    - from:\n        stream:\n      to:\n        stream:\n",
    "null-flow-section": _HEAD + "flow:\n",
    "no-flow-section": _HEAD,
    "dotted-unknown-flow": _HEAD + _OKFLOW.replace("name: p\n      to:\n        stream", "name: nowhere.p\n      to:\n        stream"),
    "three-part-key": _HEAD + _OKFLOW.replace("          name: p\n    - from", "          name: a.b.p\n    - from"),
    "param-without-value": _HEAD.replace("        value: m_p\n", "") + _OKFLOW,
    "duplicate-param": _HEAD + "      - key: metric_name\n        value: again\n" + _OKFLOW,
    "wrong-param-type": _HEAD.replace("value: m_p", "value: [1, 2, {a: b}]") + _OKFLOW,
    "unknown-processor-type": _HEAD.replace("UserDefinedMetrics", "NoSuchProcessor") + _OKFLOW,
    "empty-file": "",
    "garbage": "name: [A\nfilter: {url\n",
    "filter-processor-no-criteria": _HEAD.replace("UserDefinedMetrics", "Filter") + _OKFLOW,
    "filter-bad-status-range": _HEAD.replace("UserDefinedMetrics", "Filter").replace("metric_name", "status_code_range").replace("m_p", "abc-def") + _OKFLOW,
    "histogram-without-buckets": _HEAD + "      - key: metric_type\n        value: histogram\n" + _OKFLOW,
    "metric-value-bad-jsonpath": _HEAD + "      - key: metric_value\n        value: \"$..[?(@.x\"\n" + _OKFLOW,
    "name-empty": _HEAD.replace("name: A", "name: \"\"") + _OKFLOW,
    "at-values-swapped": _HEAD + _OKFLOW.replace("at: start", "at: START").replace("at: end", "at: start"),
    "expressions-filter": _HEAD.replace("  url: h.test/x\n", "  url: h.test/x\n  expressions:\n    - \"$.request.headers[?(@\"\n") + _OKFLOW,
}


def flow_file_cases(rng):
    """hand-written well- and ill-formed flow files (nomodel: only the loader / safety claims of C05 apply)"""
    base = {"flows": [flow("A", [("p", "Plain")], [conn(S("start"), P("p")), conn(P("p"), S("end"))], [conn(S("start"), S("end"))])],
            "quotas": []}
    cases = []
    for name, content in sorted(FLOW_FILES.items()):
        c = make_case("flowfile-" + name, base)
        c["nomodel"] = True
        c["files"] = {"flows/A.yaml": content}
        c["txs"] = c["txs"] + malformed_txs(rng, 3)
        cases.append(c)
    return cases


def yaml_mutants(rng, n):
    """seeded line-level mutations of valid flow and quota files (drop a line, blank a value, duplicate a line, replace a
    scalar by a list / map / odd scalar, shift indentation): whatever the YAML turns into, the loader has to accept it into
    a working engine or reject it with an error (nomodel: LoadVerdict / ExecSafeVerdict only)"""
    base = {"flows": [flow("A", [("a", "Cond"), ("g", "Gen"), ("p", "Plain")],
                           [conn(S("start"), P("a")), conn(P("a", "hit"), P("g")), conn(P("a", "miss"), P("p")), conn(P("p"), S("end"))],
                           [conn(S("start"), P("p")), conn(P("p"), S("end")), conn(P("g"), P("p"))])], "quotas": []}
    flow_text = flow_yaml(base["flows"][0])
    quota_text = (QUOTA_FILES["valid-children-percentages"][0] +
                  "  - id: childC\n    parent_id: childA\n    filter:\n      url: h.test/x\n    strategy:\n      fixed_window:\n        max: 2\n        interval: 1\n"
                  "        interval_unit: month\n        monthly_renewal:\n          day: 1\n          hour: 0\n          minute: 0\n          timezone: UTC\n        spillover:\n          max: 1\n")
    quota_text2 = ("quotas:\n  - id: qa\n    filter:\n      url: h.test/x\n      method:\n        - GET\n      headers:\n        - key: x-a\n          value: \"1\"\n"
                   "    strategy:\n      concurrent:\n        max_request_count: 2\n        request_expiration_sec: 5\n        gc_interval_sec: 1\n"
                   "  - id: qb\n    filter:\n      url: h.test/*\n    strategy:\n      header_based:\n        quota_header: x-remaining\n        reset_header: x-reset\n        retry_after_header: retry-after\n"
                   "  - id: qc\n    filter:\n      url: h.test/y\n    strategy:\n      fixed_window_custom_counter:\n        max: 100\n        interval: 1\n        interval_unit: minute\n        counter_value_path: $.response.headers.x-used\n")
    lim = handcrafted()["limiter"]
    lim_text = flow_yaml(lim["flows"][0])
    odd = ["", " ~", " []", " {}", " [1, 2]", " {a: b}", " -1", " 1e999", " true", " \"\"", " !!binary AAAA", " *x", " &x y", " |", " 0x7fffffffffffffff"]
    cases = []
    for i in range(n):
        which = rng.choice(["flow", "flow", "quota", "quota2", "lim"])
        lines = {"flow": flow_text, "quota": quota_text, "quota2": quota_text2, "lim": lim_text}[which].split("\n")
        for _ in range(rng.choice([1, 1, 2, 3])):
            k = rng.randrange(len(lines))
            m = rng.random()
            if m < 0.25:
                del lines[k]
            elif m < 0.55 and ":" in lines[k]:
                lines[k] = lines[k].split(":", 1)[0] + ":" + rng.choice(odd)
            elif m < 0.7:
                lines.insert(k, lines[k])
            elif m < 0.85:
                lines[k] = ("  " + lines[k]) if rng.random() < 0.5 else lines[k][2:]
            else:
                lines[k] = lines[k].replace("- ", "-\n" + " " * (len(lines[k]) - len(lines[k].lstrip())) + "- ", 1)
            if not lines:
                lines = [""]
        c = make_case("ymut%d" % i, lim if which == "lim" else base)
        c["nomodel"] = True
        if which in ("flow", "lim"):
            c["files"]["flows/A.yaml"] = "\n".join(lines)
        else:
            c["files"]["quotas/q1.yaml"] = "\n".join(lines)
        cases.append(c)
    return cases
