"""Shared bookkeeping for C04 / C05: abstract flow configurations <-> YAML for the real loader, transactions that
steer the branch conditions, case files for harness/cmd/c04, and the TLC trace built from what the real code answered.

Nothing here judges an outcome: the abstract configuration, the inputs and the observations are handed to TLC
(specs/c04_flow_graph/FlowTrace.tla), which evaluates the specification on them.

Abstract configuration (the value the TLA+ modules work on; JSON):
  cfg   = {"flows": [flow, ...], "quotas": [quota, ...]}
  flow  = {"name": "A", "url": "h.test/x", "procs": [{"key": "a", "kind": "Cond|Plain|Gen|Lim"}, ...],
           "req": [conn, ...], "res": [conn, ...]}
  conn  = {"f": end, "t": end}
  end   = {"k": "S", "n": "", "c": "", "at": "start|end"}          stream reference
        | {"k": "P", "n": key, "c": condition, "at": ""}           processor reference (condition only on `from`)
        | {"k": "F", "n": flow name, "c": "", "at": "start|end"}   flow reference
  quota = {"id": "q1", "kind": "fixed|conc", "url": "h.test/*"}
"""
import base64, json

HOST = "h.test"
TXURL = HOST + "/x"
OUTS = {"Cond": ["hit", "miss"], "Plain": [""], "Gen": [""], "Lim": ["below_limit", "above_limit"]}


def S(at):
    return {"k": "S", "n": "", "c": "", "at": at}


def P(n, c=""):
    return {"k": "P", "n": n, "c": c, "at": ""}


def F(n, at):
    return {"k": "F", "n": n, "c": "", "at": at}


def conn(f, t):
    return {"f": f, "t": t}


def flow(name, procs, req, res, url=TXURL):
    return {"name": name, "url": url, "procs": [{"key": k, "kind": v} for k, v in procs], "req": req, "res": res}


# ------------------------------------------------------------------ YAML

def _q(s):
    return json.dumps(s)


def _end_yaml(e, ind):
    pad = " " * ind
    if e["k"] == "S":
        return "%sstream:\n%s  name: globalStream\n%s  at: %s\n" % (pad, pad, pad, e["at"])
    if e["k"] == "F":
        return "%sflow:\n%s  name: %s\n%s  at: %s\n" % (pad, pad, _q(e["n"]), pad, e["at"])
    s = "%sprocessor:\n%s  name: %s\n" % (pad, pad, _q(e["n"]))
    if e["c"]:
        s += "%s  condition: %s\n" % (pad, _q(e["c"]))
    return s


def _proc_yaml(p, lim_quota):
    k, kind = p["key"], p["kind"]
    s = "  %s:\n" % k
    if kind == "Cond":
        s += "    processor: Filter\n    parameters:\n      - key: header\n        value: \"x-%s=1\"\n" % k
    elif kind == "Plain":
        s += "    processor: UserDefinedMetrics\n    parameters:\n      - key: metric_name\n        value: \"m_%s\"\n" % k
    elif kind == "Gen":
        s += "    processor: GenerateResponse\n    parameters:\n      - key: status\n        value: 418\n"
    elif kind == "Lim":
        s += "    processor: Limiter\n    parameters:\n      - key: quota_id\n        value: %s\n" % _q(lim_quota)
    else:
        s += "    processor: %s\n" % kind      # unknown processor type (invalid configurations)
    return s


def flow_yaml(fl, lim_quota="qlim"):
    s = "name: %s\nfilter:\n  url: %s\nprocessors:\n" % (fl["name"], _q(fl["url"]))
    if not fl["procs"]:
        s = s[:-1] + " {}\n"
    for p in fl["procs"]:
        s += _proc_yaml(p, lim_quota)
    s += "flow:\n"
    for d, key in (("request", "req"), ("response", "res")):
        if not fl[key]:
            s += "  %s: []\n" % d
            continue
        s += "  %s:\n" % d
        for c in fl[key]:
            s += "    - from:\n" + _end_yaml(c["f"], 8) + "      to:\n" + _end_yaml(c["t"], 8)
    return s


def quota_yaml(quotas):
    s = "quotas:\n"
    for q in quotas:
        s += "  - id: %s\n    filter:\n      url: %s\n    strategy:\n" % (q["id"], _q(q["url"]))
        if q["kind"] == "fixed":
            s += "      fixed_window:\n        max: 1\n        interval: 1\n        interval_unit: hour\n"
            s += "        group_by_header: x-group\n"
        else:
            s += "      concurrent:\n        max_request_count: 100000\n"
    return s


def needs_lim_quota(cfg):
    return any(p["kind"] == "Lim" for fl in cfg["flows"] for p in fl["procs"])


def render(cfg):
    files = {}
    for fl in cfg["flows"]:
        files["flows/%s.yaml" % fl["name"]] = flow_yaml(fl)
    quotas = list(cfg.get("quotas", []))
    if needs_lim_quota(cfg):
        # the quota the Limiter processors consult; its filter never matches the test transactions
        quotas = quotas + [{"id": "qlim", "kind": "fixed", "url": HOST + "/limonly"}]
    if quotas:
        files["quotas/quotas.yaml"] = quota_yaml(quotas)
    return files


# ---------------------------------------------------------- transactions

def steerable(cfg):
    """processors whose output is chosen by the transaction: (key, kind)"""
    out = []
    for fl in cfg["flows"]:
        for p in fl["procs"]:
            if p["kind"] in ("Cond", "Lim") and p["key"] not in [k for k, _ in out]:
                out.append((p["key"], p["kind"]))
    return out


def all_inputs(cfg):
    st = steerable(cfg)
    res = []
    for m in range(1 << len(st)):
        res.append({k: (m >> i) & 1 for i, (k, _) in enumerate(st)})
    return res


_txn = [0]


def tx(cfg, d, bits, url=TXURL, flow="A"):
    """one transaction: Cond processor k answers hit iff header X-k = 1; a Limiter answers above_limit iff its
    quota group was used once before (a warm-up transaction with the same fresh group value)."""
    _txn[0] += 1
    tid = "t%d" % _txn[0]
    h = {}
    kinds = dict(steerable(cfg))
    for k, b in bits.items():
        if kinds.get(k) == "Cond" and b:
            h["x-" + k] = "1"
    t = {"id": tid, "dir": d, "method": "GET", "url": url, "headers": h, "flow": flow, "bits": bits}
    if d == "res":
        t["status"] = 200
    lims = [k for k, kind in kinds.items() if kind == "Lim"]
    if lims and d == "req":
        h["x-group"] = "g" + tid
        if any(bits.get(k) for k in lims):
            t["pre"] = [{"id": tid + "w", "dir": "req", "method": "GET", "url": HOST + "/limonly", "headers": {"x-group": "g" + tid}}]
    return t


def b64(b):
    return base64.b64encode(b).decode()


# ------------------------------------------------------------------ cases

def limit_of(cfg):
    """executor safety limit on processor executions per transaction (well above the specification's Bound)"""
    n = sum(len(fl["procs"]) for fl in cfg["flows"])
    return 2 ** (n + 1) + 2 * len(cfg.get("quotas", [])) + 64


def standard_txs(cfg, max_inputs=16):
    """every branch-steering input vector, request and response, for every user flow of the configuration"""
    txs = []
    ins = all_inputs(cfg)[:max_inputs]
    for fl in cfg["flows"]:
        if not fl.get("url"):
            continue
        for bits in ins:
            for d in ("req", "res"):
                txs.append(tx(cfg, d, bits, url=fl["url"], flow=fl["name"]))
    return txs


def make_case(cid, cfg, txs=None):
    return {"id": cid, "cfg": cfg, "files": render(cfg), "txs": standard_txs(cfg) if txs is None else txs,
            "limit": limit_of(cfg)}


DIRS = {"StreamTypeRequest": "req", "StreamTypeResponse": "res"}


def run_cases(ctx, binary, cases, tag, natural=False, timeout=1500):
    """executes the cases on the real code; returns the events (begin markers removed)"""
    import os
    from vlib import read_ndjson
    d = ctx.sub("run-" + tag)
    cp, op = os.path.join(d, "cases.json"), os.path.join(d, "out.ndjson")
    slim = [{"id": c["id"], "files": c["files"], "limit": c["limit"],
             "txs": [{k: v for k, v in t.items() if k not in ("flow", "bits", "kind")} for t in c["txs"]]} for c in cases]
    json.dump(slim, open(cp, "w"))
    ctx.run_harness(binary, ["run", cp, op] + (["natural"] if natural else []), timeout=timeout)
    evs = [e for e in read_ndjson(op) if e["ev"] != "begin"]
    for e in evs:
        for s in e.get("seq", []):
            s["dir"] = DIRS.get(s["dir"], s["dir"])
    os.remove(cp)
    return evs


def build_trace(cases, events):
    """the TLC trace: per case one load event carrying the configuration, then its exec events.
    Returns (lines, refs) with refs[i] = (case, tx or None, raw event) for line i."""
    by_case = {}
    for e in events:
        by_case.setdefault(e["case"], []).append(e)
    lines, refs = [], []
    for c in cases:
        evs = by_case.get(c["id"], [])
        loads = [e for e in evs if e["ev"] == "load"]
        if len(loads) != 1:
            raise RuntimeError("case %s: %d load events" % (c["id"], len(loads)))
        ld = loads[0]
        lines.append({"ev": "load", "id": c["id"], "cfg": c["cfg"], "outcome": ld["outcome"], "init": ld["init"]})
        refs.append((c, None, ld))
        txs = {t["id"]: t for t in c["txs"]}
        for e in evs:
            if e["ev"] != "exec":
                continue
            t = txs[e["tx"]]
            lines.append({"ev": "exec", "id": c["id"] + "/" + e["tx"], "flow": t.get("flow", "A"), "dir": t["dir"], "seq": e["seq"],
                          "outcome": e["outcome"], "steps": e["steps"] if e["steps"] >= 0 else 10 ** 6})
            refs.append((c, t, e))
    return lines, refs


def judge(ctx, lines, mode, tag, chunk=3000, par=6, timeout=900):
    """TLC evaluates the specification on every event; returns [(line index, reason)] for the rejected ones.
    Chunks are cut at configuration boundaries (an exec event is judged against the preceding load event)."""
    import os, re, shutil
    from vlib import Broken, write_ndjson, parallel
    if not lines:
        return []
    sd = ctx.spec_dir(SPEC)
    chunks, cur, off = [], [], 0
    for i, ln in enumerate(lines):
        if ln["ev"] == "load" and len(cur) >= chunk:
            chunks.append((off, cur))
            cur, off = [], i
        cur.append(ln)
    chunks.append((off, cur))

    def one(it):
        off, evs = it
        wd = os.path.join(ctx.scratch, "fj-%s-%s-%d" % (mode, tag, off))
        if os.path.isdir(wd):
            shutil.rmtree(wd)
        shutil.copytree(sd, wd)
        p = os.path.join(wd, "trace.ndjson")
        write_ndjson(p, evs)
        ok, hwm, r = ctx.tlc_trace(wd, "FlowTrace", p, cfg="FlowTrace_%s.cfg" % mode, timeout=timeout)
        if r.violated or r.error or hwm != len(evs):
            raise Broken("trace validation FlowTrace/%s (%s, offset %d) did not consume the trace: hwm=%d of %d %r\n%s" % (
                mode, tag, off, hwm, len(evs), r, r.out[-2500:]))
        rej = [(int(m.group(1)) - 1 + off, m.group(2))
               for m in re.finditer(r'<<\s*"REJECT",\s*(\d+),\s*"[^"]*",\s*"([^"]*)"\s*>>', r.out)]
        shutil.rmtree(wd, ignore_errors=True)
        return rej

    out = []
    for r in parallel(one, chunks, n=par):
        out += r
    return sorted(set(out))


SPEC = "c04_flow_graph"
