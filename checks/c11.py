"""C11 - a transaction sees one policy version from request to response.

spec:     specs/c11_policy_versions  PinP (property: per transaction the hypotheses <<version, first seen>> that explain the answers),
          PinI (implementation-shaped: pin / VacuumKey / version read, version++ / VacuumKey gap, FIFO TTL vacuums), PinTrace,
          PinITrace, GenC11
binding:  harness/cmd/c11 drives the real config.TxnPoliciesAccessor built by BuildInitialFromFile (GetTxnPoliciesData, UpdateRawData,
          ReloadFromFile, RevertToDiagnosisFree, RevertToLastLoaded) on the mock clock; HAProxy admin calls answered by a loopback
          fake; background vacuum passes awaited through the vacuum.pass hook
"""
import json, os, socket
from vlib import Broken, read_ndjson, validate_history_trace, parallel, tlc_vh_lines, split_histories

SPEC = "c11_policy_versions"
BUGS = ["repin", "dropprev", "pinttl3", "le"]
TXNS = ["t%d" % i for i in range(1, 13)]        # the pool PinITrace.cfg declares
STEPS = [1, 5, 29, 30, 31]


def free_port():
    s = socket.socket()
    s.bind(("127.0.0.1", 0))
    p = s.getsockname()[1]
    s.close()
    return p


def rand_history(rng, thorough):
    labels = ["A", "B", "C", "D"]
    h = [{"ev": "reset", "label": rng.choice(labels)}]
    live = []                      # transactions recently started: their responses / diagnosis lookups come back
    pool = list(TXNS)
    rng.shuffle(pool)
    p_upd = rng.choice([0.1, 0.2, 0.35])
    for _ in range(rng.randint(10, 26 if not thorough else 40)):
        x = rng.random()
        if x < p_upd:
            op = rng.choice(["apply", "apply", "reload", "revdf", "revll"])
            e = {"ev": "update", "op": op}
            if op in ("apply", "reload"):
                e["label"] = rng.choice(labels)
            h.append(e)
        elif x < p_upd + 0.22:
            h.append({"ev": "adv", "d": rng.choice(STEPS + [1, 4, 6, 24, 25, 26, 34, 35, 36, 61])})
        elif live and rng.random() < 0.6:
            h.append({"ev": "lookup", "txn": rng.choice(live)})
        else:
            t = pool[len(live) % len(pool)] if rng.random() < 0.8 else rng.choice(pool)
            if t not in live:
                live.append(t)
            h.append({"ev": "lookup", "txn": t})
    return h


def directed_histories(rng, thorough):
    """schedules aimed at the two places where the accessor is not one critical section, and at failing updates:
    (a) a first lookup held before / after the pin while an update (and other lookups) run, then the transaction again at
        several ages;  (b) an update held between installing the new version and queueing the old one for the vacuum while
        lookups and time pass;  (c) an update whose k-th admin call is refused, then time across the retention + a tick."""
    ops = ["apply", "reload", "revdf", "revll"]
    hs, hs_a = [], []
    def upd(op, label="B", **kw):
        e = {"ev": "update", "op": op}
        if op in ("apply", "reload"):
            e["label"] = label
        e.update(kw)
        return e
    # (a)
    for at in ("pin.before_lock", "pin.before_vacuumkey"):
        for op in ops:
            for pre in (0, 1):
                for other in (False, True):
                    for age in (0, 29, 30):
                        h = [{"ev": "reset", "label": "A"}]
                        if pre:
                            h += [{"ev": "lookup", "txn": "t9"}, upd("apply", "C")]
                        inner = [upd(op, "B")] + ([{"ev": "lookup", "txn": "t2"}] if other else [])
                        h.append({"ev": "gaplookup", "txn": "t1", "at": at, "inner": inner})
                        if age:
                            h.append({"ev": "adv", "d": age})
                        h += [{"ev": "lookup", "txn": "t1"}, upd("apply", "D"), {"ev": "lookup", "txn": "t1"},
                              {"ev": "adv", "d": 31 - age if age else 31}, {"ev": "lookup", "txn": "t1"}]
                        hs_a.append(h)
    # (b)
    for op in ops:
        for d in (1, 29, 30, 31):
            h = [{"ev": "reset", "label": "A"}, {"ev": "lookup", "txn": "t1"},
                 {"ev": "gapupdate", "op": op, "label": "B", "at": "version.before_vacuumkey",
                  "inner": [{"ev": "lookup", "txn": "t2"}, {"ev": "lookup", "txn": "t1"}, {"ev": "adv", "d": d},
                            {"ev": "lookup", "txn": "t1"}, {"ev": "lookup", "txn": "t3"}]},
                 {"ev": "lookup", "txn": "t1"}, {"ev": "adv", "d": 30}, {"ev": "lookup", "txn": "t2"}, {"ev": "adv", "d": 6},
                 {"ev": "lookup", "txn": "t3"}, {"ev": "lookup", "txn": "t4"}]
            hs.append(h)
    # (c)
    for op in ops:
        for k in (1, 2, 3):
            for before in (False, True):
                h = [{"ev": "reset", "label": "A"}]
                if before:
                    h += [upd("apply", "C"), {"ev": "lookup", "txn": "t1"}]
                h += [upd(op, "B", fail=k), {"ev": "lookup", "txn": "t2"}, {"ev": "adv", "d": 25}, {"ev": "lookup", "txn": "t3"},
                      {"ev": "lookup", "txn": "t2"}, {"ev": "adv", "d": 16}, {"ev": "lookup", "txn": "t3"}, {"ev": "lookup", "txn": "t4"},
                      upd("apply", "D"), {"ev": "lookup", "txn": "t3"}, {"ev": "lookup", "txn": "t5"}]
                hs.append(h)
    # (d) two updates overlapping inside UpdatePoliciesData (both held at the proxy's admin API), a transaction starting
    #     between the two installs, answered after the second
    hs_d = []
    for opa in ("apply", "reload", "revll"):
        for opb in ("apply", "reload", "revll"):
            for pre in (0, 1):
                h = [{"ev": "reset", "label": "A"}]
                if pre:
                    h += [upd("apply", "D"), {"ev": "lookup", "txn": "t9"}]
                h += [{"ev": "lookup", "txn": "t1"},
                      {"ev": "overlap", "a": upd(opa, "B"), "b": upd(opb, "C"), "inner": [{"ev": "lookup", "txn": "t2"}, {"ev": "lookup", "txn": "t1"}]},
                      {"ev": "lookup", "txn": "t2"}, {"ev": "lookup", "txn": "t3"}, {"ev": "lookup", "txn": "t1"}, {"ev": "adv", "d": 29},
                      {"ev": "lookup", "txn": "t2"}, upd("apply", "A"), {"ev": "lookup", "txn": "t3"}, {"ev": "lookup", "txn": "t4"}]
                hs_d.append(h)
    # (e) instants off the vacuum's tick grid and late wake-ups: a request late within a tick, a reload after it, the
    #     response 25..30 s after the request
    hs_e = []
    for off in (1, 2, 3, 4):
        for drift in ([1], [2], [0, 1], [1, 0, 2], [0, 0, 0, 0, 0, 0, 1]):
            for age in (25, 27, 29, 30):
                h = [{"ev": "reset", "label": "A", "drift": drift}, {"ev": "lookup", "txn": "t0"}, {"ev": "adv", "d": 10 + off},
                     {"ev": "lookup", "txn": "t1"}, {"ev": "adv", "d": 1}, upd("apply", "B"), {"ev": "lookup", "txn": "t2"},
                     {"ev": "adv", "d": age - 1}, {"ev": "lookup", "txn": "t1"}, {"ev": "adv", "d": 30 - age + 1}, {"ev": "lookup", "txn": "t2"},
                     {"ev": "adv", "d": 7}, {"ev": "lookup", "txn": "t1"}]
                hs_e.append(h)
    # (f) transactions through the real SPOE message handler, retry sequences (transaction id != sequence id) across updates
    hs_f = []
    shapes = ["", "G:A", "E:B", "X:C"]          # empty configuration, global only, endpoints only, both (all plugins disabled)
    for op in ops:
        for gapd in (0, 5, 29):
            for l0, l1, l2 in (("G:A", "G:B", "X:C"), ("", "G:B", ""), ("E:B", "", "G:A"), ("", "E:B", "X:C")):
                h = [{"ev": "reset", "label": l0, "handler": True}, {"ev": "hreq", "id": "t1", "seq": "t1"}, {"ev": "hres", "id": "t1", "seq": "t1", "status": 500},
                     {"ev": "hreq", "id": "t6", "seq": "t6"}]
                if gapd:
                    h.append({"ev": "adv", "d": gapd})
                h += [upd(op, l1), {"ev": "hres", "id": "t6", "seq": "t6", "status": 200},
                      {"ev": "hreq", "id": "t2", "seq": "t1"}, {"ev": "hres", "id": "t2", "seq": "t1", "status": 500},
                      {"ev": "hreq", "id": "t3", "seq": "t1"}, upd("apply", l2), {"ev": "hres", "id": "t3", "seq": "t1", "status": 200},
                      {"ev": "hreq", "id": "t4", "seq": "t4"}, {"ev": "adv", "d": 30}, {"ev": "hres", "id": "t4", "seq": "t4", "status": 200},
                      {"ev": "adv", "d": 6}, {"ev": "hreq", "id": "t5", "seq": "t1"}, {"ev": "hres", "id": "t5", "seq": "t1", "status": 200}]
                hs_f.append(h)
    # (g) scale: a burst of very many fresh transactions (size limits of the anchors map / the vacuum's backlog) between the
    #     request and the response of tracked transactions, with a reload inside
    hs_g = []
    for n in ((66000, 70000, 100000) if thorough else (rng.choice([66000, 70000, 100000]),)):
        for pre in (0, 20):
            h = [{"ev": "reset", "label": "A"}, {"ev": "lookup", "txn": "t1"}]
            if pre:
                h.append({"ev": "adv", "d": pre})
            h += [{"ev": "burst", "n": n}, {"ev": "lookup", "txn": "t2"}, {"ev": "lookup", "txn": "t3"}, upd("apply", "B"),
                  {"ev": "lookup", "txn": "t2"}, {"ev": "lookup", "txn": "t1"}, {"ev": "lookup", "txn": "t4"}, {"ev": "burst", "n": 2000},
                  {"ev": "adv", "d": 29}, {"ev": "lookup", "txn": "t3"}, {"ev": "lookup", "txn": "t4"}, {"ev": "adv", "d": 7},
                  {"ev": "lookup", "txn": "t5"}, upd("apply", "C"), {"ev": "lookup", "txn": "t5"}]
            hs_g.append(h)
    hs = hs + hs_g
    if thorough:
        return hs + hs_a + hs_d + hs_e + hs_f
    return hs + rng.sample(hs_a, 20) + rng.sample(hs_d, 8) + rng.sample(hs_e, 20) + rng.sample(hs_f, 12)


def rand_handler_history(rng, thorough):
    """transactions through the SPOE message handler: requests and (later) responses of transactions inside retry sequences,
    updates over the configuration shapes (empty, global only, endpoints only, both), time"""
    shapes = ["", "", "G:A", "G:D", "E:B", "X:C"]
    h = [{"ev": "reset", "label": rng.choice(shapes), "handler": True}]
    pool = list(TXNS)
    rng.shuffle(pool)
    open_, seq_of, nxt = [], {}, 0
    for _ in range(rng.randint(10, 24 if not thorough else 36)):
        x = rng.random()
        if x < 0.25:
            op = rng.choice(["apply", "apply", "reload", "revdf", "revll"])
            e = {"ev": "update", "op": op}
            if op in ("apply", "reload"):
                e["label"] = rng.choice(shapes)
            h.append(e)
        elif x < 0.40:
            h.append({"ev": "adv", "d": rng.choice([1, 4, 5, 24, 29, 30, 31, 36])})
        elif open_ and x < 0.72:
            t = open_.pop(rng.randrange(len(open_)))
            h.append({"ev": "hres", "id": t, "seq": seq_of[t], "status": rng.choice([200, 500, 503])})
        elif nxt < len(pool):
            t = pool[nxt]; nxt += 1
            seq_of[t] = rng.choice(list(seq_of.values())) if seq_of and rng.random() < 0.5 else t
            open_.append(t)
            h.append({"ev": "hreq", "id": t, "seq": seq_of[t]})
    for t in open_:
        h.append({"ev": "hres", "id": t, "seq": seq_of[t], "status": 200})
    return h


def gapify(rng, h):
    """turn some events of a random history into held calls / failing updates"""
    out = []
    i = 0
    while i < len(h):
        e = h[i]
        nxt = h[i + 1] if i + 1 < len(h) else None
        x = rng.random()
        if e["ev"] == "lookup" and nxt and nxt["ev"] == "update" and x < 0.5:
            out.append({"ev": "gaplookup", "txn": e["txn"], "at": rng.choice(["pin.before_lock", "pin.before_vacuumkey"]), "inner": [nxt]})
            i += 2
            continue
        if e["ev"] == "update" and nxt and nxt["ev"] == "update" and x < 0.5 and {e["op"], nxt["op"]} <= {"apply", "reload", "revll"}:
            out.append({"ev": "overlap", "a": e, "b": nxt, "inner": [{"ev": "lookup", "txn": TXNS[11]}]})
            i += 2
            continue
        if e["ev"] == "update" and x < 0.25:
            inner = []
            while i + 1 < len(h) and h[i + 1]["ev"] in ("lookup", "adv") and len(inner) < 3:
                inner.append(h[i + 1]); i += 1
            out.append(dict(e, ev="gapupdate", at="version.before_vacuumkey", inner=inner))
        elif e["ev"] == "update" and x < 0.5:
            out.append(dict(e, fail=rng.choice([1, 2, 2, 3])))
        else:
            out.append(e)
        i += 1
    return out


def nontrivial(h):
    """exercises the property: a pin was honoured across an update (a lookup returned a version older than the current one)
    and a version or pin was vacuumed later on"""
    old = any(e["ev"] == "lookup" and e["ver"] < e["cur"] for e in h)
    vac = any(e["ev"] == "adv" and (e.get("rtxns", 0) + e.get("rpolicies", 0)) > 0 for e in h)
    return old and vac


def witness_of(rej):
    h, at = rej["hist"], rej["at"]
    e = h[at]
    w = {"class": "event-not-allowed-by-spec", "event": {k: v for k, v in e.items() if k not in ("pins", "vers")},
         "invariant": rej.get("invariant")}
    if e.get("ev") == "lookup":
        prev = [x for x in h[:at] if x.get("ev") == "lookup" and x.get("txn") == e["txn"]]
        w.update({"class": "lookup-answer-not-allowed", "first_seen_at": prev[0]["t"] if prev else None,
                  "first_answer": prev[0]["ver"] if prev else None, "age": e["t"] - prev[0]["t"] if prev else 0,
                  "current": e["cur"], "retained": e["vers"]})
        if prev and e["t"] - prev[0]["t"] <= 30 and e["ver"] != prev[0]["ver"]:
            w["class"] = "version-changed-within-retention"
    elif e.get("ev") == "update":
        w["class"] = "update-installed-unexpected-version"
    if rej.get("invariant") == "Retained":
        w["class"] = "pinned-version-discarded-within-retention"
    return w



def unreached(ctx, sd, out, modules, allow=()):
    """non-vacuity from `tlc -coverage 1`: expressions of the given modules that were never evaluated in the Next relation
    (count 0), minus lines whose source text contains one of `allow`."""
    import re
    bad = []
    for m in re.finditer(r"line (\d+), col (\d+) to line \d+, col \d+ of module (\w+): 0\s*$", out, re.M):
        ln, mod = int(m.group(1)), m.group(3)
        if mod not in modules:
            continue
        src = open(os.path.join(sd, mod + ".tla")).read().splitlines()[ln - 1]
        if not any(a in src for a in allow):
            bad.append("%s:%d %s" % (mod, ln, src.strip()))
    return bad

def execute(ctx, binary, scripts, tag):
    d = ctx.sub("run-" + tag)
    sp = os.path.join(d, "scripts.json")
    json.dump(scripts, open(sp, "w"))
    last = None
    for attempt in range(3):        # a clash on the loopback port is a tool failure, retried with another port
        port = str(free_port())
        p = ctx.run_harness(binary, ["run", sp, d], env={"HAPROXY_MANAGE_ENDPOINTS_PORT": port, "LUNAR_HEALTHCHECK_PORT": port},
                            check=False, timeout=900)
        if p.returncode == 0:
            return [read_ndjson(os.path.join(d, "trace-%03d.ndjson" % i)) for i in range(len(scripts))]
        last = p
        if "cannot listen" not in p.stderr:
            break
    raise Broken("harness failed rc=%d: %s\n%s" % (last.returncode, tag, last.stderr[-3000:]))


def has_gap(h):
    """held calls, overlapping updates or late vacuum wake-ups: outside what the model conformance spec PinITrace replays"""
    return any("cs" in e or "gap" in e or e.get("ev") == "burst" for e in h) or any(h[0].get("drift", []))


def judge(ctx, binary, traces, tag, seen, scripts):
    """scripts[i]["histories"][j] is the script that produced the j-th history of traces[i]."""
    def one(it):
        i, ev = it
        return validate_history_trace(ctx, SPEC, "PinTrace", ev, tag="%s%d" % (tag, i))
    def one_i(it):
        i, ev = it
        # the model conformance spec runs whole calls one after the other: histories with held calls are judged by PinP only
        cfg, hs = split_histories(ev)
        flat = [cfg] + [e for h in hs if not has_gap(h) for e in h]
        if len(flat) == 1:
            return 0, [], 0
        return validate_history_trace(ctx, SPEC, "PinITrace", flat, tag="%si%d" % (tag, i), max_rounds=3)
    res = parallel(one, list(enumerate(traces)), n=4)
    res_i = parallel(one_i, list(enumerate(traces)), n=4)
    for ti, ((acc, rejected, _), (acc_i, rej_i, _), ev) in enumerate(zip(res, res_i, traces)):
        _, hs = split_histories(ev)
        ctx.cov["traces_validated_against_impl"] += acc
        for h in hs:
            ctx.cov["evaluations"] += sum(1 for e in h if e["ev"] in ("lookup", "update"))
            key = json.dumps(h, sort_keys=True)
            if key not in seen:
                seen.add(key)
                if nontrivial(h):
                    ctx.cov["distinct_nontrivial"] += 1
        if rej_i and not rejected:
            ctx.cov["model_drift"] = True
            r = rej_i[0]
            ctx.notes.append("MODEL-DRIFT (%s): PinI does not predict %s" % (tag, json.dumps(r["hist"][r["at"]])[:300]))
        for rej in rejected:
            w = witness_of(rej)
            j = next(k for k, h in enumerate(hs) if h == rej["hist"])
            script = [{"histories": [scripts[ti]["histories"][j]]}]
            t2 = execute(ctx, binary, script, "%s-repro" % tag)[0]
            _, r2, _ = validate_history_trace(ctx, SPEC, "PinTrace", t2, tag="%s-repro" % tag)
            if not r2:
                raise Broken("rejection not reproduced (%s): %s" % (tag, json.dumps(w)))
            ctx.violation(w, {"script": script, "trace": [rej["config"]] + rej["hist"], "rejected_at": rej["at"]})


def run(ctx):
    T = ctx.thorough
    binary = ctx.build_harness("c11")
    sd = ctx.spec_dir(SPEC)
    ctx.cov["rule"] = ("histories = TLC random walks of PinI (lookups of 3 transactions, the four kinds of update, clock steps "
                       "1/5/29/30/31 s) + seeded random scripts (up to 12 transactions whose later lookups come back, updates, steps around "
                       "the 30 s retention and the 5 s vacuum tick); non-trivial = some lookup returned a version older than the current "
                       "one (pin honoured across an update) and a later vacuum pass removed a pin or a version; distinct by events")
    ctx.cov["checker_cmd"] = "tlc -config MC_small.cfg MC_C11.tla ; tlc -config PinTrace.cfg PinTrace.tla ; tlc -config PinITrace.cfg PinITrace.tla"
    ctx.cov["trusted_base"] = ["TLC 1.8", "CommunityModules Json", "Go toolchain", "clock.MockClock (+ PendingTimers export)",
                               "loopback fake of the HAProxy admin / health API (always 200)",
                               "harness/cmd/c11 projection (version = number under which the returned *PoliciesData was seen in "
                               "VerifSnapshot; content = name of the first global remedy + absence of global diagnosis)"]
    ctx.assumptions += ["lookups take no time; at most one lookup per transaction id is in flight (request, response and diagnosis of one "
                        "transaction follow each other); overlaps of a lookup / an update with other calls are forced at the yield points "
                        "pa.pin.before_lock, pa.pin.before_vacuumkey, pa.version.before_vacuumkey and judged by PinP (the model conformance "
                        "spec PinITrace covers the histories without held calls)",
                        "retention period = 30 s inclusive (a lookup exactly 30 s after the first one must still see the pinned version)",
                        "policy files without endpoint policies (no delayed un-manage goroutines)"]

    # (1) exhaustive: I => P; broken variants refuted; witnesses reachable
    ctx.tlc_exhaustive(sd, "MC_C11", "MC_small.cfg" if not T else "MC_large.cfg", timeout=2400, label="I=>P (Accepted, Retained)",
                       workers=8 if not T else None, heap="4g" if T else None)
    jobs = [("MC_bug_%s.cfg" % b, b) for b in BUGS] + [("MC_wit_fallback.cfg", "wit-fallback"), ("MC_wit_repin.cfg", "wit-repin")]
    def mc(job):
        return ctx.tlc(sd, "MC_C11", job[0], workers=2, timeout=900, label="expected violated: %s" % job[1])
    for job, r in zip(jobs, parallel(mc, jobs, n=4)):
        if r.violated is None:
            raise Broken("%s is not refuted / not reachable (vacuous check): %r" % (job[1], r))

    if T:
        r = ctx.tlc(sd, "MC_C11", "MC_cov.cfg", workers=4, timeout=900, extra=["-coverage", "1"], label="coverage (non-vacuity)", count=False)
        bad = unreached(ctx, sd, r.out, ("PinI", "PinP"), allow=("newcur = cur", "loaded \\cup {L}"))     # failed updates do not occur in the model
        if not r.ok or bad:
            raise Broken("vacuous exploration: unreached parts of the model: %s %r" % (bad[:5], r))
        ctx.notes.append("coverage: every expression of PinI/PinP reached by the exhaustive run (except the failed-update branch)")

    seen = set()
    # (2) spec -> code: walks of PinI replayed on the real accessor
    n = 15 if not T else 250
    g = ctx.tlc(sd, "GenC11", "GenC11.cfg", workers=1, simulate="num=%d" % n, depth=60, extra=["-seed", str(ctx.seed)],
                timeout=900, label="behaviour generation")
    walks = tlc_vh_lines(g.out)
    if len(walks) < n:
        raise Broken("behaviour generation produced %d walks: %s" % (len(walks), g.out[-1500:]))
    nchunk = 2 if not T else 8
    k = (len(walks) + nchunk - 1) // nchunk
    gscripts = [{"histories": walks[i:i + k]} for i in range(0, len(walks), k)]
    traces = execute(ctx, binary, gscripts, "gen")
    ctx.sample({"kind": "tlc-walk-replayed", "events": [{a: b for a, b in e.items() if a not in ("pins",)} for e in traces[0][1:10]]})
    judge(ctx, binary, traces, "gen", seen, gscripts)
    ctx.log("replayed %d TLC walks of PinI" % len(walks))

    # (3) code -> spec: random scripts (plain, and with held calls / refused admin calls), directed gap and failure schedules
    nscripts, nh = (3, 30) if not T else (12, 120)
    def pick(j):
        if j % 5 == 4:
            return rand_handler_history(ctx.rng, T)
        h = rand_history(ctx.rng, T)
        if j % 3 == 0:
            h = gapify(ctx.rng, h)
        elif j % 3 == 1:
            h[0] = dict(h[0], drift=[ctx.rng.choice([0, 0, 1, 2, 3]) for _ in range(ctx.rng.randint(1, 5))])
        return h
    scripts = [{"histories": [pick(j) for j in range(nh)]} for _ in range(nscripts)]
    traces = execute(ctx, binary, scripts, "rand")
    ctx.sample({"kind": "recorded-trace", "events": [{a: b for a, b in e.items() if a not in ("pins",)} for e in traces[0][1:12]]})
    judge(ctx, binary, traces, "rand", seen, scripts)
    dscripts = [{"histories": directed_histories(ctx.rng, T)}]
    dtraces = execute(ctx, binary, dscripts, "directed")
    nheld = sum(1 for e in dtraces[0] if "cs" in e or "gap" in e)
    nvia = sum(1 for e in dtraces[0] if e.get("via"))
    if nvia == 0 or not any(e.get("gap") == "overlap" for e in dtraces[0]):
        raise Broken("directed schedules: no handler-level transaction / no overlapping updates recorded (vacuous)")
    nfail = sum(1 for e in dtraces[0] if e.get("ev") == "update" and not e.get("ok"))
    if nheld == 0 or nfail == 0:
        raise Broken("directed schedules: %d held calls, %d failed updates recorded (vacuous)" % (nheld, nfail))
    judge(ctx, binary, dtraces, "directed", seen, dscripts)
    ctx.notes.append("directed schedules: %d histories, %d held calls, %d failed updates" % (len(dscripts[0]["histories"]), nheld, nfail))

    # (4) binding self-test (thorough)
    if T:
        ev = traces[0]
        k = next(i for i, e in enumerate(ev) if e.get("ev") == "lookup" and e["ver"] < e["cur"] and "cs" not in e)
        bad = [dict(e) for e in ev]
        cur_line = next(e for e in reversed(ev[:k]) if e.get("ev") in ("update", "reset") and e.get("cur") == ev[k]["cur"])
        bad[k]["ver"], bad[k]["label"], bad[k]["df"] = ev[k]["cur"], cur_line["clabel"], cur_line["cdf"]
        _, rej, _ = validate_history_trace(ctx, SPEC, "PinTrace", bad, tag="selftest1", max_rounds=1)
        # dropping the update in front of the first lookup that returned the version it installed
        _, hs = split_histories(ev)
        rej2 = None
        for h in hs:
            for i, e in enumerate(h):
                if e["ev"] == "update" and e.get("ok") and any(x["ev"] == "lookup" and x["ver"] == e["cur"] for x in h[i + 1:]):
                    drop = [ev[0]] + h[:i] + h[i + 1:]
                    _, rej2, _ = validate_history_trace(ctx, SPEC, "PinTrace", drop, tag="selftest2", max_rounds=1)
                    break
            if rej2 is not None:
                break
        if not rej or not rej2:
            raise Broken("self-test: corrupted trace accepted (flip=%s drop=%s)" % (bool(rej), rej2 if rej2 is None else bool(rej2)))
        ctx.notes.append("self-test: lookup answer replaced by the current version rejected, dropped update rejected")


def replay(ctx, path):
    obj = json.load(open(path))
    binary = ctx.build_harness("c11")
    t = execute(ctx, binary, obj["replay"]["script"], "replay")[0]
    acc, rej, _ = validate_history_trace(ctx, SPEC, "PinTrace", t, tag="replay")
    for e in t:
        print(json.dumps(e))
    if rej:
        print("VIOLATION property=C11 replay=%s" % path)
        print("   rejected at event %d: %s" % (rej[0]["at"], json.dumps(rej[0]["hist"][rej[0]["at"]])))
        return 1
    print("replay accepted by the specification")
    return 0
