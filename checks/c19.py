"""C19 - interceptor fail-safe bypasses the gateway after repeated errors, then recovers; traffic filter.

spec:     specs/c19_interceptor
            FailSafeRel (the property as a successor relation on P-states) / FailSafeP (behaviour spec) /
            FailSafeI (implementation-shaped) / MC_C19 (I => P by subset construction) / FailSafeTrace (tree validation) / GenC19
            TrafficFilterP (property of one decision) / TrafficFilterI (transcription) / MC_C19Filter (input space, I => P, case generation) / TrafficFilterTrace
binding:  py/c19_exec.py (python3, stdlib) loads fail_safe.py / traffic_filter.py / configuration.py of the repository by path and
          builds FailSafe / TrafficFilter with the constructor calls found in lunar_interceptor/__init__.py, from the environment variables
"""
import json, os, shutil, subprocess, sys
from vlib import Broken, VERIF, REPO, read_ndjson, parallel, tlc_vh_lines

SPEC = "c19_interceptor"
EXEC = os.path.join(VERIF, "py", "c19_exec.py")

# Event alphabets.  A gateway-side failure reaches FailSafe either as an exception of a type the hooks registered (kinds "conn",
# "gai") or as an error *response* through validate_headers: kind "proxy/<container>/<header name as sent>/<code>" with the
# container the hook passes (requests: case-insensitive dict, aiohttp: CI multidict, tornado: normalising HTTPHeaders, dict).
def alphabet(adv, gw_read, gw_noread=None, ok_kind="proxy/requests", extra=()):
    a = [{"ev": "ask"}] + [{"ev": "adv", "d": d} for d in adv] + [
        {"ev": "call", "read": True, "out": "ok", "kind": ok_kind},
        {"ev": "call", "read": True, "out": "gwerr", "kind": gw_read},
        {"ev": "call", "read": True, "out": "appexc", "kind": "value"}]
    if gw_noread:
        a += [{"ev": "call", "read": False, "out": "gwerr", "kind": gw_noread},
              {"ev": "call", "read": False, "out": "ok", "kind": ok_kind}]
    return a + list(extra)


CORE = alphabet([1], "proxy/requests/X-Lunar-Error/2")
# reads of the breaker are events like any other: outcomes reported without a read (legs already in flight);
# clock in 1/8 s starting at a fractional instant
CORE7 = alphabet([8], "proxy/tornado/x-lunar-error/3", "proxy/aiohttp/X-LUNAR-ERROR/9", ok_kind="proxy/tornado")
EXT = alphabet([8], "proxy/dict/x-lunar-error/2", ok_kind="proxy/aiohttp", extra=[
    {"ev": "call", "read": True, "out": "skip"},
    {"ev": "call", "read": True, "out": "gwerr", "kind": "conn"},
    {"ev": "call", "read": True, "out": "appexc", "kind": "io"},
    {"ev": "call", "read": True, "out": "appexc", "kind": "base"},
    {"ev": "call", "read": False, "out": "gwerr", "kind": "gai"},
    {"ev": "call", "read": False, "out": "ok", "kind": "proxy/dict"},
    {"ev": "call", "read": False, "out": "appexc", "kind": "value"}])
# sub-second probing of the cool-down: opened at a fractional instant, asked just before / at its end (7/8 s and 1/8 s steps)
FRAC = alphabet([7, 1], "proxy/aiohttp/X-Lunar-Error/5", ok_kind="proxy/requests")[:-1]
CONFIGS = [{"N": n, "C": c} for n in (1, 2, 3) for c in (1, 2, 3)]
GW_KINDS = ["conn", "gai"] + ["proxy/%s/%s/%s" % (c, n, k) for c in ("requests", "aiohttp", "tornado") for n, k in
                              (("x-lunar-error", "2"), ("X-Lunar-Error", "4"), ("X-LUNAR-ERROR", "1"), ("x-Lunar-error", "77"))] + \
           ["proxy/dict/x-lunar-error/3"]
OK_KINDS = ["proxy/requests", "proxy/aiohttp", "proxy/tornado", "proxy/dict"]


def timed(cfgs, unit, phase):
    return [dict(c, unit=unit, phase=phase) for c in cfgs]


# ----------------------------------------------------------------------------------------------- plumbing
def run_exec(ctx, args, timeout=900):
    cwd = ctx.sub("pycwd")
    env = dict(os.environ)
    env["VERIF_REPO"] = REPO
    env["PYTHONDONTWRITEBYTECODE"] = "1"
    try:
        p = subprocess.run(["python3", EXEC] + list(args), cwd=cwd, env=env, stdout=subprocess.PIPE, stderr=subprocess.PIPE,
                           text=True, timeout=timeout)
    except subprocess.TimeoutExpired:
        raise Broken("python executor timed out: %s" % " ".join(args))
    if p.returncode != 0:
        raise Broken("python executor failed rc=%d: %s\n%s" % (p.returncode, " ".join(args), p.stderr[-3000:]))
    try:
        return json.loads(p.stdout.strip().splitlines()[-1])
    except Exception:
        raise Broken("python executor printed no summary: %s" % p.stdout[-500:])


def workdir(ctx, tag):
    """private copy of the spec directory (trace.ndjson lives next to the Trace spec; validations run in parallel)."""
    sd = ctx.spec_dir(SPEC)
    wd = os.path.join(ctx.scratch, "tv-" + tag)
    if not os.path.isdir(wd):
        shutil.copytree(sd, wd)
    return wd


def load_tree(path):
    nodes = read_ndjson(path)
    parent = [0] * (len(nodes) + 1)
    for i, n in enumerate(nodes, start=1):
        for c in n["k"]:
            parent[c] = i
    return nodes, parent


def path_to(nodes, parent, nid):
    p = []
    while nid > 1:
        p.append(nodes[nid - 1])
        nid = parent[nid]
    p.reverse()
    return p        # [reset, e1, ..., e_bad]


def script_of(path):
    r = path[0]
    cfg = {"N": r["N"], "C": r.get("Csec", r["C"]), "unit": r.get("unit", 1), "phase": r.get("phase", 0)}
    if r.get("default"):
        cfg = {"default": True, "unit": r.get("unit", 1), "phase": r.get("phase", 0)}
    if r.get("level", "unit") != "unit":
        cfg["level"] = r["level"]
    evs = []
    for e in path[1:]:
        s = {"ev": e["ev"]}
        if e["ev"] == "adv":
            s["d"] = e["d"]
        if e["ev"] == "call":
            s.update(read=e["read"], out=e["out"], kind=e.get("kind", ""))
        if e["ev"] == "req":
            s.update(dest=e["dest"], attempts=[a for a in e["attempts"].split("/") if a], provider=e["provider"], final=e["final"],
                     errname=e.get("errname", "x-lunar-error"))
        evs.append(s)
    return {"config": cfg, "events": evs}


def validate_tree(ctx, trace_path, tag, workers=4, heap=None, module="FailSafeTrace"):
    """TLC walks the recorded tree with FailSafeTrace.  Returns (rejected node ids, nodes visited, lines)."""
    wd = workdir(ctx, tag)
    dst = os.path.join(wd, "trace.ndjson")
    if os.path.abspath(trace_path) != dst:
        shutil.copy(trace_path, dst)
    r = ctx.tlc(wd, module, module + ".cfg", workers=workers, timeout=1500, count=False, heap=heap)
    if not r.ok:
        raise Broken("tree validation %s failed to run: %r\n%s" % (tag, r, r.out[-2500:]))
    import re
    rej = sorted(int(x) for x in re.findall(r'<<"REJ", (\d+)>>', r.out))
    m = re.search(r'<<"TREE", (\d+), (\d+)>>', r.out)
    if not m:
        raise Broken("tree validation %s: no TREE line\n%s" % (tag, r.out[-1500:]))
    visited, lines = int(m.group(1)), int(m.group(2))
    if not rej and visited != lines:
        raise Broken("tree validation %s: %d of %d nodes visited but nothing rejected" % (tag, visited, lines))
    os.remove(dst)
    return rej, visited, lines


def leaf_stats(nodes):
    """bookkeeping for the evidence: number of root-to-leaf histories, and how many of them exercise the breaker
    (it opened - some read answered FALSE - and a later read answered TRUE again)."""
    leaves = nontrivial = 0
    stack = [(1, 0)]        # (node, phase) phase 0 = never open, 1 = open seen, 2 = recovered after open
    while stack:
        nid, ph = stack.pop()
        n = nodes[nid - 1]
        if n["ev"] == "reset":
            ph = 0
        elif n["ev"] == "req" and n["dest"] == "pub":
            if n["gw"] == 0 and ph == 0:
                ph = 1
            elif n["gw"] > 0 and ph == 1:
                ph = 2
        elif n["ev"] == "ask" or (n["ev"] == "call" and n["read"]):
            if not n["ans"] and ph == 0:
                ph = 1
            elif n["ans"] and ph == 1:
                ph = 2
        if not n["k"]:
            if nid > 1:
                leaves += 1
                nontrivial += ph == 2
        else:
            stack.extend((c, ph) for c in n["k"])
    return leaves, nontrivial


def witness_failsafe(path):
    bad = path[-1]
    now = sum(e["d"] for e in path if e["ev"] == "adv")
    fails = sum(1 for e in path if e["ev"] == "call" and e["out"] == "gwerr")
    w = {"class": "failsafe-observation-not-permitted", "N": path[0]["N"], "C": path[0]["C"], "at": len(path) - 1, "now": now,
         "gateway_failures_before": fails - (bad["ev"] == "call" and bad["out"] == "gwerr"),
         "event": {k: bad[k] for k in ("ev", "d", "read", "out", "kind", "ans", "raised") if k in bad}}
    if bad["ev"] == "req":
        w["class"] = "hook-observation-not-permitted"
        w["event"] = {k: bad[k] for k in ("ev", "dest", "attempts", "final", "provider", "gw", "prov", "via", "araised", "errname") if k in bad}
        served = (bad["dest"] == "pub" or bad["gw"] == 0)
        if bad["gw"] > 0 and bad["final"] == "gwerr" and not (bad["via"] == "direct" or bad["araised"] == "provider"):
            w["class"] = "hook-failed-gateway-leg-not-covered-by-direct-call"
        elif bad["provider"] == "raise" and bad["araised"] != "provider" and (bad["gw"] == 0 or bad["final"] == "gwerr"):
            w["class"] = "hook-provider-error-not-delivered"
        elif not served:
            w["class"] = "hook-excluded-destination-routed"
    if bad["ev"] == "call" and bad["out"] == "appexc" and bad["raised"] != "same" and (bad["ans"] or not bad["read"]):
        w["class"] = "application-exception-not-propagated"
    return w


def judge_tree(ctx, trace_path, tag, workers=4, heap=None, max_report=3, module="FailSafeTrace"):
    """validate; reproduce each (of the first few, shortest) rejection by re-executing its history alone; report."""
    rej, visited, lines = validate_tree(ctx, trace_path, tag, workers, heap, module)
    nodes = None
    if rej:
        nodes, parent = load_tree(trace_path)
        paths = sorted((path_to(nodes, parent, r) for r in rej), key=len)
        seen = set()
        for p in paths:
            w = witness_failsafe(p)
            key = json.dumps([w["class"], w["event"], w["N"], w["C"]], sort_keys=True)
            if key in seen or len(seen) >= max_report:
                continue
            seen.add(key)
            sc = script_of(p)
            d = ctx.sub("repro-" + tag)
            json.dump([sc], open(os.path.join(d, "s.json"), "w"))
            run_exec(ctx, ["scripts", os.path.join(d, "s.json"), os.path.join(d, "t.ndjson")])
            r2, _, _ = validate_tree(ctx, os.path.join(d, "t.ndjson"), "repro-" + tag, workers=1, module=module)
            if not r2:
                raise Broken("rejection not reproduced (%s): %s" % (tag, json.dumps(w)))
            ctx.violation(w, {"kind": "failsafe", "module": module, "script": sc, "recorded": p, "rejected_nodes_in_run": len(rej)})
    return rej, visited, lines


# ----------------------------------------------------------------------------------------------- parts of the check
def part_model(ctx):
    T = ctx.thorough
    sd = ctx.spec_dir(SPEC)

    def mc(job):
        module, cfg, label, dirtag = job
        d = workdir(ctx, "mc-" + dirtag)
        return ctx.tlc(d, module, cfg, workers=4 if not T else 8, timeout=1500, label=label, count=False)
    jobs = [("MC_C19", "MC_small.cfg" if not T else "MC_large.cfg", "I=>P (subset construction)", "main"),
            ("MC_C19", "MC_benign.cfg", "benign variant (counter cleared on recovery) must refine P", "benign"),
            ("MC_C19", "MC_strict.cfg", "non-vacuity: strict cool-down test must be refuted", "strict"),
            ("MC_C19", "MC_noreset.cfg", "non-vacuity: success not clearing the counter must be refuted", "noreset"),
            ("MC_C19", "MC_swallow.cfg", "non-vacuity: swallowing application exceptions must be refuted", "swallow"),
            ("MC_C19", "MC_stale.cfg", "non-vacuity: a failure after the period (nobody asked yet) not opening the breaker must be refuted", "stale"),
            ("MC_C19Filter", "MC_filter.cfg", "filter: I=>P over the whole input space + case generation", "f"),
            ("MC_C19Filter", "MC_filter_v6.cfg", "non-vacuity: raising on IPv6 literals must be refuted", "fv6"),
            ("MC_C19Filter", "MC_filter_blockinv.cfg", "non-vacuity: inverted block-list test must be refuted", "finv"),
            ("MC_C19Filter", "MC_filter_strip.cfg", "non-vacuity: items validated without their blanks but compared with them must be refuted", "fstrip"),
            ("MC_C19Filter", "MC_filter_mapped.cfg", "non-vacuity: IPv4-mapped literals judged by the spelling must be refuted", "fmap")]
    if T:
        jobs += [("FailSafeP", "MC_P.cfg", "P satisfies its own reading of the statement (Trip/Cool/Propagate as action properties)", "p"),
                 ("MC_C19Filter", "MC_filter_unicode.cfg", "non-vacuity: resolver UnicodeError must be refuted", "funi"),
                 ("MC_C19Filter", "MC_filter_case.cfg", "non-vacuity: case-sensitive list matching must be refuted", "fcase")]
        jobs += [("MC_C19", "MC_%s.cfg" % w, "witness %s (expected to be violated)" % w, w) for w in
                 ("W_NeverOpen", "W_NeverPermittedOnly", "W_NeverRecovered", "W_NeverPropagated", "W_NeverLateWhileOpen")]
    res = parallel(mc, jobs, n=4 if not T else 3)
    for (module, cfg, label, tag), r in zip(jobs, res):
        ctx.cov["tlc_runs"].append({"module": module, "cfg": cfg, "generated": r.generated, "distinct": r.distinct, "depth": r.depth,
                                    "wall_s": round(r.wall, 1), "result": "ok" if r.ok else (r.violated or "error"), "label": label})
        must_fail = "must be refuted" in label or "expected to be violated" in label
        if must_fail:
            if r.violated is None:
                raise Broken("vacuous: %s/%s was not refuted: %r\n%s" % (module, cfg, r, r.out[-1200:]))
        else:
            if not r.ok:
                raise Broken("TLC %s/%s: %r\n%s" % (module, cfg, r, r.out[-3000:]))
            if module != "MC_C19Filter":
                ctx.cov["states"] += r.distinct
                ctx.cov["transitions"] += r.generated
            ctx.log("TLC %s %s: %d generated / %d distinct, %.1fs" % (module, cfg, r.generated, r.distinct, r.wall))
    # the filter input space written by TLC (JsonSerialize) in the directory of the MC_filter run
    space = json.load(open(os.path.join(workdir(ctx, "mc-f"), "filter_space.json")))
    import re
    m = re.search(r'<<"FILTER-CASES", (\d+), (\d+)>>', res[6].out)
    ctx.cov["filter_space_cases"] = int(m.group(1)) if m else 0
    return space


def part_trees(ctx):
    T = ctx.thorough
    jobs = []
    small = [c for c in CONFIGS if c["N"] <= 2 and c["C"] <= 2]
    if not T:
        jobs.append(("core6", {"configs": CONFIGS, "depth": 6, "alphabet": CORE}))
        jobs.append(("noread5", {"configs": timed([c for c in CONFIGS if c["N"] <= 2], 8, 7), "depth": 5, "alphabet": CORE7}))
        jobs.append(("ext4", {"configs": timed(small, 8, 3), "depth": 4, "alphabet": EXT}))
        jobs.append(("frac6", {"configs": timed(small, 8, 5), "depth": 6, "alphabet": FRAC}))
    else:
        for c in CONFIGS:
            jobs.append(("core8-n%dc%d" % (c["N"], c["C"]), {"configs": [c], "depth": 8, "alphabet": CORE}))
        jobs.append(("noread6-a", {"configs": timed(CONFIGS[:5], 8, 7), "depth": 6, "alphabet": CORE7}))
        jobs.append(("noread6-b", {"configs": timed(CONFIGS[5:], 8, 7), "depth": 6, "alphabet": CORE7}))
        jobs.append(("ext5-a", {"configs": timed(small[:2], 8, 3), "depth": 5, "alphabet": EXT}))
        jobs.append(("ext5-b", {"configs": timed(small[2:], 8, 3), "depth": 5, "alphabet": EXT}))
        jobs.append(("ext4", {"configs": timed([c for c in CONFIGS if c not in small], 8, 3), "depth": 4, "alphabet": EXT}))
        jobs.append(("frac7", {"configs": timed(small, 8, 5), "depth": 7, "alphabet": FRAC}))
        jobs.append(("frac6-c3", {"configs": timed([{"N": 1, "C": 3}, {"N": 3, "C": 1}], 64, 37), "depth": 6,
                     "alphabet": alphabet([63, 1, 64], "proxy/requests/x-lunar-error/2")[:-1]}))

    def one(job):
        tag, spec = job
        d = ctx.sub("tree-" + tag)
        sp, tp = os.path.join(d, "spec.json"), os.path.join(d, "tree.ndjson")
        json.dump(spec, open(sp, "w"))
        s = run_exec(ctx, ["tree", sp, tp])
        if s.get("nondeterministic"):
            raise Broken("re-execution of a prefix gave a different observation (%s): %s" % (tag, s))
        rej, visited, lines = judge_tree(ctx, tp, tag, workers=4 if not T else 3, heap="6g" if T else None)
        nodes = read_ndjson(tp)
        leaves, nontriv = leaf_stats(nodes)
        sample = None
        if tag.startswith("core"):
            # a sample history: the first leaf whose path contains an open and a recovery is expensive to find; take a fixed one
            sample = [{k: v for k, v in n.items() if k in ("ev", "N", "C", "d", "out", "ans", "raised") and v not in ("", 0)} for n in nodes[1:8]]
        os.remove(tp)
        return tag, s, rej, leaves, nontriv, lines, sample
    for tag, s, rej, leaves, nontriv, lines, sample in parallel(one, jobs, n=3 if not T else 5):
        ctx.log("tree %s: %d nodes, %d histories (%d open+recover), %d executions, %d rejected nodes" % (
            tag, lines, leaves, nontriv, s["executions"], len(rej)))
        ctx.cov["evaluations"] += s["executions"]
        if not rej:
            ctx.cov["traces_validated_against_impl"] += leaves
            ctx.cov["distinct_nontrivial"] += nontriv
        if sample:
            ctx.sample({"kind": "exhaustive-tree-prefix", "tree": tag, "nodes": sample})
    ctx.cov["exhaustive"] = True


def rand_script(rng, thorough):
    cfg = rng.choice([{"default": True}] + [{"N": rng.choice([1, 2, 3, 4, 5, 7]), "C": rng.choice([1, 2, 3, 5, 10, 30])} for _ in range(4)])
    n, c = (5, 10) if cfg.get("default") else (cfg["N"], cfg["C"])
    unit = rng.choice([1, 8, 8, 64, 1024])           # clock ticks per second: instants are fractional (dyadic) values
    cfg["unit"], cfg["phase"] = unit, rng.randrange(unit)
    c = c * unit                                      # the cool-down in ticks
    frac = [1, max(1, unit // 8), max(1, unit // 2), unit - 1 if unit > 1 else 1, unit]
    evs = []
    L = rng.randint(30, 60 if not thorough else 90)
    mood = "fail"
    noread = rng.choice([0.9, 0.6, 0.6, 0.3])       # per history: how often the breaker is read before an outcome is reported
    pask = rng.choice([0.12, 0.12, 0.03])
    for _ in range(L):
        if rng.random() < 0.15:
            mood = rng.choice(["fail", "fail", "ok", "mixed", "wait"])
        x = rng.random()
        if mood == "wait" or x < 0.18:
            evs.append({"ev": "adv", "d": rng.choice(frac + [c - 1 if c > 1 else 1, c - 1 if c > 1 else 1, c, c, c + 1, 3 * c,
                                                             max(1, c - rng.choice(frac)), rng.randint(1, 2 * c)])})
            if mood == "wait" and rng.random() < 0.5:
                mood = "mixed"
        elif x < 0.18 + pask:
            evs.append({"ev": "ask"})
        else:
            if mood == "fail":
                out = rng.choice(["gwerr"] * 6 + ["appexc", "skip", "ok"])
            elif mood == "ok":
                out = rng.choice(["ok"] * 5 + ["gwerr", "appexc"])
            else:
                out = rng.choice(["ok", "gwerr", "gwerr", "appexc", "skip"])
            e = {"ev": "call", "read": rng.random() < noread, "out": out, "kind": ""}
            if out == "gwerr":
                e["kind"] = rng.choice(GW_KINDS)
            if out == "ok":
                e["kind"] = rng.choice(OK_KINDS)
            if out == "appexc":
                e["kind"] = rng.choice(["value", "io", "base"])
            if out == "skip":
                e["read"] = True
            evs.append(e)
    return {"config": cfg, "events": evs}


def part_walks(ctx):
    """(a) TLC -simulate walks of FailSafeI replayed (spec -> code);  (b) seeded random long histories (code -> spec)."""
    T = ctx.thorough
    sd = workdir(ctx, "gen")
    n = 25 if not T else 200        # every walk is printed once per successor of its last state (~13x)
    g = ctx.tlc(sd, "GenC19", "GenC19.cfg", workers=1, simulate="num=%d" % n, depth=45, extra=["-seed", str(ctx.seed)], timeout=900,
                label="behaviour generation (simulation of FailSafeI)")
    walks = tlc_vh_lines(g.out)
    if len(walks) < n // 3:
        raise Broken("behaviour generation produced %d walks: %s" % (len(walks), g.out[-1500:]))
    scripts = []
    for w in walks:
        evs = []
        for e in w[1:]:
            s = {"ev": e["ev"]}
            if e["ev"] == "adv":
                s["d"] = e["d"]
            if e["ev"] == "call":
                kinds = {"gwerr": GW_KINDS, "ok": OK_KINDS, "appexc": ["value", "io", "base"]}.get(e["out"], [""])
                s.update(read=e["read"], out=e["out"], kind=kinds[(len(scripts) + len(evs)) % len(kinds)])
            evs.append(s)
        scripts.append({"config": {"N": w[0]["N"], "C": w[0]["C"]}, "events": evs})
    d = ctx.sub("walks")
    json.dump(scripts, open(os.path.join(d, "gen.json"), "w"))
    s1 = run_exec(ctx, ["scripts", os.path.join(d, "gen.json"), os.path.join(d, "gen.ndjson")])
    # compare with the model's prediction (drift only: the verdict comes from FailSafeTrace)
    nodes = read_ndjson(os.path.join(d, "gen.ndjson"))
    drift, i = 0, 1
    for w in walks:
        i += 1          # reset node
        for e in w[1:]:
            real = nodes[i]
            i += 1
            if (real["ans"], real["raised"]) != (e["ans"], e["raised"]):
                drift += 1
                break
    if drift:
        ctx.cov["model_drift"] = True
        ctx.notes.append("MODEL-DRIFT: %d of %d generated behaviours differ from FailSafeI's prediction" % (drift, len(walks)))
    ctx.log("replayed %d TLC walks (%d events), %d differ from the model's prediction" % (len(walks), s1["executions"], drift))
    ctx.sample({"kind": "tlc-walk", "config": scripts[0]["config"], "events": [
        {k: v for k, v in e.items() if v not in ("", 0, False) or k == "ans"} for e in walks[0][1:10]]})
    rej, _, lines = judge_tree(ctx, os.path.join(d, "gen.ndjson"), "gen", workers=2)
    ctx.cov["evaluations"] += s1["executions"]
    if not rej:
        ctx.cov["traces_validated_against_impl"] += len(walks)

    nr = 200 if not T else 3000
    rs = [rand_script(ctx.rng, T) for _ in range(nr)]
    json.dump(rs, open(os.path.join(d, "rand.json"), "w"))
    s2 = run_exec(ctx, ["scripts", os.path.join(d, "rand.json"), os.path.join(d, "rand.ndjson")])
    rej, _, lines = judge_tree(ctx, os.path.join(d, "rand.ndjson"), "rand", workers=2)
    nodes = read_ndjson(os.path.join(d, "rand.ndjson"))
    leaves, nontriv = leaf_stats(nodes)
    ctx.log("recorded %d random histories (%d events), %d with open+recover, %d rejected nodes" % (nr, s2["executions"], nontriv, len(rej)))
    ctx.cov["evaluations"] += s2["executions"]
    if not rej:
        ctx.cov["traces_validated_against_impl"] += leaves
        ctx.cov["distinct_nontrivial"] += nontriv
    return os.path.join(d, "rand.ndjson")


def decode_path(codes, unit, variant):
    cfg = {"N": codes[0] // 100, "C": (codes[0] % 100) // unit, "unit": unit, "phase": unit - 1 if unit > 1 else 0}
    evs = []
    outs = {1: "ok", 2: "gwerr", 3: "appexc", 4: "skip"}
    kinds = {"gwerr": GW_KINDS[variant % len(GW_KINDS)], "ok": OK_KINDS[variant % len(OK_KINDS)], "appexc": "value", "skip": ""}
    for c in codes[1:]:
        if c == 1:
            evs.append({"ev": "ask"})
        elif c >= 100:
            evs.append({"ev": "adv", "d": c - 100})
        else:
            read = c < 15
            out = outs[c - (10 if read else 15)]
            evs.append({"ev": "call", "read": read, "out": out, "kind": kinds[out]})
    return {"config": cfg, "events": evs}


def part_coverage(ctx):
    """coverage-directed generation: one history per transition of the state graph of FailSafeI (TLC, GenC19Cov), executed on the
    real class and judged by FailSafeTrace - covers model states far beyond the depth of the exhaustive trees.  Two instances:
    whole seconds, and a clock in 1/8 s (cool-down of 8 / 16 ticks, steps of 1/8, 7/8 and 1 s)."""
    T = ctx.thorough
    import re
    base = open(os.path.join(ctx.spec_dir(SPEC), "GenC19Cov.cfg")).read()

    def inst(ns, cs, maxnow, steps):
        return base.replace("Ns = {4}", "Ns = {%s}" % ns).replace("Cs = {3}", "Cs = {%s}" % cs).replace(
            "MaxNow = 8", "MaxNow = %d" % maxnow).replace("Steps = {1, 2}", "Steps = {%s}" % steps)
    if not T:
        insts = [("sec", 1, inst("1, 2, 3, 4", "1, 2, 3", 8, "1, 2")), ("frac", 8, inst("1, 2", "8", 20, "1, 7, 8"))]
    else:
        insts = [("sec", 1, inst("1, 2, 3, 4, 5", "1, 2, 3, 5", 12, "1, 2, 3")), ("frac", 8, inst("1, 2, 3", "8, 16", 36, "1, 7, 8"))]

    def one(it):
        tag, unit, cfgtext = it
        wd = workdir(ctx, "cov-" + tag)
        open(os.path.join(wd, "GenC19Cov.cfg"), "w").write(cfgtext)
        g = ctx.tlc(wd, "GenC19Cov", "GenC19Cov.cfg", workers=1, timeout=900, count=False)
        if not g.ok:
            raise Broken("coverage generation failed: %r\n%s" % (g, g.out[-2000:]))
        paths = [[int(x) for x in m.split(",")] for m in re.findall(r'^<<"VP", <<([0-9, ]+)>>>>$', g.out, re.M)]
        if len(paths) < 1000 or len(paths) < g.generated * 0.75:
            raise Broken("coverage generation printed %d paths for %d transitions" % (len(paths), g.generated))
        scripts = [decode_path(p, unit, i) for i, p in enumerate(paths)]
        # one variant of reporting per prefix tree keeps the prefixes shared: the variant is a function of the configuration
        for sc, p in zip(scripts, paths):
            v = p[0]
            for e in sc["events"]:
                if e["ev"] == "call" and e["out"] == "gwerr":
                    e["kind"] = GW_KINDS[v % len(GW_KINDS)]
                elif e["ev"] == "call" and e["out"] == "ok":
                    e["kind"] = OK_KINDS[v % len(OK_KINDS)]
        d = ctx.sub("cov-" + tag)
        json.dump(scripts, open(os.path.join(d, "cov.json"), "w"))
        s = run_exec(ctx, ["trie", os.path.join(d, "cov.json"), os.path.join(d, "cov.ndjson")])
        if s.get("nondeterministic"):
            raise Broken("re-execution of a prefix gave a different observation (coverage): %s" % s)
        rej, visited, lines = judge_tree(ctx, os.path.join(d, "cov.ndjson"), "cov-" + tag, workers=3)
        return tag, g, len(scripts), max(len(p) for p in paths) - 1, lines, rej, s
    for tag, g, n, longest, lines, rej, s in parallel(one, insts, n=2):
        ctx.cov["tlc_runs"].append({"module": "GenC19Cov", "cfg": "GenC19Cov.cfg (%s)" % tag, "generated": g.generated, "distinct": g.distinct,
                                    "depth": g.depth, "wall_s": round(g.wall, 1), "result": "ok",
                                    "label": "coverage-directed generation: one history per edge of I's state graph"})
        ctx.log("model-graph coverage (%s): %d model states, %d transitions -> %d histories (longest %d events), %d recorded nodes, %d rejected" % (
            tag, g.distinct, g.generated, n, longest, lines, len(rej)))
        ctx.cov["evaluations"] += s["executions"]
        ctx.cov["model_transitions_covered"] = ctx.cov.get("model_transitions_covered", 0) + n
        if not rej:
            ctx.cov["traces_validated_against_impl"] += n


def req(dest, attempts, provider="ok"):
    final = "ok"
    for a in attempts:
        if a in ("err", "raise"):
            final = "gwerr"
            break
        if a == "appexc":
            final = "appexc"
            break
        if a == "ok":
            break
    return {"ev": "req", "dest": dest, "attempts": list(attempts), "provider": provider, "final": final}


HOOK_ALPHABET = [{"ev": "ask"}, {"ev": "adv", "d": 1},
                 req("pub", ["ok"]), req("pub", ["err"]), req("pub", ["raise"], "raise"),
                 req("pub", ["retry", "ok"]), req("pub", ["retry", "err"]), req("pub", ["appexc"]),
                 req("pub", ["ok"], "raise"), req("excl", [], "ok"), req("excl", [], "raise"), req("int", [], "raise")]


def rand_hook_script(rng, thorough):
    n, c = rng.choice([1, 2, 2, 3, 4]), rng.choice([1, 2, 3, 5])
    unit = rng.choice([1, 8])
    cfg = {"N": n, "C": c, "unit": unit, "phase": rng.randrange(unit), "level": "hook"}
    c *= unit
    evs, mood = [], "fail"
    for _ in range(rng.randint(25, 50 if not thorough else 80)):
        if rng.random() < 0.15:
            mood = rng.choice(["fail", "fail", "ok", "mixed", "wait"])
        x = rng.random()
        if mood == "wait" or x < 0.2:
            evs.append({"ev": "adv", "d": rng.choice([1, max(1, c - 1), c, c, c + 1, 2 * c, max(1, unit // 2)])})
            if mood == "wait" and rng.random() < 0.5:
                mood = "mixed"
        elif x < 0.27:
            evs.append({"ev": "ask"})
        else:
            prov = "raise" if rng.random() < 0.25 else "ok"
            if rng.random() < 0.2:
                evs.append(req(rng.choice(["excl", "int"]), [], prov))
                continue
            pre = ["retry"] * rng.choice([0, 0, 0, 1, 1, 2])
            last = {"fail": rng.choice(["err", "err", "raise", "raise", "ok", "appexc"]), "ok": rng.choice(["ok", "ok", "ok", "err"]),
                    "mixed": rng.choice(["ok", "err", "raise", "appexc"]), "wait": "ok"}[mood]
            e = req("pub", pre + [last], prov)
            if last == "err":
                e["errname"] = rng.choice(["x-lunar-error", "X-Lunar-Error", "X-LUNAR-ERROR"])
            evs.append(e)
    return {"config": cfg, "events": evs}


def part_hooks(ctx):
    """the property at the level of hooks/requests.py: the real RequestsHook + FailSafe + TrafficFilter over a scripted transport
    (gateway attempts: ok / error response / retry sequence / connection error / foreign exception; provider: ok / raises),
    every request sequence up to a depth and seeded random histories, judged by FailSafeHookTrace."""
    T = ctx.thorough
    small = [dict(c, level="hook") for c in CONFIGS if c["N"] <= 2 and c["C"] <= 2]
    d = ctx.sub("hooks")
    core = [HOOK_ALPHABET[i] for i in (0, 1, 2, 3, 4, 6, 7, 10)]
    specs = [("all3", {"configs": small, "depth": 3 if not T else 4, "alphabet": HOOK_ALPHABET}),
             ("core4", {"configs": small[:2] if not T else small, "depth": 4 if not T else 5, "alphabet": core})]
    for tag, spec in specs:
        json.dump(spec, open(os.path.join(d, "spec.json"), "w"))
        s = run_exec(ctx, ["tree", os.path.join(d, "spec.json"), os.path.join(d, "tree.ndjson")])
        if s.get("nondeterministic"):
            raise Broken("hook level: re-execution of a prefix gave a different observation: %s" % s)
        rej, _, lines = judge_tree(ctx, os.path.join(d, "tree.ndjson"), "hooktree-" + tag, workers=3, module="FailSafeHookTrace")
        nodes = read_ndjson(os.path.join(d, "tree.ndjson"))
        leaves, nontriv = leaf_stats(nodes)
        ctx.log("hook level tree %s: %d nodes, %d request histories (%d open+recover), %d executions, %d rejected nodes" % (
            tag, lines, leaves, nontriv, s["executions"], len(rej)))
        ctx.cov["evaluations"] += s["executions"]
        if not rej:
            ctx.cov["traces_validated_against_impl"] += leaves
            ctx.cov["distinct_nontrivial"] += nontriv
        os.remove(os.path.join(d, "tree.ndjson"))
    rs = [rand_hook_script(ctx.rng, T) for _ in range(150 if not T else 2000)]
    json.dump(rs, open(os.path.join(d, "rand.json"), "w"))
    s2 = run_exec(ctx, ["scripts", os.path.join(d, "rand.json"), os.path.join(d, "rand.ndjson")])
    rej, _, lines = judge_tree(ctx, os.path.join(d, "rand.ndjson"), "hookrand", workers=2, module="FailSafeHookTrace")
    nodes = read_ndjson(os.path.join(d, "rand.ndjson"))
    leaves, nontriv = leaf_stats(nodes)
    ctx.log("hook level: %d random request histories (%d events), %d with open+recover, %d rejected nodes" % (len(rs), s2["executions"], nontriv, len(rej)))
    ctx.cov["evaluations"] += s2["executions"]
    ctx.sample({"kind": "hook-request", "node": {k: v for k, v in next(n for n in nodes if n["ev"] == "req" and n["gw"] > 1).items() if k != "k"}}, limit=4)
    if not rej:
        ctx.cov["traces_validated_against_impl"] += leaves
        ctx.cov["distinct_nontrivial"] += nontriv


def judge_filter(ctx, trace_path, tag):
    wd = workdir(ctx, "filter-" + tag)
    shutil.copy(trace_path, os.path.join(wd, "trace.ndjson"))
    r = ctx.tlc(wd, "TrafficFilterTrace", "TrafficFilterTrace.cfg", workers=1, timeout=900, count=False, heap="6g")
    import re
    m = re.search(r'<<"FILTER-JUDGED", (\d+), (\d+), (\d+)>>', r.out)
    if not r.ok or not m:
        raise Broken("filter judgement %s failed to run: %r\n%s" % (tag, r, r.out[-2500:]))
    total, constrained, nbad = int(m.group(1)), int(m.group(2)), int(m.group(3))
    seg = r.out[r.out.index('"FILTER-BAD"'):]
    seg = seg[:seg.index(">>")]
    bad = sorted(int(x) for x in re.findall(r"\b(\d+)\b", seg))
    if len(bad) != nbad:
        raise Broken("filter judgement %s: cannot parse the rejected set (%d vs %d)" % (tag, len(bad), nbad))
    os.remove(os.path.join(wd, "trace.ndjson"))
    return total, constrained, bad


def witness_filter(c):
    if c["res"] not in ("yes", "no"):
        cls = "filter-decision-raises"
    else:
        cls = "filter-routes-excluded-destination"
    items = c["allow"] + c["block"]
    syntax = "plain"
    if any(x["raw"] != x["raw"].strip() or x["raw"] == "" for x in items):
        syntax = "blank-or-empty-item"
    elif any(x["raw"] != x["low"] for x in items) or c["host"] != c["hlow"]:
        syntax = "letter-case"
    return {"class": cls, "host": c["host"], "host_kind": c["kind"], "resolution": c["rsv"], "exception": c.get("exc", ""),
            "allow": [x["raw"] for x in c["allow"]], "block": [x["raw"] for x in c["block"]], "header": c["header"], "res": c["res"],
            "list_syntax": syntax}


def run_filter(ctx, spec, tag):
    d = ctx.sub("filter-" + tag)
    sp, tp = os.path.join(d, "cases.json"), os.path.join(d, "cases.ndjson")
    json.dump(spec, open(sp, "w"))
    s = run_exec(ctx, ["filter", sp, tp])
    total, constrained, bad = judge_filter(ctx, tp, tag)
    return s, total, constrained, bad, tp


def part_filter(ctx, space):
    T = ctx.thorough
    lists = space["lists"]
    cfgs = [{"allow": a, "block": b} for a in lists for b in lists]
    hosts = list(space["hosts"])
    # seeded random destinations beyond the enumerated pool: IPv4 literals around the range boundaries and names resolving to them
    def rnd_ip():
        a = ctx.rng.choice([10, 127, 172, 172, 192, 192, 9, 11, 126, 128, 171, 173, 191, 193, ctx.rng.randint(1, 223)])
        b = ctx.rng.choice([15, 16, 31, 32, 167, 168, 169, ctx.rng.randint(0, 255)])
        return [a, b, ctx.rng.randint(0, 255), ctx.rng.randint(1, 254)]
    rnd = []
    for i in range(12 if not T else 60):
        ip = rnd_ip()
        h = ".".join(map(str, ip))
        rnd.append({"h": h, "hlow": h, "hcanon": h, "kind": "ip4", "ip": ip, "ip6": [], "rsv": "literal"})
        # the same IPv4 address as an IPv4-mapped IPv6 literal, in the dotted or the hexadecimal spelling, upper or lower case
        g = [0, 0, 0, 0, 0, 0xffff, ip[0] * 256 + ip[1], ip[2] * 256 + ip[3]]
        h6 = ctx.rng.choice(["::ffff:%d.%d.%d.%d" % tuple(ip), "::ffff:%x:%x" % (g[6], g[7]), "0:0:0:0:0:ffff:%x:%x" % (g[6], g[7])])
        if ctx.rng.random() < 0.3:
            h6 = h6.upper()
        rnd.append({"h": h6, "hlow": h6.lower(), "hcanon": h6.lower(), "kind": "ip6", "ip": [], "ip6": g, "rsv": "literal"})
        # other IPv6 values: unique local, link local, global unicast
        g = [ctx.rng.choice([0xfc00, 0xfd00 + ctx.rng.randrange(256), 0xfdff, 0xfe80, 0xfebf, 0xfe00, 0xfec0, 0x2001, 0x2a00 + ctx.rng.randrange(256)])] + \
            [ctx.rng.randrange(65536) for _ in range(6)] + [ctx.rng.randrange(1, 65536)]
        if g[0] == 0x2001:
            g[1] = 0x4860          # keep clear of the special-purpose blocks inside 2001::/23 and 2001:db8::/32
        h6 = ":".join("%x" % x for x in g)
        rnd.append({"h": h6, "hlow": h6, "hcanon": h6, "kind": "ip6", "ip": [], "ip6": g, "rsv": "literal"})
        ip = rnd_ip()
        h = "h%d.rand.test" % i
        rnd.append({"h": h, "hlow": h, "hcanon": h, "kind": "name", "ip": ip, "ip6": [], "rsv": "ok"})
    if not T:
        keep = [c for c in cfgs if len(c["allow"]) + len(c["block"]) <= 1]          # every single-item configuration
        rest = [c for c in cfgs if len(c["allow"]) + len(c["block"]) > 1]
        runs = [("main", keep + ctx.rng.sample(rest, 150), hosts + rnd)]
    else:
        rest = [c for c in cfgs if len(c["allow"]) + len(c["block"]) > 1]
        # TLC builds the judged sets explicitly (limit 10^6 elements): the space is judged in slices
        per = max(1, 400000 // (len(hosts) * len(space["headers"]) * 2))
        runs = [("main%d" % k, cfgs[i:i + per], hosts) for k, i in enumerate(range(0, len(cfgs), per))]
        runs.append(("rand", ctx.rng.sample(rest, 250), rnd))
    tp = None

    def exec_one(r):
        tag, cf, hs = r
        return run_filter(ctx, {"hosts": hs, "headers": space["headers"], "configs": cf, "rounds": 2}, tag)
    results = parallel(exec_one, runs, n=4)
    for (tag, cf, hs), (s, total, constrained, bad, tp1) in zip(runs, results):
        tp = tp or tp1
        ctx.log("filter %s: %d decisions of the real TrafficFilter judged by TrafficFilterP (%d with a routing prohibition), %d not permitted" % (
            tag, total, constrained, len(bad)))
        ctx.cov["evaluations"] += total
        ctx.cov["filter_cases"] = ctx.cov.get("filter_cases", 0) + total
        if bad:
            lines = read_ndjson(tp1)
            seen = {}
            for b in bad:
                c = lines[b - 1]
                w = witness_filter(c)
                key = (w["class"], w["host_kind"], w["resolution"], w["exception"], w["list_syntax"])
                if key in seen or len(seen) >= 6:
                    continue
                seen[key] = 1
                # reproduce on a fresh filter, alone
                one = {"hosts": [h for h in hs if h["h"] == c["host"]][:1], "headers": [c["header"]],
                       "configs": [{"allow": c["allow"], "block": c["block"]}], "rounds": 1}
                s2, t2, _, bad2, _ = run_filter(ctx, one, "repro")
                if not bad2:
                    raise Broken("filter rejection not reproduced: %s" % json.dumps(w))
                ctx.violation(w, {"kind": "filter", "case": one, "recorded": c})
        else:
            ctx.cov["traces_validated_against_impl"] += total
            ctx.cov["distinct_nontrivial"] += constrained
    ctx.sample({"kind": "filter-decision", "case": {"allow": [x["raw"] for x in runs[0][1][-1]["allow"]],
                                                    "block": [x["raw"] for x in runs[0][1][-1]["block"]], "host": hosts[1]["h"]}})
    return tp


def part_selftest(ctx, rand_trace, filter_trace):
    """binding demonstration: a corrupted / truncated recording must be rejected."""
    nodes = read_ndjson(rand_trace)
    d = ctx.sub("selftest")
    # (a) flip the answer of one read that was answered FALSE (breaker open) to TRUE
    k = next(i for i, n in enumerate(nodes) if n["ev"] == "ask" and not n["ans"])
    bad = [dict(n) for n in nodes]
    bad[k]["ans"] = True
    p = os.path.join(d, "flip.ndjson")
    open(p, "w").write("".join(json.dumps(n, separators=(",", ":")) + "\n" for n in bad))
    r1, _, _ = validate_tree(ctx, p, "self1", workers=2)
    # (b) drop one gateway failure that preceded a trip: splice the node out of its chain
    k2 = next(i for i, n in enumerate(nodes) if n["ev"] == "call" and n["out"] == "gwerr" and n["read"] and n["ans"] and n["k"] and
              nodes[n["k"][0] - 1]["ev"] in ("ask", "call") and not nodes[n["k"][0] - 1]["ans"] and nodes[n["k"][0] - 1].get("read", True))
    bad = [dict(n) for n in nodes]
    par = next(i for i, n in enumerate(bad) if (k2 + 1) in n["k"])
    bad[par]["k"] = [c if c != k2 + 1 else bad[k2]["k"][0] for c in bad[par]["k"]]
    bad[k2]["k"] = []
    p = os.path.join(d, "drop.ndjson")
    open(p, "w").write("".join(json.dumps(n, separators=(",", ":")) + "\n" for n in bad))
    r2, _, _ = validate_tree(ctx, p, "self2", workers=2)
    # (c) filter: a decision for a block-listed destination turned into "yes"
    fl = read_ndjson(filter_trace)
    k3 = next(i for i, c in enumerate(fl) if c.get("ev") == "case" and c["host"] in [x["raw"] for x in c["block"]] and not c["allow"] and c["header"] == "absent"
              and c["res"] == "no")
    fl[k3]["res"] = "yes"
    p = os.path.join(d, "filter.ndjson")
    open(p, "w").write("".join(json.dumps(n, separators=(",", ":")) + "\n" for n in fl))
    _, _, b3 = judge_filter(ctx, p, "self3")
    if not r1 or not r2 or (k3 + 1) not in b3:
        raise Broken("self-test: corrupted recording accepted (flip=%s drop=%s filter=%s)" % (bool(r1), bool(r2), (k3 + 1) in b3))
    ctx.notes.append("self-test: flipped answer rejected at node %s, dropped failure rejected at node %s, corrupted filter decision rejected" % (r1[:1], r2[:1]))


def run(ctx):
    T = ctx.thorough
    ctx.cov["rule"] = ("fail-safe: every event sequence over the alphabets (ask, clock advance, call succeeding / failing on the gateway / raising an "
                       "application exception [+ filter-skipped calls, three gateway error kinds, three application exception kinds, outcomes of "
                       "legs already in flight]) up to the stated depth for N, C in 1..3, as one recorded tree per run, + TLC walks + seeded random "
                       "long histories incl. the default configuration; a history is non-trivial when the breaker opened (a read answered FALSE) "
                       "and a later read answered TRUE again. filter: decisions over the TLC-enumerated space (lists of <=2 items incl. blank-padded / empty / upper-case items x 50 "
                       "destinations x 5 header values x 2 rounds through the result cache) + seeded random addresses; non-trivial = TrafficFilterP "
                       "forbids routing for the case (counted by TLC)")
    ctx.cov["checker_cmd"] = ("tlc -config MC_small.cfg MC_C19.tla ; tlc -config FailSafeTrace.cfg FailSafeTrace.tla ; "
                              "tlc -config MC_filter.cfg MC_C19Filter.tla ; tlc -config TrafficFilterTrace.cfg TrafficFilterTrace.tla")
    ctx.cov["trusted_base"] = ["TLC 1.8", "CommunityModules Json", "CPython 3.11", "py/c19_exec.py (module loading by path with stub packages; "
                               "patched fail_safe.time and traffic_filter.gethostbyname; stub exception classes standing in for requests/aiohttp "
                               "connection errors registered through FailSafe.handle_on as the hooks do)"]
    ctx.assumptions += ["one FailSafe object is driven by one thread at a time (calls already in flight are modelled as outcome reports without a read)",
                        "1 tick = 1 s, integer clock", "the resolver is a fixed table per run (no DNS changes between decisions)",
                        "the repository's own Python tests cannot run in this sandbox (requests/aiohttp/freezegun/pytest-asyncio not installed)"]
    space = part_model(ctx)
    part_trees(ctx)
    part_coverage(ctx)
    part_hooks(ctx)
    rand_trace = part_walks(ctx)
    filter_trace = part_filter(ctx, space)
    if T:
        part_selftest(ctx, rand_trace, filter_trace)


def replay(ctx, path):
    obj = json.load(open(path))
    rp = obj["replay"]
    d = ctx.sub("replay")
    if rp["kind"] == "failsafe":
        json.dump([rp["script"]], open(os.path.join(d, "s.json"), "w"))
        run_exec(ctx, ["scripts", os.path.join(d, "s.json"), os.path.join(d, "t.ndjson")])
        for n in read_ndjson(os.path.join(d, "t.ndjson"))[1:]:
            print(json.dumps({k: v for k, v in n.items() if k != "k"}))
        rej, _, _ = validate_tree(ctx, os.path.join(d, "t.ndjson"), "replay", workers=1, module=rp.get("module", "FailSafeTrace"))
        if rej:
            print("VIOLATION property=C19 replay=%s" % path)
            print("   observation at event %d is not permitted by FailSafeRel" % (rej[0] - 2))
            return 1
    else:
        s, total, constrained, bad, tp = run_filter(ctx, rp["case"], "replay")
        for n in read_ndjson(tp)[1:]:
            print(json.dumps(n))
        if bad:
            print("VIOLATION property=C19 replay=%s" % path)
            print("   decision %d is not permitted by TrafficFilterP" % (bad[0] - 1))
            return 1
    print("replay accepted by the specification")
    return 0
