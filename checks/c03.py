"""C03 - a flow runs for a transaction exactly when its own filter accepts it.

spec:     specs/c03_filter_select  FilterP (property: three-valued Verdict per flow, Correct / OrderIndependent /
          PassThrough), FilterTreeI (URL trie insert / lookup / traversal + filter-node qualification), MC_C03
          (bounded instances), GenC03 (case generation), FilterTrace (trace validation: verdict + model drift)
binding:  harness/cmd/c03  (a) tree level: streamfilter.NewFilterTree + AddFlow in every chosen load order + GetFlow
                           (b) engine level: YAML flows -> streams.NewValidationStream(dir).Initialize() (several builds,
                               Go's map order supplies load orders) + ExecuteFlow; selection observed through
                               GetFlowInvocations() deltas (requests) and the proc.exec hook (responses)
"""
import itertools, json, os, re
from vlib import Broken, read_ndjson, write_ndjson, parallel

SPEC = "c03_filter_select"
HOSTS = [["h", "com"], ["api", "h", "com"]]


# ------------------------------------------------------------------------------------------------ case construction
def named(flows):
    return [dict(f, name="f%d" % (i + 1), ans=f.get("ans", 0)) for i, f in enumerate(flows)]


def all_orders(n, rng=None, limit=6):
    perms = [list(p) for p in itertools.permutations(range(1, n + 1))]
    if len(perms) > limit:
        first = perms[0]
        perms = [first, list(reversed(first))] + rng.sample(perms[1:-1], limit - 2)
    return perms


def case_of(flows, txns, rng=None):
    return {"flows": named(flows), "orders": all_orders(len(flows), rng), "txns": txns, "builds": 4}


def shape_sample(rng, cfgs, n):
    """coverage-directed sample of the generated space: one configuration per trie shape of the implementation model
    (GenC03!Shape), the rest of the budget uniformly."""
    groups = {}
    for c in cfgs:
        groups.setdefault(json.dumps(sorted(c["shape"])), []).append(c)
    picked = [rng.choice(groups[k]) for k in sorted(groups)]
    if len(picked) > n:
        picked = rng.sample(picked, n)
    ids = {id(c) for c in picked}
    rest = [c for c in cfgs if id(c) not in ids]
    return picked + rng.sample(rest, max(0, min(len(rest), n - len(picked))))


# -- seeded random configurations beyond the exhaustive bounds (code -> spec)
LITS = ["a", "b", "c", "v1"]
PN = ["p", "q", "r", "x"]
METHODS = ["GET", "POST", "PUT", "DELETE", "PATCH", "HEAD", "OPTIONS", "PROPFIND"]
HKEYS = [("X-Key", "x-key"), ("X-Other", "x-other")]
HVALS = ["v1", "v2", "V1", "V2", "tok", "Tok", "zz"]


def rand_pattern(rng, pool):
    usable = [b for b in pool if b[0] != ["*"]]
    if usable and rng.random() < 0.45:        # overlap with an existing pattern: same prefix, other ending
        base = rng.choice(usable)
        host, path = base[0], [s for s in base[1] if s != "*"]
        if path and rng.random() < 0.5:
            path = path[:-1]
    else:
        host, path = rng.choice(HOSTS[:1] * 3 + HOSTS[1:]), []
        if rng.random() < 0.04:
            return [["*"], []]
    n = rng.choice([0, 1, 1, 2])
    for _ in range(n):
        if len(path) >= 4:
            break
        i = len(path)
        path = path + [rng.choice(LITS[:3] + ["{%s}" % PN[i]] * 2)]
    # parameters are named by position (one name per trie position, as the insert requires)
    path = [("{%s}" % PN[i] if s.startswith("{") else s) for i, s in enumerate(path)]
    if rng.random() < 0.3 and len(path) < 4:
        path = path + ["*"]
    return [host, path]


def rand_flow(rng, pool, sys_ok=True):
    pat = rand_pattern(rng, pool)
    pool.append(pat)
    f = {"pat": pat, "m": [], "h": [], "q": [], "s": [], "typ": "user"}
    if rng.random() < 0.4:
        f["m"] = sorted(rng.sample(METHODS[:6], rng.choice([1, 1, 2])))
    if rng.random() < 0.3:
        k = rng.choice(HKEYS)[0]
        f["h"] = [[k, v] for v in sorted(rng.sample(HVALS[:2] + ["tok"], rng.choice([1, 1, 2])))]
        if rng.random() < 0.2:
            f["h"].append(["X-Other", "v1"])
    if rng.random() < 0.25:
        f["q"] = [["k", rng.choice(["1", "2"])]] + ([["j", "1"]] if rng.random() < 0.2 else [])
    if rng.random() < 0.25:
        f["s"] = sorted(rng.sample([200, 404, 500], rng.choice([1, 2])))
    if sys_ok and rng.random() < 0.15:
        f["typ"] = rng.choice(["sysStart", "sysEnd"])
    return f


def rand_txns(rng, flows, n):
    out = []
    for _ in range(n):
        f = rng.choice(flows)
        host, path = f["pat"]
        if host == ["*"]:
            host = rng.choice(HOSTS)
        path = [rng.choice(LITS) if s.startswith("{") else s for s in path]
        if path and path[-1] == "*":
            path = path[:-1] + [rng.choice(LITS) for _ in range(rng.choice([0, 1, 1, 2]))]
        x = rng.random()
        if x < 0.15 and path:
            path = path[:-1]                                   # missing trailing segment
        elif x < 0.30:
            path = path + [rng.choice(LITS)]                   # extra trailing segment
        elif x < 0.38 and path:
            path = path[:-1] + [rng.choice(LITS)]              # other last segment
        elif x < 0.42:
            host = rng.choice([["g", "com"], host + ["x"], host[1:] or ["com"]])
        elif x < 0.45 and len(host) > 1:
            host, path = host[:-1], [host[-1]] + path          # last host label moved into the path
        url = [host, path]
        meth = rng.choice(f["m"]) if f["m"] and rng.random() < 0.6 else rng.choice(METHODS)
        if rng.random() < 0.35:
            st = rng.choice(f["s"]) if f["s"] and rng.random() < 0.6 else rng.choice([200, 404, 500])
            out.append({"side": "resp", "url": url, "method": meth, "hdr": [], "qry": [], "status": st})
            continue
        hdr, qry = [], []
        if f["h"] and rng.random() < 0.7:
            k, v = rng.choice(f["h"])
            hdr.append([k.lower(), v if rng.random() < 0.6 else rng.choice(HVALS)])
        elif rng.random() < 0.3:
            hdr.append(["x-key", rng.choice(HVALS)])
        if rng.random() < 0.2 and not any(h[0] == "x-other" for h in hdr):
            hdr.append(["x-other", rng.choice(["v1", "v2"])])
        if f["q"] and rng.random() < 0.7:
            qry = [[k, v if rng.random() < 0.7 else "9"] for k, v in f["q"]]
        elif rng.random() < 0.25:
            qry = [["k", rng.choice(["1", "2"])]]
        out.append({"side": "req", "url": url, "method": meth, "hdr": hdr, "qry": qry, "status": 0})
    return out


def rand_case(rng, maxflows, ntx, sys_ok=True):
    pool, flows = [], []
    for _ in range(rng.randint(2, maxflows)):
        flows.append(rand_flow(rng, pool, sys_ok))
    return case_of(flows, rand_txns(rng, flows, ntx), rng)


# -- requests answered inside the gateway (early response): one flow of the configuration answers, the flows are looked up
#    again for the generated response - the other flows carry status / header / query / method constraints
def early_case(rng, flows, txns):
    flows = [dict(f, typ="user") for f in flows]
    base = rng.choice(flows)
    ans = {"pat": base["pat"], "m": [], "h": [], "q": [], "s": [], "typ": "user", "ans": rng.choice([200, 403, 500, 503])}
    x = rng.random()
    if x < 0.25:
        ans["m"] = ["GET"]
    elif x < 0.4 and base["pat"][1] and base["pat"][1][-1] != "*":
        ans["pat"] = [base["pat"][0], base["pat"][1] + ["*"]] if rng.random() < 0.5 else [base["pat"][0], base["pat"][1][:-1] + ["*"]]
    # a sibling that asks for the very status the gateway generates, and one that asks for another one
    if rng.random() < 0.5:
        flows.append({"pat": base["pat"], "m": [], "h": [], "q": [], "s": [ans["ans"]], "typ": "user"})
    if rng.random() < 0.5:
        flows.append({"pat": base["pat"], "m": [], "h": [], "q": [], "s": [404, 502], "typ": "user"})
    pos = rng.randrange(len(flows) + 1)
    flows = flows[:pos] + [ans] + flows[pos:]
    return dict(case_of(flows, [t for t in txns if t["side"] == "req"], rng), builds=6)


# -- quota resources: the engine generates one system flow per distinct quota filter; configurations of 2-3 quotas whose
#    filters differ in exactly one component (or in none), next to user flows
def vary(rng, f):
    g = json.loads(json.dumps(f))
    comp = rng.choice(["m", "m", "h", "q", "s", "url", "none"])
    if comp == "m":
        g["m"] = rng.choice([["POST"], ["GET", "HEAD"], ["PUT", "POST"]]) if f["m"] else ["GET"]
        if g["m"] == f["m"]:
            g["m"] = ["DELETE"]
    elif comp == "h":
        g["h"] = [["X-Key", "v2"]] if f["h"] else [["X-Key", "v1"]]
    elif comp == "q":
        g["q"] = [["k", "2"]] if f["q"] else [["k", "1"]]
    elif comp == "s":
        g["s"] = [200] if f["s"] else [500, 503]
    elif comp == "url":
        host, path = f["pat"]
        body = [s for s in path if s != "*"]
        opts = [body + ["*"]] if path == body else [body]
        if body:
            last = "b" if body[-1] != "b" else "a"
            opts += [body[:-1] + [last], body[:-1] + ["{%s}" % PN[len(body) - 1]]]
        g["pat"] = [host, rng.choice([o for o in opts if o != path] or [path + ["c"]])]
    return g


def quota_case(rng, ntx):
    pool = []
    base = rand_flow(rng, pool, sys_ok=False)
    base["s"] = [] if rng.random() < 0.8 else base["s"]
    if base["pat"][0] == ["*"]:
        base["pat"] = [HOSTS[0], ["a"]]
    qs = [base]
    for _ in range(rng.choice([1, 1, 2])):
        qs.append(vary(rng, rng.choice(qs)))
    flows = [dict(q, typ="quota") for q in qs]
    for _ in range(rng.choice([0, 1, 1])):
        flows.append(dict(vary(rng, rng.choice(qs)), typ="user"))
    c = case_of(flows, rand_txns(rng, flows, ntx), rng)
    for i, f in enumerate(c["flows"]):
        if f["typ"] == "quota":
            f["name"] = "q%d" % (i + 1)
    return dict(c, builds=3)


# ------------------------------------------------------------------------------------------------ execution / judging
def execute(ctx, binary, mode, cases, tag):
    d = ctx.sub("run-" + tag)
    cp, out = os.path.join(d, "cases.json"), os.path.join(d, "trace.ndjson")
    json.dump(cases, open(cp, "w"))
    args = [mode, cp, out] + ([ctx.sub("engine-" + tag)] if mode == "engine" else [])
    ctx.run_harness(binary, args, timeout=900)
    return read_ndjson(out)


def split_cases(events):
    """[(reset_event, [x events])] of one recorded trace"""
    out = []
    for e in events[1:]:
        if e["ev"] == "reset":
            out.append((e, []))
        else:
            out[-1][1].append(e)
    return out


LINE = re.compile(r'^<<"(REJ|DRIFT|NT)", (\d+)(?:, "(.*)")?>>$')


def tlc_judge(ctx, events, tag, cfg="FilterTrace.cfg"):
    """one TLC pass over a recorded trace.  Returns dict line -> info for rejected / drifting / non-trivial events."""
    sd = ctx.spec_dir(SPEC)
    wd = os.path.join(ctx.scratch, "tv-%s" % tag)
    if not os.path.isdir(wd):
        import shutil
        shutil.copytree(sd, wd)
    p = os.path.join(wd, "trace.ndjson")
    write_ndjson(p, events)
    ok, hwm, r = ctx.tlc_trace(wd, "FilterTrace", p, cfg=cfg, timeout=1200)
    if not ok or hwm != len(events):
        raise Broken("trace validation did not consume the trace (%s): hwm=%s of %d %r\n%s" % (tag, hwm, len(events), r, r.out[-2000:]))
    rej, drift, nt = {}, {}, set()
    for line in r.out.splitlines():
        m = LINE.match(line)
        if not m:
            continue
        k, n, js = m.group(1), int(m.group(2)), m.group(3)
        if k == "NT":
            nt.add(n)
        else:
            info = json.loads(js.replace('\\"', '"').replace("\\\\", "\\"))
            (rej if k == "REJ" else drift)[n] = info
    return rej, drift, nt


def chunks(cases_events, nmax):
    """split [(reset,[x...])] into traces of about nmax events"""
    cur, n, out = [], 0, []
    for rs, xs in cases_events:
        cur.append((rs, xs))
        n += 1 + len(xs)
        if n >= nmax:
            out.append(cur)
            cur, n = [], 0
    if cur:
        out.append(cur)
    return out


def flatten(ch, mode):
    ev = [{"ev": "config", "mode": mode}]
    index = []                       # line number (1-based) -> (reset, x)
    for rs, xs in ch:
        ev.append(rs)
        index.append(None)
        for x in xs:
            ev.append(x)
            index.append((rs, x))
    return ev, index


def witness_of(mode, rs, x, info):
    verd = dict((n, v) for n, v in info["verdicts"])
    sels = x["sels"]
    early = [e for e in x.get("early", []) if e.get("st", 0) > 0]
    ran_no = sorted({n for s in sels for n in s if verd.get(n) == "no"})
    miss_yes = sorted({n for n, v in verd.items() if v == "yes" and any(n not in s for s in sels)})
    if early:
        # request answered inside the gateway: the flows behind the answering one are not started (not a C03 matter);
        # what is judged is the second lookup, for the generated response
        everd = dict((n, v) for n, v in info.get("everdicts", []))
        miss_yes = sorted({n for n, v in everd.items() if v == "yes" and any(n not in e["rsel"] for e in early)})
        ran_no = sorted(set(ran_no) | {n for e in early for n in e["rsel"] if everd.get(n) == "no"})
    if ran_no:
        cls = "ran-although-filter-not-satisfied"
    elif miss_yes:
        cls = "not-run-although-filter-satisfied"
    elif not info["orderind"]:
        cls = "selection-depends-on-load-order"
    elif not info["passthrough"]:
        cls = "actions-on-unmatched-transaction"
    elif not info.get("zone", True):
        cls = "open-zone-decided-differently-for-one-url"
    else:
        cls = "selected-unknown-flow"
    return {"class": cls, "level": mode, "txn": x["x"], "sels": sels, "verdicts": info["verdicts"],
            "after_early_response": bool(early), "early": x.get("early", []), "everdicts": info.get("everdicts", []),
            "quotas": sorted(f["name"] for f in rs["flows"] if f["typ"] == "quota"),
            "ran_unsatisfied": ran_no, "missed_satisfied": miss_yes, "order_dependent": not info["orderind"],
            "flows": [{k: f[k] for k in ("name", "pat", "m", "h", "q", "s", "typ", "ans")} for f in rs["flows"]]}


class Judge:
    def __init__(self, ctx, binary):
        import threading
        self.ctx, self.binary, self.lock = ctx, binary, threading.Lock()
        self.seen, self.reported, self.drift, self.unreproduced = set(), {}, 0, []

    def run(self, mode, cases, tag, nmax=30000):
        ctx = self.ctx
        events = execute(ctx, self.binary, mode, cases, tag)
        ce = split_cases(events)
        if len(ce) != len(cases):
            raise Broken("harness answered %d cases of %d" % (len(ce), len(cases)))
        chs = chunks(ce, nmax)

        def one(it):
            i, ch = it
            ev, index = flatten(ch, mode)
            return index, tlc_judge(ctx, ev, "%s-%d" % (tag, i))
        nrej = nnt = nearly = nq = 0
        for index, (rej, drift, nt) in parallel(one, list(enumerate(chs)), n=2):
            nnt += len(nt)
            for item in index:
                if item is not None:
                    nearly += any(e.get("st", 0) > 0 and len(e["rsel"]) > 0 for e in item[1].get("early", []))
                    nq += any(f["typ"] == "quota" and any(f["name"] in sl for sl in item[1]["sels"]) for f in item[0]["flows"])
            for ln, item in enumerate(index, start=2):
                if item is None:
                    continue
                rs, x = item
                ctx.cov["evaluations"] += max(1, len(x["sels"]))
                if ln not in rej:
                    ctx.cov["traces_validated_against_impl"] += 1
                if ln in nt:
                    key = json.dumps([rs["flows"], x["x"]], sort_keys=True)
                    if key not in self.seen:
                        self.seen.add(key)
                        ctx.cov["distinct_nontrivial"] += 1
            self.drift += len(drift)
            if drift and len(ctx.notes) < 6:
                ln = sorted(drift)[0]
                ctx.notes.append("MODEL-DRIFT (%s): real %s model %s for %s" % (
                    tag, index[ln - 2][1]["sels"], drift[ln]["model"], json.dumps(index[ln - 2][1]["x"])))
            for ln in sorted(rej):
                rs, x = index[ln - 2]
                nrej += 1
                with self.lock:
                    self.report(mode, rs, x, rej[ln], cases)
        if ce:
            rs, xs = ce[len(ce) // 2]
            if xs:
                ctx.sample({"kind": "%s-level case (%s)" % (mode, tag), "flows": [
                    {"name": f["name"], "url": ".".join(f["pat"][0]) + "".join("/" + s for s in f["pat"][1]),
                     "m": f["m"], "h": f["h"], "q": f["q"], "s": f["s"], "typ": f["typ"]} for f in rs["flows"]],
                    "orders": rs["orders"], "txn": xs[len(xs) // 2]["x"], "selected_per_order": xs[len(xs) // 2]["sels"]})
        ctx.log("%s: %d cases, %d events judged by FilterTrace, %d rejected (%d non-trivial, %d answered early, %d with a quota selected)" % (
            tag, len(cases), sum(len(x) for _, x in ce), nrej, nnt, nearly, nq))
        # non-vacuity of the directed jobs
        if tag == "early" and nearly < 20:
            raise Broken("early-response job: only %d requests were answered inside the gateway" % nearly)
        if tag == "quota" and (nq < 20 or nnt < 20):
            raise Broken("quota job: only %d events selected a quota / %d non-trivial" % (nq, nnt))
        return nrej

    def report(self, mode, rs, x, info, cases):
        """a rejected event: reproduce it on the real code (same case alone), judged again by the spec, then report."""
        ctx = self.ctx
        w = witness_of(mode, rs, x, info)
        if self.reported.get(w["class"], 0) >= 4:     # enough witnesses of one class; the rest is counted only
            self.reported[w["class"]] += 1
            return
        single = {"flows": rs["flows"], "orders": rs["orders"], "txns": [x["x"]], "builds": 8}
        reproduced = None
        for attempt in range(1 if mode == "tree" else 20):
            ev = execute(ctx, self.binary, mode, [single], "repro")
            rej, _, _ = tlc_judge(ctx, ev, "repro")
            if rej:
                reproduced = (ev, rej)
                break
        if not reproduced:
            # not reproducible from the transaction alone: the selection may depend on the lookups made before it on the
            # same tree (state carried between transactions) - re-run the whole originating case, same order of transactions
            whole = next((c for c in cases if c.get("flows") == rs["flows"] and c.get("orders") == rs["orders"]), None)
            if whole is not None:
                for attempt in range(1 if mode == "tree" else 20):
                    ev = execute(ctx, self.binary, mode, [whole], "repro")
                    rej, _, _ = tlc_judge(ctx, ev, "repro")
                    if rej:
                        reproduced = (ev, rej)
                        single = whole
                        w["history_dependent"] = True
                        break
        if not reproduced:
            # decided at the end of the run: exit 2 only when no rejection at all could be reproduced
            self.unreproduced.append("rejection not reproduced (%s level): %s" % (mode, json.dumps(w)[:1500]))
            return
        self.reported[w["class"]] = self.reported.get(w["class"], 0) + 1
        ctx.violation(w, {"mode": mode, "case": single, "trace": reproduced[0]})


# ------------------------------------------------------------------------------------------------ the check
MC_BASE = {"SymLits": "<- SymA", "MaxPath": "2", "NFlowsA": "0", "MaxFlows": "3", "FlowDomain": "<- FlowsA", "TxnDomain": "<- TxnsA",
           "KF_NodeReq": "FALSE", "LookupMode": '"exact"', "KF_EndTest": "FALSE", "KF_WildNew": "TRUE", "KF_WildHost": "FALSE"}


def write_cfg(sd, name, over, gen=None):
    c = dict(MC_BASE)
    c.update(over)
    lines = ["CONSTANTS"]
    for k, v in c.items():
        lines.append("  %s %s" % (k, v if v.startswith("<-") else "= " + v))
    if gen:
        for k, v in gen.items():
            lines.append("  %s %s" % (k, v if v.startswith("<-") else "= " + v))
        lines += ["SPECIFICATION GSpec", "CHECK_DEADLOCK FALSE"]
    else:
        lines += ["SPECIFICATION ISpec", "INVARIANTS InvCorrect InvOrder InvBuild Witnesses", "CHECK_DEADLOCK FALSE"]
    open(os.path.join(sd, name), "w").write("\n".join(lines) + "\n")
    return name


WITNESSES = ["must-run", "must-not-run", "Z1-wildcard-faces-nothing", "Z2-shadowed", "Z3-not-observable-on-this-side",
             "Z4-header-value-case", "Z5-method-outside-default-set", "extra-trailing-segment", "missing-trailing-segment",
             "two-flows-selected", "nothing-selected", "two-flows-on-one-node", "one-of-two-on-a-node-selected"]
SPACE_B = {"SymLits": "<- SymNone", "MaxPath": "1", "FlowDomain": "<- FlowsB1", "TxnDomain": "<- TxnsB", "MaxFlows": "2"}


def phase1(ctx, sd):
    """exhaustive I => Correct /\\ OrderIndependent on the bounded instances, the non-vacuity variants (every deviation of
    the code as found, now repaired, must be refuted by the same check) and the case generation, side by side."""
    T = ctx.thorough
    SPACE_C = dict(SPACE_B, MaxFlows="3", FlowDomain="<- FlowsC", TxnDomain="<- TxnsC")
    runs = [("A: patterns <=2 segments, <=3 flows", {}), ("B: constraints, <=2 flows", SPACE_B),
            ("C: overlapping patterns x constraints, <=3 flows", SPACE_C)]
    if T:
        runs.append(("A: patterns <=3 segments, <=2 flows", {"MaxPath": "3", "MaxFlows": "2"}))
        runs.append(("D: patterns <=3 segments over one literal, <=3 flows",
                     dict(SPACE_B, MaxFlows="3", FlowDomain="<- FlowsD", TxnDomain="<- TxnsD")))
        runs.append(("B: constraints, user flows, <=3 flows", dict(SPACE_B, MaxFlows="3", FlowDomain="<- FlowsB1U")))
    broken = [("O7 node-level requirement copy", dict(SPACE_B, KF_NodeReq="TRUE")),
              ("O8 AddFlow through the old Lookup", {"LookupMode": '"old"'}),
              ("AddFlow through the request-style Lookup (wildcard sibling replaced)", {"LookupMode": '"new"'}),
              ("O9 end-of-URL test", {"KF_EndTest": "TRUE"}),
              ("path wildcard collected while host labels are consumed", {"KF_WildHost": "TRUE"})]
    tasks = [("ex", i, r) for i, r in enumerate(runs)] + [("nv", i, r) for i, r in enumerate(broken)] + [("gen", 0, "A"), ("gen", 1, "B")]

    def one(t):
        kind, i, it = t
        if kind == "ex":
            label, over = it
            cfg = write_cfg(sd, "MC_run%d.cfg" % i, over)
            return ctx.tlc_exhaustive(sd, "MC_C03", cfg, workers=(8 if T else 4), timeout=1500,
                                      label="I=>Correct/\\OrderIndependent " + label)
        if kind == "nv":
            label, over = it
            cfg = write_cfg(sd, "MC_nv%d.cfg" % i, over)
            r = ctx.tlc(sd, "MC_C03", cfg, workers=2, timeout=900, label="non-vacuity: %s must be refuted" % label)
            if r.violated is None:
                raise Broken("model cannot tell '%s' from the property (vacuous check): %r" % (label, r))
            return r
        if it == "A":
            return generate(ctx, sd, "A", {}, {"GenFlows": "<- FlowsA", "GenTxns": "<- TxnsA", "GenMaxFlows": "3"})
        return generate(ctx, sd, "B", {"MaxPath": "1"}, {"GenFlows": "<- FlowsB1", "GenTxns": "<- TxnsB", "GenMaxFlows": "2"})
    res = parallel(one, tasks, n=4)
    ctx.log("non-vacuity: %d deviating variants of I refuted" % len(broken))
    # non-vacuity of the instances themselves: every verdict, every open zone and the multi-flow situations were reached
    seen = set()
    for r in res[:len(runs)]:
        seen |= set(re.findall(r'"WITNESS ([^"]+)"', r.out))
    missing = [w for w in WITNESSES if w not in seen]
    if missing:
        raise Broken("bounded instances never reach: %s (vacuous exhaustive check)" % ", ".join(missing))
    ctx.notes.append("witnesses reached by the exhaustive runs: " + ", ".join(sorted(seen)))
    return res[-2], res[-1]


def generate(ctx, sd, name, over, gen):
    cfg = write_cfg(sd, "Gen_%s_run.cfg" % name, over, gen=dict(gen, GenOut='"gen_%s.json"' % name))
    r = ctx.tlc(sd, "GenC03", cfg, workers=1, timeout=900, label="case generation " + name, count=False)
    p = os.path.join(sd, "gen_%s.json" % name)
    if not os.path.exists(p) or "GEN" not in r.out:
        raise Broken("case generation %s failed: %r\n%s" % (name, r, r.out[-1500:]))
    return json.load(open(p))


def run(ctx):
    T = ctx.thorough
    binary = ctx.build_harness("c03")
    sd = ctx.spec_dir(SPEC)
    ctx.cov["rule"] = ("case = (set of flow filters, load orders, one transaction); the real filter tree is built once per load "
                       "order (tree level: every permutation, engine level: 4 engine builds) and must select the same flows each "
                       "time; a case is non-trivial when the spec decides MustRun for some flow and MustNotRun for another "
                       "(FilterP!NonTrivial, printed by the trace spec); distinct by (flows, transaction)")
    ctx.cov["checker_cmd"] = "tlc -config MC_A_quick.cfg MC_C03.tla ; tlc -config MC_B_quick.cfg MC_C03.tla ; tlc -config MC_C_quick.cfg MC_C03.tla ; tlc -config FilterTrace.cfg FilterTrace.tla"
    ctx.cov["trusted_base"] = ["TLC 1.8", "CommunityModules Json/SequencesExt", "Go toolchain",
                               "harness/cmd/c03 projection (names of the flows returned by GetFlow; GetFlowInvocations deltas; proc.exec hook events)",
                               "rendering host labels / path segments to URL strings"]
    ctx.assumptions += [
        "URLs and patterns are canonical (no trailing slash, no empty segment); one parameter name per trie position",
        "open zones of the statement are 'either' in FilterP: wildcard facing zero segments (Z1), satisfied but shadowed by a more "
        "specific literal pattern (Z2), constraints not observable on that side of the transaction (Z3), header value differing only "
        "by case (Z4), no method constraint vs. a method outside the nine standard methods of Filter.GetSupportedMethods (Z5)",
        "sample_percentage and expression filters are not covered",
    ]
    judge = Judge(ctx, binary)

    # (1) exhaustive: I => Correct /\ OrderIndependent on the bounded instances + non-vacuity; case generation
    genA, genB = phase1(ctx, sd)

    # (2) spec -> code: the bounded input space enumerated by TLC, every permutation as load order, replayed
    total = 0
    jobs = []
    for name, g, nq in (("A", genA, 400), ("B", genB, 200)):
        cfgs = sorted(g["configs"], key=lambda c: json.dumps(c, sort_keys=True))
        total += len(cfgs)
        shapes = len({json.dumps(sorted(c["shape"])) for c in cfgs})
        if not T:
            cfgs = shape_sample(ctx.rng, cfgs, nq)
        ctx.notes.append("space %s: %d configurations, %d trie shapes of the implementation model; %d replayed covering %d shapes" % (
            name, len(g["configs"]), shapes, len(cfgs), len({json.dumps(sorted(c["shape"])) for c in cfgs})))
        cases = [case_of(c["fl"], g["txns"]) for c in cfgs]
        jobs.append(("tree", cases, "gen" + name))
        # the same space through the whole engine (YAML -> Initialize -> ExecuteFlow), a seeded sample (user flows only:
        # system flows are not loaded from flow files)
        ecases = [c for c in cases if all(f["typ"] == "user" for f in c["flows"])]
        jobs.append(("engine", ctx.rng.sample(ecases, min(len(ecases), 40 if not T else 300)), "eng" + name))
    ctx.cov["exhaustive"] = bool(T)
    ctx.notes.append("generated input space: %d flow multisets (A: patterns, B: constraints); %s replayed at tree level" % (
        total, "all" if T else "a seeded sample"))

    # (3) code -> spec: seeded random configurations beyond the exhaustive bounds, tree and engine level
    n, ntx = (150, 40) if not T else (1500, 60)
    rcases = [rand_case(ctx.rng, 5 if not T else 6, ntx) for _ in range(n)]
    jobs.append(("tree", rcases, "rand"))
    jobs.append(("engine", [dict(c, flows=[dict(f, typ="user") for f in c["flows"]]) for c in rcases[: (40 if not T else 300)]],
                 "rand-engine"))
    # (3b) engine level only: requests answered inside the gateway next to flows with status / header / query / method
    #      constraints (the flows are looked up a second time, for the generated response), and the system flows the
    #      engine generates from quota resources whose filters differ in one component
    bu = [c["fl"] for c in genB["configs"] if all(f["typ"] == "user" for f in c["fl"])]
    reqB = [t for t in genB["txns"] if t["side"] == "req"]
    ne, nq = (40, 60) if not T else (300, 400)
    ecases = [early_case(ctx.rng, ctx.rng.choice(bu), reqB) for _ in range(ne)]
    ecases += [early_case(ctx.rng, c["flows"], c["txns"]) for c in rcases[: ne]]
    jobs.append(("engine", ecases, "early"))
    jobs.append(("engine", [quota_case(ctx.rng, 30) for _ in range(nq)], "quota"))
    parallel(lambda j: judge.run(*j), jobs, n=(4 if not T else 3))

    if judge.drift:
        ctx.cov["model_drift"] = True
        ctx.notes.append("%d events on which the real code differs from FilterTreeI (property judged by FilterP only)" % judge.drift)

    if judge.unreproduced:
        if not ctx.violations and not ctx.known_hits:
            raise Broken(judge.unreproduced[0])
        ctx.notes.append("%d further rejections could not be reproduced on a re-run (first: %s)" % (len(judge.unreproduced), judge.unreproduced[0][:300]))

    # (4) binding self-test (thorough): corrupted recordings must be rejected by the trace spec
    if T:
        selftest(ctx, binary)


def selftest(ctx, binary):
    H = ["h", "com"]
    fl = lambda path, **kw: dict({"pat": [H, path], "m": [], "h": [], "q": [], "s": [], "typ": "user"}, **kw)
    rq = lambda path, m="GET": {"side": "req", "url": [H, path], "method": m, "hdr": [], "qry": [], "status": 0}
    case = case_of([fl(["a"]), fl(["a"], m=["POST"]), fl(["b", "*"])], [rq(["a"]), rq(["b", "c"], "POST")])
    ev = execute(ctx, binary, "tree", [case], "selftest")
    rej, drift, _ = tlc_judge(ctx, ev, "selftest0")
    if rej or drift:
        raise Broken("self-test: the uncorrupted recording is rejected: %s %s" % (rej, drift))
    results = []
    # (a) one recorded field corrupted: a flow that must not run added to one selection / a flow that must run removed
    bad = json.loads(json.dumps(ev))
    bad[2]["sels"][0] = sorted(bad[2]["sels"][0] + ["f2"])
    results.append(("must-not flow added", tlc_judge(ctx, bad, "selftest1")[0]))
    bad = json.loads(json.dumps(ev))
    bad[2]["sels"][1] = [n for n in bad[2]["sels"][1] if n != "f1"]
    results.append(("must-run flow removed under one order", tlc_judge(ctx, bad, "selftest2")[0]))
    # (b) the configuration event altered (a filter dropped from the record): the selections no longer fit it
    bad = json.loads(json.dumps(ev))
    bad[1]["flows"][0]["pat"] = [H, ["zz"]]
    results.append(("recorded filter altered", tlc_judge(ctx, bad, "selftest3")[0]))
    # (c) model side: the recording is validated against the code-as-found variant of I and must show drift
    bad = json.loads(json.dumps(ev))
    results.append(("as-found model vs repaired code", tlc_judge(ctx, [bad[0],
                    {"ev": "reset", "flows": named([fl(["a"])]), "orders": [[1]]},
                    {"ev": "x", "x": rq(["a", "b"]), "sels": [[]], "nact": -1, "early": []}], "selftest4", cfg="FilterTrace_asfound.cfg")[1]))
    # (d) an open zone decided differently for the same URL on the two sides of a transaction
    z = [ev[0], {"ev": "reset", "flows": named([fl(["a", "*"])]), "orders": [[1]]},
         {"ev": "x", "x": rq(["a"]), "sels": [["f1"]], "nact": -1, "early": []},
         {"ev": "x", "x": {"side": "resp", "url": [H, ["a"]], "method": "GET", "hdr": [], "qry": [], "status": 200},
          "sels": [[]], "nact": -1, "early": []}]
    zr = tlc_judge(ctx, z, "selftest5")[0]
    results.append(("open zone decided differently on request and response", zr if any(not i.get("zone", True) for i in zr.values()) else {}))
    for label, r in results:
        if not r:
            raise Broken("self-test: '%s' was accepted by the trace specification" % label)
    ctx.notes.append("self-test: %s -> all rejected / flagged" % ", ".join(l for l, _ in results))


def replay(ctx, path):
    obj = json.load(open(path))
    binary = ctx.build_harness("c03")
    rp = obj["replay"]
    # engine level: the load order comes from Go's map iteration, so a load-order dependent case may need several engine builds
    for attempt in range(1 if rp["mode"] == "tree" else 20):
        ev = execute(ctx, binary, rp["mode"], [rp["case"]], "replay")
        rej, drift, _ = tlc_judge(ctx, ev, "replay")
        if rej:
            break
    for e in ev:
        print(json.dumps(e))
    if rej:
        ln = sorted(rej)[0]
        print("VIOLATION property=C03 replay=%s" % path)
        print("   rejected event %d: selections %s, spec verdicts %s" % (ln, json.dumps(ev[ln - 1]["sels"]), json.dumps(rej[ln]["verdicts"])))
        return 1
    print("replay accepted by the specification")
    return 0
