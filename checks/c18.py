"""C18 - concurrent transactions do not corrupt or share engine state (clauses decidable by this technique:
each transaction's result is explained by some one-at-a-time order; see DESIGN.md §6 for the data-race clause).

spec:     specs/c18_engine_concurrency  EngineSeqP (sequential semantics), EngineLinTrace (linearizability search),
          EngineCtxI / MC_C18 (interleaving model of the request path over the engine's shared objects)
binding:  harness/cmd/c18 runs goroutines doing requests / responses / proxy errors / metric reads against one real engine
"""
import json, os
import re
from vlib import Broken, read_ndjson, validate_history_trace, parallel, split_histories, tlc_vh_lines

SPEC = "c18_engine_concurrency"

QUOTAS = """quotas:
  - id: fw
    filter:
      url: api.test/fw
    strategy:
      fixed_window:
        max: %(M)d
        interval: %(W)d
        interval_unit: second
        group_by_header: x-group
  - id: cq
    filter:
      url: api.test/cq
    strategy:
      concurrent:
        max_request_count: %(C)d
        request_expiration_sec: 3600
        gc_interval_sec: 30
"""

FLOW = """name: flow_%(q)s
filter:
  url: api.test/%(q)s
processors:
  Limiter_%(q)s:
    processor: Limiter
    parameters:
      - key: quota_id
        value: %(q)s
  TooMany_%(q)s:
    processor: GenerateResponse
    parameters:
      - key: status
        value: 429
      - key: body
        value: Too Many Requests
      - key: Content-Type
        value: text/plain
flow:
  request:
    - from:
        stream:
          name: globalStream
          at: start
      to:
        processor:
          name: Limiter_%(q)s
    - from:
        processor:
          name: Limiter_%(q)s
          condition: above_limit
      to:
        processor:
          name: TooMany_%(q)s
    - from:
        processor:
          name: Limiter_%(q)s
          condition: below_limit
      to:
        stream:
          name: globalStream
          at: end
  response:
    - from:
        processor:
          name: TooMany_%(q)s
      to:
        stream:
          name: globalStream
          at: end
"""


# host sel.test: three flows on sel.test/* (each one metrics processor) and one answering flow each on sel.test/a, sel.test/b
SELW = """name: W%(i)d
filter:
  url: sel.test/*
processors:
  PW%(i)d:
    processor: UserDefinedMetrics
    parameters:
      - key: metric_name
        value: w%(i)d
  RW%(i)d:
    processor: UserDefinedMetrics
    parameters:
      - key: metric_name
        value: rw%(i)d
flow:
  request:
    - from:
        stream:
          name: globalStream
          at: start
      to:
        processor:
          name: PW%(i)d
    - from:
        processor:
          name: PW%(i)d
      to:
        stream:
          name: globalStream
          at: end
  response:
    - from:
        stream:
          name: globalStream
          at: start
      to:
        processor:
          name: RW%(i)d
    - from:
        processor:
          name: RW%(i)d
      to:
        stream:
          name: globalStream
          at: end
"""

SELG = """name: G%(n)s
filter:
  url: sel.test/%(n)s
processors:
  MG%(n)s:
    processor: UserDefinedMetrics
    parameters:
      - key: metric_name
        value: mg%(n)s
  PG%(n)s:
    processor: GenerateResponse
    parameters:
      - key: status
        value: %(st)d
      - key: body
        value: %(n)s
      - key: Content-Type
        value: text/plain
flow:
  request:
    - from:
        stream:
          name: globalStream
          at: start
      to:
        processor:
          name: MG%(n)s
    - from:
        processor:
          name: MG%(n)s
      to:
        processor:
          name: PG%(n)s
  response:
    - from:
        processor:
          name: PG%(n)s
      to:
        stream:
          name: globalStream
          at: end
"""

SEL_URLS = ["sel.test/a", "sel.test/b", "sel.test/c"]


def files_of(cfg):
    f = {"quotas/quotas.yaml": QUOTAS % cfg, "flows/flow_fw.yaml": FLOW % {"q": "fw"}, "flows/flow_cq.yaml": FLOW % {"q": "cq"}}
    for i in (1, 2, 3):
        f["flows/w%d.yaml" % i] = SELW % {"i": i}
    f["flows/ga.yaml"] = SELG % {"n": "a", "st": 201}
    f["flows/gb.yaml"] = SELG % {"n": "b", "st": 202}
    return f


def rand_history(rng, cfg, nthreads, oplen):
    """threads of operations; transactions of the concurrency quota are requested and (mostly) ended by the same thread,
    some are ended by another thread, some are abandoned."""
    # every URL of sel.test is first requested on its own (the sequential reference), then concurrently
    h = [{"ev": "reset"}, {"ev": "conc", "threads": [[{"op": "reqsel", "url": u} for u in SEL_URLS]]}]
    tcount = 0
    for rnd in range(rng.randint(1, 3)):
        threads = []
        for t in range(nthreads):
            ops = []
            open_txn = []
            for _ in range(oplen):
                x = rng.random()
                if x < 0.25:
                    ops.append({"op": "reqfw", "g": rng.choice(["g0", "g0", "g1"])})
                elif x < 0.45:
                    ops.append({"op": "reqsel", "url": rng.choice(SEL_URLS)})
                elif x < 0.68:
                    tcount += 1
                    txn = "t%d" % tcount
                    ops.append({"op": "reqcq", "txn": txn})
                    open_txn.append(txn)
                elif x < 0.85 and open_txn:
                    ops.append({"op": "endcq", "txn": open_txn.pop(rng.randrange(len(open_txn))), "how": rng.choice(["resp", "resp", "err"])})
                else:
                    ops.append({"op": rng.choice(["metrics", "scrape"])})   # flow-invocation counters / used-quota gauges
            threads.append(ops)
        h.append({"ev": "conc", "threads": threads})
    return h


def storm_history(rng, cfg, n):
    """n simultaneous requests on one quota from a fresh engine, then metric reads."""
    which = rng.choice(["reqfw", "reqcq"])
    threads = [[{"op": which, "txn": "s%d" % i}] if which == "reqcq" else [{"op": which, "g": "g0"}] for i in range(n)]
    return [{"ev": "reset"}, {"ev": "conc", "threads": threads}, {"ev": "conc", "threads": [[{"op": "metrics"}]]}]


def batch_storms(rng, nstorms, n):
    """one engine, many storms in compact form: n simultaneous FIRST requests of a fresh group of the fixed-window quota
    (first use of the per-group state) alternating with n simultaneous requests at the concurrency quota's limit."""
    h = [{"ev": "reset"}]
    for i in range(nstorms):
        # two simultaneous first requests of a fresh group are the most likely to overlap in the first-use path
        h.append({"ev": "fwstorm", "g": "s%d" % i, "n": 2 if i % 4 else n})
        h.append({"ev": "cqstorm", "n": n})
    return h


def sel_storm_history(rng, rounds, nthreads):
    """many concurrent transactions to the overlapping-flow host, after the sequential reference"""
    h = [{"ev": "reset"}, {"ev": "conc", "threads": [[{"op": "reqsel", "url": u} for u in SEL_URLS]]}]
    for r in range(rounds):
        h.append({"ev": "conc", "threads": [[{"op": "reqsel", "url": rng.choice(SEL_URLS)} for _ in range(3)] for _ in range(nthreads)]})
    return h


class EngineCrash(Exception):
    pass


def execute(ctx, binary, scripts, tag, crash_ok=False):
    d = ctx.sub("run-" + tag)
    sp = os.path.join(d, "scripts.json")
    json.dump(scripts, open(sp, "w"))
    p = ctx.run_harness(binary, ["run", sp, d], timeout=900, check=False)
    if p.returncode != 0:
        m = re.search(r"(fatal error: [^\n]*|panic: [^\n]*)", p.stderr)
        if m and p.returncode != 3:      # 3 = the harness's own Die()
            raise EngineCrash(m.group(1))
        raise Broken("harness failed rc=%d: %s" % (p.returncode, p.stderr[-3000:]))
    return [read_ndjson(os.path.join(d, "trace-%03d.ndjson" % i)) for i in range(len(scripts))]


def run_observing_crashes(ctx, binary, scripts, tag):
    """the engine process dying (Go runtime fatal error / panic in engine code) while handling concurrent transactions is itself
    an observation: no operation of the history got an answer. Reported as a violation once it happens again on a re-run."""
    try:
        return execute(ctx, binary, scripts, tag)
    except EngineCrash as c:
        msg = str(c)
        for attempt in range(5):
            try:
                execute(ctx, binary, scripts, tag + "-recrash")
            except EngineCrash as c2:
                ctx.violation({"class": "engine-process-crashed", "message": str(c2)[:200]},
                              {"scripts": scripts, "first_message": msg, "schedule_dependent": True, "crash": True})
                return None
        raise Broken("engine crash not reproduced in 5 runs: %s" % msg)


def script_of(cfg, hists):
    return {"config": {"M": cfg["M"], "C": cfg["C"], "W": cfg["W"]}, "files": files_of(cfg), "histories": hists}


def overlap(hist):
    """max number of simultaneously pending operations in a recorded history"""
    cur = best = 0
    for e in hist:
        if e["ev"] == "begin":
            cur += 1
            best = max(best, cur)
        elif e["ev"] == "end":
            cur -= 1
    return best


def witness_of(rej):
    h, at = rej["hist"], rej["at"]
    e = h[min(at, len(h) - 1)]
    ops = sorted({x.get("op") for x in h if x["ev"] == "begin"})
    return {"class": "no-sequential-order-explains-results", "event": e, "ops_in_history": ops,
            "invariant": rej.get("invariant"), "overlap": overlap(h)}


def sched_of(hist, scheds, trace):
    """the schedule that produced a recorded history (histories are recorded in the order of the schedules)"""
    cfg, hs = split_histories(trace)
    for i, h in enumerate(hs):
        if h == hist:
            return scheds[i]
    raise Broken("cannot map a rejected history back to its schedule")


def restart_between(steps, w=10):
    """bookkeeping for the witness (not an oracle): the largest number of window restarts, caused by other requests' Inc,
    that fell between some request's own Inc and Allowed steps - as a bucket "0" | "1" | "2+"."""
    now, start, restarts_at = 0, None, []
    for k, st in enumerate(steps):
        if st[0] == "tick":
            now += w
        elif st[0] == "inc":
            if start is None or now - start >= w:
                start = now
                restarts_at.append(k)
    worst = 0
    for a, st in enumerate(steps):
        if st[0] == "inc":
            end = next((k for k in range(a + 1, len(steps)) if steps[k][0] == "allowed" and steps[k][1] == st[1]), len(steps))
            worst = max(worst, sum(1 for k in restarts_at if a < k < end))
    return "0" if worst == 0 else "1" if worst == 1 else "2+"


def history_script(sc, trace, hist):
    """the script history that produced a recorded history (histories are recorded in script order)"""
    cfg, hs = split_histories(trace)
    for i, h in enumerate(hs):
        if h == hist and i < len(sc["histories"]):
            return sc["histories"][i]
    return None


def script_of_copies(sc, hist_script, n):
    return {"config": sc["config"], "files": sc["files"], "histories": [hist_script] * n}


def judge(ctx, binary, scripts, traces, tag):
    def one(it):
        i, ev = it
        return validate_history_trace(ctx, SPEC, "EngineLinTrace", ev, tag="%s%d" % (tag, i), deque=True, timeout=900)
    res = parallel(one, list(enumerate(traces)), n=6)
    for (acc, rejected, rounds), ev, sc in zip(res, traces, scripts):
        cfg, hs = split_histories(ev)
        ctx.cov["traces_validated_against_impl"] += acc
        for h in hs:
            ctx.cov["evaluations"] += sum(e.get("n", 1) for e in h if e["ev"] in ("begin", "fwbatch", "cqbatch"))
            if overlap(h) >= 2 and any(e.get("out") == "refuse" for e in h):
                ctx.cov["distinct_nontrivial"] += 1
        for rej in rejected:
            w = witness_of(rej)
            # schedule-dependent: reproduce by re-running first the rejected history alone (many copies of it in one
            # script), then the whole originating script, until the spec rejects again
            reproduced = None
            hist_script = history_script(sc, ev, rej["hist"])
            ncopies = max(1, min(40, 3000 // max(1, sum(1 + 3 * len(x.get("threads", [])) for x in (hist_script or [])))))
            attempts = ([script_of_copies(sc, hist_script, ncopies)] * 4 if hist_script else []) + [sc] * 2
            for sc_try in attempts:
                t2 = execute(ctx, binary, [sc_try], "%s-repro" % tag)[0]
                a2, r2, _ = validate_history_trace(ctx, SPEC, "EngineLinTrace", t2, tag="%s-repro" % tag, deque=True, max_rounds=1, timeout=900)
                if r2:
                    reproduced = r2[0]
                    sc = sc_try
                    break
            if reproduced is None:
                # The recorded history is real (invocation stamped before the call, return after it) and TLC found no
                # sequential explanation: reported even though the schedule did not come back in the re-runs.
                w["reproduced"] = False
                ctx.violation(w, {"script": sc, "trace": [rej["config"]] + rej["hist"], "rejected_at": rej["at"],
                                  "schedule_dependent": True})
            else:
                w2 = witness_of(reproduced)
                w2["reproduced"] = True
                ctx.violation(w2, {"script": sc, "trace": [reproduced["config"]] + reproduced["hist"],
                                   "rejected_at": reproduced["at"], "schedule_dependent": True})
            break      # one witness per script is enough


# ---------------------------------------------------------------------------------------------------------------------
# BEGIN stage "spoe-handler" (harness/cmd/c18h): the same kinds of scripts, but every request / response is a SPOE message
# handled by the real top-level routing.Handler(dm) of a HandlingDataManager in flows mode (per-message state of the handler,
# metric manager, active-stream pointer are then part of what concurrent transactions share); judged by the same
# linearizability search.  Witnesses carry "level": "spoe-handler", replay files "harness": "c18h".
def spoe_stage(ctx):
    import random, time
    t0 = time.time()
    T = ctx.thorough
    binary = ctx.build_harness("c18h")
    rng = random.Random(ctx.seed * 7919 + 18)          # own stream: the other stages' random choices stay what they were
    scripts = []
    for s in range(1 if not T else 3):
        cfg = {"M": rng.choice([1, 2, 3]), "C": rng.choice([1, 2, 3]), "W": 3600}
        hs = []
        for i in range(24 if not T else 80):
            if i % 4 == 3:
                hs.append(storm_history(rng, cfg, rng.randint(4, 7)))
            else:
                hs.append(rand_history(rng, cfg, rng.randint(2, 4), rng.randint(2, 4)))
        scripts.append(script_of(cfg, hs))
    for k in range(1 if not T else 3):
        cfg = {"M": rng.choice([1, 2]), "C": rng.choice([1, 2]), "W": 3600}
        scripts.append(script_of(cfg, [batch_storms(rng, 1500 if not T else 8000, 8)] +
                                 [sel_storm_history(rng, 20 if not T else 100, 4)]))
    traces = None
    for attempt in range(3):
        try:
            traces = run_observing_crashes(ctx, binary, scripts, "spoe")
            break
        except Broken as b:
            if "port clash" not in str(b) or attempt == 2:
                raise
    if traces is None:
        return
    orig = ctx.violation
    def tagged(w, rp):
        return orig(dict(w, level="spoe-handler"), dict(rp, harness="c18h"))
    ctx.violation = tagged
    try:
        judge(ctx, binary, scripts, traces, "spoe")
    finally:
        ctx.violation = orig
    ctx.notes.append("spoe-handler stage: %d histories through routing.Handler, %d operations, %.0f s" % (
        sum(len(split_histories(t)[1]) for t in traces),
        sum(e.get("n", 1) for t in traces for e in t if e.get("ev") in ("begin", "fwbatch", "cqbatch")), time.time() - t0))
    ctx.log("spoe-handler stage done in %.1fs" % (time.time() - t0))
# END stage "spoe-handler"
# ---------------------------------------------------------------------------------------------------------------------


def swap_stage(ctx, replay_obj=None, path=None):
    """(2e) "while ... policies are being swapped": transactions' policy lookups (request side, response side) overlapping
    updates of the policies - calls held at the yield points inside GetTxnPoliciesData / UpdatePoliciesData while updates /
    lookups run, overlapping updates.  The sequential meaning of the accessor is C11's property specification (PinP: the
    request and the response of a transaction are handled with the same policies version while it is retained); the
    executor is C11's (harness/cmd/c11), the histories are its random ones with the held-call transformation applied to
    every eligible pair, judged by PinTrace."""
    import c11
    T = ctx.thorough
    binary = ctx.build_harness("c11")

    def rejected_of(trace, tag):
        _, rej, _ = validate_history_trace(ctx, c11.SPEC, "PinTrace", trace, tag=tag, max_rounds=4)
        return rej

    if replay_obj is not None:
        for attempt in range(5):
            t = c11.execute(ctx, binary, replay_obj["script"], "replay")[0]
            rej = rejected_of(t, "replay")
            if rej:
                print(json.dumps(c11.witness_of(rej[0])))
                print("VIOLATION property=C18 replay=%s" % path)
                return 1
        print("re-execution (5 runs of the script) accepted by the specification")
        return 0

    scripts = []
    for i in range(2 if not T else 8):
        hs = []
        for _ in range(12 if not T else 30):
            h = c11.rand_history(ctx.rng, T)
            for _ in range(3):                 # gapify turns each eligible pair into a held call with probability 1/2
                h = c11.gapify(ctx.rng, h)
            hs.append(h)
        scripts.append({"histories": hs})
    traces = c11.execute(ctx, binary, scripts, "swap")
    held = 0
    for ti, ev in enumerate(traces):
        _, hs = split_histories(ev)
        held += sum(1 for h in hs for e in h if "cs" in e or "gap" in e)
        rej = rejected_of(ev, "swap%d" % ti)
        ctx.cov["traces_validated_against_impl"] += len(hs) - len(rej)
        ctx.cov["evaluations"] += sum(1 for h in hs for e in h if e.get("ev") in ("lookup", "update"))
        for r in rej:
            w = c11.witness_of(r)
            w["level"] = "policy-swap"
            j = next(k for k, h in enumerate(hs) if h == r["hist"])
            script = [{"histories": [scripts[ti]["histories"][j]]}]
            t2 = c11.execute(ctx, binary, script, "swap-repro")[0]
            r2 = rejected_of(t2, "swap-repro")
            if not r2:
                raise Broken("policy-swap rejection not reproduced: %s" % json.dumps(w)[:400])
            ctx.violation(w, {"stage": "swap", "script": script, "trace": [r["config"]] + r["hist"], "rejected_at": r["at"]})
    if held == 0:
        raise Broken("policy-swap stage: no call was held at a yield point")
    ctx.notes.append("policy-swap stage: %d histories, %d held calls / overlapping updates" % (sum(len(s["histories"]) for s in scripts), held))


def vacuum_stage(ctx, replay_obj=None, path=None):
    """(2d) toolkit-core's MapVacuum (anchored state "vacuum entry list"): registrations from several goroutines while the
    background pass runs.  Model: VacuumI (one action per critical section; writing the snapshot back is refuted).  Real code:
    harness/cmd/c18v uses the real MapVacuum the way concurrency.Limiter does and records registrations, clock moves, passes
    and probes of the map; VacuumTrace / VacuumP judge them (nothing removed early, no registration ever forgotten)."""
    T = ctx.thorough
    binary = ctx.build_harness("c18v")
    sd = ctx.spec_dir(SPEC)

    def record(script, tag):
        d = ctx.sub("run-" + tag)
        sp = os.path.join(d, "scripts.json")
        json.dump([script], open(sp, "w"))
        ctx.run_harness(binary, ["run", sp, d])
        return read_ndjson(os.path.join(d, "trace-000.ndjson"))

    def rejected_of(trace, tag):
        acc, rej, _ = validate_history_trace(ctx, SPEC, "VacuumTrace", trace, tag=tag, max_rounds=3)
        return acc, rej

    def witness(rej):
        e = rej["hist"][rej["at"]]
        known = set()
        for x in rej["hist"][: rej["at"]]:
            if x["ev"] == "regs":
                known |= set(x["keys"])
        return {"class": "vacuum-probe-not-allowed-by-spec", "level": "map-vacuum", "event": {"ev": e["ev"], "keys_in_map": len(e.get("keys", [])),
                "first_keys": e.get("keys", [])[:5]}, "registered_before": len(known), "concurrent": True}

    if replay_obj is not None:
        for attempt in range(10):
            t = record(replay_obj["script"], "replay")
            _, rej = rejected_of(t, "replay")
            if rej:
                print(json.dumps(witness(rej[0])))
                print("VIOLATION property=C18 replay=%s" % path)
                return 1
        print("re-execution (10 runs of the script) accepted by the specification")
        return 0

    ctx.tlc_exhaustive(sd, "VacuumI", "MC_Vacuum.cfg", timeout=300, label="MapVacuum as written: no registration forgotten, nothing removed early")
    r = ctx.tlc(sd, "VacuumI", "MC_Vacuum_snapback.cfg", timeout=300, label="non-vacuity: a pass that writes its snapshot of the entry list back must be refuted")
    if r.violated is None:
        raise Broken("vacuum model cannot tell a forgotten registration from the property: %r" % r)

    nhist = 6 if not T else 40
    overlapped = 0
    for i in range(nhist):
        ttl, tick = ctx.rng.choice([(2000, 500), (2000, 500), (1000, 500), (30000, 10000), (600, 200)])
        h = [{"ev": "reset"}]
        for s in range(ctx.rng.randint(2, 4)):
            h.append({"ev": "regstorm", "g": ctx.rng.randint(2, 8), "per": 200, "advs": ctx.rng.randint(3, 12)})
            if ctx.rng.random() < 0.6:
                h.append({"ev": "probe"})
            if ctx.rng.random() < 0.3:
                h.append({"ev": "adv", "d": tick * ctx.rng.randint(1, 3)})
                h.append({"ev": "probe"})
        # drain: the clock passes the last deadline, the pass after the next move has read it
        h += [{"ev": "adv", "d": ttl + tick}, {"ev": "probe"}, {"ev": "adv", "d": tick}, {"ev": "probe"}, {"ev": "adv", "d": tick}, {"ev": "probe"}]
        script = {"config": {"Ttl": ttl, "Tick": tick}, "histories": [h]}
        t = record(script, "vac%d" % i)
        if i == 0:
            ctx.sample({"kind": "recorded-vacuum-history", "events": [dict(e, keys=e["keys"][:4]) if "keys" in e else e for e in t[:14]]})
        seen_regs = False
        for e in t:                       # a pass that removed something before the storm's registrations were over
            if e["ev"] == "regs":
                seen_regs = True
            if e["ev"] == "pass" and e["removed"] > 0:
                overlapped += 1
        acc, rej = rejected_of(t, "vac%d" % i)
        ctx.cov["traces_validated_against_impl"] += acc
        ctx.cov["evaluations"] += sum(len(e["keys"]) for e in t if e["ev"] == "regs")
        ctx.cov["distinct_nontrivial"] += 1
        if rej:
            reproduced = None
            for attempt in range(8):
                t2 = record(script, "vac%d-repro" % i)
                _, r2 = rejected_of(t2, "vac%d-repro" % i)
                if r2:
                    reproduced = r2[0]
                    break
            w = witness(reproduced or rej[0])
            if not reproduced:
                w["reproduced"] = False     # schedule-dependent; the recorded history itself is the evidence
            rj = reproduced or rej[0]
            ctx.violation(w, {"stage": "vacuum", "script": script, "trace": [rj["config"]] + rj["hist"], "rejected_at": rj["at"],
                              "schedule_dependent": True})
    if overlapped == 0:
        raise Broken("vacuum stage: no pass removed anything in %d histories (registrations never overlapped a working pass)" % nhist)
    ctx.notes.append("vacuum stage: %d histories, %d passes that removed entries" % (nhist, overlapped))


# ---------------------------------------------------------------------------------------------------------------------
# BEGIN stage "reload" (harness/cmd/c18h reload; specs ReloadLinP / ReloadLinTrace): transactions through the real
# routing.Handler WHILE the flows are reloaded through the real admin handlers (/load_flows, /apply_flows, /configuration):
# a reload is one atomic step placed by TLC inside the reload call, a failed reload changes nothing, every reply must be the
# verdict of the configuration in force at some moment of its transaction.  Histories: reloads of UNCHANGED flows (every reply
# is the one verdict), alternating versions (403 / 418 on one URL, a flow that exists only in some versions on another),
# valid and invalid reloads.  Witnesses carry "level": "spoe-handler-reload".  With replay_obj: re-execute a stored witness.
def reload_stage(ctx, replay_obj=None):
    import random, time
    t0 = time.time()
    T = ctx.thorough
    binary = ctx.build_harness("c18h")

    def V(a, x, valid=True):
        return {"a": a, "x": x, "valid": valid}

    def record(script, tag):
        d = ctx.sub("run-" + tag)
        sp = os.path.join(d, "script.json")
        json.dump(script, open(sp, "w"))
        for attempt in range(3):
            p = ctx.run_harness(binary, ["reload", sp, d], timeout=600, check=False)
            if p.returncode != 4:          # 4 = port clash
                break
        if p.returncode != 0:
            m = re.search(r"(fatal error: [^\n]*|panic: [^\n]*)", p.stderr)
            if m and p.returncode != 3:      # 3 = the harness's own Die(); anything else with a Go panic = the engine died
                raise EngineCrash(m.group(1))
            raise Broken("harness c18h reload failed rc=%d: %s" % (p.returncode, p.stderr[-2000:]))
        return read_ndjson(os.path.join(d, "trace-000.ndjson"))

    def judge_reload(trace, tag):
        return validate_history_trace(ctx, SPEC, "ReloadLinTrace", trace, tag=tag, deque=True, timeout=600, max_rounds=4)

    if replay_obj is not None:
        for attempt in range(10):
            try:
                tr = record(replay_obj["script"], "replay")
            except EngineCrash as c:
                print("engine process crashed: %s" % c)
                return 1
            acc, rej, _ = judge_reload(tr, "replay")
            if rej:
                for e in rej[0]["hist"][max(0, rej[0]["at"] - 12): rej[0]["at"] + 2]:
                    print(json.dumps(e))
                return 1
        return 0

    rng = random.Random(ctx.seed * 104729 + 8)
    hists = []
    for k in range(1 if not T else 6):      # reloads of unchanged flows, through every route
        v = V(rng.choice([403, 418]), rng.choice([0, 451]))
        hists.append({"v0": v, "g": 4, "cap": 200, "hooks": True,
                      "reloads": [{"to": v, "route": rng.choice(["load_flows", "load_flows", "apply_flows", "configuration"])}
                                  for _ in range(8 if not T else 25)]})
    for k in range(2 if not T else 10):     # alternating versions, valid and invalid ones
        cur = V(403, rng.choice([0, 451]))
        h = {"v0": cur, "g": rng.choice([2, 4, 6]), "cap": 200, "hooks": True, "reloads": []}
        for i in range(10 if not T else 30):
            to = V(418 if cur["a"] == 403 or rng.random() < 0.3 else 403, rng.choice([0, 451, 451]), valid=rng.random() > 0.25)
            if rng.random() < 0.15:
                to = V(cur["a"], cur["x"], valid=to["valid"])
            h["reloads"].append({"to": to, "route": rng.choice(["load_flows", "apply_flows", "configuration"])})
            if to["valid"]:
                cur = to
        hists.append(h)
    script = {"histories": hists}
    # the engine process dying while transactions are handled during a reload is itself an observation (no transaction of the
    # history got its answer); it counts once the same script misbehaves again - dies again, or is rejected by the specification
    trace, first_crash = None, None
    for attempt in range(6):
        try:
            t = record(script, "reload" if attempt == 0 else "reload-recrash")
        except EngineCrash as c:
            if first_crash is None:
                first_crash = str(c)
                continue
            ctx.violation({"class": "engine-process-crashed", "level": "spoe-handler-reload", "message": str(c)[:200]},
                          {"stage": "reload", "harness": "c18h", "script": script, "first_message": first_crash, "schedule_dependent": True,
                           "crash": True})
            return
        trace = t
        if first_crash is None or judge_reload(t, "reload-recrash-judge")[1]:
            break
    if trace is None or (first_crash is not None and not judge_reload(trace, "reload-recrash-judge")[1]):
        raise Broken("engine crash during the reload stage not reproduced in 5 runs (and the re-runs were accepted): %s" % first_crash)
    acc, rejected, _ = judge_reload(trace, "reload")
    ctx.cov["traces_validated_against_impl"] += acc
    ntx = sum(e.get("n", 0) for e in trace if e.get("op") == "req")
    nrl = sum(1 for e in trace if e.get("op") == "reload")
    during = sum(1 for h in split_histories(trace)[1] for e in h if e.get("op") == "req" and e.get("at"))
    ctx.cov["evaluations"] += ntx + nrl
    if ntx < 200 * len(hists) or nrl == 0:
        raise Broken("reload stage: only %d transactions around %d reloads were recorded" % (ntx, nrl))
    for rej in rejected[:1]:
        h, at = rej["hist"], rej["at"]
        # schedule-dependent: the same script is executed again until the specification rejects again
        again = None
        for attempt in range(4):
            try:
                t2 = record(script, "reload-repro")
            except EngineCrash as c:
                # second observation on the same script: the first run was rejected by the specification, this one killed the engine
                ctx.violation({"class": "engine-process-crashed", "level": "spoe-handler-reload", "message": str(c)[:200]},
                              {"stage": "reload", "harness": "c18h", "script": script, "first_message": "history rejected by ReloadLinTrace",
                               "schedule_dependent": True, "crash": True})
                return
            a2, r2, _ = judge_reload(t2, "reload-repro")
            if r2:
                again = r2[0]
                break
        r = again or rej
        h, at = r["hist"], r["at"]
        e = h[min(at, len(h) - 1)]
        culprit = next((x for x in h if x.get("ev") == "begin" and x.get("id") == e.get("id")), e)
        ctx.violation({"class": "reply-of-no-configuration-in-force", "level": "spoe-handler-reload", "event": culprit,
                       "reproduced": again is not None},
                      {"stage": "reload", "harness": "c18h", "script": script, "trace": [r["config"]] + h, "rejected_at": at,
                       "schedule_dependent": True})
    ctx.notes.append("reload stage: %d transactions through routing.Handler around %d reload calls in %d histories (%d at the switch "
                     "points hdm.initialized / hdm.published), %.0f s" % (ntx, nrl, len(hists), during, time.time() - t0))
    ctx.log("reload stage done in %.1fs" % (time.time() - t0))
# END stage "reload"
# ---------------------------------------------------------------------------------------------------------------------


def run(ctx):
    T = ctx.thorough
    binary = ctx.build_harness("c18")
    sd = ctx.spec_dir(SPEC)
    ctx.cov["rule"] = ("histories = seeded random programs of 2-6 goroutines (requests to a fixed-window-limited and a concurrency-limited "
                       "URL, responses / proxy errors of admitted transactions, metric reads) + storms of simultaneous first requests on a "
                       "fresh engine; recorded as invoke/return events; non-trivial = at least two operations overlapped and a request was refused")
    ctx.cov["checker_cmd"] = "tlc -config MC_C18.cfg MC_C18.tla ; tlc -config EngineLinTrace.cfg EngineLinTrace.tla (StateDeque)"
    ctx.cov["trusted_base"] = ["TLC 1.8", "CommunityModules Json", "Go toolchain and scheduler", "harness/cmd/c18 + internal/c01eng projection (early-return action = refuse)"]
    ctx.assumptions += ["the Go-memory-model clause of C18 (absence of data races) is NOT decided by this check (DESIGN.md §6)",
                        "mock clock does not move during a history; fixed window longer than a history",
                        "only interleavings the Go scheduler produced in this run are observed on the real code; the TLC model covers all interleavings of the modelled steps"]

    # (1) exhaustive interleaving model of the request path over the shared engine objects
    ctx.tlc_exhaustive(sd, "MC_C18", "MC_C18.cfg", timeout=900, label="interleaving model: per-key atomic quota steps => serializable verdicts")
    r = ctx.tlc(sd, "MC_C18", "MC_C18_nolock.cfg", timeout=300, label="non-vacuity: check-then-act without the quota mutex must be refuted")
    if r.violated is None:
        raise Broken("interleaving model cannot tell a missing quota mutex from the property: %r" % r)

    # (2) recorded concurrent histories of the real engine -> linearizability search by TLC
    scripts = []
    nscripts, nh = (4, 40) if not T else (8, 80)
    for s in range(nscripts):
        cfg = {"M": ctx.rng.choice([1, 2, 3]), "C": ctx.rng.choice([1, 2, 3]), "W": 3600}
        hs = []
        for i in range(nh):
            if i % 4 == 3:
                hs.append(storm_history(ctx.rng, cfg, ctx.rng.randint(4, 7)))
            else:
                hs.append(rand_history(ctx.rng, cfg, ctx.rng.randint(2, 4), ctx.rng.randint(2, 4)))
        scripts.append(script_of(cfg, hs))
    # storms in compact form (one engine each) and selection storms
    for k in range(2 if not T else 4):
        cfg = {"M": ctx.rng.choice([1, 2]), "C": ctx.rng.choice([1, 2]), "W": 3600}
        scripts.append(script_of(cfg, [batch_storms(ctx.rng, 5000 if not T else 12000, 8)] +
                                 [sel_storm_history(ctx.rng, 40 if not T else 200, 4)]))
    traces = run_observing_crashes(ctx, binary, scripts, "rand")
    if traces is None:
        return
    ctx.sample({"kind": "recorded-concurrent-history", "events": split_histories(traces[0])[1][0][:16]})
    judge(ctx, binary, scripts, traces, "rand")
    spoe_stage(ctx)        # (2b) the same through the real SPOE message handler (harness/cmd/c18h)
    swap_stage(ctx)        # (2e) policy lookups of transactions overlapping policy updates (C11's executor and property spec)
    vacuum_stage(ctx)      # (2d) MapVacuum under concurrent registrations (harness/cmd/c18v, VacuumI / VacuumP / VacuumTrace)
    reload_stage(ctx)      # (2c) transactions while the flows are being reloaded (harness/cmd/c18h reload, ReloadLinTrace)

    # (3) directed schedules from the interleaving model, forced on the real Limiter through the yield point
    #     limiter.after_inc (between quota.Inc and quota.Allowed) and judged by the same linearizability search
    scheds, ce = [], []
    for cfgname, what in (("MC_C18_clear.cfg", "pinned code: every uncollected verdict dropped on a window restart"),
                          ("MC_C18_code.cfg", "repaired code: uncollected verdicts survive one restart only (known finding C18-memo-two-restarts)")):
        cx = ctx.tlc(sd, "MC_C18", cfgname, timeout=300, label="counterexample - " + what)
        if cx.violated is None:
            raise Broken("interleaving model does not refute '%s': %r" % (what, cx))
        steps = []
        for st in cx.trace:
            m = re.match(r"State \d+: <(\w+)(?:\((\d+)\))?", st)
            if m and m.group(1) in ("IncStep", "AllowedStep", "Tick"):
                steps.append(["tick"] if m.group(1) == "Tick" else [{"IncStep": "inc", "AllowedStep": "allowed"}[m.group(1)], int(m.group(2))])
        if not steps:
            raise Broken("could not read the counterexample schedule from TLC's output")
        ce.append(steps)
    g = ctx.tlc(sd, "GenC18", "GenC18.cfg", workers=1, simulate="num=%d" % (60 if not T else 600), depth=14,
                extra=["-seed", str(ctx.seed)], timeout=300, label="schedule generation")
    walks = tlc_vh_lines(g.out)
    if len(walks) < 10:
        raise Broken("schedule generation produced %d walks" % len(walks))
    seen = set()
    for wk in walks:
        k = json.dumps(wk["steps"])
        if k not in seen:
            seen.add(k)
            scheds.append(wk["steps"])
    # counterexamples come from the instance with M = 3 = number of requests (every refusal is then unexplainable),
    # the walks from the instance with M = 2
    # metric scrapes (reads of the used-quota gauges) as steps of the schedules: a read between a transaction's Inc and its
    # Allowed - before / after the end of its window, once or several times, alone or followed by another transaction's Inc -
    # must not change what the transaction is told.  Hand-directed ones run with M = 3 >= number of requests (no refusal is
    # explainable), and every generated walk is run once more with scrapes inserted at random places.
    scrapes = [
        [["inc", 1], ["tick"], ["scrape"], ["scrape"], ["allowed", 1]],
        [["inc", 1], ["tick"], ["scrape"], ["inc", 2], ["allowed", 1], ["allowed", 2]],
        [["inc", 1], ["scrape"], ["tick"], ["scrape"], ["allowed", 1]],
        [["inc", 1], ["inc", 2], ["tick"], ["scrape"], ["scrape"], ["allowed", 2], ["allowed", 1]],
        [["scrape"], ["inc", 1], ["tick"], ["scrape"], ["scrape"], ["scrape"], ["allowed", 1]],
        [["inc", 1], ["tick"], ["scrape"], ["inc", 2], ["scrape"], ["inc", 3], ["allowed", 1], ["allowed", 3], ["allowed", 2]],
        [["inc", 1], ["scrape"], ["scrape"], ["allowed", 1], ["inc", 2], ["tick"], ["scrape"], ["allowed", 2]],
    ]
    with_scrapes = []
    for st in scheds:
        st2 = list(st)
        for _ in range(ctx.rng.randint(1, 3)):
            st2.insert(ctx.rng.randint(0, len(st2)), ["scrape"])
        with_scrapes.append(st2)
    for dcfg, group, tag in (({"M": 3, "C": 1, "W": 10}, ce, "sched-ce"), ({"M": 2, "C": 1, "W": 10}, scheds, "sched"),
                             ({"M": 3, "C": 1, "W": 10}, scrapes, "sched-scrape"), ({"M": 2, "C": 1, "W": 10}, with_scrapes, "sched-wscrape")):
        directed(ctx, binary, dcfg, group, tag)

    # directed schedules on the concurrency quota: a transaction held between taking its slot in the shared set and registering
    # itself (yield point cq.inc.after_sadd) while the background collection runs (the clock moves by the collection interval,
    # one pass is awaited) and other transactions ask for slots: the held transaction keeps its slot - nobody is admitted on it
    cq_scheds = [
        [["take", 1], ["gc"], ["go", 1], ["req", 2], ["end", 1], ["req", 3], ["end", 3]],
        [["take", 1], ["gc"], ["req", 2], ["go", 1], ["end", 1], ["end", 2], ["req", 3]],
        [["take", 1], ["gc"], ["gc"], ["go", 1], ["req", 2], ["end", 1]],
        [["req", 1], ["take", 2], ["gc"], ["go", 2], ["end", 1], ["take", 3], ["gc"], ["req", 4], ["go", 3]],
    ]
    directed(ctx, binary, {"M": 3, "C": 1, "W": 30}, cq_scheds, "cqsched", ev="cqsched", wlen=30)
    directed(ctx, binary, {"M": 3, "C": 2, "W": 30},
             [[["take", 1], ["take", 2], ["gc"], ["go", 2], ["req", 3], ["go", 1], ["end", 2], ["req", 4]],
              [["req", 1], ["take", 2], ["gc"], ["req", 3], ["go", 2], ["end", 1], ["req", 4]]], "cqsched2", ev="cqsched", wlen=30)

    if T:
        ev = traces[0]
        k = next(i for i, e in enumerate(ev) if e.get("op") in ("reqfw", "reqcq") and e.get("out") == "refuse")
        bad = [dict(e) for e in ev]
        bad[k]["out"] = "admit"
        _, rej, _ = validate_history_trace(ctx, SPEC, "EngineLinTrace", bad, tag="selftest", max_rounds=1, deque=True)
        if not rej:
            raise Broken("self-test: history with a refused request rewritten to admitted was accepted")
        ctx.notes.append("self-test: corrupted verdict rejected")


def directed(ctx, binary, dcfg, scheds, tag, ev="sched", wlen=10):
    dscript = script_of(dcfg, [[{"ev": "reset"}, {"ev": ev, "w": wlen, "steps": st}] for st in scheds])
    dtr = execute(ctx, binary, [dscript], tag)
    ctx.sample({"kind": "directed-schedule", "steps": scheds[0], "recorded": split_histories(dtr[0])[1][0]})
    acc, rejected, _ = validate_history_trace(ctx, SPEC, "EngineLinTrace", dtr[0], tag=tag, deque=True, max_rounds=8)
    ctx.cov["traces_validated_against_impl"] += acc
    ctx.cov["evaluations"] += sum(1 for e in dtr[0] if e.get("ev") == "begin")
    ctx.cov["distinct_nontrivial"] += sum(1 for st in scheds if any(x[0] == "tick" for x in st))
    for rej in rejected:
        sc1 = script_of(dcfg, [[{"ev": "reset"}, {"ev": ev, "w": wlen, "steps": sched_of(rej["hist"], scheds, dtr[0])}]])
        t2 = execute(ctx, binary, [sc1], tag + "-repro")[0]
        _, r2, _ = validate_history_trace(ctx, SPEC, "EngineLinTrace", t2, tag=tag + "-repro", deque=True, max_rounds=1)
        if not r2:
            raise Broken("directed schedule rejection not reproduced")
        w = witness_of(r2[0])
        w["class"] = "verdict-not-explained-under-directed-schedule"
        w["steps"] = sc1["histories"][0][1]["steps"]
        w["restarts_between_inc_and_allowed"] = restart_between(w["steps"])
        ctx.violation(w, {"script": sc1, "trace": [r2[0]["config"]] + r2[0]["hist"], "rejected_at": r2[0]["at"], "schedule_dependent": False})



def replay(ctx, path):
    obj = json.load(open(path))
    if obj["replay"].get("stage") == "reload":
        rc = reload_stage(ctx, obj["replay"])
        if rc:
            print("VIOLATION property=C18 replay=%s" % path)
        return rc
    if obj["replay"].get("stage") == "swap":
        return swap_stage(ctx, obj["replay"], path)
    if obj["replay"].get("stage") == "vacuum":
        return vacuum_stage(ctx, obj["replay"], path)
    binary = ctx.build_harness(obj["replay"].get("harness", "c18"))       # "c18h": recorded through the SPOE handler
    rp = obj["replay"]
    if rp.get("crash"):
        for attempt in range(10):
            try:
                execute(ctx, binary, rp["scripts"], "replay")
            except EngineCrash as c:
                print("engine process crashed: %s" % c)
                print("VIOLATION property=C18 replay=%s" % path)
                return 1
        print("re-execution (10 runs) finished without a crash")
        return 0
    _, rej0, _ = validate_history_trace(ctx, SPEC, "EngineLinTrace", rp["trace"], tag="replay-rec", max_rounds=1, deque=True)
    print("recorded history: %s by the specification" % ("REJECTED (no sequential order explains it)" if rej0 else "accepted"))
    for attempt in range(20):
        t = execute(ctx, binary, [rp["script"]], "replay")[0]
        acc, rej, _ = validate_history_trace(ctx, SPEC, "EngineLinTrace", t, tag="replay", max_rounds=1, deque=True)
        if rej:
            for e in rej[0]["hist"]:
                print(json.dumps(e))
            print("VIOLATION property=C18 replay=%s" % path)
            return 1
    print("re-execution (20 runs of the script) accepted by the specification")
    return 0
