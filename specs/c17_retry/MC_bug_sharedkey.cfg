\* exhaustive: I (repaired tree) => P
CONSTANTS
  Sids = {"s1", "s2"}
  Modes = {"policy", "flows"}
  AttemptsSet = {0, 1, 2, 3}
  RangesC <- cRanges1
  Statuses = {200, 429, 500}
  Steps = {1, 30, 31, 32}
  CdSet = {0, 1}
  MultSet = {1, 2}
  TTLBase = 31
  MaxLen = 6
  Bug = "sharedkey"
  AllowZero = FALSE
SPECIFICATION ISpec
INVARIANTS Accepted Bounded
CHECK_DEADLOCK FALSE
