\* exhaustive: I (repaired tree) => P
CONSTANTS
  Sids = {"s1", "s2"}
  Modes = {"policy", "flows"}
  AttemptsSet = {0, 1, 2}
  RangesC <- cRanges1
  Statuses = {200, 500}
  Steps = {1, 31, 32}
  CdSet = {0, 1}
  MultSet = {1, 2}
  TTLBase = 31
  MaxLen = 5
  Bug = "none"
  AllowZero = FALSE
SPECIFICATION ISpec
INVARIANT NoExhaustion
CHECK_DEADLOCK FALSE
