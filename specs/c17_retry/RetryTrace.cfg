CONSTANTS
  Sids = {}
  Modes = {}
  AttemptsSet = {}
  RangesC = {}
  Statuses = {}
  Steps = {}
SPECIFICATION TraceSpec
INVARIANTS Accepted Bounded
PROPERTIES NoRetryOutside Isolation Forget
CONSTRAINT HWM
POSTCONDITION Post
CHECK_DEADLOCK FALSE
