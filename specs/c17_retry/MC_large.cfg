\* exhaustive: I (repaired tree) => P
CONSTANTS
  Sids = {"s1", "s2", "s3"}
  Modes = {"policy", "flows"}
  AttemptsSet = {0, 1, 2, 3}
  RangesC <- cRanges2
  Statuses = {200, 429, 500}
  Steps = {1, 30, 31, 32}
  CdSet = {0, 1}
  MultSet = {1, 2}
  TTLBase = 31
  MaxLen = 6
  Bug = "none"
  AllowZero = FALSE
SPECIFICATION ISpec
INVARIANTS Accepted Bounded
CHECK_DEADLOCK FALSE
