CONSTANTS
  Sids = {"s1", "s2", "s3"}
  Modes = {"policy", "flows"}
  AttemptsSet = {1, 2, 3}
  RangesC <- cRanges
  Statuses = {200, 429, 500, 503}
  Steps = {1, 5, 30, 31, 32, 33, 35}
  CdSet = {0, 1, 2}
  MultSet = {0, 1, 2}
  TTLBase = 31
  MaxLen = 16
  Bug = "none"
  AllowZero = FALSE
SPECIFICATION GSpec
INVARIANT Emit
CHECK_DEADLOCK FALSE
