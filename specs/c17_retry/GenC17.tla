------------------------------- MODULE GenC17 -------------------------------
(* Behaviour generation (spec -> code): random walks of the implementation-shaped model RetryI *)
(* (tlc -simulate); the walk's configuration and observable events are carried in `hist` and   *)
(* printed as one JSON line when the walk reaches MaxLen events.  The recorded `out` is the    *)
(* model's prediction; the real answers are judged by RetryP (trace validation), a difference  *)
(* from the prediction alone is model drift.                                                   *)
EXTENDS RetryI, Json
VARIABLE hist
cRanges == { << <<500, 599>> >>, << <<429, 429>>, <<500, 599>> >>, << <<404, 404>>, <<500, 503>> >> }
cRangesX == { << <<500, 599>> >> }
GInit == IInit /\ hist = <<[ev |-> "reset", mode |-> mode, A |-> A, cd |-> cd, mult |-> mult, ranges |-> ranges]>>
GNext == INext /\ hist' = Append(hist, last')
GSpec == GInit /\ [][GNext]_<<vars, hist>>
Emit == (len = MaxLen) => PrintT(<<"VH", ToJson(hist)>>)
=============================================================================
