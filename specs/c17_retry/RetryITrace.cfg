CONSTANTS
  Sids = {}
  Modes = {}
  AttemptsSet = {}
  RangesC = {}
  Statuses = {}
  Steps = {}
  CdSet = {}
  MultSet = {}
  TTLBase = 31
  MaxLen = 0
  Bug = "none"
  AllowZero = FALSE
SPECIFICATION TraceSpec
CONSTRAINT HWM
POSTCONDITION Post
CHECK_DEADLOCK FALSE
