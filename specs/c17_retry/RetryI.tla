------------------------------- MODULE RetryI -------------------------------
(* C17 - implementation-shaped specification, composed with the property monitor of RetryP.    *)
(*                                                                                             *)
(* policy mode: services/remedies/retry_plugin.go  RetryPlugin.OnResponse with the state       *)
(*   RetryState{attemptsLeft, nextCooldownSeconds} in utils.MemoryCache (utils/cache.go):      *)
(*   Get = entry present and not `now > expiration`; Set stores the entry, its expiration and  *)
(*   starts a sleeper that deletes the KEY (whatever it holds by then) after the TTL; Del.     *)
(*   TTL = nextCooldownSeconds + 30 + 1.                                                       *)
(* flows mode: streams/processors/retry/retry_processor.go  Execute behind a Filter(status):   *)
(*   counter per (processor, sequence id) in the flow context (no TTL): increment, compare     *)
(*   with attempts, "failed" + remove, or wait the cool-down and "retry".                      *)
(* One action per call: both run without interleaving inside a sequence (the plugin relies on  *)
(* responses of one sequence arriving one after the other), calls of different sequences       *)
(* interleave arbitrarily.                                                                     *)
(*                                                                                             *)
(* Bug # "none" are deliberately broken variants used for the non-vacuity runs (each must be   *)
(* refuted by TLC):  "offbyone"  flows: count > attempts + 1                                   *)
(*                   "noclear"   flows: counter kept on "failed"                               *)
(*                   "lt0"       policy: attemptsLeft < 0 instead of < 1                       *)
(*                   "sharedkey" both: state key ignores the sequence id                       *)
(*                   "nocond"    policy: status not tested against the conditions              *)
(* AllowZero = TRUE models the plugin as it was at the pinned commit: a configured attempts    *)
(* <= 0 still asks for one retry (fixed in /repo, see known_findings.json).                    *)
EXTENDS RetryP, TLC

CONSTANTS CdSet, MultSet, TTLBase, MaxLen, Bug, AllowZero

VARIABLES
    cd, mult,        \* cool-down settings
    now,             \* seconds
    has, left, nxt, exp,   \* policy: cache entry per key: present, attemptsLeft, nextCooldownSeconds, expiration
    timers,          \* policy: armed sleepers <<key, instant>>
    count,           \* flows: counter per key (0 = absent)
    len              \* number of events so far (bounds the exploration)

ivars == <<cd, mult, now, has, left, nxt, exp, timers, count, len>>
vars == <<pvars, ivars>>

Key(s) == IF Bug = "sharedkey" THEN CHOOSE k \in DOMAIN B : TRUE ELSE s

IInit ==
    /\ PInit
    /\ cd \in CdSet /\ mult \in MultSet
    /\ (mode = "flows" => (cd = CHOOSE x \in CdSet : TRUE) /\ (mult = CHOOSE x \in MultSet : TRUE))   \* no observable effect there
    /\ now = 0
    /\ has = [k \in Sids |-> FALSE]
    /\ left = [k \in Sids |-> 0] /\ nxt = [k \in Sids |-> 0] /\ exp = [k \in Sids |-> 0]
    /\ timers = {}
    /\ count = [k \in Sids |-> 0]
    /\ len = 0

\* ------------------------------------------------------------------ policy mode
PolicyResp(s, st, new) ==
    LET k == Key(s)
        cond == IF Bug = "nocond" THEN TRUE ELSE InCond(st)
        found == has[k] /\ ~(now > exp[k])
    IN
    /\ mode = "policy"
    /\ IF cond
       THEN IF ~found /\ ~new
            THEN /\ ObserveResp(s, st, new, "noop")
                 /\ UNCHANGED <<has, left, nxt, exp, timers>>
            ELSE LET sl == IF found THEN left[k] ELSE AF[s]
                     sn == IF found THEN nxt[k] ELSE cd
                     upd == sl - 1
                     ttl == sn + TTLBase
                     thr == IF Bug = "lt0" THEN 0 ELSE 1
                 IN IF ~AllowZero /\ sl < 1
                    THEN /\ ObserveResp(s, st, new, "noop")          \* nothing left to hand out
                         /\ has' = [has EXCEPT ![k] = FALSE]
                         /\ UNCHANGED <<left, nxt, exp, timers>>
                    ELSE /\ ObserveResp(s, st, new, "retry")
                         /\ IF upd < thr
                            THEN /\ has' = [has EXCEPT ![k] = FALSE]
                                 /\ UNCHANGED <<left, nxt, exp, timers>>
                            ELSE /\ has' = [has EXCEPT ![k] = TRUE]
                                 /\ left' = [left EXCEPT ![k] = upd]
                                 /\ nxt' = [nxt EXCEPT ![k] = sn * mult]
                                 /\ exp' = [exp EXCEPT ![k] = now + ttl]
                                 /\ timers' = timers \cup {<<k, now + ttl>>}
       ELSE /\ ObserveResp(s, st, new, "noop")
            /\ has' = [has EXCEPT ![k] = FALSE]
            /\ UNCHANGED <<left, nxt, exp, timers>>
    /\ UNCHANGED <<cd, mult, now, count>>

\* ------------------------------------------------------------------- flows mode
Cooldown(c) == cd + c * mult

FlowsResp(s, st, new) ==
    LET k == Key(s) IN
    /\ mode = "flows"
    /\ IF InCond(st)                       \* Filter hit -> Retry processor
       THEN LET c == count[k] + 1
                lim == IF Bug = "offbyone" THEN AF[s] + 1 ELSE AF[s]
            IN IF c > lim
               THEN /\ ObserveResp(s, st, new, "failed")
                    /\ count' = [count EXCEPT ![k] = IF Bug = "noclear" THEN c ELSE 0]
                    /\ UNCHANGED now
               ELSE /\ ObserveResp(s, st, new, "retry")
                    /\ count' = [count EXCEPT ![k] = c]
                    /\ UNCHANGED now          \* the cool-down wait (Cooldown(c) seconds) has no effect on the counters
       ELSE /\ ObserveResp(s, st, new, "none")          \* Filter miss: processor not reached
            /\ UNCHANGED <<count, now>>
    /\ UNCHANGED <<cd, mult, has, left, nxt, exp, timers>>

\* ------------------------------------------------------------------------ time
Advance(d) ==
    LET due == {t \in timers : t[2] <= now + d} IN
    /\ now' = now + d
    /\ has' = [k \in DOMAIN has |-> IF \E t \in due : t[1] = k THEN FALSE ELSE has[k]]
    /\ timers' = timers \ due
    /\ Adv(d)
    /\ UNCHANGED <<cd, mult, left, nxt, exp, count>>

INext ==
    /\ len < MaxLen
    /\ len' = len + 1
    /\ \/ \E s \in Sids, st \in Statuses, new \in BOOLEAN : PolicyResp(s, st, new) \/ FlowsResp(s, st, new)
       \/ \E d \in Steps : Advance(d)

ISpec == IInit /\ [][INext]_vars

\* I => P: every behaviour of I, seen through the observable events, is a behaviour of P
Refines == Spec
================================================================================
