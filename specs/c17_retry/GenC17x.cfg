\* exhaustive enumeration (breadth-first, no -simulate): every behaviour of RetryI with MaxLen events of one sequence
CONSTANTS
  Sids = {"s1"}
  Modes = {"policy", "flows"}
  AttemptsSet = {1, 2}
  RangesC <- cRangesX
  Statuses = {200, 500}
  Steps = {30, 31}
  CdSet = {0}
  MultSet = {1}
  TTLBase = 31
  MaxLen = 3
  Bug = "none"
  AllowZero = FALSE
SPECIFICATION GSpec
INVARIANT Emit
CHECK_DEADLOCK FALSE
