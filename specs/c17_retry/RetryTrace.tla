------------------------------ MODULE RetryTrace ------------------------------
(* C17 - trace validation of recorded executions of the real RetryPlugin.OnResponse (policy    *)
(* mode) and of the real Retry processor inside an engine (flows mode) against the property    *)
(* spec RetryP.  trace.ndjson: line 1 = {"ev":"config"}, then histories                        *)
(*   {"ev":"reset","mode":..,"A":..,"cd":..,"mult":..,"ranges":[[f,t],..],"seqs":[..]}  fresh state     *)
(*        (with "refused": the loader refused the configuration, nothing else follows)         *)
(*   {"ev":"resp","s":..,"st":..,"new":..,"out":..}      one response and the real answer      *)
(*   {"ev":"adv","d":..}                                 clock advanced                         *)
(* A step is possible only if P allows the recorded answer: rejection = violation.            *)
EXTENDS TraceLib, RetryP

VARIABLE l
tvars == <<pvars, l>>

Ev == TraceLog[l + 1]
Consume(name) == l < TraceLen /\ Ev.ev = name /\ l' = l + 1
EvSids == {Ev.seqs[i] : i \in 1..Len(Ev.seqs)}
EvAtt == [s \in EvSids |-> Ev.atts[CHOOSE i \in 1..Len(Ev.seqs) : Ev.seqs[i] = s]]
EvBud(s) == IF EvAtt[s] > 0 THEN EvAtt[s] ELSE 0

TInit ==
    /\ l = 1
    /\ mode = "policy" /\ A = 0 /\ AF = <<>> /\ ranges = <<>>
    /\ B = [s \in Sids |-> {0}] /\ cnt = [s \in Sids |-> 0]
    /\ last = [ev |-> "init"]

TReset ==
    /\ Consume("reset")
    /\ mode' = Ev.mode /\ A' = Ev.A /\ AF' = EvAtt /\ ranges' = Ev.ranges
    /\ B' = [s \in EvSids |-> IF Ev.mode # "flows" THEN {0, EvBud(s)} ELSE {EvBud(s)}]
    /\ cnt' = [s \in EvSids |-> 0]
    /\ last' = [ev |-> "reset"]

TResp == Consume("resp") /\ Resp(Ev.s, Ev.st, Ev.new, Ev.out)

TAdv == Consume("adv") /\ Adv(Ev.d)

\* many other sequences were opened (their answers are not part of this history: Isolation)
TBurst == Consume("burst") /\ UNCHANGED pvars

\* the same policies were applied again (new version, same retry remedies): nothing changes for the property
TReload == Consume("reload") /\ UNCHANGED pvars

TNext == TReset \/ TResp \/ TAdv \/ TBurst \/ TReload

TraceSpec == TInit /\ [][TNext]_tvars

HWM == Mark(l)
Post == Report
================================================================================
