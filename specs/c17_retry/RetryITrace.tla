----------------------------- MODULE RetryITrace -----------------------------
(* C17 - conformance of the implementation-shaped model: the same recordings as RetryTrace,    *)
(* validated against RetryI (deterministic: the model must predict every recorded answer).    *)
(* A rejection here with acceptance by RetryP is MODEL-DRIFT, not a violation.                 *)
EXTENDS TraceLib, RetryI

VARIABLE l
tvars == <<vars, l>>

Ev == TraceLog[l + 1]
Consume(name) == l < TraceLen /\ Ev.ev = name /\ l' = l + 1
EvSids == {Ev.seqs[i] : i \in 1..Len(Ev.seqs)}
EvAtt == [s \in EvSids |-> Ev.atts[CHOOSE i \in 1..Len(Ev.seqs) : Ev.seqs[i] = s]]
EvBud(s) == IF EvAtt[s] > 0 THEN EvAtt[s] ELSE 0

TInit ==
    /\ l = 1
    /\ mode = "policy" /\ A = 0 /\ AF = <<>> /\ ranges = <<>> /\ cd = 0 /\ mult = 0
    /\ B = [s \in Sids |-> {0}] /\ cnt = [s \in Sids |-> 0]
    /\ last = [ev |-> "init"]
    /\ now = 0 /\ has = [k \in Sids |-> FALSE]
    /\ left = [k \in Sids |-> 0] /\ nxt = [k \in Sids |-> 0] /\ exp = [k \in Sids |-> 0]
    /\ timers = {} /\ count = [k \in Sids |-> 0] /\ len = 0

TReset ==
    /\ Consume("reset")
    /\ mode' = Ev.mode /\ A' = Ev.A /\ AF' = EvAtt /\ ranges' = Ev.ranges /\ cd' = Ev.cd /\ mult' = Ev.mult
    /\ B' = [s \in EvSids |-> IF Ev.mode # "flows" THEN {0, EvBud(s)} ELSE {EvBud(s)}]
    /\ cnt' = [s \in EvSids |-> 0]
    /\ last' = [ev |-> "reset"]
    /\ now' = 0 /\ has' = [k \in EvSids |-> FALSE]
    /\ left' = [k \in EvSids |-> 0] /\ nxt' = [k \in EvSids |-> 0] /\ exp' = [k \in EvSids |-> 0]
    /\ timers' = {} /\ count' = [k \in EvSids |-> 0] /\ len' = 0

TResp ==
    /\ Consume("resp")
    /\ PolicyResp(Ev.s, Ev.st, Ev.new) \/ FlowsResp(Ev.s, Ev.st, Ev.new)
    /\ last'.out = Ev.out
    /\ UNCHANGED len

TAdv == Consume("adv") /\ Advance(Ev.d) /\ UNCHANGED len

\* many other sequences were opened (their answers are not part of this history: Isolation)
TBurst == Consume("burst") /\ UNCHANGED vars

\* the same policies were applied again (new version, same retry remedies): nothing changes for the property
TReload == Consume("reload") /\ UNCHANGED vars

TNext == TReset \/ TResp \/ TAdv \/ TBurst \/ TReload

TraceSpec == TInit /\ [][TNext]_tvars

HWM == Mark(l)
Post == Report
================================================================================
