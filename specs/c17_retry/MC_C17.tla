------------------------------- MODULE MC_C17 -------------------------------
EXTENDS RetryI
cRanges1 == { << <<500, 599>> >> }
cRanges2 == { << <<500, 599>> >>, << <<429, 429>>, <<500, 599>> >> }
\* witnesses for non-vacuity of the exploration (each is expected to be VIOLATED, run in side cfgs)
NoExhaustion == ~(\E s \in Sids : last.ev = "resp" /\ last.out \in {"failed"})
NoPolicyGiveUp == ~(mode = "policy" /\ last.ev = "resp" /\ last.out = "noop" /\ InCond(last.st) /\ last.new = FALSE /\ cnt[last.s] = 0 /\ len > 2)
=============================================================================
