------------------------------- MODULE RetryP -------------------------------
(* C17 - retries are bounded by the configured number of attempts: property spec (P).         *)
(*                                                                                             *)
(* Observable events only:                                                                     *)
(*   resp(s, st, new, out)  a response with status st of sequence s reaches the retry logic;   *)
(*                          new = it is the first transaction of a logical call (policy mode:  *)
(*                          transaction id = sequence id); out = what the gateway answered:    *)
(*                          policy mode "retry" | "noop", flows mode "retry" | "failed" |      *)
(*                          "none" (the Retry processor was not reached)                       *)
(*   adv(d)                 time passes                                                        *)
(*                                                                                             *)
(* The statement bounds what the gateway may ask for, it does not fix the bookkeeping.  P      *)
(* therefore keeps, per sequence, the SET of remaining retry budgets B[s] that some            *)
(* bookkeeping permitted by the statement could hold after the observed history; an            *)
(* observed answer is allowed iff at least one of them explains it.  P is deterministic as a   *)
(* monitor (B is a function of the history) and is exactly the property:                       *)
(*   Bounded        "retry" needs a remaining budget >= 1; a fresh budget is Attempts          *)
(*   Forget         after the failure report ("failed"; in policy mode the budget reaching 0)  *)
(*                  nothing of the old call is left: the next call gets the full budget again   *)
(*                  and must be retried                                                        *)
(*   NoRetryOutside a status outside the conditions is never answered "retry" and ends the     *)
(*                  sequence.  Policy mode (the remedy sees every response): nothing of the    *)
(*                  call is left - a later non-new response is not retried, a new call starts  *)
(*                  afresh.  Flows mode (the conditions are a Filter in front of the Retry     *)
(*                  processor, which does not see such a response): what follows has at most   *)
(*                  a fresh budget.                                                            *)
(*   Isolation      an event of s changes B[s] only                                            *)
(* The statement is silent about time: any passage of time may make the gateway forget a      *)
(* sequence (policy mode keeps its state with a TTL), never more than that.                    *)
EXTENDS Integers, Sequences, FiniteSets

CONSTANTS Sids            \* sequence ids (initial domain of B; the trace specs set the domain per history)

VARIABLES
    mode,      \* "policy" | "flows"
    A,         \* configured attempts (of the only / of every retry logic)
    AF,        \* [key -> configured attempts of the retry logic the key belongs to]; a key is a sequence id or, with several
               \* Retry processors in one engine, "<flow>/<sequence id>": every processor bounds its own retries
    ranges,    \* retry conditions: sequence of <<from, to>> status ranges
    B,         \* [Sids -> SUBSET 0..Bud] admissible remaining budgets (0 = nothing left / no live call)
    cnt,       \* [Sids -> Nat] retries asked since the sequence was last cleared (for Bounded as a plain invariant)
    last       \* last observable event

pvars == <<mode, A, AF, ranges, B, cnt, last>>

BudOf(s) == IF AF[s] > 0 THEN AF[s] ELSE 0

InCond(st) == \E i \in 1..Len(ranges) : ranges[i][1] <= st /\ st <= ranges[i][2]

\* ---- policy mode: a call starts with new = TRUE; 0 = no live call (never started, exhausted, ended, forgotten)
\* budgets a response may be served from: a new call starts afresh, or - if a call is still live - may continue it
Eff(b, new, bud) == IF new THEN {bud} \cup (IF b >= 1 THEN {b} ELSE {}) ELSE {b}

PolicyNext(Bs, cond, new, out, bud) ==
    IF ~cond THEN (IF out = "noop" THEN {0} ELSE {})         \* ends the sequence: no live call is left
    ELSE LET E == UNION {Eff(b, new, bud) : b \in Bs} IN
         IF out = "retry" THEN {e - 1 : e \in {x \in E : x >= 1}}
         ELSE IF out = "noop" THEN (IF 0 \in E THEN {0} ELSE {})
         ELSE {}

\* ---- flows mode: no notion of a new call; 0 = budget used up, failure not yet reported
FlowsNext(Bs, cond, out, bud) ==
    IF ~cond THEN (IF out = "none" THEN {x \in 0..bud : \E b \in Bs : x >= b} ELSE {})
    ELSE IF out = "retry" THEN {b - 1 : b \in {x \in Bs : x >= 1}}
    ELSE IF out = "failed" THEN (IF 0 \in Bs THEN {bud} ELSE {})
    ELSE {}

\* ---- several retry remedies apply to the call (policy mode seen at the gateway's reply, e.g. an endpoint and a global
\* remedy): the statement bounds what the gateway asks for by the configured numbers - here by their sum, the most any
\* reading allows - and says nothing about how the remedies share their bookkeeping: a retry may use up any part of
\* what is left, and the gateway may give up on a continued call at any point.  Unbounded is never allowed.
MultiNext(Bs, cond, new, out, bud) ==
    IF ~cond THEN (IF out = "noop" THEN {0} ELSE {})
    ELSE LET E == UNION {Eff(b, new, bud) : b \in Bs} IN
         IF out = "retry" THEN {x \in 0..bud : \E e \in E : e >= 1 /\ x <= e - 1}
         ELSE IF out = "noop" THEN (IF new /\ 0 \notin E THEN {} ELSE {0})
         ELSE {}

StepB(Bs, cond, new, out, bud) ==
    IF mode = "policy" THEN PolicyNext(Bs, cond, new, out, bud)
    ELSE IF mode = "multi" THEN MultiNext(Bs, cond, new, out, bud)
    ELSE FlowsNext(Bs, cond, out, bud)

Outs == IF mode # "flows" THEN {"retry", "noop"} ELSE {"retry", "failed", "none"}

\* never seen: policy mode answers a non-new response of an unknown sequence with "noop"; an
\* implementation that treats it as the start of a call is equally within the statement
InitB(s) == IF mode # "flows" THEN {0, BudOf(s)} ELSE {BudOf(s)}

\* observation of one response (no acceptance test: used by the monitor composed with the I spec)
ObserveResp(s, st, new, out) ==
    /\ B' = [B EXCEPT ![s] = StepB(B[s], InCond(st), new, out, BudOf(s))]
    /\ cnt' = [cnt EXCEPT ![s] = IF out = "retry"
                                 THEN (IF mode # "flows" /\ new THEN 0 ELSE cnt[s]) + 1
                                 ELSE 0]
    /\ last' = [ev |-> "resp", s |-> s, st |-> st, new |-> new, out |-> out]
    /\ UNCHANGED <<mode, A, AF, ranges>>

Resp(s, st, new, out) ==
    /\ StepB(B[s], InCond(st), new, out, BudOf(s)) # {}
    /\ ObserveResp(s, st, new, out)

Adv(d) ==
    /\ B' = [s \in DOMAIN B |-> B[s] \cup {IF mode # "flows" THEN 0 ELSE BudOf(s)}]
    /\ cnt' = [s \in DOMAIN B |-> 0]
    /\ last' = [ev |-> "adv", d |-> d]
    /\ UNCHANGED <<mode, A, AF, ranges>>

-------------------------------------------------------------------------------
\* stand-alone behaviours of P (model checking of P itself, generation)
CONSTANTS Modes, AttemptsSet, RangesC, Statuses, Steps

PInit ==
    /\ mode \in Modes /\ A \in AttemptsSet /\ ranges \in RangesC
    /\ (mode = "flows" => Len(ranges) = 1)        \* one Filter(status_code_range) in front of the Retry processor
    /\ AF = [s \in Sids |-> A]
    /\ B = [s \in Sids |-> InitB(s)]
    /\ cnt = [s \in Sids |-> 0]
    /\ last = [ev |-> "init"]

PNext ==
    \/ \E s \in Sids, st \in Statuses, new \in BOOLEAN, out \in Outs : Resp(s, st, new, out)
    \/ \E d \in Steps : Adv(d)

Spec == PInit /\ [][PNext]_pvars

-------------------------------------------------------------------------------
\* the named clauses as invariants / action properties (P satisfies them by construction; they are
\* also evaluated on every recorded trace and on the implementation-shaped model)
Accepted == \A s \in DOMAIN B : B[s] # {}

Bounded == \A s \in DOMAIN B : cnt[s] <= BudOf(s)

NoRetryOutside == [][(last'.ev = "resp" /\ ~InCond(last'.st)) => last'.out # "retry"]_pvars

Isolation == [][\A t \in DOMAIN B : (last'.ev = "resp" /\ last'.s # t) => (B'[t] = B[t] /\ cnt'[t] = cnt[t])]_pvars

\* after a reported failure the next response inside the conditions (of a new call) is retried
Forget == [][\A s \in DOMAIN B :
               (last'.ev = "resp" /\ last'.s = s /\ InCond(last'.st) /\ BudOf(s) >= 1 /\ B[s] = {IF mode # "flows" THEN 0 ELSE BudOf(s)}
                /\ (mode # "flows" => last'.new))
               => last'.out = "retry"]_pvars
================================================================================
