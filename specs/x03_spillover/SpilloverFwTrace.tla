--------------------------- MODULE SpilloverFwTrace ---------------------------
(* X03 - trace validation of recorded executions of a real flows-mode engine whose *)
(* quota carries a `spillover` section (and `monthly_renewal`) against the         *)
(* property spec SpilloverFwP.                                                     *)
(* trace.ndjson: line 1 = configuration (constants of P), then                      *)
(*   {"ev":"reset","now":t}                          fresh engine, clock at tick t  *)
(*   {"ev":"adv","d":d,"renew":b}                    clock advanced; b = a monthly  *)
(*                                                   renewal instant was passed     *)
(*   {"ev":"arrive","q":..,"g":..,"cost":c,"out":"admit"|"refuse"}                  *)
(*   {"ev":"resetin","q":..}                         reset-in query: no effect      *)
EXTENDS TraceLib, Integers, FiniteSets

Cfg == TraceLog[1]
GroupSeq == Cfg.groups
Group == {GroupSeq[i] : i \in 1..Len(GroupSeq)}
Grouped == Cfg.grouped
Max == Cfg.Max
W == Cfg.W
SpillOn == Cfg.SpillOn
SpillMax == Cfg.SpillMax

VARIABLES now, hyp, tot, first, renewed, last, l

P == INSTANCE SpilloverFwP

tvars == <<now, hyp, tot, first, renewed, last, l>>

Ev == TraceLog[l + 1]
Consume(name) == l < TraceLen /\ Ev.ev = name /\ l' = l + 1

TInit == /\ now = 0 /\ hyp = [g \in Group |-> {P!Fresh}] /\ tot = [g \in Group |-> 0]
         /\ first = [g \in Group |-> -1] /\ renewed = FALSE /\ last = [ev |-> "init"] /\ l = 1

TReset ==
    /\ Consume("reset")
    /\ now' = Ev.now
    /\ hyp' = [g \in Group |-> {P!Fresh}] /\ tot' = [g \in Group |-> 0]
    /\ first' = [g \in Group |-> -1] /\ renewed' = FALSE
    /\ last' = [ev |-> "reset"]

TAdv == Consume("adv") /\ P!Advance(Ev.d, Ev.renew)
TArrive == Consume("arrive") /\ P!Arrive(Ev.g, Ev.cost, Ev.out)
TResetIn == Consume("resetin") /\ UNCHANGED <<now, hyp, tot, first, renewed, last>>

TNext == TReset \/ TAdv \/ TArrive \/ TResetIn

TraceSpec == TInit /\ [][TNext]_tvars

Sane == P!Sane
Bound == P!Bound
KBound == P!KBound
HWM == Mark(l)
Post == Report
================================================================================
