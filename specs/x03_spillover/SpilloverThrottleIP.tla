-------------------------- MODULE SpilloverThrottleIP -------------------------
(* X03 - product of the implementation-shaped model I with the property spec P   *)
(* (policy mode): I decides every verdict, P only does its bookkeeping (Observe)  *)
(* and `Conforms` demands that every verdict of I is one P permits in the state   *)
(* before it.  The calendar is abstract: DayLen ticks per day, MonthLen days per  *)
(* month, the grid origin lies DomOffset days after the first of a month.         *)
EXTENDS Integers, Sequences, FiniteSets, TLC, Json

CONSTANTS Group, Pct, A, W, RenewDay, Variant,
          DayLen, MonthLen, DomOffset, Start, Steps, MaxNow,
          WithRead,      \* metric reads are part of the histories
          GenDepth,      \* behaviour generation: length of the printed walks (0 = off)
          ReqWeight      \* behaviour generation: a request is this many times as likely as one clock step

VARIABLES now, dom, last, counter, spill, wend, made, st, hist

I == INSTANCE SpilloverThrottleI
P == INSTANCE SpilloverThrottleP

pvars == <<now, dom, last, counter, spill, wend, made, st, hist>>

DomOf(t) == ((DomOffset + t \div DayLen) % MonthLen) + 1
DomOfDay(k) == ((DomOffset + k) % MonthLen) + 1
\* the instants in (t, t+d] lie on the days (t+1) div DayLen .. (t+d) div DayLen
Crossed(t, d) == \E k \in ((t + 1) \div DayLen)..((t + d) \div DayLen) : DomOfDay(k) = RenewDay
AllRenew(t, d) == \A k \in ((t + 1) \div DayLen)..((t + d) \div DayLen) : DomOfDay(k) = RenewDay

Init == /\ now = Start /\ dom = DomOf(Start)
        /\ I!Init /\ P!Init
        /\ hist = <<[ev |-> "reset", now |-> Start]>>

Rec == IF GenDepth > 0 THEN hist' = Append(hist, last') ELSE UNCHANGED hist

Next ==
    \/ \E d \in Steps : /\ now + d <= MaxNow
                        /\ I!Advance(d, DomOf(now + d))
                        /\ P!Advance(d, DomOf(now + d), Crossed(now, d), AllRenew(now, d))
                        /\ Rec
    \/ \E g \in Group, k \in 1..ReqWeight : I!Request(g) /\ P!Observe(g, last'.out) /\ Rec
    \/ WithRead /\ I!Read /\ P!Read /\ Rec

IPSpec == Init /\ [][Next]_pvars

\* every verdict of the implementation model is permitted by the property
Conforms == [][last'.ev = "req" => P!Permits(last'.g, last'.out)]_pvars
Sane == P!Sane
PerWindow == P!PerWindow
KBound == P!KBound
SpillReal == P!SpillReal

\* the spillover I holds is one of the values P considers possible (refinement mapping on the key's state)
SpillInRange == \A g \in Group : made[g] /\ st[g].win = (wend[g] \div W) - 1 =>
                    (st[g].lo <= spill[g] /\ spill[g] <= st[g].hi /\ st[g].used = counter[g])

\* D3 made visible: the share a group would get per window if spillover were carried per share
\* (expected to be VIOLATED by the code as it is - see MC_x03_group_witness.cfg)
ShareBound == \A g \in Group : st[g].win # -1 =>
                  st[g].tot <= P!Cap(st[g].win - st[g].first + 1) * (((A * Pct[g]) + 99) \div 100)

\* witnesses (expected to be violated: the state space reaches these situations)
NoSpillUse == \A g \in Group : counter[g] <= A                       \* some window passes more than the allowance
NoRenewal == ~(\E g \in Group : made[g] /\ dom = RenewDay /\ spill[g] = 0 /\ st[g].tot > 0 /\ st[g].used = 0 /\ st[g].win > st[g].first + 1)

\* walks: no two clock steps / reads in a row
GenShape == (last.ev = "adv" => last'.ev # "adv") /\ (last.ev = "read" => last'.ev # "read")

Emit == (GenDepth > 0 /\ Len(hist) = GenDepth) => PrintT(<<"VH", ToJson(hist)>>)

-------------------------------------------------------------------------------
cPct100 == ("-" :> 100)
cPctAB == ("a" :> 50) @@ ("b" :> 34)
================================================================================
