-------------------------- MODULE SpilloverThrottleP --------------------------
(* X03 - quota spillover, policy mode (strategy_based_throttling remedy with     *)
(* `spillover_config: {enabled: true, renew_on_day: D}`): property specification. *)
(*                                                                              *)
(* DERIVED STATEMENT.  The repository documents the feature only by its schema   *)
(* (`SpilloverConfig{Enabled, RenewOnDay}` in shared-model/config), two code      *)
(* comments in utils/limit/single_rate_limit_state.go ("update spillover when     *)
(* window is over & not at the first check", "Calculate the spillover"), one unit *)
(* test each for the state and the plugin, and the integration scenario          *)
(* "Requests which exceed the limit with spillover" (2 requests per 1 s window:   *)
(* one request in a window, then in the next window 3 pass and the 4th gets 429). *)
(* What a user of the remedy relies on:                                          *)
(*   S1  windows are the epoch-aligned windows of C09; in a window at most        *)
(*       allowed_request_count + spillover requests of a key pass, where          *)
(*       spillover is what the key really left unused before:                     *)
(*   S2  when a window is over, the part of its budget (allowance + spillover it  *)
(*       started with) that was not used is the spillover of the next window; a   *)
(*       window without traffic leaves its whole allowance;                       *)
(*   S3  hence over the first k windows of a key at most k x allowed requests     *)
(*       pass (KBound), and the spillover never exceeds what was really left      *)
(*       unused (SpillReal);                                                      *)
(*   S4  a request is blocked only when the window's budget is used up;           *)
(*   S5  on day-of-month `renew_on_day` the spillover starts again from zero.     *)
(*                                                                              *)
(* The code agrees with S1-S5 only in part; where it does not, this              *)
(* specification ACCEPTS BOTH readings (the set of spillover values some          *)
(* permitted bookkeeping could hold is kept as an interval lo..hi; a verdict is   *)
(* permitted iff some value of the interval explains it and then narrows it):     *)
(*   D1 (gaps)     the code brings a key up to date only when a request for it    *)
(*                 arrives or the metric `quota_used` is read; windows skipped    *)
(*                 in between leave nothing (S2 says: their whole allowance).     *)
(*                 Accepted: any credit 0 .. gap x allowed.                       *)
(*   D2 (renewal)  the code zeroes the spillover at every window change that is   *)
(*                 observed ON the renewal day and never otherwise: a renewal day *)
(*                 without traffic renews nothing (S5 says it does).  Accepted    *)
(*                 after an unobserved renewal day: anything from 0 up to the     *)
(*                 unrenewed value.                                               *)
(* and one reading is modelled AS THE ENGINE IS (reported, not accepted as right):*)
(*   D3 (groups)   for a key with an allocation share p < 100 % the code carries  *)
(*                 `allowed - used` of the WHOLE remedy (not of the share) and     *)
(*                 grants ceil((allowed + spillover) x p): a group that uses its   *)
(*                 full share every window still gains spillover until it is      *)
(*                 granted the whole allowance.  KBound / SpillReal are therefore  *)
(*                 stated for p = 100 only.                                       *)
(* Reads of the metric are events of this specification (they are API calls of    *)
(* the real system and change what later requests are answered).                  *)
(* Not covered: reconfiguration of window length / allowed count while spillover  *)
(* is held; default-behaviour groups (C09); time zones other than UTC.            *)
EXTENDS Integers, Sequences, FiniteSets

CONSTANTS
    Group,      \* keys of the one remedy: group header values, or {"-"} for an ungrouped remedy
    Pct,        \* [Group -> 1..100] allocation percentage (100 for the ungrouped key)
    A,          \* allowed_request_count
    W,          \* window length in ticks
    RenewDay    \* renew_on_day (day of month; 0 = never)

VARIABLES
    now,        \* instant in ticks since the epoch grid origin
    dom,        \* day of month of `now`
    st,         \* [Group -> record]  per key, see Fresh
    last        \* last observable event

vars == <<now, dom, st, last>>

\* win   window index of the last accounting of the key (-1: the key does not exist yet)
\* used  passes in that window
\* lo,hi spillover values the key may hold in that window
\* rs    an instant of a renewal day occurred since the last accounting
\* stay  the last accounting and every instant since lie on the renewal day
\* first window of the key's first request; tot = passes since then
Fresh == [win |-> -1, used |-> 0, lo |-> 0, hi |-> 0, rs |-> FALSE, stay |-> FALSE, first |-> -1, tot |-> 0]

MaxOf(a, b) == IF a >= b THEN a ELSE b
MinOf(a, b) == IF a <= b THEN a ELSE b
\* TLC integers are 32 bit: window counts and spillover bounds are cut off at a value no history reaches
\* (a window with a million passes); beyond it the specification only becomes more permissive about blocking
Big == 1000000
Cap(n) == MinOf(n, Big)

\* passes a key holding spillover h is granted per window (the code: Ceil((allowed + spillover) * ratio))
Limit(g, h) == ((A + h) * Pct[g] + 99) \div 100
\* least spillover with Limit > u / greatest spillover with Limit <= u
Hmin(g, u) == (100 * u) \div Pct[g] + 1 - A
Hmax(g, u) == (100 * u) \div Pct[g] - A
\* least spillover consistent with u passes in the window
MinLo(g, u) == IF u = 0 THEN 0 ELSE MaxOf(0, Hmin(g, u - 1))

\* the key's record brought up to date at the current instant (request for it, or metric read)
Synced(g, s) ==
    LET j == now \div W IN
    IF s.win = -1
    THEN [s EXCEPT !.win = j, !.first = j, !.used = 0, !.lo = 0, !.hi = 0, !.rs = FALSE, !.tot = 0,
                   !.stay = (dom = RenewDay)]
    ELSE IF j > s.win
    THEN LET G == Cap(j - s.win - 1) * A     \* allowance of the windows skipped in between (D1)
             left == A - s.used
         IN  [s EXCEPT !.win = j, !.used = 0, !.rs = FALSE, !.stay = (dom = RenewDay),
                       !.lo = IF dom = RenewDay \/ s.rs THEN 0 ELSE Cap(s.lo + left),
                       \* on the renewal day: zero at every observed window change (the code), or zero once when
                       \* the day begins and carrying on within it (the other reading of S5)
                       !.hi = Cap(IF dom = RenewDay THEN (IF s.stay THEN s.hi + left + G ELSE G)
                                  ELSE s.hi + left + G)]
    ELSE IF s.rs                                \* a renewal day began inside the current window (D2)
    THEN [s EXCEPT !.rs = FALSE, !.stay = (dom = RenewDay), !.lo = MinOf(s.lo, MinLo(g, s.used))]
    ELSE s

AfterPass(g, s)  == [s EXCEPT !.used = s.used + 1, !.tot = s.tot + 1, !.lo = MaxOf(s.lo, Hmin(g, s.used))]
AfterBlock(g, s) == [s EXCEPT !.hi = MinOf(s.hi, Hmax(g, s.used))]

CanPass(g, s)  == s.used < Limit(g, s.hi)
CanBlock(g, s) == s.used >= Limit(g, s.lo)

Permits(g, out) ==
    LET s == Synced(g, st[g]) IN
    \/ out = "pass" /\ CanPass(g, s)
    \/ out = "block" /\ CanBlock(g, s)

Init ==
    /\ now \in Nat /\ dom \in 1..31         \* fixed by the instance / the trace
    /\ st = [g \in Group |-> Fresh]
    /\ last = [ev |-> "init"]

\* the clock moves by d ticks to an instant of day-of-month dom2; `crossed` = some instant in (now, now+d] lies on the
\* renewal day, `allrenew` = all of them do
Advance(d, dom2, crossed, allrenew) ==
    /\ d > 0
    /\ now' = now + d
    /\ dom' = dom2
    /\ st' = [g \in Group |-> [st[g] EXCEPT !.rs = @ \/ crossed, !.stay = @ /\ allrenew]]
    /\ last' = [ev |-> "adv", d |-> d]

\* bookkeeping of an answered request (no guard: used by the product with the implementation model)
Observe(g, out) ==
    LET s == Synced(g, st[g]) IN
    /\ st' = [st EXCEPT ![g] = IF out = "pass" THEN AfterPass(g, s) ELSE AfterBlock(g, s)]
    /\ UNCHANGED <<now, dom>>

Request(g, out) ==
    /\ Permits(g, out)
    /\ Observe(g, out)
    /\ last' = [ev |-> "req", g |-> g, out |-> out]

\* n requests for one key at one instant, p of them passed: within a window the budget is fixed and the count only
\* grows, so the passes come first
RECURSIVE PassN(_, _, _)
PassN(g, s, p) == IF p = 0 THEN s ELSE PassN(g, AfterPass(g, s), p - 1)
Batch(g, n, p) ==
    LET s0 == Synced(g, st[g])
        s1 == PassN(g, s0, p)
    IN
    /\ p \in 0..n
    /\ s0.used + p <= Limit(g, s0.hi)
    /\ (p < n => CanBlock(g, s1))
    /\ st' = [st EXCEPT ![g] = IF p < n THEN AfterBlock(g, s1) ELSE s1]
    /\ last' = [ev |-> "batch", g |-> g, n |-> n, p |-> p]
    /\ UNCHANGED <<now, dom>>

\* the metric quota_used is read: every existing key is brought up to date
Read ==
    /\ st' = [g \in Group |-> IF st[g].win = -1 THEN st[g] ELSE Synced(g, st[g])]
    /\ last' = [ev |-> "read"]
    /\ UNCHANGED <<now, dom>>

-------------------------------------------------------------------------------
\* The statement as invariants over P's own variables

Sane == \A g \in Group : st[g].win # -1 => (0 <= st[g].lo /\ st[g].lo <= st[g].hi)

\* S1: never more passes in a window than allowance + spillover
PerWindow == \A g \in Group : st[g].used <= Limit(g, st[g].hi)

\* S3: over the first k windows of a key at most k x allowed requests pass
KBound == \A g \in Group : (Pct[g] = 100 /\ st[g].win # -1) =>
              st[g].tot <= Cap(st[g].win - st[g].first + 1) * A

\* S3: the spillover never exceeds what the earlier windows really left unused
SpillReal == \A g \in Group : (Pct[g] = 100 /\ st[g].win # -1 /\ st[g].win - st[g].first < Big) =>
              st[g].hi <= (st[g].win - st[g].first) * A - (st[g].tot - st[g].used)
================================================================================
