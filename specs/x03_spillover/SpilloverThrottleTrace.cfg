SPECIFICATION TraceSpec
INVARIANTS Sane PerWindow KBound SpillReal
CONSTRAINT HWM
POSTCONDITION Post
CHECK_DEADLOCK FALSE
