------------------------ MODULE SpilloverThrottleTrace ------------------------
(* X03 - trace validation of recorded executions of the real                     *)
(* StrategyBasedThrottlingPlugin.OnRequest with spillover enabled against the     *)
(* property spec SpilloverThrottleP.                                             *)
(* trace.ndjson: line 1 = configuration (constants of P), then                    *)
(*   {"ev":"reset","now":t,"dom":d}          fresh plugin + state, clock at tick t *)
(*   {"ev":"adv","d":d,"dom":..,"crossed":..,"allrenew":..}   clock advanced       *)
(*   {"ev":"req","g":..,"out":"pass"|"block"}                                     *)
(*   {"ev":"batch","g":..,"n":n,"passes":p}  n requests at one instant, p passed   *)
(*   {"ev":"read"}                           metric quota_used read               *)
EXTENDS TraceLib, Integers, FiniteSets

Cfg == TraceLog[1]
GroupSeq == Cfg.groups
Group == {GroupSeq[i] : i \in 1..Len(GroupSeq)}
Pct == Cfg.Pct
A == Cfg.A
W == Cfg.W
RenewDay == Cfg.RenewDay

VARIABLES now, dom, st, last, l

P == INSTANCE SpilloverThrottleP

tvars == <<now, dom, st, last, l>>

Ev == TraceLog[l + 1]
Consume(name) == l < TraceLen /\ Ev.ev = name /\ l' = l + 1

TInit == now = 0 /\ dom = 1 /\ st = [g \in Group |-> P!Fresh] /\ last = [ev |-> "init"] /\ l = 1

TReset ==
    /\ Consume("reset")
    /\ now' = Ev.now /\ dom' = Ev.dom
    /\ st' = [g \in Group |-> P!Fresh]
    /\ last' = [ev |-> "reset"]

TAdv == Consume("adv") /\ P!Advance(Ev.d, Ev.dom, Ev.crossed, Ev.allrenew)
TReq == Consume("req") /\ P!Request(Ev.g, Ev.out)
TBatch == Consume("batch") /\ P!Batch(Ev.g, Ev.n, Ev.passes)
TRead == Consume("read") /\ P!Read

TNext == TReset \/ TAdv \/ TReq \/ TBatch \/ TRead

TraceSpec == TInit /\ [][TNext]_tvars

Sane == P!Sane
PerWindow == P!PerWindow
KBound == P!KBound
SpillReal == P!SpillReal
HWM == Mark(l)
Post == Report
================================================================================
