\* behaviour generation, grouped remedy (engine as it is, D3)
CONSTANTS
  Group = {"a", "b"}
  Pct <- cPctAB
  A = 3
  W = 1
  RenewDay = 17
  Variant = "asis"
  DayLen = 86400
  MonthLen = 28
  DomOffset = 15
  Start = 86395
  Steps = {1, 2, 3, 86400}
  MaxNow = 900000
  WithRead = TRUE
  GenDepth = 30
  ReqWeight = 3
SPECIFICATION IPSpec
INVARIANT Emit
ACTION_CONSTRAINT GenShape
CHECK_DEADLOCK FALSE
