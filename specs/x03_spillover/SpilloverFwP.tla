----------------------------- MODULE SpilloverFwP -----------------------------
(* X03 - quota spillover and monthly renewal, flows mode (quota resource with a   *)
(* `spillover: {max: S}` section and `monthly_renewal: {day, hour, minute,         *)
(* timezone}` in fixed_window / fixed_window_custom_counter): property spec.       *)
(*                                                                              *)
(* DERIVED STATEMENT.  The repository documents the feature by the quota schema    *)
(* (quota.model.go: `Spillover{Max}`, `MonthlyRenewalData`; validation: "Monthly-  *)
(* Renewal is required for limit with Spillover"), by comments / log lines of      *)
(* fixed_strategy.go ("Using spillover", "Decrementing spillover count", "TODO:    *)
(* Implement spillover reset"), and by the disabled integration scenario "Requests *)
(* which exceed the limit uses spillover when enabled" (2 requests per 1 s,        *)
(* spillover max 3: one request in a window, then 3 of the next window's requests  *)
(* get 200 and the 4th 429; "re-enable this test after fixing the issue with the   *)
(* spillover").  What a user relies on, in addition to C01 (a window is opened by  *)
(* the first request after the previous one ended and admits at most `max`):       *)
(*   F1  what a window left unused of its allowance (and of the spillover it       *)
(*       held) is available to later windows of the same key, never more than      *)
(*       `spillover.max` at a time; a whole window length without traffic leaves   *)
(*       its whole allowance;                                                      *)
(*   F2  a request is admitted only if the window's own allowance plus the         *)
(*       spillover really accumulated cover its cost (Bound), so over any span of  *)
(*       k window lengths since the key's first request at most k x max is         *)
(*       admitted (KBound);                                                        *)
(*   F3  a request is refused only if the allowance does not cover it and the      *)
(*       spillover does not cover it either;                                       *)
(*   F4  which of the two a request consumes first is not documented (the code     *)
(*       takes spillover first and does not open a window meanwhile): any split,   *)
(*       or none (a request neither of the two covers alone may be refused);       *)
(*   F5  at the monthly renewal instant the quota is renewed: the spillover is     *)
(*       dropped and the window may start afresh.                                  *)
(* The code implements none of the carrying: nothing ever writes a positive        *)
(* spillover count (D4), and `fixedWindow.monthlyRenewal` is never assigned, so    *)
(* the renewal code is unreachable (D5).  This specification ACCEPTS BOTH: per key *)
(* it keeps the set of states some permitted bookkeeping could be in (window       *)
(* anchor, own allowance used, remaining spillover between lo and hi, where lo = 0 *)
(* is the code and hi the documented carrying); a verdict is permitted iff some    *)
(* state of the set explains it.  1 tick = 1 s and every instant is a whole        *)
(* second, so the one-second granularity of the stored window start (C01) is not   *)
(* visible here.                                                                   *)
EXTENDS Integers, Sequences, FiniteSets

CONSTANTS
    Group,      \* header values; "default" = header absent
    Grouped,    \* BOOLEAN: one window per header value / one window in all
    Max,        \* allowance per window
    W,          \* window length in ticks
    SpillOn,    \* BOOLEAN: a spillover section is configured
    SpillMax    \* spillover.max

VARIABLES
    now,
    hyp,        \* [Group -> set of records [anchor, own, lo, hi, mr]]
    tot,        \* [Group -> admitted cost since the key's first request]
    first,      \* [Group -> instant of the key's first request, -1 before]
    renewed,    \* a monthly renewal instant has passed
    last

vars == <<now, hyp, tot, first, renewed, last>>

Key(g) == IF Grouped THEN g ELSE "default"
MaxOf(a, b) == IF a >= b THEN a ELSE b
MinOf(a, b) == IF a <= b THEN a ELSE b

\* anchor: instant the current window was opened (-1: none yet); own: part of the window's allowance used;
\* lo..hi: remaining spillover; mr: a renewal passed since the window was opened (it may start afresh)
Fresh == [anchor |-> -1, own |-> 0, lo |-> 0, hi |-> 0, mr |-> FALSE]

Live(s) == s.anchor # -1 /\ now < s.anchor + W

\* spillover available when a new window is opened after s
\* (after a renewal only what whole idle window lengths left since)
CarryHi(s) ==
    IF ~SpillOn \/ s.anchor = -1 THEN 0
    ELSE LET idle == MaxOf(0, (now - s.anchor - W) \div W)
         IN  IF s.mr THEN MinOf(SpillMax, idle * Max)
             ELSE MinOf(SpillMax, s.hi + (Max - s.own) + idle * Max)

\* states after a request of cost c answered `out`, starting from s
Succ(s, c, out) ==
    UNION {
      LET cnt == IF exp THEN 0 ELSE s.own
          a == IF exp THEN 0 ELSE s.lo
          b == IF exp THEN CarryHi(s) ELSE s.hi
      IN
      IF exp /\ Live(s) /\ ~s.mr THEN {}                       \* a live window is not reopened (unless renewed)
      ELSE IF out = "admit"
      THEN { [anchor |-> IF exp THEN now ELSE s.anchor, own |-> cnt + c - x,
              lo |-> MaxOf(0, a - x), hi |-> b - x, mr |-> IF exp THEN FALSE ELSE s.mr]
             : x \in {y \in 0..c : /\ y <= b
                                   /\ cnt + c - y <= Max
                                   /\ (~exp /\ ~Live(s) => y = c)} }   \* no window is opened: spillover pays all
      \* refused: the allowance alone does not cover it and for some permitted spillover value neither does the
      \* spillover alone (an implementation need not split a request over the two)
      ELSE IF cnt + c > Max /\ a < c /\ (exp \/ Live(s))
      THEN LET nb == MinOf(b, c - 1) IN
           {[anchor |-> IF exp THEN now ELSE s.anchor, own |-> cnt, lo |-> a, hi |-> nb,
             mr |-> IF exp THEN FALSE ELSE s.mr]}
           \cup (IF exp THEN {s} ELSE {})                       \* a refusal need not leave the window reopened
      ELSE {}
      : exp \in BOOLEAN }

Permits(g, c, out) == \E s \in hyp[Key(g)] : Succ(s, c, out) # {}

Init ==
    /\ now \in Nat
    /\ hyp = [g \in Group |-> {Fresh}]
    /\ tot = [g \in Group |-> 0]
    /\ first = [g \in Group |-> -1]
    /\ renewed = FALSE
    /\ last = [ev |-> "init"]

\* the clock moves by d ticks; renew = a monthly renewal instant lies in (now, now + d]
Advance(d, renew) ==
    /\ d > 0
    /\ now' = now + d
    /\ hyp' = IF ~renew THEN hyp
              ELSE [g \in Group |-> hyp[g] \cup      \* D5: the renewal takes effect (F5) or does not (the code)
                        {IF s.anchor = -1 THEN s ELSE [s EXCEPT !.lo = 0, !.hi = 0, !.mr = TRUE] : s \in hyp[g]}]
    /\ renewed' = (renewed \/ renew)
    /\ last' = [ev |-> "adv", d |-> d]
    /\ UNCHANGED <<tot, first>>

\* bookkeeping of an answered request (no guard: used by the product with the implementation model)
Observe(g, c, out) ==
    LET k == Key(g) IN
    /\ hyp' = [hyp EXCEPT ![k] = UNION {Succ(s, c, out) : s \in hyp[k]}]
    /\ tot' = [tot EXCEPT ![k] = IF out = "admit" THEN @ + c ELSE @]
    /\ first' = [first EXCEPT ![k] = IF @ = -1 THEN now ELSE @]
    /\ UNCHANGED <<now, renewed>>

Arrive(g, c, out) ==
    /\ Permits(g, c, out)
    /\ Observe(g, c, out)
    /\ last' = [ev |-> "arrive", g |-> g, cost |-> c, out |-> out]

-------------------------------------------------------------------------------
Sane == \A g \in Group : hyp[g] # {}

\* F2: never more than the allowance out of the window, never more spillover than configured
Bound == \A g \in Group : \A s \in hyp[g] :
            /\ 0 <= s.own /\ s.own <= Max
            /\ 0 <= s.lo /\ s.lo <= s.hi /\ s.hi <= (IF SpillOn THEN SpillMax ELSE 0)

\* F2: over any span of k window lengths since the key's first request at most k x max
KBound == \A g \in Group : (first[g] # -1 /\ ~renewed) =>
            tot[g] <= ((now - first[g]) \div W + 1) * Max
================================================================================
