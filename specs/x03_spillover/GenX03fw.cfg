\* behaviour generation (tlc -simulate): walks of the flows-mode product; the verdicts are those of the code as it is
CONSTANTS
  Group = {"a", "default"}
  Grouped = TRUE
  Max = 2
  W = 3
  SpillOn = TRUE
  SpillMax = 2
  Variant = "asis"
  Costs = {1}
  Steps = {1, 2, 3, 4, 7, 86400, 2592000}
  Start = 5
  MaxNow = 40000000
  RenewAt = {}
  GenDepth = 30
  ReqWeight = 3
SPECIFICATION IPSpec
INVARIANT Emit
ACTION_CONSTRAINT GenShape
CHECK_DEADLOCK FALSE
