----------------------------- MODULE SpilloverFwI -----------------------------
(* X03 - implementation-shaped model of quota.Inc (fixed_strategy.go) with        *)
(* `withSpillover`, on top of memoryState.AtomicIncWindow (memory_state.go), one   *)
(* quota, one window per group key; 1 tick = 1 s (no sub-second instants).  The    *)
(* whole of Inc runs under quota.mutex: one atomic action.  The verdict memo       *)
(* (allowedByReqID) is C01's / C18's subject and is not modelled: the verdict of   *)
(* Inc is the verdict the Limiter reports.                                         *)
(*                                                                              *)
(* Variant "asis" is the code: the spillover counter is read and, when positive,   *)
(* consumed first - but nothing ever stores a positive value, so the branch is     *)
(* dead and a quota with spillover behaves like one without (D4).  The monthly     *)
(* renewal is not modelled: fixedWindow.monthlyRenewal is never assigned (D5).     *)
(* Other variants (to show that I => P tells them apart):                          *)
(*   benign: "accumulate"  the documented carrying: on a window restart            *)
(*                         spillover = min(max_spillover, spillover + max - count) *)
(*   broken: "nocap"       the same without the bound max_spillover                *)
(*           "wrong_key"   the window count is stored under the spillover key      *)
(*           "ge0"         `spilloverCount >= 0` instead of `> 0`                   *)
EXTENDS Integers, Sequences, FiniteSets

CONSTANTS Group, Grouped, Max, W, SpillOn, SpillMax, Variant

VARIABLES now, start, count, spillc, last

ivars == <<now, start, count, spillc, last>>

Key(g) == IF Grouped THEN g ELSE "default"
MinOf(a, b) == IF a <= b THEN a ELSE b

Init ==
    /\ now \in Nat
    /\ start = [g \in Group |-> -1]       \* no window-start key stored yet
    /\ count = [g \in Group |-> 0]
    /\ spillc = [g \in Group |-> 0]
    /\ last = [ev |-> "init"]

Advance(d) ==
    /\ d > 0
    /\ now' = now + d
    /\ last' = [ev |-> "adv", d |-> d]
    /\ UNCHANGED <<start, count, spillc>>

Inc(g, c) ==
    LET k == Key(g)
        sp == IF SpillOn THEN spillc[k] ELSE 0
        useSpill == IF Variant = "ge0" THEN SpillOn /\ sp >= 0 ELSE sp > 0
        restarted == start[k] # -1 /\ now - start[k] >= W
        base == IF restarted \/ start[k] = -1 THEN 0 ELSE count[k]
        newc == base + c
        ok == newc <= Max
        carried == spillc[k] + Max - count[k]
    IN
    /\ UNCHANGED now
    /\ IF useSpill
       THEN /\ spillc' = [spillc EXCEPT ![k] = sp - 1]
            /\ UNCHANGED <<start, count>>
            /\ last' = [ev |-> "arrive", g |-> g, cost |-> c, out |-> "admit"]
       ELSE /\ start' = IF ok /\ (restarted \/ start[k] = -1) THEN [start EXCEPT ![k] = now] ELSE start
            /\ count' = IF ok THEN [count EXCEPT ![k] = newc] ELSE count
            /\ spillc' = IF Variant = "wrong_key" /\ ok /\ SpillOn THEN [spillc EXCEPT ![k] = newc]
                         ELSE IF Variant = "accumulate" /\ ok /\ restarted /\ SpillOn
                              THEN [spillc EXCEPT ![k] = MinOf(SpillMax, carried)]
                         ELSE IF Variant = "nocap" /\ ok /\ restarted /\ SpillOn
                              THEN [spillc EXCEPT ![k] = carried]
                         ELSE spillc
            /\ last' = [ev |-> "arrive", g |-> g, cost |-> c, out |-> IF ok THEN "admit" ELSE "refuse"]
================================================================================
