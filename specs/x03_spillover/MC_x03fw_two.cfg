CONSTANTS
  Group = {"a", "default"}
  Grouped = TRUE
  Max = 2
  W = 3
  SpillOn = TRUE
  SpillMax = 3
  Variant = "asis"
  Costs = {1}
  Steps = {1, 2, 3, 4, 7}
  Start = 0
  MaxNow = 7
  RenewAt = {}
  GenDepth = 0
  ReqWeight = 1
SPECIFICATION IPSpec
PROPERTIES Conforms
INVARIANTS Sane Bound KBound InHyp
CHECK_DEADLOCK FALSE
