---------------------------- MODULE SpilloverFwIP -----------------------------
(* X03 - product of the flows-mode implementation model with the property spec:   *)
(* I decides every verdict, P does its bookkeeping; `Conforms`: every verdict of I *)
(* is permitted by P in the state before it.                                       *)
EXTENDS Integers, Sequences, FiniteSets, TLC, Json

CONSTANTS Group, Grouped, Max, W, SpillOn, SpillMax, Variant,
          Costs, Steps, Start, MaxNow,
          RenewAt,       \* set of instants that are monthly renewal instants (model checking)
          GenDepth, ReqWeight

VARIABLES now, last, start, count, spillc, hyp, tot, first, renewed, hist

I == INSTANCE SpilloverFwI
P == INSTANCE SpilloverFwP

pvars == <<now, last, start, count, spillc, hyp, tot, first, renewed, hist>>

Init == now = Start /\ I!Init /\ P!Init /\ hist = <<[ev |-> "reset", now |-> Start]>>

Rec == IF GenDepth > 0 THEN hist' = Append(hist, last') ELSE UNCHANGED hist

Next ==
    \/ \E d \in Steps : /\ now + d <= MaxNow
                        /\ I!Advance(d)
                        /\ P!Advance(d, \E t \in RenewAt : now < t /\ t <= now + d)
                        /\ Rec
    \/ \E g \in Group, c \in Costs, k \in 1..ReqWeight : I!Inc(g, c) /\ P!Observe(g, c, last'.out) /\ Rec

IPSpec == Init /\ [][Next]_pvars

Conforms == [][last'.ev = "arrive" => P!Permits(last'.g, last'.cost, last'.out)]_pvars
Sane == P!Sane
Bound == P!Bound
KBound == P!KBound

\* the implementation state is one of the states P considers possible
InHyp == \A g \in Group : (g = I!Key(g) /\ start[g] # -1) =>
            \E s \in hyp[g] : s.anchor = start[g] /\ s.own <= count[g] /\ s.lo <= spillc[g] /\ spillc[g] <= s.hi

\* witnesses (expected to be violated)
NoSpillHyp == \A g \in Group : \A s \in hyp[g] : s.hi = 0          \* P does consider carried spillover
NoSpillUse == \A g \in Group : spillc[g] = 0                       \* (variant accumulate) I does carry

GenShape == (last.ev = "adv" => last'.ev # "adv")
Emit == (GenDepth > 0 /\ Len(hist) = GenDepth) => PrintT(<<"VH", ToJson(hist)>>)
================================================================================
