CONSTANTS
  Group = {"-"}
  Pct <- cPct100
  A = 2
  W = 2
  RenewDay = 2
  Variant = "asis"
  DayLen = 4
  MonthLen = 3
  DomOffset = 0
  Start = 1
  Steps = {1, 2, 3, 5}
  MaxNow = 26
  WithRead = TRUE
  GenDepth = 0
  ReqWeight = 1
SPECIFICATION IPSpec
PROPERTIES Conforms
INVARIANTS Sane PerWindow KBound SpillReal SpillInRange
CHECK_DEADLOCK FALSE
