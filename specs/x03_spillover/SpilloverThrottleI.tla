-------------------------- MODULE SpilloverThrottleI --------------------------
(* X03 - implementation-shaped model of utils/limit/single_rate_limit_state.go    *)
(* with spillover enabled: TryToIncrement / ensureWindowIsUpdated / Counter, one  *)
(* state per key created by the key's first request (rate_limit_state_by_limiter),*)
(* Counters() = the metric read of StrategyBasedThrottlingPlugin.observeQuotaUsed.*)
(* Every call runs under the key's mutex: one atomic action each.                 *)
(*                                                                              *)
(* Variant = "asis" is the code; the other values are deliberately broken or      *)
(* benign variants used to show that I => P can tell them apart:                  *)
(*   broken: "add_all"   spillover += allowed            (what was used is not subtracted)       *)
(*           "no_first"  the first check of a key already adds a window's allowance              *)
(*           "renew_ne"  renewal test inverted                                                   *)
(*           "no_share"  the budget ignores the spillover                                        *)
(*           "assign"    spillover = allowed - counter   (does not accumulate)                   *)
(*           "no_renew"  the renewal day does nothing                                            *)
(*   benign: "gap_full"  skipped windows leave their whole allowance (reading S2 of the statement)*)
EXTENDS Integers, Sequences, FiniteSets

CONSTANTS Group, Pct, A, W, RenewDay, Variant

VARIABLES now, dom, counter, spill, wend, made, last

ivars == <<now, dom, counter, spill, wend, made, last>>

Init ==
    /\ now \in Nat /\ dom \in 1..31
    /\ counter = [g \in Group |-> 0]
    /\ spill = [g \in Group |-> 0]
    /\ wend = [g \in Group |-> 0]          \* epochTime
    /\ made = [g \in Group |-> FALSE]
    /\ last = [ev |-> "init"]

Advance(d, dom2) ==
    /\ d > 0
    /\ now' = now + d
    /\ dom' = dom2
    /\ last' = [ev |-> "adv", d |-> d]
    /\ UNCHANGED <<counter, spill, wend, made>>

\* ensureWindowIsUpdated: <<counter, spillover, windowEnd>> afterwards
Ensure(g) ==
    IF now >= wend[g]                                    \* !currentTime.Before(windowEndTime)
    THEN LET notFirst == IF Variant = "no_first" THEN TRUE ELSE wend[g] # 0
             renew == IF Variant = "renew_ne" THEN dom # RenewDay
                      ELSE IF Variant = "no_renew" THEN FALSE ELSE dom = RenewDay
             gap == IF wend[g] = 0 THEN 0 ELSE (now - wend[g]) \div W
             carried == IF Variant = "add_all" THEN spill[g] + A
                        ELSE IF Variant = "assign" THEN A - counter[g]
                        ELSE IF Variant = "gap_full" THEN spill[g] + A - counter[g] + gap * A
                        ELSE spill[g] + A - counter[g]
             sp == IF notFirst THEN (IF renew THEN 0 ELSE carried) ELSE spill[g]
         IN  <<0, sp, (now \div W + 1) * W>>
    ELSE <<counter[g], spill[g], wend[g]>>

Request(g) ==
    LET e == Ensure(g)
        budget == IF Variant = "no_share" THEN A ELSE A + e[2]
        max == (budget * Pct[g] + 99) \div 100
        pass == e[1] < max
    IN
    /\ counter' = [counter EXCEPT ![g] = IF pass THEN e[1] + 1 ELSE e[1]]
    /\ spill' = [spill EXCEPT ![g] = e[2]]
    /\ wend' = [wend EXCEPT ![g] = e[3]]
    /\ made' = [made EXCEPT ![g] = TRUE]
    /\ last' = [ev |-> "req", g |-> g, out |-> IF pass THEN "pass" ELSE "block"]
    /\ UNCHANGED <<now, dom>>

\* Counters(): Counter() of every existing state
Read ==
    /\ counter' = [g \in Group |-> IF made[g] THEN Ensure(g)[1] ELSE counter[g]]
    /\ spill' = [g \in Group |-> IF made[g] THEN Ensure(g)[2] ELSE spill[g]]
    /\ wend' = [g \in Group |-> IF made[g] THEN Ensure(g)[3] ELSE wend[g]]
    /\ last' = [ev |-> "read"]
    /\ UNCHANGED <<now, dom, made>>
================================================================================
