SPECIFICATION TraceSpec
INVARIANTS Sane Bound KBound
CONSTRAINT HWM
POSTCONDITION Post
CHECK_DEADLOCK FALSE
