\* behaviour generation (tlc -simulate): walks of the product on the real calendar of the harness
\* (tick = 1 s, grid origin 2023-02-16 00:00 UTC: day-of-month offset 15, February has 28 days; the walks end before March)
CONSTANTS
  Group = {"-"}
  Pct <- cPct100
  A = 1
  W = 2
  RenewDay = 17
  Variant = "asis"
  DayLen = 86400
  MonthLen = 28
  DomOffset = 15
  Start = 86390
  Steps = {1, 2, 86400, 86397, 172800}
  MaxNow = 900000
  WithRead = TRUE
  GenDepth = 30
  ReqWeight = 3
SPECIFICATION IPSpec
INVARIANT Emit
ACTION_CONSTRAINT GenShape
CHECK_DEADLOCK FALSE
