---------------------------- MODULE AdminITrace ----------------------------
(* X08 - binds the implementation-shaped model AdminI to the code: every        *)
(* recorded history of the real interface (harness/cmd/x08) must be a           *)
(* behaviour of AdminI - each recorded event is matched by an observable step   *)
(* of the model that hands out the same answer and the same observation, with   *)
(* internal steps of the update process (file by file, in the order the real    *)
(* run happened to take) in between.  A history the model cannot follow is      *)
(* MODEL-DRIFT (the exhaustive result no longer speaks about this code), never  *)
(* a violation - violations are AdminTrace's (AdminP's) business.               *)
(* Not compared: the number of admin calls to the proxy, the SHA of the tree,   *)
(* second status codes, the text of answers.                                    *)
EXTENDS TraceLib, AdminI

VARIABLES l
tvars == <<l, disk, eng, up, dead, lock, sf, fault, upd, out, env>>

Ev == TraceLog[l + 1]
Have == l < TraceLen

EmptyDisk == IF Mode = "flows" THEN << >> ELSE [pol |-> "none", ll |-> NoCfgI, df |-> NoCfgI]

TInit == /\ l = 1 /\ disk = EmptyDisk /\ eng = (IF Mode = "flows" THEN << >> ELSE NoCfgI) /\ up = FALSE /\ dead = FALSE /\ lock = FALSE
         /\ sf = [discover |-> "absent", remedy |-> "absent"] /\ fault = FALSE /\ upd = Idle /\ out = [ev |-> "reset"]
         /\ env = [hub |-> FALSE, managed |-> FALSE]

TReset == /\ Have /\ Ev.ev = "reset" /\ l' = l + 1
          /\ disk' = EmptyDisk /\ eng' = (IF Mode = "flows" THEN << >> ELSE NoCfgI) /\ up' = FALSE /\ dead' = FALSE /\ lock' = FALSE
          /\ sf' = [discover |-> "absent", remedy |-> "absent"] /\ fault' = FALSE /\ upd' = Idle /\ out' = [ev |-> "reset"]
          /\ env' = [hub |-> Ev.hub, managed |-> Ev.managed]

\* (an engine that is not up answers no probe: the executor records "down")
IsDown(sv) == IF Mode = "flows" THEN sv.a = "down" ELSE sv.a.st = -1
ObsMatch(o, e) == o.disk = e.disk /\ (IsDown(e.served) \/ o.served = e.served) /\ o.hapfault = e.hapfault
AnsMatch(a, e) ==
    IF "ans" \notin DOMAIN e THEN ~a.parsed
    ELSE /\ a.parsed = e.ans.parsed
         /\ a.parsed => CASE e.ans.k = "handshake" -> a.managed = e.ans.managed
                          [] e.ans.k = "file" -> a.data = e.ans.data
                          [] e.ans.k = "doctor" -> a.streams = e.ans.streams /\ a.haspol = e.ans.haspol /\ a.hasloaded = e.ans.hasloaded
                                                   /\ a.files = e.ans.files /\ a.pol = e.ans.pol

\* the model's event o explains the recorded event e
Match(o, e) ==
    CASE e.ev = "edit" -> o.ev = "edit" /\ ObsMatch(o.obs, e.obs)
      [] e.ev = "statefile" -> o.ev = "statefile"
      [] e.ev = "hapfail" -> o.ev = "hapfail"
      [] e.ev = "start" -> o.ev = "start" /\ o.ok = e.ok /\ ObsMatch(o.obs, e.obs)
      [] e.ev = "call" -> o.ev = "call" /\ o.ep = e.ep /\ o.code = e.code /\ ObsMatch(o.obs, e.obs) /\ AnsMatch(o.ans, e)
      [] e.ev = "begin" /\ e.parked -> o.ev = "begin" /\ o.point = e.point /\ o.nth = e.nth /\ ObsMatch(o.obs, e.obs)
      [] e.ev = "begin" /\ ~e.parked -> o.ev = "call" /\ o.ep = e.ep /\ o.code = e.code /\ ObsMatch(o.obs, e.obs)
      [] e.ev = "finish" -> o.ev = "finish" /\ o.code = e.code /\ ObsMatch(o.obs, e.obs)
      [] OTHER -> FALSE

ArgOf(e) == [payload |-> e.arg.payload, body |-> e.arg.body, decodable |-> e.arg.decodable, txns |-> e.arg.txns]
IsUpdate(e) == e.ev \in {"call", "begin"} /\ e.ep \in {"apply_flows", "configuration"} /\ e.method = "PUT" /\ e.arg.decodable
               /\ Mode = "flows" /\ up /\ ~dead

\* a step of the model that consumes the next recorded event
TObserve ==
    /\ Have /\ Ev.ev # "reset"
    /\ CASE Ev.ev = "edit" -> Edit(IF Mode = "flows" THEN Ev.tree ELSE (IF "policies.yaml" \in DOMAIN Ev.tree THEN Ev.tree["policies.yaml"] ELSE "none"))
         [] Ev.ev = "statefile" -> StateFile(Ev.which, Ev.tag)
         [] Ev.ev = "hapfail" -> (IF fault THEN out' = [ev |-> "hapfail", nth |-> 1] /\ UNCHANGED <<disk, eng, up, dead, lock, sf, fault, upd, env>>
                                  ELSE ArmFault)
         [] Ev.ev = "start" -> Start
         [] Ev.ev = "call" /\ (dead \/ ~up) ->       \* there is no interface: the executor records status 0
                Ev.code = 0 /\ out' = [ev |-> "none"] /\ UNCHANGED <<disk, eng, up, dead, lock, sf, fault, upd, env>>
         [] Ev.ev = "call" /\ ~(dead \/ ~up) /\ (IsUpdate(Ev) /\ upd.pc # "parked") -> UDone
         [] Ev.ev = "call" /\ ~(dead \/ ~up) /\ ~(IsUpdate(Ev) /\ upd.pc # "parked") -> Call(Ev.ep, Ev.method, ArgOf(Ev))
         [] Ev.ev = "begin" -> (IF Ev.parked THEN UPark ELSE UDone)
         [] Ev.ev = "finish" -> UDone
    /\ (Ev.ev = "call" /\ (dead \/ ~up)) \/ Match(out', Ev)
    /\ l' = l + 1

\* internal steps: the update the next recorded event belongs to starts, runs, is resumed
TInternal ==
    /\ Have /\ l' = l
    /\ \/ /\ IsUpdate(Ev) /\ upd.pc = "idle" /\ UpdateBegin(Ev.ep, Ev.arg.payload, Ev.ev = "begin")
       \/ /\ Ev.ev = "finish" /\ upd.pc = "parked" /\ UResume
       \/ /\ upd.pc \in {"run", "run2"}
          /\ UClean \/ USaveRemove \/ USaveCreate \/ UReload \/ UPublish \/ URegister \/ URestoreBegin \/ URestoreRemove \/ URestoreCreate

TNext == TReset \/ TObserve \/ TInternal
TraceSpec == TInit /\ [][TNext]_tvars

HWM == Mark(l)
Post == Report
=============================================================================
