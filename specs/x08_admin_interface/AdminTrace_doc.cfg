CONSTANT Dev = "doc"
SPECIFICATION TraceSpec
INVARIANTS Harness Routes_ ValidatePure ValidateVerdict Agree LoadOutcome UpdateOutcome StartOutcome Introspect ReadOnly Revert Busy NeverHalf ErrorReport
CONSTRAINT HWM
POSTCONDITION Post
CHECK_DEADLOCK FALSE
