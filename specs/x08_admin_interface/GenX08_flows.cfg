CONSTANTS
  Mode = "flows"
  Hub = TRUE
  Managed = TRUE
  ValidateLenient = FALSE
  LoadSkipsValidation = FALSE
  ValidatePublishes = FALSE
  RevertFromPoliciesFile = FALSE
  BodyFileFirst = FALSE
  NoLock = FALSE
  PolicyRoutesInFlows = FALSE
  GetReloads = FALSE
  DoctorFromDisk = FALSE
  RestoreSkipped = FALSE
  DevMC = "both"
  RecordHistory = TRUE
  Sampled = TRUE
  MaxHist = 16
  TagsA = {"none", "v1", "v2", "v3", "junk", "rep", "bad"}
  TagsB = {"none", "v1", "v2", "rep", "junk", "bad", "dup", "lim"}
  TagsC = {"none", "v1", "bad"}
  TagsQ = {"none", "q1", "q2", "qbad", "qjunk"}
  TagsG = {"none", "g1", "gbad"}
  PayA = {"none", "v2", "v3", "bad", "junk"}
  PayB = {"none", "v2", "dup", "lim", "rep"}
  PayQ = {"none", "q1", "qbad"}
  PayG = {"none", "g2", "gbad"}
  WithGate = TRUE
  WithFault = TRUE
  WrongVerbs = TRUE
  StateFiles = {"discover", "remedy"}
  PolTagsMC = {}
  BodyTagsMC = {}
SPECIFICATION SpecMC
INVARIANTS Holds Emit
CHECK_DEADLOCK FALSE
