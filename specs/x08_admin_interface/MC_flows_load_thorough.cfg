CONSTANTS
  Mode = "flows"
  Hub = TRUE
  Managed = TRUE
  ValidateLenient = FALSE
  LoadSkipsValidation = FALSE
  ValidatePublishes = FALSE
  RevertFromPoliciesFile = FALSE
  BodyFileFirst = FALSE
  NoLock = FALSE
  PolicyRoutesInFlows = FALSE
  GetReloads = FALSE
  DoctorFromDisk = FALSE
  RestoreSkipped = FALSE
  DevMC = "both"
  RecordHistory = FALSE
  Sampled = FALSE
  MaxHist = 0
  TagsA = {"none", "v1", "v2", "junk", "rep", "bad"}
  TagsB = {"none", "v1", "rep", "bad", "dup", "lim"}
  TagsC = {"none"}
  TagsQ = {"none", "q1", "qbad"}
  TagsG = {"none", "gbad"}
  PayA = {}
  PayB = {}
  PayQ = {}
  PayG = {}
  WithGate = FALSE
  WithFault = TRUE
  WrongVerbs = TRUE
  StateFiles = {"discover"}
  PolTagsMC = {}
  BodyTagsMC = {}
SPECIFICATION SpecMC
INVARIANT Holds
VIEW View
CHECK_DEADLOCK FALSE
