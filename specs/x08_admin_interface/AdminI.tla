------------------------------- MODULE AdminI -------------------------------
(* X08 - implementation-shaped model of the engine's administrative interface   *)
(* (routing/handling_data_manager.go, routing/admin_routes.go,                  *)
(* config/policies_accessor.go, streams.Stream.Initialize): one action per      *)
(* handler; the update handlers (/apply_flows, /configuration) are a process    *)
(* of their own with the handler lock, the file-by-file clean-up and save, the  *)
(* reload (validate, build, publish, register with the proxy), the roll-back    *)
(* and the second reload, which can be parked once at any of its yield points   *)
(* while other requests are served (exactly what the executor can force on the  *)
(* real code through fs.remove / fs.store / hdm.initialized / hdm.published).   *)
(* Every observable step hands one event (answer + observation afterwards) to   *)
(* the monitor AdminP (MC_X08 checks AdminI => AdminP).                         *)
(* The reader of a configuration is written as the code does it (file by file,  *)
(* lenient or strict, then processors, then graph), not as AdminP states it.    *)
EXTENDS Integers, Sequences, FiniteSets, TLC

CONSTANTS Mode,        \* "flows" | "policies"
          \* deviations from the code, each refuted by TLC in a run of its own (non-vacuity of AdminI => AdminP)
          ValidateLenient,        \* /validate_flows reads the tree as start-up does (unreadable files skipped)
          LoadSkipsValidation,    \* /load_flows does not validate first
          ValidatePublishes,      \* /validate_flows leaves its dry-run engine serving
          RevertFromPoliciesFile, \* /revert_to_last_loaded reads policies.yaml
          BodyFileFirst,          \* /apply_policies stores the body before it is validated
          NoLock,                 \* the update handlers do not take the handler lock
          PolicyRoutesInFlows,    \* the policy-mode routes are registered in flows mode too
          GetReloads,             \* GET /load_flows reloads
          DoctorFromDisk,         \* the doctor reports the tree on disk instead of the loaded one
          RestoreSkipped          \* a failed update does not restore the tree

\* shared meaning of tags (data, not behaviour)
AtI(d, q) == IF q \in DOMAIN d THEN d[q] ELSE "none"
Flows3 == {"a", "b", "c"}
FPI == [a |-> "flows/a.yaml", b |-> "flows/b.yaml", c |-> "flows/c.yaml"]
QP == "quotas/q.yaml"
GP == "gateway_config.yaml"
FlowPathsI == {FPI[f] : f \in Flows3}
DeclaredName(q, t) == IF t = "dup" THEN "flows/a.yaml" ELSE q
QuotaIds(t) == IF t = "q1" THEN {"qx"} ELSE IF t = "q2" THEN {"qy"} ELSE {}

StatusI == [P1 |-> 411, P2 |-> 412, P3 |-> 413, Q1 |-> 421, Q2 |-> 422]
ParsePolicies(t) ==    \* DecodeYAML + Validate: the document, or "invalid"
    IF t \in {"pjunk", "punk", "pdup", "pexp", "pacct"} THEN [ok |-> FALSE]
    ELSE IF t = "none" THEN [ok |-> TRUE, names |-> << >>, nd |-> 0]
    ELSE IF t = "pconf" THEN [ok |-> TRUE, names |-> <<"pconf", "pconf2">>, nd |-> 0]
    ELSE [ok |-> TRUE, names |-> <<t>>, nd |-> IF t \in {"P1", "P2", "P3"} THEN 1 ELSE 0]
CfgOf(r) == [names |-> r.names, nd |-> r.nd]
NoCfgI == [names |-> << >>, nd |-> -1]
TreeBuilds(c) == Len(c.names) <= 1          \* BuildEndpointPolicyTree: two endpoints matching one URL with the same remedy type conflict
WithoutDiag(c) == [names |-> c.names, nd |-> 0]

VARIABLES disk,    \* the operator's tree (flows: path -> tag; policies: [pol, ll, df])
          eng,     \* what the serving engine was built from (flows: loaded files; policies: configuration record)
          up, dead,
          lock,    \* handlingLock
          sf,      \* state files of the aggregation plugin
          fault,   \* the proxy's admin API will refuse a call
          upd,     \* the update process
          out,     \* the event handed to the monitor by this step
          env      \* fixed for the life of the process: [hub: a Lunar Hub key is configured (the engine keeps the loaded
                   \* configuration for the hub and the doctor), managed: LUNAR_MANAGED = "true"]
ivars == <<disk, eng, up, dead, lock, sf, fault, upd, out, env>>

Idle == [pc |-> "idle"]
Tau == [ev |-> "tau"]

(* ------------------------------------------------------------------ the stream engine's reader *)
GetFlows(d) ==
    LET files == (DOMAIN d) \cap FlowPathsI
        good == {q \in files : d[q] \notin {"junk", "rep"}}
    IN [fatal |-> \E q1, q2 \in good : q1 # q2 /\ DeclaredName(q1, d[q1]) = DeclaredName(q2, d[q2]),
        flows |-> good, errs |-> files # good]

\* streams.NewStream + Stream.Initialize on tree d
Initialize(d, strict) ==
    LET g == GetFlows(d)
        quotaOK == AtI(d, QP) \in {"none", "q1", "q2"}
        ok == /\ quotaOK                                                 \* resources: quota files load and validate
              /\ ~g.fatal /\ ~(g.errs /\ (strict \/ g.flows = {}))     \* getFlows
              /\ \A q \in g.flows : d[q] = "lim" => "qx" \in QuotaIds(AtI(d, QP))   \* CreateProcessor
              /\ \A q \in g.flows : d[q] # "bad"                         \* createFlows
    IN [ok |-> ok, loaded |-> [q \in g.flows \cup ({QP} \cap DOMAIN d) |-> d[q]]]

\* validation.Validator.Validate: dry-run stream in validation mode, then the gateway config must parse
ValidatesI(d) == Initialize(d, ~ValidateLenient).ok /\ AtI(d, GP) # "gbad"

ServedFlows(e) == [f \in Flows3 |-> AtI(e, FPI[f])]
ServedPolicies(c) ==
    LET rem == Len(c.names) = 1 /\ c.names[1] \in DOMAIN StatusI IN
    [a |-> [early |-> rem, st |-> IF rem THEN StatusI[c.names[1]] ELSE 0, diag |-> c.nd > 0],
     d |-> [early |-> FALSE, st |-> 0, diag |-> c.nd > 0]]
ServedI(e) == IF Mode = "flows" THEN ServedFlows(e) ELSE ServedPolicies(e)

Obs(d, e, put, hf) == [disk |-> d, sha |-> d, served |-> ServedI(e), put |-> put, hapfault |-> hf, del |-> 0]

NoArg == [payload |-> << >>, body |-> "", decodable |-> TRUE, txns |-> 0]
CallEv(ep, m, arg, code, codes, ans, o) ==
    [ev |-> "call", ep |-> ep, method |-> m, arg |-> arg, code |-> code, codes |-> codes, ans |-> ans, obs |-> o]

(* ------------------------------------------------------------------ routes *)
FlowR   == [load_flows |-> "POST", validate_flows |-> "POST", apply_flows |-> "PUT", configuration |-> "PUT", on_haproxy_error |-> "PUT"]
PolicyR == [apply_policies |-> "POST", validate_policies |-> "POST", revert_to_diagnosis_free |-> "POST", revert_to_last_loaded |-> "POST"]
CommonR == [doctor |-> "GET", discover |-> "GET", remedy_stats |-> "GET", handshake |-> "GET"]
Registered == IF Mode = "flows" THEN (IF PolicyRoutesInFlows THEN FlowR @@ PolicyR @@ CommonR ELSE FlowR @@ CommonR)
              ELSE PolicyR @@ CommonR
AllEndpoints == DOMAIN (FlowR @@ PolicyR @@ CommonR) \cup {"nonsense"}

Quiet == upd.pc \in {"idle", "parked"}       \* no update is running right now (none, or one parked at a yield point)

(* ------------------------------------------------------------------ environment *)
InitI(d0, hub, managed) ==
    /\ env = [hub |-> hub, managed |-> managed]
    /\ disk = d0 /\ eng = (IF Mode = "flows" THEN << >> ELSE NoCfgI) /\ up = FALSE /\ dead = FALSE /\ lock = FALSE
    /\ sf = [discover |-> "absent", remedy |-> "absent"] /\ fault = FALSE /\ upd = Idle
    /\ out = [ev |-> "edit", tree |-> IF Mode = "flows" THEN d0 ELSE (IF d0.pol = "none" THEN << >> ELSE [x \in {"policies.yaml"} |-> d0.pol]),
              obs |-> Obs(d0, eng, 0, FALSE)]

Edit(t) ==     \* the operator rewrites the tree
    /\ upd.pc = "idle"
    /\ disk' = (IF Mode = "flows" THEN t ELSE [disk EXCEPT !.pol = t])
    /\ out' = [ev |-> "edit", tree |-> IF Mode = "flows" THEN t ELSE (IF t = "none" THEN << >> ELSE [x \in {"policies.yaml"} |-> t]),
               obs |-> Obs(disk', eng, 0, FALSE)]
    /\ UNCHANGED <<env, eng, up, dead, lock, sf, fault, upd>>

StateFile(w, t) ==
    /\ Quiet /\ sf' = [sf EXCEPT ![w] = t] /\ out' = [ev |-> "statefile", which |-> w, tag |-> t]
    /\ UNCHANGED <<env, disk, eng, up, dead, lock, fault, upd>>

ArmFault ==
    /\ upd.pc = "idle" /\ ~fault /\ fault' = TRUE /\ out' = [ev |-> "hapfail", nth |-> 1]
    /\ UNCHANGED <<env, disk, eng, up, dead, lock, sf, upd>>

\* the proxy is asked to register endpoints: with a refusal armed (f) the call fails, or the refused call is one whose
\* failure the engine ignores, or no call is made at all (nothing to register)
ManageOutcomes(f) ==
    IF f THEN {[failed |-> TRUE, hf |-> TRUE, f2 |-> FALSE], [failed |-> FALSE, hf |-> TRUE, f2 |-> FALSE],
               [failed |-> FALSE, hf |-> FALSE, f2 |-> TRUE]}
    ELSE {[failed |-> FALSE, hf |-> FALSE, f2 |-> FALSE]}

(* ------------------------------------------------------------------ start-up (Setup) *)
StartFlows ==
    LET r == Initialize(disk, FALSE) IN      \* initializeStreams without a validation pass
    IF ~r.ok THEN /\ dead' = TRUE /\ out' = [ev |-> "start", ok |-> FALSE, obs |-> Obs(disk, eng, 0, FALSE)]
                  /\ UNCHANGED <<env, disk, eng, up, lock, sf, fault, upd>>
    ELSE \E m \in ManageOutcomes(fault) :
            /\ fault' = m.f2
            /\ eng' = r.loaded                  \* published before the proxy is asked
            /\ IF m.failed THEN dead' = TRUE /\ up' = up ELSE up' = TRUE /\ dead' = dead
            /\ out' = [ev |-> "start", ok |-> ~m.failed, obs |-> Obs(disk, r.loaded, 1, m.hf)]
            /\ UNCHANGED <<env, disk, lock, sf, upd>>

\* loadDataFromFile on tree d: read + validate, persist as "loaded", build: [ok, disk afterwards, configuration]
LoadPoliciesFile(d) ==
    LET r == ParsePolicies(d.pol) IN
    IF ~r.ok THEN [ok |-> FALSE, disk |-> d, cfg |-> NoCfgI]
    ELSE LET c == CfgOf(r)
             persisted == [d EXCEPT !.ll = c, !.df = WithoutDiag(c)]
         IN [ok |-> TreeBuilds(c), disk |-> persisted, cfg |-> c]

StartPolicies ==
    LET r == LoadPoliciesFile(disk) IN
    IF ~r.ok THEN /\ dead' = TRUE /\ disk' = r.disk /\ out' = [ev |-> "start", ok |-> FALSE, obs |-> Obs(r.disk, eng, 0, FALSE)]
                  /\ UNCHANGED <<env, eng, up, lock, sf, fault, upd>>
    ELSE \E m \in ManageOutcomes(fault) :
            /\ fault' = m.f2 /\ disk' = r.disk
            /\ IF m.failed THEN dead' = TRUE /\ up' = up /\ eng' = eng ELSE up' = TRUE /\ dead' = dead /\ eng' = r.cfg
            /\ out' = [ev |-> "start", ok |-> ~m.failed, obs |-> Obs(r.disk, eng', 1, m.hf)]
            /\ UNCHANGED <<env, lock, sf, upd>>

Start == ~up /\ ~dead /\ upd.pc = "idle" /\ (IF Mode = "flows" THEN StartFlows ELSE StartPolicies)

(* ------------------------------------------------------------------ read-only endpoints *)
DoctorAns ==
    IF Mode = "flows"
    THEN [k |-> "doctor", parsed |-> TRUE, streams |-> TRUE, haspol |-> FALSE, hasloaded |-> TRUE, md5ok |-> TRUE,
          pol |-> NoCfgI, ext |-> 0,
          files |-> IF ~env.hub THEN << >> ELSE IF DoctorFromDisk THEN [q \in (DOMAIN disk) \ {GP} |-> disk[q]]
                    \* between the switch and the announcement to the hub (notifyHub) only the flows are listed
                    ELSE IF upd.pc = "parked" /\ upd.phase = "published" THEN [q \in (DOMAIN eng) \cap FlowPathsI |-> eng[q]]
                    ELSE eng]
    ELSE [k |-> "doctor", parsed |-> TRUE, streams |-> FALSE, haspol |-> TRUE, hasloaded |-> FALSE, md5ok |-> TRUE,
          pol |-> IF DoctorFromDisk /\ ParsePolicies(disk.pol).ok THEN CfgOf(ParsePolicies(disk.pol)) ELSE eng, ext |-> 0, files |-> << >>]

Get(ep) ==
    LET o == Obs(disk, eng, 0, FALSE) IN
    CASE ep = "doctor" -> out' = CallEv(ep, "GET", NoArg, 200, <<200>>, DoctorAns, o)
      [] ep = "handshake" -> out' = CallEv(ep, "GET", NoArg, 200, <<200>>, [k |-> "handshake", parsed |-> TRUE, managed |-> env.managed], o)
      [] OTHER ->
            LET w == IF ep = "discover" THEN "discover" ELSE "remedy" IN
            IF sf[w] = "absent" THEN out' = CallEv(ep, "GET", NoArg, 422, <<422>>, [parsed |-> FALSE], o)
            ELSE out' = CallEv(ep, "GET", NoArg, 200, <<200>>, [k |-> "file", parsed |-> TRUE, data |-> sf[w]], o)

(* ------------------------------------------------------------------ flows mode *)
ValidateFlows ==
    LET okv == ValidatesI(disk)
        e2 == IF ValidatePublishes /\ okv THEN Initialize(disk, TRUE).loaded ELSE eng
    IN /\ eng' = e2
       /\ out' = CallEv("validate_flows", "POST", NoArg, IF okv THEN 200 ELSE 422, <<IF okv THEN 200 ELSE 422>>, [parsed |-> FALSE],
                        Obs(disk, e2, 0, FALSE))
       /\ UNCHANGED <<env, disk, up, dead, lock, sf, fault, upd>>

\* reloadFlows on tree d with engine e0 serving and refusal f armed: the possible [ok, eng, calls, hf, f2]
ReloadOutcomes(d, e0, f) ==
    IF ~LoadSkipsValidation /\ ~ValidatesI(d) THEN {[ok |-> FALSE, eng |-> e0, calls |-> 0, hf |-> FALSE, f2 |-> f]}
    ELSE LET r == Initialize(d, FALSE) IN
         IF ~r.ok THEN {[ok |-> FALSE, eng |-> e0, calls |-> 0, hf |-> FALSE, f2 |-> f]}
         ELSE {[ok |-> ~m.failed, eng |-> r.loaded, calls |-> 1, hf |-> m.hf, f2 |-> m.f2] : m \in ManageOutcomes(f)}   \* published either way

LoadFlows(m) ==
    \E r \in ReloadOutcomes(disk, eng, fault) :
        /\ eng' = r.eng /\ fault' = r.f2
        /\ out' = CallEv("load_flows", m, NoArg, IF r.ok THEN 200 ELSE 400, <<IF r.ok THEN 200 ELSE 400>>, [parsed |-> FALSE],
                         Obs(disk, r.eng, r.calls, r.hf))
        /\ UNCHANGED <<env, disk, up, dead, lock, sf, upd>>

OnError(dec) ==
    /\ out' = CallEv("on_haproxy_error", "PUT", [NoArg EXCEPT !.decodable = dec, !.txns = IF dec THEN 1 ELSE 0],
                     IF dec THEN 200 ELSE 400, <<IF dec THEN 200 ELSE 400>>, [parsed |-> FALSE], Obs(disk, eng, 0, FALSE))
    /\ UNCHANGED <<env, disk, eng, up, dead, lock, sf, fault, upd>>

(* ---- the update handlers as a process: lock, decode, backup, [clean], save, reload, [restore, reload], unlock *)
TargetI(ep, d, pl) == IF ep = "apply_flows" THEN pl
                      ELSE [q \in (DOMAIN d) \cup (DOMAIN pl) |-> IF q \in DOMAIN pl THEN pl[q] ELSE d[q]]

\* a second update while one holds the lock, or an undecodable body: answered at once
UpdateRefused(ep, pl) ==
    /\ upd.pc = "parked" /\ lock /\ ~NoLock
    /\ out' = CallEv(ep, "PUT", [NoArg EXCEPT !.payload = pl], 226, <<226>>, [parsed |-> FALSE], Obs(disk, eng, 0, FALSE))
    /\ UNCHANGED <<env, disk, eng, up, dead, lock, sf, fault, upd>>

UpdateUndecodable(ep) ==
    /\ upd.pc = "idle"
    /\ out' = CallEv(ep, "PUT", [NoArg EXCEPT !.decodable = FALSE], 400, <<400>>, [parsed |-> FALSE], Obs(disk, eng, 0, FALSE))
    /\ UNCHANGED <<env, disk, eng, up, dead, lock, sf, fault, upd>>

\* the handler starts: lock, decode, backup; gated = the executor will park it once (otherwise it runs through)
UpdateBegin(ep, pl, gated) ==
    /\ upd.pc = "idle" /\ ~lock
    /\ lock' = TRUE
    /\ upd' = [pc |-> "run", ep |-> ep, pl |-> pl, bk |-> disk, gated |-> gated, mayPark |-> gated,
               phase |-> IF ep = "apply_flows" THEN "clean" ELSE "save", todo |-> DOMAIN pl, cur |-> "",
               nStore |-> 0, nInit |-> 0, nPub |-> 0, second |-> FALSE,
               code |-> 0, codes |-> << >>, calls |-> 0, hf |-> FALSE, point |-> "", nth |-> 0]
    /\ out' = Tau
    /\ UNCHANGED <<env, disk, eng, up, dead, sf, fault>>

Running == upd.pc \in {"run", "run2"}
Signal(u, c) == [u EXCEPT !.code = IF u.code = 0 THEN c ELSE u.code, !.codes = Append(u.codes, c)]

UClean ==    \* CleanAll (every file of the tree goes; no yield point is used inside)
    /\ Running /\ upd.phase = "clean"
    /\ disk' = << >> /\ upd' = [upd EXCEPT !.phase = "save"]
    /\ out' = Tau /\ UNCHANGED <<env, eng, up, dead, lock, sf, fault>>

\* SavePayloadContentToDisk, one file at a time: the old file is removed, (yield point fs.store), the new one is created
USaveRemove ==
    /\ Running /\ upd.phase = "save" /\ upd.cur = ""
    /\ IF upd.todo = {} THEN upd' = [upd EXCEPT !.phase = "reload"] /\ disk' = disk
       ELSE \E q \in upd.todo : /\ disk' = [r \in (DOMAIN disk) \ {q} |-> disk[r]]
                                /\ upd' = [upd EXCEPT !.cur = q, !.nStore = upd.nStore + 1]
    /\ out' = Tau /\ UNCHANGED <<env, eng, up, dead, lock, sf, fault>>

USaveCreate ==
    /\ Running /\ upd.phase = "save" /\ upd.cur # ""
    /\ disk' = [r \in (DOMAIN disk) \cup {upd.cur} |-> IF r = upd.cur THEN upd.pl[r] ELSE disk[r]]
    /\ upd' = [upd EXCEPT !.cur = "", !.todo = upd.todo \ {upd.cur}]
    /\ out' = Tau /\ UNCHANGED <<env, eng, up, dead, lock, sf, fault>>

UReload ==   \* reloadFlows: validate, build; (yield point hdm.initialized)
    /\ Running /\ upd.phase = "reload"
    /\ IF ~ValidatesI(disk) \/ ~Initialize(disk, FALSE).ok
       THEN upd' = IF upd.second THEN [upd EXCEPT !.phase = "done"]
                   ELSE Signal([upd EXCEPT !.phase = "restore"], 422)
       ELSE upd' = [upd EXCEPT !.phase = "built", !.nInit = upd.nInit + 1]
    /\ out' = Tau /\ UNCHANGED <<env, disk, eng, up, dead, lock, sf, fault>>

UPublish ==  \* the new engine replaces the serving one; (yield point hdm.published)
    /\ Running /\ upd.phase = "built"
    /\ eng' = Initialize(disk, FALSE).loaded /\ upd' = [upd EXCEPT !.phase = "published", !.nPub = upd.nPub + 1]
    /\ out' = Tau /\ UNCHANGED <<env, disk, up, dead, lock, sf, fault>>

URegister ==
    /\ Running /\ upd.phase = "published"
    /\ \E m \in ManageOutcomes(fault) :
          /\ fault' = m.f2
          /\ upd' = IF upd.second THEN [upd EXCEPT !.phase = "done", !.calls = 1, !.hf = upd.hf \/ m.hf]
                    ELSE IF m.failed THEN Signal([upd EXCEPT !.phase = "restore", !.calls = 1, !.hf = m.hf], 422)
                    ELSE [upd EXCEPT !.phase = "done", !.calls = 1, !.hf = m.hf, !.code = 200, !.codes = <<200>>]
    /\ out' = Tau /\ UNCHANGED <<env, disk, eng, up, dead, lock, sf>>

\* Restore: every file that differs from the backup gets its content back (removed, yield point fs.store, created), files
\* that did not exist are removed; then the previous configuration is loaded again
URestoreBegin ==
    /\ Running /\ upd.phase = "restore"
    /\ upd' = [(IF upd.ep = "configuration" THEN Signal(upd, 500) ELSE upd) EXCEPT
                  !.phase = IF RestoreSkipped THEN "reload" ELSE "restoring", !.second = TRUE, !.cur = "",
                  !.todo = {q \in (DOMAIN disk) \cup (DOMAIN upd.bk) : AtI(disk, q) # AtI(upd.bk, q)}]
    /\ out' = Tau /\ UNCHANGED <<env, disk, eng, up, dead, lock, sf, fault>>

URestoreRemove ==
    /\ Running /\ upd.phase = "restoring" /\ upd.cur = ""
    /\ IF upd.todo = {} THEN upd' = [upd EXCEPT !.phase = "reload"] /\ disk' = disk
       ELSE \E q \in upd.todo :
              /\ disk' = [r \in (DOMAIN disk) \ {q} |-> disk[r]]
              /\ upd' = IF q \in DOMAIN upd.bk THEN [upd EXCEPT !.cur = q, !.nStore = upd.nStore + 1]
                        ELSE [upd EXCEPT !.todo = upd.todo \ {q}]
    /\ out' = Tau /\ UNCHANGED <<env, eng, up, dead, lock, sf, fault>>

URestoreCreate ==
    /\ Running /\ upd.phase = "restoring" /\ upd.cur # ""
    /\ disk' = [r \in (DOMAIN disk) \cup {upd.cur} |-> IF r = upd.cur THEN upd.bk[r] ELSE disk[r]]
    /\ upd' = [upd EXCEPT !.cur = "", !.todo = upd.todo \ {upd.cur}]
    /\ out' = Tau /\ UNCHANGED <<env, eng, up, dead, lock, sf, fault>>

\* the executor parks the update once, at the first occurrence of a yield point
ParkPoint == IF upd.phase \in {"save", "restoring"} /\ upd.cur # "" THEN "fs.store"
             ELSE IF upd.phase = "built" THEN "hdm.initialized"
             ELSE IF upd.phase = "published" THEN "hdm.published" ELSE ""
ParkNth == IF upd.phase \in {"save", "restoring"} THEN upd.nStore ELSE IF upd.phase = "built" THEN upd.nInit ELSE upd.nPub

UPark ==
    /\ upd.pc = "run" /\ upd.mayPark /\ ParkPoint # ""
    \* (what happened up to here - calls to the proxy, a refusal - is reported with this event; the answer reports the rest)
    /\ upd' = [upd EXCEPT !.pc = "parked", !.mayPark = FALSE, !.point = ParkPoint, !.nth = ParkNth, !.calls = 0, !.hf = FALSE]
    /\ out' = [ev |-> "begin", u |-> "A", ep |-> upd.ep, method |-> "PUT", arg |-> [NoArg EXCEPT !.payload = upd.pl], parked |-> TRUE,
               point |-> ParkPoint, nth |-> ParkNth, code |-> 0, obs |-> Obs(disk, eng, upd.calls, upd.hf)]
    /\ UNCHANGED <<env, disk, eng, up, dead, lock, sf, fault>>

UResume ==
    /\ upd.pc = "parked" /\ upd' = [upd EXCEPT !.pc = "run2"] /\ out' = [ev |-> "resume"]
    /\ UNCHANGED <<env, disk, eng, up, dead, lock, sf, fault>>

UDone ==     \* unlock, answer
    /\ Running /\ upd.phase = "done"
    /\ lock' = FALSE /\ upd' = Idle
    /\ LET o == Obs(disk, eng, upd.calls, upd.hf) IN
       out' = IF upd.pc = "run2" THEN [ev |-> "finish", u |-> "A", code |-> upd.code, codes |-> upd.codes, obs |-> o]
              ELSE CallEv(upd.ep, "PUT", [NoArg EXCEPT !.payload = upd.pl], upd.code, upd.codes, [parsed |-> FALSE], o)
    /\ UNCHANGED <<env, disk, eng, up, dead, sf, fault>>

UStep == UClean \/ USaveRemove \/ USaveCreate \/ UReload \/ UPublish \/ URegister \/ URestoreBegin \/ URestoreRemove \/ URestoreCreate
         \/ UPark \/ UResume \/ UDone

\* with the lock removed a second update runs while the first is parked: modelled as the whole second update in one step
UpdateUnlocked(ep, pl) ==
    /\ NoLock /\ upd.pc = "parked"
    /\ LET tgt == TargetI(ep, disk, pl) IN
       \E r \in ReloadOutcomes(tgt, eng, fault) :
          /\ eng' = r.eng /\ fault' = r.f2 /\ disk' = IF r.ok THEN tgt ELSE disk
          /\ out' = CallEv(ep, "PUT", [NoArg EXCEPT !.payload = pl], IF r.ok THEN 200 ELSE 422, <<IF r.ok THEN 200 ELSE 422>>, [parsed |-> FALSE],
                           Obs(disk', r.eng, r.calls, r.hf))
    /\ UNCHANGED <<env, up, dead, lock, sf, upd>>

(* ------------------------------------------------------------------ policy mode *)
ValidatePolicies ==
    LET okv == ParsePolicies(disk.pol).ok IN
    /\ out' = CallEv("validate_policies", "POST", NoArg, IF okv THEN 200 ELSE 422, <<IF okv THEN 200 ELSE 422>>, [parsed |-> FALSE],
                     Obs(disk, eng, 0, FALSE))
    /\ UNCHANGED <<env, disk, eng, up, dead, lock, sf, fault, upd>>

PolOut(ok, d2, e2, calls, hf, f2) == [ok |-> ok, disk |-> d2, eng |-> e2, calls |-> calls, hf |-> hf, f2 |-> f2]

\* ReloadFromFile on tree d1 with engine e1 (refusal f armed): the possible outcomes
ReloadFromFileOutcomes(d1, e1, calls1, hf1, f) ==
    LET r == LoadPoliciesFile(d1) IN
    IF ~r.ok THEN {PolOut(FALSE, r.disk, e1, calls1, hf1, f)}
    ELSE {PolOut(~m.failed, r.disk, IF m.failed THEN e1 ELSE r.cfg, 1, hf1 \/ m.hf, m.f2) : m \in ManageOutcomes(f)}

\* /apply_policies: with a body UpdateRawData first (unmarshal, validate, build, register, switch, store the body), then ReloadFromFile
ApplyOutcomes(body) ==
    IF body = "" THEN ReloadFromFileOutcomes(disk, eng, 0, FALSE, fault)
    ELSE LET r == ParsePolicies(body)
             early == IF BodyFileFirst THEN [disk EXCEPT !.pol = body] ELSE disk
         IN IF ~r.ok \/ ~TreeBuilds(CfgOf(r)) THEN {PolOut(FALSE, early, eng, 0, FALSE, fault)}
            ELSE UNION {IF m.failed THEN {PolOut(FALSE, early, eng, 1, m.hf, m.f2)}
                        ELSE ReloadFromFileOutcomes([disk EXCEPT !.pol = body], CfgOf(r), 1, m.hf, m.f2) : m \in ManageOutcomes(fault)}

RevertOutcomes(free) ==
    LET src == IF RevertFromPoliciesFile /\ ~free
               THEN (IF ParsePolicies(disk.pol).ok THEN CfgOf(ParsePolicies(disk.pol)) ELSE NoCfgI)
               ELSE (IF free THEN disk.df ELSE disk.ll)
        c == IF free THEN WithoutDiag(src) ELSE src
    IN IF src.nd < 0 \/ ~TreeBuilds(src) THEN {PolOut(FALSE, disk, eng, 0, FALSE, fault)}
       ELSE {PolOut(~m.failed, disk, IF m.failed THEN eng ELSE c, 1, m.hf, m.f2) : m \in ManageOutcomes(fault)}

PolCall(ep, body, outs) ==
    \E r \in outs :
        /\ disk' = r.disk /\ eng' = r.eng /\ fault' = r.f2
        /\ out' = CallEv(ep, "POST", [NoArg EXCEPT !.body = body], IF r.ok THEN 200 ELSE 422, <<IF r.ok THEN 200 ELSE 422>>, [parsed |-> FALSE],
                         Obs(r.disk, r.eng, r.calls, r.hf))
        /\ UNCHANGED <<env, up, dead, lock, sf, upd>>

ApplyPolicies(body) == PolCall("apply_policies", body, ApplyOutcomes(body))
Revert(free) == PolCall(IF free THEN "revert_to_diagnosis_free" ELSE "revert_to_last_loaded", "", RevertOutcomes(free))

(* ------------------------------------------------------------------ the mux *)
Reply(ep, m, arg, code) ==
    /\ out' = CallEv(ep, m, arg, code, <<code>>, [parsed |-> FALSE], Obs(disk, eng, 0, FALSE))
    /\ UNCHANGED <<env, disk, eng, up, dead, lock, sf, fault, upd>>

\* one request that is answered within a single step (everything but a running update)
Call(ep, m, arg) ==
    /\ up /\ ~dead /\ Quiet
    /\ IF ep \notin DOMAIN Registered THEN Reply(ep, m, arg, 404)
       ELSE IF ep \in {"apply_flows", "configuration"} /\ upd.pc = "parked"
            THEN (IF NoLock THEN UpdateUnlocked(ep, arg.payload) ELSE UpdateRefused(ep, arg.payload))     \* TryLock comes first
       ELSE IF m # Registered[ep] THEN
            (IF GetReloads /\ ep = "load_flows" /\ m = "GET" /\ upd.pc = "idle" THEN LoadFlows("GET") ELSE Reply(ep, m, arg, 405))
       ELSE CASE ep \in DOMAIN CommonR -> Get(ep) /\ UNCHANGED <<env, disk, eng, up, dead, lock, sf, fault, upd>>
              [] Mode = "flows" /\ ep \in DOMAIN PolicyR -> Reply(ep, m, arg, 200)          \* only with PolicyRoutesInFlows
              [] ep = "validate_flows" -> ValidateFlows
              [] ep = "load_flows" -> upd.pc = "idle" /\ LoadFlows("POST")
              [] ep = "on_haproxy_error" -> OnError(arg.decodable)
              [] ep \in {"apply_flows", "configuration"} -> ~arg.decodable /\ UpdateUndecodable(ep)
              [] ep = "validate_policies" -> ValidatePolicies
              [] ep = "apply_policies" -> ApplyPolicies(arg.body)
              [] ep = "revert_to_last_loaded" -> Revert(FALSE)
              [] ep = "revert_to_diagnosis_free" -> Revert(TRUE)
=============================================================================
