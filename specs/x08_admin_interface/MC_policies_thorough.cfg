CONSTANTS
  Mode = "policies"
  Hub = FALSE
  Managed = TRUE
  ValidateLenient = FALSE
  LoadSkipsValidation = FALSE
  ValidatePublishes = FALSE
  RevertFromPoliciesFile = FALSE
  BodyFileFirst = FALSE
  NoLock = FALSE
  PolicyRoutesInFlows = FALSE
  GetReloads = FALSE
  DoctorFromDisk = FALSE
  RestoreSkipped = FALSE
  DevMC = "both"
  RecordHistory = FALSE
  Sampled = FALSE
  MaxHist = 0
  TagsA = {}
  TagsB = {}
  TagsC = {}
  TagsQ = {}
  TagsG = {}
  PayA = {}
  PayB = {}
  PayQ = {}
  PayG = {}
  PolTagsMC = {"none", "P1", "P2", "P3", "Q1", "Q2", "punk", "pjunk", "pdup", "pconf"}
  BodyTagsMC = {"P1", "P2", "Q1", "punk", "pjunk", "pconf"}
  WithGate = FALSE
  WithFault = TRUE
  WrongVerbs = TRUE
  StateFiles = {"discover", "remedy"}
SPECIFICATION SpecMC
INVARIANT Holds
VIEW View
CHECK_DEADLOCK FALSE
