CONSTANTS
  Mode = "policies"
  Hub = FALSE
  Managed = TRUE
  ValidateLenient = FALSE
  LoadSkipsValidation = FALSE
  ValidatePublishes = FALSE
  RevertFromPoliciesFile = FALSE
  BodyFileFirst = FALSE
  NoLock = FALSE
  PolicyRoutesInFlows = FALSE
  GetReloads = FALSE
  DoctorFromDisk = FALSE
  RestoreSkipped = FALSE
  DevMC = "both"
  RecordHistory = TRUE
  Sampled = TRUE
  MaxHist = 16
  TagsA = {}
  TagsB = {}
  TagsC = {}
  TagsQ = {}
  TagsG = {}
  PayA = {}
  PayB = {}
  PayQ = {}
  PayG = {}
  PolTagsMC = {"none", "P1", "P2", "P3", "Q1", "Q2", "pjunk", "punk", "pdup", "pexp", "pacct", "pconf"}
  BodyTagsMC = {"P1", "P2", "P3", "Q1", "Q2", "pjunk", "punk", "pdup", "pexp", "pacct", "pconf"}
  WithGate = FALSE
  WithFault = TRUE
  WrongVerbs = TRUE
  StateFiles = {"discover", "remedy"}
SPECIFICATION SpecMC
INVARIANTS Holds Emit
CHECK_DEADLOCK FALSE
