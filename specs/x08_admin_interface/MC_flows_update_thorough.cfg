CONSTANTS
  Mode = "flows"
  Hub = TRUE
  Managed = TRUE
  ValidateLenient = FALSE
  LoadSkipsValidation = FALSE
  ValidatePublishes = FALSE
  RevertFromPoliciesFile = FALSE
  BodyFileFirst = FALSE
  NoLock = FALSE
  PolicyRoutesInFlows = FALSE
  GetReloads = FALSE
  DoctorFromDisk = FALSE
  RestoreSkipped = FALSE
  DevMC = "both"
  RecordHistory = FALSE
  Sampled = FALSE
  MaxHist = 0
  TagsA = {"none", "v1", "junk"}
  TagsB = {"none", "v1"}
  TagsC = {"none"}
  TagsQ = {"none"}
  TagsG = {"none"}
  PayA = {"none", "v2", "bad"}
  PayB = {"none", "dup"}
  PayQ = {"none", "q1"}
  PayG = {"none"}
  WithGate = TRUE
  WithFault = TRUE
  WrongVerbs = FALSE
  StateFiles = {}
  PolTagsMC = {}
  BodyTagsMC = {}
SPECIFICATION SpecMC
INVARIANT Holds
VIEW View
CHECK_DEADLOCK FALSE
