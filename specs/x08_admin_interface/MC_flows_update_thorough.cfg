CONSTANTS
  Mode = "flows"
  Hub = TRUE
  Managed = TRUE
  ValidateLenient = FALSE
  LoadSkipsValidation = FALSE
  ValidatePublishes = FALSE
  RevertFromPoliciesFile = FALSE
  BodyFileFirst = FALSE
  NoLock = FALSE
  PolicyRoutesInFlows = FALSE
  GetReloads = FALSE
  DoctorFromDisk = FALSE
  RestoreSkipped = FALSE
  DevMC = "both"
  RecordHistory = FALSE
  Sampled = FALSE
  MaxHist = 0
  TagsA = {"none", "v1", "junk"}
  TagsB = {"none", "v1", "lim"}
  TagsC = {"none"}
  TagsQ = {"none", "q1"}
  TagsG = {"none", "g1"}
  PayA = {"none", "v2", "bad"}
  PayB = {"none", "v2", "dup", "lim"}
  PayQ = {"none", "q1"}
  PayG = {"none", "g2", "gbad"}
  WithGate = TRUE
  WithFault = TRUE
  WrongVerbs = FALSE
  StateFiles = {}
  PolTagsMC = {}
  BodyTagsMC = {}
SPECIFICATION SpecMC
INVARIANT Holds
VIEW View
CHECK_DEADLOCK FALSE
