------------------------------- MODULE MC_X08 -------------------------------
(* X08 - bounded instance: AdminI (the handlers as the code has them) under an  *)
(* operator that edits the tree, starts the engine and sends every request of   *)
(* the interface in any order, with one update parked at a yield point while    *)
(* other requests are served, and one refusal of the proxy's admin API; every   *)
(* observable step is judged by the monitor AdminP.  Invariant: no clause of    *)
(* the statement is violated (AdminI => AdminP).  With RecordHistory the        *)
(* operations are kept as a history: walks of this model are the operation      *)
(* sequences replayed against the real handlers (GenX08).                       *)
EXTENDS AdminI, Json

CONSTANTS Hub, Managed                            \* the environment of the engine process of this instance

CONSTANTS TagsA, TagsB, TagsC, TagsQ, TagsG,       \* what a tree may hold per path ("none" = absent)
          PayA, PayB, PayQ, PayG,                   \* what a payload may carry per path ("none" = not in the payload)
          PolTagsMC, BodyTagsMC,                    \* policy mode: contents of policies.yaml, bodies of /apply_policies
          WithGate, WithFault, WrongVerbs, StateFiles,
          DevMC,                                    \* reading of the statement the monitor applies ("both")
          RecordHistory, MaxHist,
          Sampled                                   \* generation: one random tree / payload per step instead of all of them

VARIABLES p, viol, devs, hist
mvars == <<p, viol, devs, hist>>

P == INSTANCE AdminP WITH Dev <- DevMC

Mk(f) == [q \in {r \in DOMAIN f : f[r] # "none"} |-> f[q]]
TreeOf(ta, tb, tc, tq, tg) == Mk((FPI["a"] :> ta) @@ (FPI["b"] :> tb) @@ (FPI["c"] :> tc) @@ (QP :> tq) @@ (GP :> tg))
Trees == {TreeOf(ta, tb, tc, tq, tg) : ta \in TagsA, tb \in TagsB, tc \in TagsC, tq \in TagsQ, tg \in TagsG}
Payloads == {TreeOf(ta, tb, "none", tq, tg) : ta \in PayA, tb \in PayB, tq \in PayQ, tg \in PayG}
PolDisk(t) == [pol |-> t, ll |-> NoCfgI, df |-> NoCfgI]

ArgP(pl) == [NoArg EXCEPT !.payload = pl]
Undecodable == [NoArg EXCEPT !.decodable = FALSE]

\* the operator's request alphabet
Requests ==
    IF Mode = "flows"
    THEN {<<"validate_flows", "POST", NoArg>>, <<"load_flows", "POST", NoArg>>, <<"on_haproxy_error", "PUT", [NoArg EXCEPT !.txns = 1]>>,
          <<"on_haproxy_error", "PUT", Undecodable>>, <<"apply_flows", "PUT", Undecodable>>, <<"configuration", "PUT", Undecodable>>,
          <<"doctor", "GET", NoArg>>, <<"handshake", "GET", NoArg>>, <<"discover", "GET", NoArg>>, <<"remedy_stats", "GET", NoArg>>,
          <<"apply_policies", "POST", NoArg>>, <<"validate_policies", "POST", NoArg>>, <<"revert_to_last_loaded", "POST", NoArg>>,
          <<"nonsense", "GET", NoArg>>}
         \cup (IF WrongVerbs THEN {<<"load_flows", "GET", NoArg>>, <<"validate_flows", "GET", NoArg>>, <<"doctor", "POST", NoArg>>,
                                   <<"handshake", "PUT", NoArg>>, <<"discover", "POST", NoArg>>, <<"apply_flows", "POST", NoArg>>, <<"configuration", "GET", NoArg>>,
                                   <<"on_haproxy_error", "POST", [NoArg EXCEPT !.txns = 1]>>} ELSE {})
    ELSE {<<"validate_policies", "POST", NoArg>>, <<"apply_policies", "POST", NoArg>>, <<"revert_to_last_loaded", "POST", NoArg>>,
          <<"revert_to_diagnosis_free", "POST", NoArg>>,
          <<"doctor", "GET", NoArg>>, <<"handshake", "GET", NoArg>>, <<"discover", "GET", NoArg>>, <<"remedy_stats", "GET", NoArg>>,
          <<"load_flows", "POST", NoArg>>, <<"validate_flows", "POST", NoArg>>, <<"configuration", "PUT", NoArg>>, <<"nonsense", "GET", NoArg>>}
         \cup {<<"apply_policies", "POST", [NoArg EXCEPT !.body = b]>> : b \in BodyTagsMC}
         \cup (IF WrongVerbs THEN {<<"apply_policies", "GET", NoArg>>, <<"validate_policies", "PUT", NoArg>>,
                                   <<"revert_to_last_loaded", "GET", NoArg>>, <<"doctor", "POST", NoArg>>} ELSE {})

Room == ~RecordHistory \/ Len(hist) < MaxHist
Pick(S) == IF Sampled /\ S # {} THEN {RandomElement(S)} ELSE S

\* generation (Sampled): one random tree / payload / request per step, so that no class of operations swamps the others;
\* loadable trees twice as often as arbitrary ones, at most two edits before the start-up
ValidTrees == {t \in Trees : P!KnownValid(t)}
ValidPol == PolTagsMC \ {"pjunk", "punk", "pdup", "pexp", "pacct", "pconf"}
EditTrees == IF ~Sampled THEN Trees
             ELSE IF ~up /\ Len(hist) >= 2 THEN {}
             ELSE IF RandomElement(1..3) = 1 \/ ValidTrees = {} THEN {RandomElement(Trees)} ELSE {RandomElement(ValidTrees)}
EditPol == IF ~Sampled THEN PolTagsMC
           ELSE IF ~up /\ Len(hist) >= 2 THEN {}
           ELSE IF RandomElement(1..3) = 1 \/ ValidPol = {} THEN {RandomElement(PolTagsMC)} ELSE {RandomElement(ValidPol)}
KeyRequests == IF Mode = "flows" THEN {<<"validate_flows", "POST", NoArg>>, <<"load_flows", "POST", NoArg>>, <<"doctor", "GET", NoArg>>}
               ELSE {<<"validate_policies", "POST", NoArg>>, <<"apply_policies", "POST", NoArg>>, <<"doctor", "GET", NoArg>>,
                     <<"revert_to_last_loaded", "POST", NoArg>>, <<"revert_to_diagnosis_free", "POST", NoArg>>}

OpNext ==
    \/ Room /\ ~dead /\ Mode = "flows" /\ \E t \in EditTrees : Edit(t)
    \/ Room /\ ~dead /\ Mode = "policies" /\ \E t \in EditPol : Edit(t)
    \/ Room /\ Start
    \/ Room /\ up /\ ~dead /\ \E w \in Pick(StateFiles), t \in {"s1", "absent"} : sf[w] # t /\ StateFile(w, t)
    \/ Room /\ WithFault /\ up /\ ~dead /\ ArmFault
    \/ Room /\ \E r \in Pick(Requests) : Call(r[1], r[2], r[3])
    \/ Room /\ Sampled /\ \E r \in KeyRequests : Call(r[1], r[2], r[3])
    \/ Room /\ Mode = "flows" /\ up /\ ~dead /\ \E e \in {"apply_flows", "configuration"}, pl \in Pick(Payloads) :
                                                   \E g \in (IF WithGate THEN {FALSE, TRUE} ELSE {FALSE}) : UpdateBegin(e, pl, g)
    \/ Room /\ upd.pc = "parked" /\ \E e \in {"apply_flows", "configuration"}, pl \in Pick(Payloads) : Call(e, "PUT", ArgP(pl))
    \/ UStep

\* what the executor is told to do for the step just taken (one entry of the history)
OpOf(o) ==
    CASE o.ev = "edit" -> [op |-> "edit", tree |-> o.tree]
      [] o.ev = "statefile" -> [op |-> "statefile", which |-> o.which, tag |-> o.tag]
      [] o.ev = "hapfail" -> [op |-> "hapfail", nth |-> o.nth]
      [] o.ev = "start" -> [op |-> "start"]
      [] o.ev = "call" -> [op |-> "call", ep |-> o.ep, method |-> o.method, payload |-> o.arg.payload, body |-> o.arg.body,
                           decodable |-> o.arg.decodable, txns |-> o.arg.txns]
      [] o.ev = "begin" -> [op |-> "begin", u |-> "A", ep |-> o.ep, payload |-> o.arg.payload, point |-> o.point, nth |-> o.nth]
      [] o.ev = "resume" -> [op |-> "finish", u |-> "A"]

Monitor ==
    /\ IF out'.ev \in {"tau", "resume"} THEN UNCHANGED <<p, viol, devs>>
       ELSE LET r == P!PStep(p, out', {}) IN p' = r.p /\ viol' = r.v /\ devs' = devs \cup r.devs
    /\ hist' = IF RecordHistory /\ out'.ev \notin {"tau", "finish"} THEN Append(hist, OpOf(out')) ELSE hist

InitMC ==
    /\ \E d0 \in Pick(IF Mode = "flows" THEN Trees ELSE {PolDisk(t) : t \in PolTagsMC}) : InitI(d0, Hub, Managed)
    /\ LET p0 == P!PInit(Mode, Hub, Managed)
           r == P!PStep(p0, out, {})
       IN p = r.p /\ viol = r.v
    /\ devs = {}
    /\ hist = IF RecordHistory THEN <<OpOf(out)>> ELSE << >>

NextMC == OpNext /\ Monitor
SpecMC == InitMC /\ [][NextMC]_<<ivars, mvars>>

Holds == viol = ""
\* the history is not part of the state the exhaustive search distinguishes
View == <<disk, eng, up, dead, lock, sf, fault, upd, env, p, viol>>

Emit == (RecordHistory /\ (Len(hist) >= MaxHist \/ dead) /\ upd.pc = "idle") =>
            PrintT(<<"VH", ToJson([mode |-> Mode, hub |-> Hub, managed |-> Managed, ops |-> hist])>>)
=============================================================================
