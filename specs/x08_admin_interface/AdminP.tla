------------------------------- MODULE AdminP -------------------------------
(* X08 - the engine's administrative interface as a state machine: what an     *)
(* OPERATOR of the gateway can rely on, written as a monitor over observable    *)
(* events only (the verdict of trace validation, the right-hand side of         *)
(* AdminI => AdminP).                                                           *)
(*                                                                             *)
(* STATEMENT, derived from the repository's own documentation (source in        *)
(* brackets).                                                                   *)
(*                                                                             *)
(* The engine serves an administrative HTTP interface next to the SPOE agent    *)
(* [main.go: mux on ENGINE_ADMIN_PORT, routing.SetHandleRoutes].  It runs in    *)
(* one of two modes for its whole life (LUNAR_STREAMS_ENABLED).                 *)
(*  S1 Routes.  flows mode: POST /load_flows, POST /validate_flows,             *)
(*     PUT /apply_flows, PUT /configuration, PUT /on_haproxy_error;             *)
(*     policy mode: POST /apply_policies, POST /validate_policies,              *)
(*     POST /revert_to_diagnosis_free, POST /revert_to_last_loaded;             *)
(*     both: GET /doctor, GET /discover, GET /remedy_stats, GET /handshake.     *)
(*     Any other path (in particular an endpoint of the other mode) is 404,     *)
(*     another verb is 405 ("Unsupported Method"), and neither changes          *)
(*     anything; otherwise acceptance is any 2xx status, refusal any other.     *)
(*     [SetHandleRoutes; the handlers' method switches; the commands under      *)
(*     proxy/rootfs/usr/bin: load_flows, validate_flows, apply_policies,        *)
(*     validate use wget --post-data, doctor a plain GET]                       *)
(*  S2 Validation is pure.  /validate_flows and /validate_policies look at the  *)
(*     configuration on disk and answer 200 or an error; they never change the  *)
(*     tree, the configuration that is serving traffic, or what is registered   *)
(*     with the proxy.  ["Validating flows for Lunar Engine" =                  *)
(*     initializeStreamsForDryRun; validation.Validator builds a dry-run        *)
(*     stream; HandleValidatePolicies only reads]                               *)
(*  S3 Validation agrees with loading.  On the same tree /validate_flows        *)
(*     accepts iff POST /load_flows (and the load inside /apply_flows,          *)
(*     /configuration) succeeds; /validate_policies accepts iff                 *)
(*     /apply_policies succeeds; a tree validation accepts also starts the      *)
(*     engine.  [reloadFlows runs processFlowsValidation first; README:         *)
(*     "After you have altered flow.yaml and quota.yaml .. run load_flows";     *)
(*     apply_policies / validate both go through config.GetPoliciesConfig]      *)
(*  S4 A failed load keeps the previous configuration.  After /load_flows or    *)
(*     /apply_policies answered an error because the configuration is invalid,  *)
(*     traffic is handled exactly as before and the operator's files are as he  *)
(*     left them.  [integration-tests/features/policies_reload.feature          *)
(*     "Invalid policies reload": status 422 and the provider's 201 still       *)
(*     arrives; initializeStreams: "a failed build leaves the old one active"]  *)
(*  S5 A successful load serves what is on disk, all of it.  [README; feature   *)
(*     "Valid policies reload"].  /apply_policies with a body first stores the  *)
(*     body as the policies file.  /apply_flows replaces the whole tree by its  *)
(*     payload, /configuration overlays it; both load the result or leave       *)
(*     everything as it was (atomicity itself is property C08).                 *)
(*  S6 Order independence.  Because of S2 any number of validations before a    *)
(*     load changes nothing about what the load does.  (A theorem of this       *)
(*     machine: validations have no successor state.)                           *)
(*  S7 Introspection tells the truth.  GET /handshake answers                   *)
(*     {"managed": LUNAR_MANAGED = "true"}; GET /doctor reports the mode and    *)
(*     the configuration that IS loaded (flows mode: the files of the loaded    *)
(*     tree with their MD5; policy mode: the active policies with their MD5) -  *)
(*     after a failed load still the previous one; GET /discover and            *)
(*     /remedy_stats return the aggregation plugin's state files as they are,   *)
(*     an error when there is none.  None of them changes anything.             *)
(*     [doctor/model.go Report.ActivePolicies / LoadedStreamsConfig;            *)
(*     admin_routes.go HandleJSONFileRead, HandleHandshake; interceptors'       *)
(*     handshake]                                                               *)
(*  S8 Reverts.  /revert_to_last_loaded makes the configuration that was last   *)
(*     loaded from the policies file serve again, /revert_to_diagnosis_free     *)
(*     the same without any diagnosis plugin; neither touches the operator's    *)
(*     file.  [policies_accessor.go persistLoaded /                             *)
(*     modifyIntoDiagnosisFreePoliciesConfig "a config copy .. without          *)
(*     diagnosis - global or endpoint-specific"; failsafe/diagnosis_failsafe]   *)
(*  S9 Start-up loads the tree on disk: a valid tree gives a running engine     *)
(*     that serves it; an engine that does not come up serves nothing and has   *)
(*     no interface.  [main.go: Setup error => panic]                           *)
(*  S10 One update at a time.  While /apply_flows or /configuration is being    *)
(*     handled a second one is refused with 226 and changes nothing; the        *)
(*     read-only endpoints keep answering.  [handlingLock.TryLock,              *)
(*     http.StatusIMUsed "already handling another .. request"]                 *)
(*                                                                             *)
(* Where the code and this statement disagree the machine accepts both and      *)
(* names the engine's reading (constant Dev: "doc" accepts only the statement,  *)
(* "engine" only the engine's reading, "both" either; every acceptance that     *)
(* needed the engine's reading is reported as a DEV line):                      *)
(*  LenientStartup      S3/S9: the engine starts on a tree that validation      *)
(*                      rejects when the only faults are unreadable flow files  *)
(*                      (next to a readable one) or an unreadable gateway       *)
(*                      config: it serves the rest ("Part of flows have errors  *)
(*                      and have been skipped", streams.getFlows).              *)
(*  ValidateAcceptsConflict  S3: /validate_policies accepts a policies file     *)
(*                      whose endpoints conflict; /apply_policies and start-up  *)
(*                      refuse it (BuildEndpointPolicyTree is not part of       *)
(*                      validation).                                            *)
(*  LoadedFileOfFailedLoad   S8: the refused file is nevertheless recorded as   *)
(*                      "last loaded" (persistLoaded runs before the build),    *)
(*  RevertImpossible    and from then on both reverts answer an error.          *)
(*  FailedLoadSwitched  S4: when the proxy refuses the registration of the new  *)
(*                      endpoints /load_flows answers an error although the new *)
(*                      configuration is already serving.                       *)
(*  DoctorWithoutHub    S7: without a Lunar Hub key the flows-mode doctor lists  *)
(*                      no loaded configuration at all.                         *)
(*  FailedUpdateLoadsPendingEdits  S5: the roll-back of a refused /apply_flows or   *)
(*                      /configuration loads the restored tree again - and with *)
(*                      it whatever the operator had changed on disk without    *)
(*                      loading it yet (the refused update is not a no-op).     *)
(*  DoctorMidSwitch     S7: while an update is between the switch to the new    *)
(*                      engine and its announcement to the hub the doctor lists *)
(*                      the new flows but not yet the quota files.              *)
(*  ErrorHandlerContinues    S1: /on_haproxy_error answers 405 to another verb  *)
(*                      and then handles the body all the same.                 *)
(* Infrastructure failures (the proxy's admin API refusing a call) are outside  *)
(* the documentation: the machine then accepts the old or the new               *)
(* configuration, consistently (a 2xx answer means the new one).                *)
EXTENDS Integers, Sequences, FiniteSets, TLC

CONSTANT Dev       \* "doc" | "engine" | "both"

Fld(r, f, d) == IF f \in DOMAIN r THEN r[f] ELSE d
At(d, q) == IF q \in DOMAIN d THEN d[q] ELSE "none"
IsOK(code) == code >= 200 /\ code <= 299
Restrict(d, S) == [q \in (DOMAIN d) \cap S |-> d[q]]

(* ------------------------------------------------------------------------ *)
(* flows mode: what a tree means                                             *)
ProbeFlows == {"a", "b", "c"}
FP == [a |-> "flows/a.yaml", b |-> "flows/b.yaml", c |-> "flows/c.yaml"]
QuotaPath == "quotas/q.yaml"
GwPath == "gateway_config.yaml"
KnownPaths == {FP[f] : f \in ProbeFlows} \cup {QuotaPath, GwPath}

FlowTagOK  == {"v1", "v2", "v3", "dup", "lim"}     \* loadable on its own
FlowTagRep == {"junk", "rep"}                      \* not readable as a flow
\* "bad": readable, but its graph names a processor that is not declared
NameOf(f, t) == IF t = "dup" THEN "a" ELSE f       \* the flow name the file declares
QuotaDefs(t) == IF t = "q1" THEN {"qx"} ELSE IF t = "q2" THEN {"qy"} ELSE {}
QuotaOK(t) == t \in {"none", "q1", "q2"}
GwOK(t) == t \in {"none", "g1", "g2"}

Present(d) == {f \in ProbeFlows : At(d, FP[f]) # "none"}
Opaque(d) == (DOMAIN d) \ KnownPaths               \* files whose validity the specification does not know

KnownValid(d) ==
    /\ \A f \in Present(d) : d[FP[f]] \in FlowTagOK
    /\ \A f, g \in Present(d) : f # g => NameOf(f, d[FP[f]]) # NameOf(g, d[FP[g]])
    /\ \A f \in Present(d) : d[FP[f]] = "lim" => "qx" \in QuotaDefs(At(d, QuotaPath))
    /\ QuotaOK(At(d, QuotaPath))
    /\ GwOK(At(d, GwPath))

\* "valid" | "invalid" | "unknown"; known = verdicts already seen for trees with opaque files
Validity(d, known) ==
    IF ~KnownValid(d) THEN "invalid"
    ELSE IF Opaque(d) = {} THEN "valid"
    ELSE IF <<d, TRUE>> \in known THEN "valid"
    ELSE IF <<d, FALSE>> \in known THEN "invalid" ELSE "unknown"

\* what a lenient reader keeps: everything but unreadable flow files and the gateway config
Lenient(d) == Restrict(d, {q \in DOMAIN d : q # GwPath /\ ~(\E f \in ProbeFlows : q = FP[f] /\ d[q] \in FlowTagRep)})
LenientStarts(d) ==
    /\ Present(d) # {} => \E f \in Present(d) : d[FP[f]] \notin FlowTagRep
    /\ KnownValid(Lenient(d))

\* how an engine built from tree d handles the probe transactions
Beh(d) == [f \in ProbeFlows |-> IF At(d, FP[f]) \in FlowTagOK THEN d[FP[f]] ELSE "none"]
\* the files the doctor lists for a loaded tree (flows and quotas; not the gateway config)
Listed(d) == Restrict(d, (DOMAIN d) \ {GwPath})

\* the tree an update asks for
Target(ep, disk, payload) ==
    IF ep = "apply_flows" THEN payload
    ELSE [q \in (DOMAIN disk) \cup (DOMAIN payload) |-> IF q \in DOMAIN payload THEN payload[q] ELSE disk[q]]

(* ------------------------------------------------------------------------ *)
(* policy mode: what a policies file means                                   *)
Status == [P1 |-> 411, P2 |-> 412, P3 |-> 413, Q1 |-> 421, Q2 |-> 422]
WithDiag == {"P1", "P2", "P3"}
PolInvalid == {"pjunk", "punk", "pdup", "pexp", "pacct"}
PolConflict == {"pconf"}
PolClass(t) == IF t \in PolInvalid THEN "invalid" ELSE IF t \in PolConflict THEN "conflict" ELSE "ok"

Cfg(t) == IF t = "none" THEN [names |-> << >>, nd |-> 0]
          ELSE IF t = "pconf" THEN [names |-> <<"pconf", "pconf2">>, nd |-> 0]
          ELSE [names |-> <<t>>, nd |-> IF t \in WithDiag THEN 1 ELSE 0]
DiagFree(c) == [names |-> c.names, nd |-> 0]
NoCfg == [names |-> << >>, nd |-> -1]
Loadable(c) == c.nd >= 0 /\ (Len(c.names) = 0 \/ (Len(c.names) = 1 /\ c.names[1] \in DOMAIN Status))

PolServed(c) ==
    LET rem == Len(c.names) = 1 /\ c.names[1] \in DOMAIN Status IN
    [a |-> [early |-> rem, st |-> IF rem THEN Status[c.names[1]] ELSE 0, diag |-> c.nd > 0],
     d |-> [early |-> FALSE, st |-> 0, diag |-> c.nd > 0]]

(* ------------------------------------------------------------------------ *)
(* routes                                                                    *)
FlowRoutes   == [load_flows |-> "POST", validate_flows |-> "POST", apply_flows |-> "PUT", configuration |-> "PUT",
                 on_haproxy_error |-> "PUT"]
PolicyRoutes == [apply_policies |-> "POST", validate_policies |-> "POST", revert_to_diagnosis_free |-> "POST",
                 revert_to_last_loaded |-> "POST"]
CommonRoutes == [doctor |-> "GET", discover |-> "GET", remedy_stats |-> "GET", handshake |-> "GET"]
Routes(mode) == (IF mode = "flows" THEN FlowRoutes ELSE PolicyRoutes) @@ CommonRoutes

(* ------------------------------------------------------------------------ *)
(* the monitor                                                               *)
DocOK == Dev \in {"doc", "both"}
EngOK == Dev \in {"engine", "both"}

NoFlight == [on |-> FALSE]
PInit(mode, hub, managed) ==
    [mode |-> mode, hub |-> hub, managed |-> managed, up |-> FALSE, dead |-> FALSE,
     disk |-> IF mode = "flows" THEN << >> ELSE [pol |-> "none", ll |-> NoCfg, df |-> NoCfg],
     sha |-> "", cur |-> IF mode = "flows" THEN << >> ELSE NoCfg,
     loose |-> FALSE, \* started on a tree with files the specification cannot judge: some of them may have been skipped
     alt |-> {},      \* other configurations that may be the loaded one (indistinguishable by the probes)
     sf |-> [discover |-> "absent", remedy |-> "absent"], flight |-> NoFlight]

Served(p) == IF p.mode = "flows" THEN Beh(p.cur) ELSE PolServed(p.cur)
ServedBy(mode, cur) == IF mode = "flows" THEN Beh(cur) ELSE PolServed(cur)

\* result of one step of the monitor: violated clause ("" = none), next state, engine readings used, verdicts learnt
Res(v, p, devs, learn) == [v |-> v, p |-> p, devs |-> devs, learn |-> learn]
Ok(p) == Res("", p, {}, {})
Bad(v, p) == Res(v, p, {}, {})
\* accepted under the documented reading / only under the engine's reading
Reading(docok, engok, devname, clause, p) ==
    IF docok /\ DocOK THEN Ok(p)
    ELSE IF engok /\ EngOK THEN Res("", p, {devname}, {})
    ELSE Bad(clause, p)

Same(p, o) == o.disk = p.disk /\ o.sha = p.sha /\ o.served = Served(p)
Untouched(p, o) == Same(p, o) /\ o.put = 0
Sync(p, o) == [p EXCEPT !.disk = o.disk, !.sha = o.sha]

\* ---- environment events
PEdit(p, e) ==
    LET o == e.obs IN
    IF p.mode = "flows"
    THEN IF o.disk = e.tree THEN Ok(Sync(p, o)) ELSE Bad("Harness", p)
    ELSE IF o.disk.pol = At(e.tree, "policies.yaml") /\ o.disk.ll = p.disk.ll /\ o.disk.df = p.disk.df
         THEN Ok(Sync(p, o)) ELSE Bad("Harness", p)

PStateFile(p, e) == Ok([p EXCEPT !.sf = [p.sf EXCEPT ![e.which] = e.tag]])

\* ---- S9 start-up
PStart(p, e, known) ==
    LET o == e.obs
        dead == [p EXCEPT !.dead = TRUE, !.disk = o.disk, !.sha = o.sha]
    IN
    IF p.up \/ p.dead THEN Bad("Harness", p)
    ELSE IF p.mode = "flows" THEN
        LET val == Validity(p.disk, known)
            upAs(t) == [p EXCEPT !.up = TRUE, !.cur = t, !.alt = {}, !.loose = FALSE]
        IN
        IF o.disk # p.disk \/ o.sha # p.sha THEN Bad("StartOutcome", p)
        ELSE IF o.hapfault THEN (IF e.ok THEN Ok(upAs(p.disk)) ELSE Ok(dead))
        ELSE IF val = "valid" THEN
            IF e.ok /\ o.served = Beh(p.disk) THEN Ok(upAs(p.disk)) ELSE Bad("StartOutcome", p)
        ELSE IF ~e.ok THEN Res("", dead, {}, IF Opaque(p.disk) # {} /\ KnownValid(p.disk) THEN {<<p.disk, FALSE>>} ELSE {})
        ELSE IF Opaque(p.disk) # {} THEN
            \* validity unknown to the specification: the readable marker flows must serve
            IF o.served = Beh(p.disk) THEN Ok([upAs(p.disk) EXCEPT !.loose = TRUE]) ELSE Bad("StartOutcome", p)
        ELSE \* an engine that starts on a tree validation rejects
            Reading(FALSE, LenientStarts(p.disk) /\ o.served = Beh(Lenient(p.disk)), "LenientStartup", "StartOutcome",
                    upAs(Lenient(p.disk)))
    ELSE
        LET cls == PolClass(p.disk.pol)
            c == Cfg(p.disk.pol)
            fresh == o.disk.pol = p.disk.pol /\ o.disk.ll = c /\ o.disk.df = DiagFree(c)
            kept == o.disk = p.disk
        IN
        IF o.hapfault THEN (IF e.ok THEN Ok([p EXCEPT !.up = TRUE, !.cur = c, !.alt = {}, !.loose = FALSE, !.disk = o.disk, !.sha = o.sha]) ELSE Ok(dead))
        ELSE IF cls = "ok" THEN
            IF e.ok /\ fresh /\ o.served = PolServed(c)
            THEN Ok([p EXCEPT !.up = TRUE, !.cur = c, !.alt = {}, !.loose = FALSE, !.disk = o.disk, !.sha = o.sha]) ELSE Bad("StartOutcome", p)
        ELSE IF e.ok THEN Bad("StartOutcome", p)
        ELSE IF cls = "conflict" THEN Reading(kept, fresh, "LoadedFileOfFailedLoad", "StartOutcome", dead)
        ELSE IF kept THEN Ok(dead) ELSE Bad("StartOutcome", p)

\* ---- S7 introspection
PDoctor(p, e, cands) ==
    \* cands: the configurations that may be loaded right now
    LET a == Fld(e, "ans", [parsed |-> FALSE]) IN
    IF ~(IsOK(e.code) /\ a.parsed /\ a.md5ok /\ a.streams = (p.mode = "flows")) THEN Bad("Introspect", p)
    ELSE IF p.mode = "flows" THEN
        IF ~a.hasloaded \/ a.haspol THEN Bad("Introspect", p)
        ELSE IF \E c \in cands : a.files = Listed(c) /\ e.obs.served = Beh(c) THEN Ok(p)
        ELSE IF p.loose /\ p.hub /\ (DOMAIN a.files) \subseteq DOMAIN Listed(p.cur) /\ (\A q \in DOMAIN a.files : a.files[q] = p.cur[q])
                /\ (\A q \in (DOMAIN Listed(p.cur)) \cap KnownPaths : q \in DOMAIN a.files) THEN Ok(p)
        ELSE Reading(FALSE, ~p.hub /\ a.files = << >> , "DoctorWithoutHub", "Introspect", p)
    ELSE IF a.haspol /\ ~a.hasloaded /\ \E c \in cands : a.pol = c /\ e.obs.served = PolServed(c) THEN Ok(p)
    ELSE Bad("Introspect", p)

PGet(p, e, cands) ==
    LET a == Fld(e, "ans", [parsed |-> FALSE]) IN
    CASE e.ep = "doctor" -> PDoctor(p, e, cands)
      [] e.ep = "handshake" ->
            IF IsOK(e.code) /\ a.parsed /\ a.managed = p.managed THEN Ok(p) ELSE Bad("Introspect", p)
      [] OTHER ->
            LET w == IF e.ep = "discover" THEN "discover" ELSE "remedy" IN
            IF p.sf[w] = "absent" THEN (IF ~IsOK(e.code) THEN Ok(p) ELSE Bad("Introspect", p))
            ELSE IF IsOK(e.code) /\ a.parsed /\ a.data = p.sf[w] THEN Ok(p) ELSE Bad("Introspect", p)

\* ---- flows mode
PValidateFlows(p, e, known) ==
    LET val == Validity(p.disk, known) IN
    IF val = "unknown" THEN Res("", p, {}, {<<p.disk, IsOK(e.code)>>})
    ELSE IF (val = "valid") = (IsOK(e.code)) /\ (val = "invalid") = ~IsOK(e.code) THEN Ok(p) ELSE Bad("ValidateVerdict", p)

PLoadFlows(p, e, known) ==
    LET o == e.obs
        val == Validity(p.disk, known)
        new == [p EXCEPT !.cur = p.disk, !.alt = {}, !.loose = FALSE]
    IN
    IF o.disk # p.disk \/ o.sha # p.sha THEN Bad("LoadOutcome", p)
    ELSE IF o.hapfault THEN
        IF val = "invalid" THEN Bad("Agree", p)
        ELSE IF IsOK(e.code) THEN (IF o.served = Beh(p.disk) THEN Ok(new) ELSE Bad("LoadOutcome", p))
        ELSE IF o.served = Beh(p.cur) /\ o.served = Beh(p.disk) /\ p.disk # p.cur
             THEN Ok([p EXCEPT !.alt = p.alt \cup {p.disk}])       \* either may be loaded now
        ELSE IF o.served = Beh(p.cur) THEN Ok(p)
        ELSE Reading(FALSE, o.served = Beh(p.disk), "FailedLoadSwitched", "LoadOutcome", new)
    ELSE IF val = "invalid" THEN
        IF IsOK(e.code) THEN Bad("Agree", p) ELSE IF Untouched(p, o) THEN Ok(p) ELSE Bad("LoadOutcome", p)
    ELSE IF val = "valid" THEN
        IF ~IsOK(e.code) THEN Bad("Agree", p) ELSE IF o.served = Beh(p.disk) THEN Ok(new) ELSE Bad("LoadOutcome", p)
    ELSE IF IsOK(e.code) THEN
        IF o.served = Beh(p.disk) THEN Res("", new, {}, {<<p.disk, TRUE>>}) ELSE Bad("LoadOutcome", p)
    ELSE IF Untouched(p, o) THEN Res("", p, {}, {<<p.disk, FALSE>>}) ELSE Bad("LoadOutcome", p)

\* an update judged from the tree / configuration it started on (disk0, cur0)
PUpdate(p, ep, arg, code, o, disk0, sha0, cur0, known) ==
    LET tgt == Target(ep, disk0, arg.payload)
        val == Validity(tgt, known)
        old == [p EXCEPT !.disk = disk0, !.sha = sha0, !.cur = cur0, !.flight = NoFlight]
        new == [p EXCEPT !.disk = tgt, !.sha = o.sha, !.cur = tgt, !.alt = {}, !.loose = FALSE, !.flight = NoFlight]
        isOld == o.disk = disk0 /\ o.sha = sha0
        isNew == o.disk = tgt
        \* a refused update leaves everything as it was; the engine's roll-back loads the restored tree again, and with it
        \* whatever the operator had changed on disk without loading it
        pending == disk0 # cur0 /\ Validity(disk0, known) # "invalid"
        \* which configuration may be loaded after a refused update: the one that was (the statement), the restored tree
        \* with the operator's pending edits (the engine's roll-back), and - only when the proxy refused a call - the
        \* target, whose engine was already serving when the refusal came and which the roll-back could not replace
        Refused(learn, withTgt) ==
            LET c1 == o.served = Beh(cur0)
                c2 == pending /\ EngOK /\ o.served = Beh(disk0)
                c3 == withTgt /\ val # "invalid" /\ tgt # cur0 /\ o.served = Beh(tgt)
                matches == (IF c1 THEN {cur0} ELSE {}) \cup (IF c2 THEN {disk0} ELSE {}) \cup (IF c3 THEN {tgt} ELSE {})
                prim == IF c1 THEN cur0 ELSE IF c2 THEN disk0 ELSE tgt
            IN IF ~isOld \/ matches = {} THEN Bad("UpdateOutcome", p)
               ELSE Res("", [old EXCEPT !.cur = prim, !.alt = (IF c1 THEN old.alt ELSE {}) \cup (matches \ {prim})],
                        IF ~c1 /\ c2 THEN {"FailedUpdateLoadsPendingEdits"} ELSE {}, learn)
    IN
    IF ~arg.decodable THEN (IF ~IsOK(code) /\ isOld /\ o.served = Beh(cur0) /\ o.put = 0 THEN Ok(old) ELSE Bad("UpdateOutcome", p))
    ELSE IF o.hapfault THEN
        IF val = "invalid" /\ IsOK(code) THEN Bad("Agree", p)
        ELSE IF IsOK(code) THEN (IF isNew /\ o.served = Beh(tgt) THEN Ok(new) ELSE Bad("UpdateOutcome", p))
        ELSE Refused({}, TRUE)
    ELSE IF val = "invalid" THEN (IF IsOK(code) THEN Bad("Agree", p) ELSE Refused({}, FALSE))
    ELSE IF val = "valid" THEN
        IF ~IsOK(code) THEN Bad("Agree", p) ELSE IF isNew /\ o.served = Beh(tgt) THEN Ok(new) ELSE Bad("UpdateOutcome", p)
    ELSE IF IsOK(code) THEN
        IF isNew /\ o.served = Beh(tgt) THEN Res("", new, {}, {<<tgt, TRUE>>}) ELSE Bad("UpdateOutcome", p)
    ELSE Refused({<<tgt, FALSE>>}, FALSE)

POnError(p, e) ==
    IF e.arg.decodable = (IsOK(e.code)) /\ (~e.arg.decodable) = ~IsOK(e.code) /\ Untouched(p, e.obs) THEN Ok(p) ELSE Bad("ErrorReport", p)

\* ---- policy mode
PValidatePolicies(p, e) ==
    LET cls == PolClass(p.disk.pol) IN
    IF cls = "ok" THEN (IF IsOK(e.code) THEN Ok(p) ELSE Bad("ValidateVerdict", p))
    ELSE IF cls = "invalid" THEN (IF ~IsOK(e.code) THEN Ok(p) ELSE Bad("ValidateVerdict", p))
    ELSE Reading(~IsOK(e.code), IsOK(e.code), "ValidateAcceptsConflict", "ValidateVerdict", p)

PApplyPolicies(p, e) ==
    LET o == e.obs
        src == IF e.arg.body = "" THEN p.disk.pol ELSE e.arg.body
        cls == PolClass(src)
        c == Cfg(src)
        newdisk == [pol |-> src, ll |-> c, df |-> DiagFree(c)]
        new == [p EXCEPT !.disk = newdisk, !.sha = o.sha, !.cur = c, !.alt = {}, !.loose = FALSE]
        recorded == [pol |-> p.disk.pol, ll |-> c, df |-> DiagFree(c)]
    IN
    IF o.hapfault THEN
        IF cls # "ok" /\ IsOK(e.code) THEN Bad("Agree", p)
        ELSE IF IsOK(e.code) THEN (IF o.disk = newdisk /\ o.served = PolServed(c) THEN Ok(new) ELSE Bad("LoadOutcome", p))
        ELSE IF o.disk.pol \in {p.disk.pol, src} /\ o.disk.ll \in {p.disk.ll, c} /\ o.disk.df \in {p.disk.df, DiagFree(c)}
                /\ (o.served = PolServed(p.cur) \/ (cls = "ok" /\ o.served = PolServed(c)))
             THEN Ok([p EXCEPT !.disk = o.disk, !.sha = o.sha, !.cur = IF o.served = PolServed(p.cur) THEN p.cur ELSE c, !.alt = {}, !.loose = FALSE])
        ELSE Bad("LoadOutcome", p)
    ELSE IF cls = "ok" THEN
        IF ~IsOK(e.code) THEN Bad("Agree", p)
        ELSE IF o.disk = newdisk /\ o.served = PolServed(c) THEN Ok(new) ELSE Bad("LoadOutcome", p)
    ELSE IF IsOK(e.code) THEN Bad("Agree", p)
    ELSE IF o.served # PolServed(p.cur) \/ o.put # 0 THEN Bad("LoadOutcome", p)
    ELSE IF cls = "conflict" /\ e.arg.body = "" THEN
        Reading(o.disk = p.disk /\ o.sha = p.sha, o.disk = recorded, "LoadedFileOfFailedLoad", "LoadOutcome", Sync(p, o))
    ELSE IF o.disk = p.disk /\ o.sha = p.sha THEN Ok(p) ELSE Bad("LoadOutcome", p)

PRevert(p, e, free) ==
    LET o == e.obs
        src == IF free THEN p.disk.df ELSE p.disk.ll
        c == IF free THEN DiagFree(src) ELSE src
    IN
    IF o.disk # p.disk \/ o.sha # p.sha THEN Bad("Revert", p)
    ELSE IF o.hapfault THEN
        IF IsOK(e.code) THEN (IF Loadable(src) /\ o.served = PolServed(c) THEN Ok([p EXCEPT !.cur = c, !.alt = {}, !.loose = FALSE]) ELSE Bad("Revert", p))
        ELSE IF o.served = PolServed(p.cur) THEN Ok(p)
        ELSE IF Loadable(src) /\ o.served = PolServed(c) THEN Ok([p EXCEPT !.cur = c, !.alt = {}, !.loose = FALSE]) ELSE Bad("Revert", p)
    ELSE IF Loadable(src) THEN
        IF IsOK(e.code) /\ o.served = PolServed(c) THEN Ok([p EXCEPT !.cur = c, !.alt = {}, !.loose = FALSE]) ELSE Bad("Revert", p)
    ELSE \* the file holds a configuration that was never loaded (only reachable under the engine's reading)
        Reading(FALSE, ~IsOK(e.code) /\ Untouched(p, o), "RevertImpossible", "Revert", p)

\* ---- S10: requests while an update is parked at one of its yield points
PDuringFlight(p, e, known) ==
    LET o == e.obs
        fl == p.flight
        cands == {fl.cur0, fl.target} \cup p.alt \cup (IF EngOK THEN {fl.disk0} ELSE {})
        steady == o.disk = p.disk /\ o.sha = p.sha /\ o.served = fl.ls /\ o.put = 0
    IN
    IF ~(e.ep \in DOMAIN Routes(p.mode)) THEN (IF e.code = 404 /\ steady THEN Ok(p) ELSE Bad("Routes", p))
    ELSE IF e.ep \in {"apply_flows", "configuration"} THEN (IF e.code = 226 /\ steady THEN Ok(p) ELSE Bad("Busy", p))
    ELSE IF e.method # Routes(p.mode)[e.ep] THEN (IF e.code = 405 /\ steady THEN Ok(p) ELSE Bad("Routes", p))
    ELSE IF ~steady THEN Bad(IF e.ep \in {"validate_flows"} THEN "ValidatePure" ELSE "ReadOnly", p)
    ELSE IF e.ep = "validate_flows" THEN PValidateFlows(p, e, known)
    ELSE IF e.ep = "on_haproxy_error" THEN
        (IF e.arg.decodable = (IsOK(e.code)) /\ (~e.arg.decodable) = ~IsOK(e.code) THEN Ok(p) ELSE Bad("ErrorReport", p))
    ELSE IF e.ep = "doctor" /\ PGet(p, e, cands).v # "" THEN
        \* between the switch to the new engine and its announcement to the hub the doctor lists the flows only
        LET a == Fld(e, "ans", [parsed |-> FALSE])
            flowsOf(c) == Restrict(c, {q \in DOMAIN c : q \in {FP[f] : f \in ProbeFlows}})
        IN Reading(FALSE, IsOK(e.code) /\ a.parsed /\ a.streams /\ a.hasloaded /\ (\E c \in cands : Beh(c) = o.served /\
                              flowsOf(a.files) = flowsOf(c) /\ (\A q \in DOMAIN a.files : q \in DOMAIN c /\ a.files[q] = c[q])),
                   "DoctorMidSwitch", "Introspect", p)
    ELSE IF e.ep \in DOMAIN CommonRoutes THEN PGet(p, e, cands)
    ELSE Bad("Harness", p)        \* /load_flows next to a running update is outside the statement

PBegin(p, e, known) ==
    LET o == e.obs
        tgt == Target(e.ep, p.disk, e.arg.payload)
        mixed == \A q \in (DOMAIN o.disk) \cup (DOMAIN p.disk) \cup (DOMAIN tgt) : At(o.disk, q) \in {At(p.disk, q), At(tgt, q), "none"}
    IN
    IF p.flight.on \/ ~p.up THEN Bad("Harness", p)
    ELSE IF ~e.parked THEN PUpdate(p, e.ep, e.arg, e.code, o, p.disk, p.sha, p.cur, known)
    ELSE IF ~mixed THEN Bad("UpdateOutcome", p)
    ELSE IF o.served \notin {Beh(p.cur), Beh(tgt)} \cup (IF EngOK THEN {Beh(p.disk)} ELSE {}) THEN Bad("NeverHalf", p)
    ELSE Ok([p EXCEPT !.flight = [on |-> TRUE, ep |-> e.ep, arg |-> e.arg, disk0 |-> p.disk, sha0 |-> p.sha, cur0 |-> p.cur,
                                  target |-> tgt, ls |-> o.served, hf |-> o.hapfault],
                      !.disk = o.disk, !.sha = o.sha])

PFinish(p, e, known) ==
    LET fl == p.flight IN
    IF ~fl.on THEN Bad("Harness", p)
    ELSE \* a refusal of the proxy that happened before the update was parked belongs to the update as well
         PUpdate(p, fl.ep, fl.arg, e.code, [e.obs EXCEPT !.hapfault = e.obs.hapfault \/ fl.hf], fl.disk0, fl.sha0, fl.cur0, known)

\* ---- one administrative request, no update in flight
PCall(p, e, known) ==
    LET o == e.obs
        R == Routes(p.mode)
    IN
    IF p.dead \/ ~p.up THEN (IF e.code = 0 THEN Ok(p) ELSE Bad("Harness", p))
    ELSE IF p.flight.on THEN PDuringFlight(p, e, known)
    ELSE IF e.ep \notin DOMAIN R THEN (IF e.code = 404 /\ Untouched(p, o) THEN Ok(p) ELSE Bad("Routes", p))
    ELSE IF e.method # R[e.ep] THEN
        IF e.code = 405 /\ Untouched(p, o)
        THEN (IF Len(e.codes) = 1 THEN Ok(p) ELSE Reading(FALSE, e.ep = "on_haproxy_error", "ErrorHandlerContinues", "Routes", p))
        ELSE Bad("Routes", p)
    ELSE IF e.ep \in DOMAIN CommonRoutes THEN
        (IF Untouched(p, o) THEN PGet(p, e, {p.cur} \cup p.alt) ELSE Bad("ReadOnly", p))
    ELSE IF e.ep \in {"validate_flows", "validate_policies"} THEN
        IF ~Untouched(p, o) THEN Bad("ValidatePure", p)
        ELSE IF e.ep = "validate_flows" THEN PValidateFlows(p, e, known) ELSE PValidatePolicies(p, e)
    ELSE IF e.ep = "load_flows" THEN PLoadFlows(p, e, known)
    ELSE IF e.ep \in {"apply_flows", "configuration"} THEN PUpdate(p, e.ep, e.arg, e.code, o, p.disk, p.sha, p.cur, known)
    ELSE IF e.ep = "on_haproxy_error" THEN POnError(p, e)
    ELSE IF e.ep = "apply_policies" THEN PApplyPolicies(p, e)
    ELSE IF e.ep = "revert_to_last_loaded" THEN PRevert(p, e, FALSE)
    ELSE IF e.ep = "revert_to_diagnosis_free" THEN PRevert(p, e, TRUE)
    ELSE Bad("Harness", p)

PStep(p, e, known) ==
    CASE e.ev = "edit" -> PEdit(p, e)
      [] e.ev = "statefile" -> PStateFile(p, e)
      [] e.ev = "hapfail" -> Ok(p)
      [] e.ev = "start" -> PStart(p, e, known)
      [] e.ev = "call" -> PCall(p, e, known)
      [] e.ev = "begin" -> PBegin(p, e, known)
      [] e.ev = "finish" -> PFinish(p, e, known)
      [] OTHER -> Bad("Harness", p)
=============================================================================
