----------------------------- MODULE AdminTrace -----------------------------
(* X08 - trace validation of recorded executions of the real administrative     *)
(* interface (harness/cmd/x08) against the monitor AdminP: the verdict.         *)
(* trace.ndjson: line 1 = {"ev":"config",..}; per history: reset (mode, hub,    *)
(* managed), then one event per operator action with the real answer and the    *)
(* observation afterwards (tree on disk, SHA-256, what the probe transactions   *)
(* were served by, calls made to the proxy's admin API).                        *)
(* `known` (verdicts seen for trees whose validity the specification does not   *)
(* know) survives the reset: the same tree must get the same verdict from every *)
(* endpoint of every history of the file.                                       *)
EXTENDS TraceLib, AdminP

VARIABLES l, p, known, viol
tvars == <<l, p, known, viol>>

Ev == TraceLog[l + 1]

TInit == l = 1 /\ p = PInit("flows", FALSE, FALSE) /\ known = {} /\ viol = ""

TReset == /\ l < TraceLen /\ Ev.ev = "reset" /\ l' = l + 1
          /\ p' = PInit(Ev.mode, Ev.hub, Ev.managed) /\ viol' = "" /\ UNCHANGED known

Say(r) == IF r.devs = {} THEN TRUE ELSE PrintT(<<"DEV", l + 1, r.devs>>)

TEvent == /\ l < TraceLen /\ Ev.ev # "reset" /\ l' = l + 1
          /\ LET r == PStep(p, Ev, known) IN
               /\ Say(r)
               /\ viol' = r.v /\ p' = r.p /\ known' = known \cup r.learn

TNext == TReset \/ TEvent
TraceSpec == TInit /\ [][TNext]_tvars

Harness         == viol # "Harness"
Routes_         == viol # "Routes"
ValidatePure    == viol # "ValidatePure"
ValidateVerdict == viol # "ValidateVerdict"
Agree           == viol # "Agree"
LoadOutcome     == viol # "LoadOutcome"
UpdateOutcome   == viol # "UpdateOutcome"
StartOutcome    == viol # "StartOutcome"
Introspect      == viol # "Introspect"
ReadOnly        == viol # "ReadOnly"
Revert          == viol # "Revert"
Busy            == viol # "Busy"
NeverHalf       == viol # "NeverHalf"
ErrorReport     == viol # "ErrorReport"
HWM == Mark(l)
Post == Report
=============================================================================
