CONSTANTS
  Mode = "flows"
  ValidateLenient = FALSE
  LoadSkipsValidation = FALSE
  ValidatePublishes = FALSE
  RevertFromPoliciesFile = FALSE
  BodyFileFirst = FALSE
  NoLock = FALSE
  PolicyRoutesInFlows = FALSE
  GetReloads = FALSE
  DoctorFromDisk = FALSE
  RestoreSkipped = FALSE
SPECIFICATION TraceSpec
CONSTRAINT HWM
POSTCONDITION Post
CHECK_DEADLOCK FALSE
