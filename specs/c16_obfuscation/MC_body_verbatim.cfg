CONSTANTS
  Variant = "verbatim_undecoded"
  Keys <- K2
  LeafTypes = {"s"}
  Depth = 2
  MaxArr = 2
  Notations = {"plain", "request"}
  Entries = {"json"}
  PathLen = 2
  MaxExcl = 1
SPECIFICATION ISpec
INVARIANT Conforms
CHECK_DEADLOCK FALSE
