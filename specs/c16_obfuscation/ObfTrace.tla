------------------------------ MODULE ObfTrace ------------------------------
(* C16 - trace validation.  trace.ndjson holds one event per executed case:       *)
(*   {"ev":"obf","id":n,"entry":..,"excl":[{"n":..,"segs":[..]}],                  *)
(*    "shape":"same"|<difference>,"leaves":[{"p":path,"t":type,"c":class},..]}     *)
(* The step guard is the property relation FlatOK of ObfP; a case the property     *)
(* does not permit is reported as <<"REJECT", line, id, {offending leaves}>> and     *)
(* validation goes on.                                                             *)
EXTENDS ObfP, TraceLib

VARIABLE l

Ev == TraceLog[l + 1]

Permitted(e) ==
    /\ e.ev = "obf"
    /\ FlatOK(e.shape, e.leaves, {e.excl[i] : i \in 1..Len(e.excl)}, e.entry)

\* the leaves (indices into e.leaves) the property does not permit - printed with a rejection
BadLeaves(e) == {i \in 1..Len(e.leaves) :
                    ~LeafOK(e.leaves[i].p, e.leaves[i].t, e.leaves[i].c, {e.excl[j] : j \in 1..Len(e.excl)}, e.entry)}

TInit == l = 0
TNext == /\ l < TraceLen
         /\ l' = l + 1
         /\ IF Permitted(Ev) THEN TRUE ELSE PrintT(<<"REJECT", l + 1, Ev.id, BadLeaves(Ev)>>)

TraceSpec == TInit /\ [][TNext]_l
HWM == Mark(l)
Post == Report
=============================================================================
