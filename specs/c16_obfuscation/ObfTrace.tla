------------------------------ MODULE ObfTrace ------------------------------
(* C16 - trace validation.  trace.ndjson holds one event per executed case:       *)
(*   {"ev":"obf","id":n,"entry":..,"excl":[{"n":..,"segs":[..]}],                  *)
(*    "enc":<Content-Encoding value, "" = none>,"wire":"plain"|"gzip",             *)
(*    "shape":"same"|"opaque"|<difference>,"leaves":[{"p":path,"t":type,"c":class},..]} *)
(* The step guard is the property relation FlatOK of ObfP; a case the property     *)
(* does not permit is reported as <<"REJECT", line, id, {offending leaves}>> and     *)
(* validation goes on.  In the same pass the output (class at every leaf, "otree")  *)
(* is compared with what the implementation-shaped model ObfI computes for the      *)
(* document ("doc"); a difference is reported as <<"DRIFT", line, id>>.             *)
EXTENDS ObfI, TraceLib

VARIABLE l

NoKeys == <<>>      \* the constants of the bounded model are not used by the validation

Ev == TraceLog[l + 1]

Permitted(e) ==
    /\ e.ev = "obf"
    /\ BodyOK(e.shape, e.leaves, {e.excl[i] : i \in 1..Len(e.excl)}, e.entry, e.enc, e.wire)

\* the leaves (indices into e.leaves) the property does not permit - printed with a rejection
BadLeaves(e) == {i \in 1..Len(e.leaves) :
                    ~LeafOK(e.leaves[i].p, e.leaves[i].t, e.leaves[i].c, {e.excl[j] : j \in 1..Len(e.excl)}, e.entry)}

\* ("deep": the document is nested deeper than the JSON reader takes as a tree; it is judged leaf by leaf only)
LikeModel(e) == (e.shape = "same" /\ ~e.deep) => e.otree = Obfuscate(e.doc, {e.excl[i] : i \in 1..Len(e.excl)}, e.entry)

\* the variables of ObfI are not used by the validation
TInit == l = 0 /\ doc = Leaf("s") /\ excl = {} /\ entry = "json" /\ ph = 1
TNext == /\ l < TraceLen
         /\ l' = l + 1 /\ UNCHANGED vars
         /\ IF Permitted(Ev) THEN TRUE ELSE PrintT(<<"REJECT", l + 1, Ev.id, BadLeaves(Ev)>>)

         /\ IF LikeModel(Ev) THEN TRUE ELSE PrintT(<<"DRIFT", l + 1, Ev.id>>)

TraceSpec == TInit /\ [][TNext]_<<l, vars>>
HWM == Mark(l)
Post == Report
=============================================================================
