CONSTANTS
  Variant = "exact"
  Keys <- K2
  LeafTypes = {"s"}
  Depth = 2
  MaxArr = 1
  Notations = {"request", "response", "foreign"}
  Entries = {"har_request", "har_response"}
  PathLen = 2
  MaxExcl = 1
INIT GInit
NEXT GNext
CHECK_DEADLOCK FALSE
