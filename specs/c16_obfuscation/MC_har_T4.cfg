CONSTANTS
  Variant = "exact"
  Keys <- K3
  LeafTypes = {"s"}
  Depth = 2
  MaxArr = 1
  Notations = {"request", "response", "foreign"}
  Entries = {"har_request", "har_response"}
  PathLen = 2
  MaxExcl = 1
SPECIFICATION ISpec
INVARIANT Conforms
CHECK_DEADLOCK FALSE
