CONSTANTS
  Variant = "exact"
  Keys <- K3
  LeafTypes = {"s"}
  Depth = 2
  MaxArr = 1
  Notations = {"plain", "request"}
  Entries = {"json"}
  PathLen = 3
  MaxExcl = 1
SPECIFICATION ISpec
INVARIANT Conforms
CHECK_DEADLOCK FALSE
