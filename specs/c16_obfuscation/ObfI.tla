-------------------------------- MODULE ObfI --------------------------------
(* C16 - implementation-shaped specification: transcription of                  *)
(*   utils/obfuscation/obfuscate.go  obfuscateJSON (recursive walk building the  *)
(*       cursor string ".a.b" / "[]", onExcludedPath propagated downwards, raw   *)
(*       subtree returned as soon as the cursor is excluded) and                 *)
(*       isCursorInExcludedPath;                                                 *)
(*   streams/processors/har-collector/api_stream_obfuscator.go  obfuscateBody /  *)
(*       filterBodyExclusions (selection by the "$.request.body" /               *)
(*       "$.response.body" prefix);                                              *)
(*   services/diagnoses/har_generator_plugin.go  extractBody (request_body_paths /*)
(*       response_body_paths handed to ObfuscateJSON unfiltered).                *)
(* Strings are modelled as token sequences: ".key" = <<key>>, "[]" = <<"[]">>,   *)
(* "$" = <<"$">>; with keys free of '.', '[' and '$' the string suffix / prefix  *)
(* tests coincide with the token-sequence tests.                                 *)
(*                                                                               *)
(* Variant selects the exclusion test:                                           *)
(*   "suffix"  the pinned commit: exact match or `exclusion ends with the cursor` *)
(*   "exact"   the repaired code: the exclusion, stripped of its body prefix,     *)
(*             equals the cursor                                                  *)
(*   "name"    a broken variant: also by the last key alone (must be refuted)     *)
(*   "verbatim_undecoded"  a broken variant of the body extraction: a body whose   *)
(*             declared encoding could not be undone is exported as received       *)
(*             (must be refuted)                                                   *)
EXTENDS ObfP

CONSTANTS Variant

IsSuffix(c, x) == Len(c) <= Len(x) /\ SubSeq(x, Len(x) - Len(c) + 1, Len(x)) = c

Render(x) ==
    CASE x.n \in {"plain", "plain_other"} -> x.segs
      [] x.n = "request" -> <<"$", "request", "body">> \o x.segs
      [] x.n = "response" -> <<"$", "response", "body">> \o x.segs
      [] OTHER -> <<"$", "request", "headers">> \o x.segs

\* translation of a JSONPath body exclusion to the cursor notation (repaired code)
BodyPathOf(s) ==
    IF Len(s) >= 3 /\ s[1] = "$" /\ s[2] \in {"request", "response"} /\ s[3] = "body" THEN SubSeq(s, 4, Len(s)) ELSE s

CursorExcluded(cursor, XS) ==
    CASE Variant = "suffix" -> \/ cursor \in XS
                               \/ cursor # <<>> /\ \E s \in XS : IsSuffix(cursor, s)
      [] Variant = "name" -> \/ \E s \in XS : BodyPathOf(s) = cursor
                             \/ cursor # <<>> /\ \E s \in XS : s # <<>> /\ s[Len(s)] = cursor[Len(cursor)] /\ s[Len(s)] # "[]"
      [] OTHER -> \E s \in XS : BodyPathOf(s) = cursor                  \* "exact" (and the variants of the body extraction)

Leaf(t) == [k |-> "leaf", t |-> t, f |-> <<>>]
Obj(fs) == [k |-> "obj", t |-> "", f |-> fs]
Arr(es) == [k |-> "arr", t |-> "", f |-> es]

RECURSIVE Raw(_)
\* `return &raw`: the subtree is passed through unchanged - every leaf under it is kept
Raw(d) == CASE d.k = "leaf" -> Leaf("kept")
            [] d.k = "arr" -> Arr([i \in 1..Len(d.f) |-> Raw(d.f[i])])
            [] OTHER -> Obj([i \in 1..Len(d.f) |-> <<d.f[i][1], Raw(d.f[i][2])>>])

RECURSIVE Walk(_, _, _, _)
Walk(d, cursor, XS, on) ==
    LET on2 == on \/ CursorExcluded(cursor, XS) IN
    IF on2 THEN Raw(d)
    ELSE CASE d.k = "arr" -> Arr([i \in 1..Len(d.f) |-> Walk(d.f[i], Append(cursor, "[]"), XS, on2)])
           [] d.k = "obj" -> Obj([i \in 1..Len(d.f) |-> <<d.f[i][1], Walk(d.f[i][2], Append(cursor, d.f[i][1]), XS, on2)>>])
           [] OTHER -> Leaf("hidden")          \* every primitive type, null included, is replaced by a hash

HasPrefix(s, pre) == Len(pre) <= Len(s) /\ SubSeq(s, 1, Len(pre)) = pre

\* the exclusion strings the walk receives at an entry point
Passed(X, entry) ==
    LET all == {Render(x) : x \in X} IN
    CASE entry = "har_request" -> {s \in all : HasPrefix(s, <<"$", "request", "body">>)}
      [] entry = "har_response" -> {s \in all : HasPrefix(s, <<"$", "response", "body">>)}
      [] entry \in {"legacy_request", "legacy_response"} -> {Render(x) : x \in {y \in X : y.n # "plain_other"}}   \* the list of this body
      [] OTHER -> all

Obfuscate(d, X, entry) == Walk(d, <<>>, Passed(X, entry), FALSE)

-----------------------------------------------------------------------------
\* Body extraction of the exporters (services/diagnoses/har_generator_plugin.go extractBody / ensureDecompressedBody and
\* har-collector buildHARBody): the body is gunzipped when the Content-Encoding value is gzip and the bytes are gzip data,
\* otherwise taken as received; then ObfuscateJSON, and when that fails to parse, the hash of the whole body.
\* Outcome for a body whose JSON text travels as `wire` under header `enc`:
\*   "structured" the document is walked (Obfuscate above), "opaque" the whole-body hash, "verbatim" the body as received
Encodings == {"", "gzip", "identity", "br", "gzip, deflate", "deflate"}
Wires == {"plain", "gzip"}
BodyOutcome(enc, wire) ==
    LET gunzipped == enc = "gzip" /\ wire = "gzip"
        text == wire = "plain" \/ gunzipped              \* what ObfuscateJSON receives is the JSON text
    IN  IF Variant = "verbatim_undecoded" /\ enc # "" /\ ~gunzipped THEN "verbatim"
        ELSE IF text THEN "structured" ELSE "opaque"
\* I => P for the transport dimension: an opaque export only where the property permits it, never a verbatim one
BodyConforms == \A enc \in Encodings, wire \in Wires :
                   /\ BodyOutcome(enc, wire) # "verbatim"
                   /\ BodyOutcome(enc, wire) = "opaque" => ~Decodable(enc, wire)

-----------------------------------------------------------------------------
\* the bounded input space

CONSTANTS Keys,        \* sequence of keys (defines the order of fields)
          LeafTypes,   \* subset of {"s", "n", "b", "z"}
          Depth, MaxArr,
          Notations, Entries, PathLen, MaxExcl

VARIABLES doc, excl, entry, ph
vars == <<doc, excl, entry, ph>>

RECURSIVE KeySeqs(_)
\* the order-preserving subsequences of a key sequence
KeySeqs(ks) == IF ks = <<>> THEN {<<>>}
               ELSE LET r == KeySeqs(Tail(ks)) IN r \cup {<<Head(ks)>> \o q : q \in r}

RECURSIVE Tuples(_, _)
Tuples(S, n) == IF n = 0 THEN {<<>>} ELSE {Append(t, x) : t \in Tuples(S, n - 1), x \in S}

RECURSIVE Docs(_)
Docs(n) ==
    LET L == {Leaf(t) : t \in LeafTypes} IN
    IF n = 0 THEN L
    ELSE LET D == Docs(n - 1) IN
         L \cup UNION {{Obj([i \in 1..Len(ks) |-> <<ks[i], v[i]>>]) : v \in Tuples(D, Len(ks))} : ks \in KeySeqs(Keys)}
           \cup UNION {{Arr(es) : es \in Tuples(D, m)} : m \in 0..MaxArr}

Tokens == {Keys[i] : i \in 1..Len(Keys)} \cup {"[]"}
Paths == UNION {Tuples(Tokens, m) : m \in 0..PathLen}
Excls == {[n |-> nt, segs |-> p] : nt \in Notations, p \in Paths}
\* the sets of at most MaxExcl (<= 3) exclusions, built without enumerating SUBSET Excls
ExclSets == {{}} \cup (IF MaxExcl >= 1 THEN {{x} : x \in Excls} ELSE {})
                 \cup (IF MaxExcl >= 2 THEN {{x, y} : x \in Excls, y \in Excls} ELSE {})
                 \cup (IF MaxExcl >= 3 THEN {{x, y, z} : x \in Excls, y \in Excls, z \in Excls} ELSE {})

\* two steps so that TLC's workers share the work: the document and the entry point are chosen by Init, the
\* exclusion set by Next
Init == doc \in Docs(Depth) /\ entry \in Entries /\ excl = {} /\ ph = 0
Next == ph = 0 /\ ph' = 1 /\ excl' \in ExclSets /\ UNCHANGED <<doc, entry>>
ISpec == Init /\ [][Next]_vars

\* I => P on every input of the bounded space
Conforms == TreeOK(doc, Obfuscate(doc, excl, entry), <<>>, excl, entry)
=============================================================================
