CONSTANTS
  Variant = "exact"
  Keys <- K2
  LeafTypes = {"s"}
  Depth = 2
  MaxArr = 1
  Notations = {"plain", "plain_other", "request"}
  Entries = {"legacy_request", "legacy_response"}
  PathLen = 2
  MaxExcl = 2
SPECIFICATION ISpec
INVARIANT Conforms
CHECK_DEADLOCK FALSE
