------------------------------- MODULE GenC16 -------------------------------
(* spec -> code: the bounded input space (documents x exclusion sets x entry     *)
(* points) as a constant set, written to gen_cases.json with the reference       *)
(* result per leaf pattern left to the trace validation (the executor renders    *)
(* documents and exclusions to text, runs the real code, and ObfTrace judges).   *)
EXTENDS MC_C16, Json

RECURSIVE SetSeq(_)
SetSeq(S) == IF S = {} THEN <<>> ELSE LET x == CHOOSE y \in S : TRUE IN <<x>> \o SetSeq(S \ {x})

Cases == {[entry |-> e, excl |-> SetSeq(X), doc |-> d] : e \in Entries, X \in ExclSets, d \in Docs(Depth)}

ASSUME JsonSerialize("gen_cases.json", [cases |-> Cases])
ASSUME PrintT(<<"GEN-CASES", Cardinality(Cases)>>)

GInit == doc = Leaf("s") /\ excl = {} /\ entry = "json" /\ ph = 1
GNext == UNCHANGED vars
=============================================================================
