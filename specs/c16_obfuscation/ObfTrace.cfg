CONSTANTS
  Variant = "exact"
  Keys <- NoKeys
  LeafTypes = {}
  Depth = 0
  MaxArr = 0
  Notations = {}
  Entries = {}
  PathLen = 0
  MaxExcl = 0
SPECIFICATION TraceSpec
CONSTRAINT HWM
POSTCONDITION Post
CHECK_DEADLOCK FALSE
