-------------------------------- MODULE ObfP --------------------------------
(* C16 - obfuscation hides every value that is not explicitly excluded:        *)
(* property specification (P).                                                 *)
(*                                                                             *)
(* A JSON document is a finite tree                                            *)
(*   [k |-> "leaf", t |-> type, f |-> <<>>]            type: "s" string, "n"   *)
(*                                                      number, "b" boolean,   *)
(*                                                      "z" null               *)
(*   [k |-> "obj",  t |-> "", f |-> << <<key, doc>>, ... >>]                   *)
(*   [k |-> "arr",  t |-> "", f |-> << doc, ... >>]                            *)
(* A path is a sequence of keys and "[]" (any element of an array).            *)
(* An exclusion is [n |-> notation, segs |-> path]:                            *)
(*   "plain"    .a.b / .a[].b / [].b          (the empty path = the whole body)*)
(*   "request"  $.request.body.a.b                                             *)
(*   "response" $.response.body.a.b                                            *)
(*   "foreign"  any other string (a JSONPath of another part of the            *)
(*              transaction, free text): addresses nothing in the body         *)
(*   "plain_other" a plain path configured for the body of the other direction *)
(*              (legacy exporter: response_body_paths for a request body)      *)
(* Entry points: "json" = Obfuscator.ObfuscateJSON (every body notation        *)
(* addresses the document), "har_request" / "har_response" = the HAR           *)
(* collector's request / response body (only the JSONPath notation of that     *)
(* body addresses it; the plain notation is not a notation of the collector's  *)
(* exclusion list, its effect there is left open), "legacy_request" /          *)
(* "legacy_response" = the bodies exported by the legacy HAR generator plugin   *)
(* (request_body_paths / response_body_paths hold plain paths; a JSONPath       *)
(* written there is not a notation of that list, its effect is left open).      *)
(*                                                                             *)
(* The property, per leaf at path p: it must be kept verbatim when p lies on   *)
(* or under an exclusion addressed to this body, otherwise it must be replaced *)
(* by its hash (strings, numbers, booleans; the statement is silent on null);  *)
(* nothing else may happen to it, and the structure (keys, nesting, array      *)
(* lengths) must be preserved.  In particular an exclusion never exposes a     *)
(* value at a different path.                                                  *)
EXTENDS Integers, Sequences, FiniteSets

IsPrefix(x, p) == Len(x) <= Len(p) /\ SubSeq(p, 1, Len(x)) = x

Addresses(x, entry) ==
    CASE entry = "json" -> x.n \in {"plain", "request", "response"}
      [] entry = "har_request" -> x.n = "request"
      [] entry = "har_response" -> x.n = "response"
      [] entry \in {"legacy_request", "legacy_response"} -> x.n = "plain"
      [] OTHER -> FALSE

MustKeep(p, X, entry) == \E x \in X : Addresses(x, entry) /\ IsPrefix(x.segs, p)
MayKeep(p, X, entry) == \/ MustKeep(p, X, entry)
                        \/ entry \in {"har_request", "har_response"} /\ \E x \in X : x.n = "plain" /\ IsPrefix(x.segs, p)
                        \/ entry \in {"legacy_request", "legacy_response"}
                              /\ \E x \in X : x.n \in {"request", "response"} /\ IsPrefix(x.segs, p)

\* c: what happened to the leaf - "kept" (byte-identical), "hidden" (= hash of the value, differs from it), "other"
LeafOK(p, t, c, X, entry) ==
    \/ c = "kept" /\ (MayKeep(p, X, entry) \/ (t = "z" /\ ~MustKeep(p, X, entry)))
    \/ c = "hidden" /\ ~MustKeep(p, X, entry)

\* tree form: `a` the input document, `b` the output document whose leaves carry the class instead of the type
RECURSIVE TreeOK(_, _, _, _, _)
TreeOK(a, b, p, X, entry) ==
    IF a.k = "leaf" THEN b.k = "leaf" /\ LeafOK(p, a.t, b.t, X, entry)
    ELSE /\ b.k = a.k /\ Len(b.f) = Len(a.f)
         /\ IF a.k = "arr"
            THEN \A i \in 1..Len(a.f) : TreeOK(a.f[i], b.f[i], Append(p, "[]"), X, entry)
            ELSE \A i \in 1..Len(a.f) : /\ b.f[i][1] = a.f[i][1]
                                        /\ TreeOK(a.f[i][2], b.f[i][2], Append(p, a.f[i][1]), X, entry)

\* flat form (recorded executions): shape verdict + one record [p, t, c] per leaf of the input
FlatOK(shape, leaves, X, entry) ==
    /\ shape = "same"
    /\ \A i \in 1..Len(leaves) : LeafOK(leaves[i].p, leaves[i].t, leaves[i].c, X, entry)

\* Transport: the body reaches the exporter as `wire` bytes ("plain" = the JSON text, "gzip" = the gzip-compressed JSON text)
\* under a Content-Encoding header value `enc` ("" = no header).  The exporter can be expected to see the document when the
\* declared encoding is one it decodes and matches the bytes; otherwise it may also export nothing of the body ("opaque":
\* empty, or the hash of the whole body) - but never the body as received: every value outside the excluded paths must be
\* replaced by its hash whatever the transport.
Decodable(enc, wire) == (enc = "" /\ wire = "plain") \/ (enc = "gzip" /\ wire = "gzip")
BodyOK(shape, leaves, X, entry, enc, wire) ==
    \/ FlatOK(shape, leaves, X, entry)
    \/ shape = "opaque" /\ ~Decodable(enc, wire)

\* the reference result: what a leaf at p becomes
Ref(p, X, entry) == IF MustKeep(p, X, entry) THEN "kept" ELSE "hidden"
=============================================================================
