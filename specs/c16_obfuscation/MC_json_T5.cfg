CONSTANTS
  Variant = "exact"
  Keys <- K2
  LeafTypes = {"s"}
  Depth = 3
  MaxArr = 2
  Notations = {"plain"}
  Entries = {"json"}
  PathLen = 3
  MaxExcl = 1
SPECIFICATION ISpec
INVARIANT Conforms
CHECK_DEADLOCK FALSE
