CONSTANTS
  Variant = "exact"
  Keys <- K2
  LeafTypes = {"s"}
  Depth = 3
  MaxArr = 1
  Notations = {"plain", "request"}
  Entries = {"json"}
  PathLen = 2
  MaxExcl = 2
SPECIFICATION ISpec
INVARIANT Conforms
CHECK_DEADLOCK FALSE
