SPECIFICATION TraceSpec
INVARIANTS PerWindow SizeBound
CONSTRAINT HWM
POSTCONDITION Post
CHECK_DEADLOCK FALSE
