CONSTANTS
  Req <- Ids
  Prio <- PrioA
  Ttl <- TtlA
  Quota = 1
  W = 2
  QSize = 2
  MaxNow = 40
  KF_C10_LostHandoff = FALSE
  KF_Overtake = FALSE
  TtlPeek = FALSE
  Driver = TRUE
  KeepHist = TRUE
  GenDepth = 22
SPECIFICATION Spec
INVARIANT Emit
CHECK_DEADLOCK FALSE
