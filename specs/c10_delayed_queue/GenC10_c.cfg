CONSTANTS
  Req <- Ids
  Prio <- PrioC
  Ttl <- TtlC
  Quota = 1
  W = 4
  QSize = 2
  MaxNow = 40
  KF_C10_LostHandoff = FALSE
  TtlPeek = FALSE
  Driver = TRUE
  KeepHist = TRUE
  GenDepth = 22
SPECIFICATION Spec
INVARIANT Emit
CHECK_DEADLOCK FALSE
