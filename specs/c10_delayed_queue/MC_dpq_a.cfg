CONSTANTS
  Req <- Req3
  Prio <- PrioA
  Ttl <- TtlA
  Quota = 1
  W = 2
  QSize = 2
  MaxNow = 6
  KF_C10_LostHandoff = FALSE
  KF_Overtake = FALSE
  TtlPeek = FALSE
  Driver = FALSE
  KeepHist = TRUE
SPECIFICATION Spec
VIEW View
INVARIANTS CxPOk CxNoStrand PerWindow SizeBound
CHECK_DEADLOCK FALSE
