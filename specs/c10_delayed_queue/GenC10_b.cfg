CONSTANTS
  Req <- Ids
  Prio <- PrioB
  Ttl <- TtlB
  Quota = 2
  W = 4
  QSize = 3
  MaxNow = 40
  KF_C10_LostHandoff = FALSE
  KF_Overtake = FALSE
  TtlPeek = FALSE
  Driver = TRUE
  KeepHist = TRUE
  GenDepth = 22
SPECIFICATION Spec
INVARIANT Emit
CHECK_DEADLOCK FALSE
