CONSTANTS
  Req <- Req3
  Prio <- PrioA
  Ttl <- TtlA
  Quota = 1
  W = 2
  QSize = 2
  MaxNow = 6
  KF_C10_LostHandoff = TRUE
  KF_Overtake = FALSE
  TtlPeek = FALSE
  Driver = TRUE
  KeepHist = TRUE
SPECIFICATION Spec
VIEW ViewD
INVARIANTS CxNoStrand
CHECK_DEADLOCK FALSE
