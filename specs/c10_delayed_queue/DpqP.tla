-------------------------------- MODULE DpqP --------------------------------
(* C10 - policy-mode delayed priority queue: property specification (P).       *)
(*                                                                             *)
(* Observable events only, at the interface DelayedPriorityQueue.Enqueue /     *)
(* StrategyBasedQueuePlugin.OnRequest: a request i with priority pr (smaller   *)
(* = more urgent) and time-to-live tl arrives at instant `now` and is, there   *)
(* and then,                                                                   *)
(*   Admit      let through in the current window,                             *)
(*   RejectFull refused because the queue is full, or                          *)
(*   Enqueue    made to wait;                                                  *)
(* a waiting request is later                                                  *)
(*   Release    let through, or                                                *)
(*   RejectTTL  refused because its time-to-live elapsed;                      *)
(*   Leave      and then its call returns (until then it still occupies its    *)
(*              place in the queue as far as a newcomer can tell).             *)
(* Windows are aligned to the epoch grid (window index of instant t = t \div W)*)
(* The specification *is* the property; its guards say when an outcome is      *)
(* permitted:                                                                  *)
(*   PerWindow  at most Quota requests are let through per grid window         *)
(*   SizeBound  at most QSize requests wait                                    *)
(*   Order      a waiting request is let through only if no request that still *)
(*              waits within its time-to-live is more urgent or, equally       *)
(*              urgent, arrived earlier (a request let through on arrival is   *)
(*              not "released from the queue": the statement gives waiters     *)
(*              no precedence over it)                                         *)
(*   NoStrand   a waiting request whose turn has come - at some instant of its  *)
(*              wait, before its time-to-live ended, quota was free in the     *)
(*              current window and no request entitled to go before it waited - *)
(*              is not refused any more (it is released, not left to expire):   *)
(*              `turn` remembers those requests.  A later arrival that is let   *)
(*              through first is not forbidden as such; a waiter that then      *)
(*              expires although its turn had come is.                          *)
(*   RejectOnly refusal on arrival only when QSize requests wait or are just   *)
(*              leaving the queue (decided, call not yet returned); refusal of a *)
(*              waiter only when its time-to-live really elapsed and every     *)
(*              window it waited in (from its arrival up to, not including,    *)
(*              the instant its time-to-live ended) was used up before its    *)
(*              turn came                                                      *)
EXTENDS Integers, FiniteSets, TLC

CONSTANTS Quota, W, QSize

VARIABLES
    now,     \* current instant (ticks)
    rq,      \* requests seen so far: id -> [st, arr, sub, prio, ttl, inq]   st \in {"waiting", "released", "rejected"};
             \*   arr = arrival instant (tick), sub = order of arrival within the tick (0 = not known: a tie);
             \*   inq = it was made to wait and its call has not returned yet
    rel,     \* grid window -> number of requests let through in it
    turn,    \* requests whose turn has come while they waited
    last     \* last event (output only)

pvars == <<now, rq, rel, turn, last>>

Win(t) == t \div W
Rel(w) == IF w \in DOMAIN rel THEN rel[w] ELSE 0
Waiting == {i \in DOMAIN rq : rq[i].st = "waiting"}
Occupying == {i \in DOMAIN rq : rq[i].inq}
\* j is entitled to go before i
Earlier(a, b) == a.arr < b.arr \/ (a.arr = b.arr /\ a.sub > 0 /\ b.sub > 0 /\ a.sub < b.sub)
Better(j, i) == rq[j].prio < rq[i].prio \/ (rq[j].prio = rq[i].prio /\ Earlier(rq[j], rq[i]))
Expired(j) == now >= rq[j].arr + rq[j].ttl
\* every window request i waited in was used up (kept for the classification of witnesses)
NoSlotFor(i) == \A w \in Win(rq[i].arr) .. Win(rq[i].arr + rq[i].ttl - 1) : Rel(w) = Quota
\* the requests whose turn has come in the state (q, r, t): waiting, time-to-live not yet over, quota free in the
\* current window for them and for everybody who waits and is entitled to go first
TurnIn(q, r, t) ==
    LET all == {i \in DOMAIN q : q[i].st = "waiting"}            \* (a waiter whose time-to-live is over may still get the slot)
        wt == {i \in all : t < q[i].arr + q[i].ttl}
        used == IF t \div W \in DOMAIN r THEN r[t \div W] ELSE 0
        before(j, i) == q[j].prio < q[i].prio \/ (q[j].prio = q[i].prio /\ Earlier(q[j], q[i]))
        \* fewer waiters that are not strictly behind i than free slots (requests that tie with i - equal priority,
        \* arrival in the same tick in unknown order - may be served first: then it is not yet i's turn)
    IN  {i \in wt : Cardinality({j \in all \ {i} : ~before(i, j)}) < Quota - used}
\* every action ends with: whose turn has come now is remembered
Turns == turn' = turn \cup TurnIn(rq', rel', now')

Count == rel' = (Win(now) :> Rel(Win(now)) + 1) @@ rel
New(i, pr, tl, sb, st) == rq' = (i :> [st |-> st, arr |-> now, sub |-> sb, prio |-> pr, ttl |-> tl, inq |-> st = "waiting"]) @@ rq

Init == now = 0 /\ rq = <<>> /\ rel = <<>> /\ turn = {} /\ last = [ev |-> "init"]

Advance(d) ==
    /\ d > 0 /\ now' = now + d
    /\ last' = [ev |-> "adv", d |-> d]
    /\ UNCHANGED <<rq, rel>> /\ Turns

\* THE PROPERTY as guards: is this outcome permitted now?
CanAdmit == Rel(Win(now)) < Quota                                                \* PerWindow
CanRejectFull == Cardinality(Occupying) >= QSize                                 \* RejectOnly
CanEnqueue == Cardinality(Waiting) < QSize                                       \* SizeBound
CanRelease(i) == /\ Rel(Win(now)) < Quota                                        \* PerWindow
                 /\ \A j \in Waiting \ {i} : Better(j, i) => Expired(j)          \* Order
CanRejectTTL(i) == /\ Expired(i)               \* the time-to-live really elapsed
                   /\ i \notin turn            \* ... and its turn never came while it waited (NoStrand)

Admit(i, pr, tl, sb) ==
    /\ i \notin DOMAIN rq
    /\ CanAdmit
    /\ New(i, pr, tl, sb, "released") /\ Count
    /\ last' = [ev |-> "admit", i |-> i]
    /\ UNCHANGED now /\ Turns

RejectFull(i, pr, tl, sb) ==
    /\ i \notin DOMAIN rq
    /\ CanRejectFull
    /\ New(i, pr, tl, sb, "rejected")
    /\ last' = [ev |-> "full", i |-> i]
    /\ UNCHANGED <<now, rel>> /\ Turns

Enqueue(i, pr, tl, sb) ==
    /\ i \notin DOMAIN rq
    /\ CanEnqueue
    /\ New(i, pr, tl, sb, "waiting")
    /\ last' = [ev |-> "enqueue", i |-> i]
    /\ UNCHANGED <<now, rel>> /\ Turns

Release(i) ==
    /\ i \in Waiting
    /\ CanRelease(i)
    /\ rq' = [rq EXCEPT ![i].st = "released"] /\ Count
    /\ last' = [ev |-> "release", i |-> i]
    /\ UNCHANGED now /\ Turns

RejectTTL(i) ==
    /\ i \in Waiting
    /\ CanRejectTTL(i)
    /\ rq' = [rq EXCEPT ![i].st = "rejected"]
    /\ last' = [ev |-> "ttl", i |-> i]
    /\ UNCHANGED <<now, rel>> /\ Turns

\* the call of a request that had to wait returns
Leave(i) ==
    /\ i \in DOMAIN rq /\ rq[i].inq /\ rq[i].st # "waiting"
    /\ rq' = [rq EXCEPT ![i].inq = FALSE]
    /\ last' = [ev |-> "leave", i |-> i]
    /\ UNCHANGED <<now, rel, turn>>

\* Compact form for storms: n requests arrive together, at one instant, at a queue (remedy and strategy) nobody has
\* used yet, whose quota is q and which has no room for waiters; r of them are let through, the others refused at
\* once.  It is what n arrivals (Admit | RejectFull with QSize = 0) allow on a fresh state: PerWindow.
FreshBatch(q, n, r) == r \in 0..n /\ r <= q

-------------------------------------------------------------------------------
\* bounded instance of P itself
CONSTANTS PReq, PPrio, PTtl, PMaxNow

Next ==
    \/ now < PMaxNow /\ Advance(1)
    \/ \E i \in PReq : Admit(i, PPrio[i], PTtl[i], 0) \/ RejectFull(i, PPrio[i], PTtl[i], 0) \/ Enqueue(i, PPrio[i], PTtl[i], 0)
                       \/ Release(i) \/ RejectTTL(i) \/ Leave(i)

Spec == Init /\ [][Next]_pvars

\* the property as invariants of P (they hold by construction)
PerWindow == \A w \in DOMAIN rel : rel[w] <= Quota
SizeBound == Cardinality(Waiting) <= QSize
=============================================================================
