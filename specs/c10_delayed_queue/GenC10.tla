------------------------------- MODULE GenC10 -------------------------------
(* Behaviour generation for replay (spec -> code): random walks (tlc -simulate) *)
(* of DpqI restricted to the schedules a driver can force (Driver = TRUE:       *)
(* arrivals, releases of held goroutines and ticks only when everything is      *)
(* blocked).  Every walk that reaches GenDepth driver steps is printed as one   *)
(* JSON line: the driver steps and the outcome the model predicts per request.  *)
EXTENDS DpqI, Json
CONSTANT GenDepth

Ids == {"q1", "q2", "q3", "q4", "q5", "q6"}
Fn(a, b, c, d, e, f) == ("q1" :> a) @@ ("q2" :> b) @@ ("q3" :> c) @@ ("q4" :> d) @@ ("q5" :> e) @@ ("q6" :> f)
PrioA == Fn(1, 0, 1, 2, 0, 1)
TtlA == Fn(3, 4, 6, 2, 5, 8)
PrioB == Fn(0, 0, 0, 0, 0, 0)
TtlB == Fn(2, 4, 6, 4, 2, 8)
PrioC == Fn(2, 1, 0, 2, 1, 0)
TtlC == Fn(4, 4, 2, 6, 6, 2)

Emit == (Len(hist) = GenDepth) => PrintT(<<"VH", ToJson([hist |-> hist, res |-> res])>>)
=============================================================================
