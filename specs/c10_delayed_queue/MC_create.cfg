CONSTANTS
  Callers = {c1, c2, c3}
  Quota = 1
  KF_CreateRace = FALSE
SPECIFICATION Spec
INVARIANTS BatchOK OneQueue
CHECK_DEADLOCK FALSE
