CONSTANTS
  Req <- Req3
  Prio <- PrioB
  Ttl <- TtlB
  Quota = 1
  W = 2
  QSize = 1
  MaxNow = 6
  KF_C10_LostHandoff = FALSE
  KF_Overtake = FALSE
  TtlPeek = FALSE
  Driver = FALSE
  KeepHist = TRUE
SPECIFICATION Spec
VIEW ViewL
INVARIANTS WitRelease WitTtl WitFull WitBuffered WitTtlVsSignal WitSkipGone
CHECK_DEADLOCK FALSE
