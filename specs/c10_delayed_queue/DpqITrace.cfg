CONSTANTS
  Req <- ReqT
  Prio <- PrioT
  Ttl <- TtlT
  Quota <- QuotaT
  W <- WT
  QSize <- QSizeT
  MaxNow = 1000000000
  KF_C10_LostHandoff <- KfT
  KF_Overtake = FALSE
  TtlPeek = FALSE
  Driver = FALSE
  KeepHist = FALSE
SPECIFICATION TraceSpec
CONSTRAINT HWM
POSTCONDITION Post
CHECK_DEADLOCK FALSE
