CONSTANTS
  Callers = {c1, c2, c3}
  Quota = 1
  KF_CreateRace = TRUE
SPECIFICATION Spec
INVARIANTS BatchOK
CHECK_DEADLOCK FALSE
