CONSTANTS
  Req <- Req4
  Prio <- PrioC
  Ttl <- TtlC
  Quota = 1
  W = 2
  QSize = 2
  MaxNow = 7
  KF_C10_LostHandoff = FALSE
  KF_Overtake = FALSE
  TtlPeek = FALSE
  Driver = FALSE
  KeepHist = TRUE
SPECIFICATION Spec
VIEW View
INVARIANTS CxPOk CxNoStrand PerWindow SizeBound
CHECK_DEADLOCK FALSE
