------------------------------ MODULE DpqITrace ------------------------------
(* C10 - trace validation of recorded executions against the implementation-     *)
(* shaped specification DpqI (conformance of the model to the code; the verdict   *)
(* about the property comes from DpqTrace / DpqP only).                           *)
(*                                                                             *)
(* Same trace as DpqTrace.  "begin" is the invocation (step e1 follows, internal), *)
(* "adv" a tick of the clock process, "pop" (hook dpq.pop{id, delivered}) the     *)
(* step r2 of the roll-over process (or e1p of an arriving request) that pops     *)
(* exactly that request with exactly                                              *)
(* that outcome, "end" requires the process to have finished with the logged      *)
(* result, "quiet" that every process is blocked.  All other steps (e2 park, e3   *)
(* wake, e4 leave, r0/r1/r3) are internal and interleaved by TLC.  Request ids    *)
(* determine priority and time-to-live (the driver names them so), which makes    *)
(* Prio and Ttl constants of the whole trace.  "kf" in the configuration line     *)
(* selects the hand-off variant of the model the code is compared with.           *)
EXTENDS TraceLib, DpqI

Cfg == TraceLog[1]
Begins == {i \in 2..TraceLen : TraceLog[i].ev = "begin"}
\* the constants of DpqI, read from the trace (substituted in DpqITrace.cfg)
ReqT == {TraceLog[i].id : i \in Begins}
PrioT == [r \in ReqT |-> TraceLog[CHOOSE i \in Begins : TraceLog[i].id = r].prio]
TtlT == [r \in ReqT |-> TraceLog[CHOOSE i \in Begins : TraceLog[i].id = r].ttl]
QuotaT == Cfg.quota
WT == Cfg.w
QSizeT == Cfg.qsize
KfT == Cfg.kf = 1

VARIABLES l,
          inv      \* calls invoked ("begin" consumed) that have not taken the lock yet (step e1)

Ev == TraceLog[l + 1]
Consume(name) == l < TraceLen /\ Ev.ev = name /\ l' = l + 1

TInit == Init /\ l = 1 /\ inv = {}

TReset ==
    /\ Consume("reset") /\ inv' = {}
    /\ now' = Ev.now /\ counter' = 0 /\ wend' = (Ev.now \div Cfg.w + 1) * Cfg.w /\ rollAt' = (Ev.now \div Cfg.w + 1) * Cfg.w
    /\ heap' = {} /\ waitcnt' = 0 /\ lock' = "free" /\ cur' = 0
    /\ ts' = [i \in Req |-> -1] /\ gated' = [i \in Req |-> FALSE] /\ parked' = [i \in Req |-> FALSE]
    /\ sig' = [i \in Req |-> FALSE] /\ woke' = [i \in Req |-> "no"] /\ gone' = [i \in Req |-> FALSE]
    /\ deadline' = [i \in Req |-> -1] /\ res' = [i \in Req |-> "none"]
    /\ peek' = [i \in Req |-> FALSE] /\ stamp' = [i \in Req |-> -1] /\ relWin' = [i \in Req |-> -1]
    /\ rollStamp' = 0 /\ seq' = 1 /\ rev' = FALSE /\ held' = FALSE /\ fired' = FALSE /\ turn' = {}
    /\ rq' = <<>> /\ rel' = <<>> /\ last' = [ev |-> "reset"] /\ ok' = TRUE /\ strand' = {} /\ hist' = <<>>
    /\ pc' = [self \in Req \cup {"roll", "clock"} |-> IF self = "roll" THEN "r0" ELSE IF self = "clock" THEN "c0" ELSE "e1"]

\* calls started together take the lock in an order of their own
TBegin == Consume("begin") /\ inv' = inv \cup {Ev.id} /\ UNCHANGED vars
IArrive == \E i \in inv : e1(i) /\ inv' = inv \ {i} /\ UNCHANGED l

TEnd ==
    /\ Consume("end")
    /\ pc[Ev.id] = "Done" /\ (res[Ev.id] = "ok") = Ev.ok
    /\ UNCHANGED <<vars, inv>>

TAdv == Consume("adv") /\ inv = {} /\ c0 /\ UNCHANGED inv

TPop ==
    /\ Consume("pop")
    /\ (r2 \/ \E i \in Req : e1p(i)) /\ heap' = heap \ {Ev.id} /\ Ev.id \in heap
    /\ (sig'[Ev.id] # sig[Ev.id]) = Ev.delivered
    /\ UNCHANGED inv

QuietT == /\ inv = {}
          /\ pc["roll"] = "r0" /\ now < rollAt
          /\ \A i \in Req : /\ pc[i] \in {"e1", "e2", "e3", "Done"}
                            /\ ~TimerDue(i)
                            /\ (pc[i] = "e3" => woke[i] = "no")
\* ... except the roll-over goroutine, which the driver holds inside its critical section (between r1 and r2)
QuietHeld == /\ inv = {}
             /\ pc["roll"] = "rh"
             /\ \A i \in Req : \/ pc[i] \in {"e1", "e2", "e4", "Done"}
                               \/ pc[i] = "e3" /\ woke[i] = "no" /\ ~TimerDue(i)
TQuiet == Consume("quiet") /\ (IF Ev.held = 1 THEN QuietHeld ELSE QuietT) /\ UNCHANGED <<vars, inv>>

IEnq == \E i \in Req : ((e1p(i) /\ heap' = heap) \/ e1d(i) \/ e2(i) \/ e3(i) \/ e4(i)) /\ UNCHANGED <<l, inv>>
IRoll == (r0 \/ r1 \/ rh \/ (r2 /\ heap' = heap) \/ r3) /\ UNCHANGED <<l, inv>>

TNext == TReset \/ TBegin \/ IArrive \/ TEnd \/ TAdv \/ TPop \/ TQuiet \/ IEnq \/ IRoll

TraceSpec == TInit /\ [][TNext]_<<vars, l, inv>>

\* record the high-water mark; once the whole trace has been explained (depth-first search) nothing more is explored
HWM == Mark(l) /\ TLCGetOrDefault(1, 0) < TraceLen
Post == Report
================================================================================
