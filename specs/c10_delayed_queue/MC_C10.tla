------------------------------- MODULE MC_C10 -------------------------------
(* bounded instances of DpqI for exhaustive checking (I => P) and for the      *)
(* extraction of counterexample schedules (a violated Cx* invariant prints the *)
(* driver-level step history of the violating behaviour as one JSON line).     *)
EXTENDS DpqI, Json

F3(a, b, c) == ("q1" :> a) @@ ("q2" :> b) @@ ("q3" :> c)
F4(a, b, c, d) == F3(a, b, c) @@ ("q4" :> d)
Req3 == {"q1", "q2", "q3"}
PrioA == F3(1, 0, 1)     \* q2 is more urgent
TtlA == F3(3, 3, 5)
TtlD == F3(3, 2, 3)     \* q2: urgent, its TTL ends exactly on the first window end when it arrives at 0
PrioB == F3(0, 0, 0)
TtlB == F3(2, 4, 3)
Req4 == {"q1", "q2", "q3", "q4"}
PrioC == F4(1, 0, 1, 0)
TtlC == F4(3, 5, 4, 2)

POk == ok
NoStrand == strand = {}
PerWindow == P!PerWindow
SizeBound == P!SizeBound /\ waitcnt <= QSize
CxPOk == ok \/ ~PrintT(<<"CX", ToJson(hist)>>)
CxNoStrand == NoStrand \/ ~PrintT(<<"CX", ToJson(hist)>>)

\* witnesses (thorough tier): each is *expected to be violated* - the situation it denies is reached by the model
WitRelease == last.ev # "release"
WitTtl == last.ev # "ttl"
WitFull == last.ev # "full"
WitBuffered == ~(\E i \in Req : sig[i] /\ pc[i] = "e2")               \* handed over while the waiter is before its select
WitTtlVsSignal == ~(\E i \in Req : woke[i] = "ttl" /\ sig[i])        \* the TTL fired and the hand-over came before the re-check
WitSkipGone == ~(\E i \in Req : gone[i] /\ i \in heap)               \* an abandoned request still in the heap

\* creation stamps of timers only matter for the driver's delivery order: hidden unless Driver
View == <<now, counter, wend, heap, waitcnt, lock, ts, gated, parked, sig, woke, peek, gone, deadline, res, relWin, rollAt, cur, rq, rel, turn, ok, strand, pc>>
ViewL == <<View, last>>
ViewD == <<View, stamp, rollStamp, seq, rev, fired, held>>
=============================================================================
