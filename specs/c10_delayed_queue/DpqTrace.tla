------------------------------- MODULE DpqTrace -------------------------------
(* C10 - trace validation of recorded executions of the real in-memory delayed   *)
(* priority queue (Enqueue, or StrategyBasedQueuePlugin.OnRequest) against the   *)
(* property specification DpqP.                                                  *)
(*                                                                             *)
(* trace.ndjson: line 1 = {"ev":"config","quota":q,"w":ticks,"qsize":n,...}, then *)
(*   {"ev":"reset","now":t}                    fresh queue, clock at t           *)
(*   {"ev":"begin","id":s,"prio":p,"ttl":tl,"ok":b,"sub":n}   Enqueue invoked (b = what it *)
(*                                             returned in the end)              *)
(*   {"ev":"end","id":s,"ok":b}                Enqueue returned                  *)
(*   {"ev":"adv","d":1}                        the clock moved                   *)
(*   {"ev":"quiet"}                            the driver saw every goroutine blocked *)
(*   {"ev":"pop",...}                          (hook-level, not an event of P)   *)
(* Every call has two linearization points which TLC places between "begin" and  *)
(* "end": its arrival (Admit | RejectFull | Enqueue) and, for a waiter, its       *)
(* decision (Release | RejectTTL).  A blocked system has no call that has not     *)
(* arrived; the clock moves only then.                                            *)
EXTENDS TraceLib, Integers, FiniteSets

Cfg == TraceLog[1]

VARIABLES now, rq, rel, turn, last, l, newr, want, ret

P == INSTANCE DpqP WITH Quota <- Cfg.quota, W <- Cfg.w, QSize <- Cfg.qsize,
        PReq <- {}, PPrio <- <<>>, PTtl <- <<>>, PMaxNow <- 0

tvars == <<now, rq, rel, turn, last, l, newr, want, ret>>

Ev == TraceLog[l + 1]
Consume(name) == l < TraceLen /\ Ev.ev = name /\ l' = l + 1
\* every goroutine is blocked: every call has arrived (a call that was decided need not have returned: its
\* goroutine may be held at the yield point while the hand-over waits in the channel buffer
\* - but a call that was refused has returned: nothing holds a goroutine between the refusal and its return)
Blocked == newr = {} /\ \A i \in DOMAIN rq : rq[i].st = "rejected" => i \in ret

TInit == P!Init /\ l = 1 /\ newr = {} /\ want = <<>> /\ ret = {}

TReset ==
    /\ Consume("reset") /\ Blocked /\ P!Waiting = {}
    /\ now' = Ev.now /\ rq' = <<>> /\ rel' = <<>> /\ turn' = {} /\ last' = [ev |-> "reset"]
    /\ newr' = {} /\ want' = <<>> /\ ret' = {}

TAdv == Consume("adv") /\ Blocked /\ P!Advance(Ev.d) /\ UNCHANGED <<newr, want, ret>>

TQuiet == Consume("quiet") /\ Blocked /\ UNCHANGED <<now, rq, rel, turn, last, newr, want, ret>>

\* a storm of first requests on a fresh remedy / strategy (its own queue): {"ev":"batch","n":k,"rel":r,"quota":q}
TBatch == Consume("batch") /\ P!FreshBatch(Ev.quota, Ev.n, Ev.rel) /\ UNCHANGED <<now, rq, rel, turn, last, newr, want, ret>>

TPop == Consume("pop") /\ UNCHANGED <<now, rq, rel, turn, last, newr, want, ret>>

TBegin ==
    /\ Consume("begin")
    /\ newr' = newr \cup {Ev}
    /\ want' = (Ev.id :> Ev.ok) @@ want
    /\ UNCHANGED <<now, rq, rel, turn, last, ret>>

IArrive == \E p \in newr :
    /\ \/ p.ok /\ P!Admit(p.id, p.prio, p.ttl, Get(p, "sub", 0))
       \/ ~p.ok /\ P!RejectFull(p.id, p.prio, p.ttl, Get(p, "sub", 0))
       \/ P!Enqueue(p.id, p.prio, p.ttl, Get(p, "sub", 0))
    /\ newr' = newr \ {p}
    /\ UNCHANGED <<l, want, ret>>

IDecide == \E i \in P!Waiting :
    /\ \/ want[i] /\ P!Release(i)
       \/ ~want[i] /\ P!RejectTTL(i)
    /\ UNCHANGED <<l, newr, want, ret>>

TEnd ==
    /\ Consume("end")
    /\ Ev.id \in DOMAIN rq /\ rq[Ev.id].st = (IF Ev.ok THEN "released" ELSE "rejected")
    /\ IF rq[Ev.id].inq THEN P!Leave(Ev.id) ELSE UNCHANGED <<now, rq, rel, turn, last>>
    /\ ret' = ret \cup {Ev.id}
    /\ UNCHANGED <<newr, want>>

TNext == TReset \/ TAdv \/ TQuiet \/ TBatch \/ TPop \/ TBegin \/ IArrive \/ IDecide \/ TEnd

TraceSpec == TInit /\ [][TNext]_tvars

PerWindow == P!PerWindow
SizeBound == P!SizeBound
\* record the high-water mark; once the whole trace has been explained (depth-first search) nothing more is explored
HWM == Mark(l) /\ TLCGetOrDefault(1, 0) < TraceLen
Post == Report
================================================================================
