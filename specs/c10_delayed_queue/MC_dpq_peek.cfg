CONSTANTS
  Req <- Req3
  Prio <- PrioA
  Ttl <- TtlD
  Quota = 1
  W = 2
  QSize = 2
  MaxNow = 6
  KF_C10_LostHandoff = FALSE
  KF_Overtake = FALSE
  TtlPeek = TRUE
  Driver = TRUE
  KeepHist = TRUE
SPECIFICATION Spec
VIEW ViewD
INVARIANTS CxPOk
CHECK_DEADLOCK FALSE
