-------------------------------- MODULE DpqI --------------------------------
(* C10 - implementation-shaped specification (PlusCal) of                      *)
(*   utils/queue/in_memory_delayed_priority_queue.go (+ priority_queue.go).    *)
(*                                                                             *)
(* Enq[i] = Enqueue(req):                                                      *)
(*   e1  NewRequest (timestamp) . Lock . ensureWindowIsUpdated                 *)
(*   e1p while heap # {} and counter < Quota: Pop; hand over (the arrival      *)
(*       serves the waiters before itself: processQueueItems)                  *)
(*   e1d (fast path | queue full | heap.Push) . Unlock                         *)
(*   e2  [yield point dpq.before_park]  the select is entered: the TTL timer   *)
(*       is armed, the goroutine parks as receiver on done[i]                  *)
(*   e3  woken by done[i] or by the TTL timer                                  *)
(*   e4  Lock . requestCounts-- . Unlock . return                              *)
(* Roll = process():                                                           *)
(*   r0  <-clock.After(time till window end)                                   *)
(*   r1  Lock . ensureWindowIsUpdated                                          *)
(*   r2  while heap # {} and counter < Quota: Pop; hand over to the waiter     *)
(*   r3  Unlock, re-arm                                                        *)
(* Clock = the lock-step clock: one tick at a time.  Goroutines woken by a     *)
(* timer react before the next tick (bounded lag); a goroutine between Unlock  *)
(* and the select (e2) may be overtaken by a tick - that is the schedule the   *)
(* repository's tests never produce.                                           *)
(*                                                                             *)
(* KF_C10_LostHandoff = TRUE is the pinned code: done[i] is unbuffered and     *)
(* Roll's send is non-blocking, so it succeeds only on a parked receiver; a    *)
(* popped request that has not parked yet is dropped from the heap and never   *)
(* signalled.  FALSE is the repaired hand-off: done[i] has a buffer of one,    *)
(* Roll skips only requests whose waiter gave up (flag set under the lock),    *)
(* and a waiter whose TTL fires re-checks done[i] under the lock.              *)
(*                                                                             *)
(* KF_Overtake = TRUE is the pinned code without step e1p: an arrival that      *)
(* takes the mutex at a window boundary before the roll-over goroutine takes    *)
(* the fresh quota although earlier requests wait; FALSE is the repaired code.  *)
(*                                                                             *)
(* TtlPeek = TRUE (non-vacuity) is a variant of the repaired hand-off in which   *)
(* the waiter looks at done[i] when its TTL fires, *before* it re-takes the     *)
(* mutex, instead of under it: a hand-over in between is counted but lost.      *)
(*                                                                             *)
(* Driver = TRUE restricts the interleavings to those a driver can force on    *)
(* the real code with the lock-step clock and the yield point: arrivals, gate  *)
(* releases and ticks happen only when every goroutine is blocked (an arrival    *)
(* may also come right after a tick, before any timer of the new instant is      *)
(* delivered - "early"); the timers   *)
(* due at one instant are delivered one at a time, oldest first or youngest     *)
(* first (chosen per tick), each after everything is blocked again; and the     *)
(* roll-over goroutine can be held inside its critical section (right after     *)
(* Lock . ensureWindowIsUpdated) while the remaining timers are delivered.      *)
(*                                                                             *)
(* The variables of DpqP (now, rq, rel, last) are carried along, updated at    *)
(* the linearization points; `ok` = every outcome so far was permitted by P.   *)
EXTENDS Integers, FiniteSets, Sequences, TLC

CONSTANTS Req, Prio, Ttl, Quota, W, QSize, MaxNow, KF_C10_LostHandoff, KF_Overtake, TtlPeek, Driver, KeepHist

(*--algorithm DpqI {
variables
    now = 0,
    counter = 0, wend = W,                 \* currentWindowCounter / currentWindowEndTime after the constructor
    heap = {},                             \* requests in the heap
    waitcnt = 0,                           \* sum of requestCounts
    lock = "free",                         \* "free" | "roll" | the request whose Enqueue holds the mutex
    ts = [i \in Req |-> -1],               \* Request.timestamp
    gated = [i \in Req |-> FALSE],         \* (Driver) the driver holds this request at the yield point
    parked = [i \in Req |-> FALSE],        \* blocked in the select: receiver on done[i]
    sig = [i \in Req |-> FALSE],           \* a value was handed over (or buffered) on done[i]
    woke = [i \in Req |-> "no"],           \* which case of the select fired
    peek = [i \in Req |-> FALSE],          \* (TtlPeek) what the waiter saw on done[i] before taking the mutex
    gone = [i \in Req |-> FALSE],          \* (repaired) the waiter gave up
    deadline = [i \in Req |-> -1],         \* instant of the TTL timer
    stamp = [i \in Req |-> -1],            \* creation order of the TTL timer
    res = [i \in Req |-> "none"],          \* "ok" | "full" | "ttl"
    relWin = [i \in Req |-> -1],           \* window in which the request was counted
    rollAt = W,                            \* instant of Roll's timer
    rollStamp = 0,                         \* creation order of Roll's timer
    seq = 1,                               \* next creation stamp
    rev = FALSE,                           \* (Driver) timers due at one instant are delivered youngest first
    fired = FALSE,                         \* (Driver) a timer of the current instant has been delivered
    held = FALSE,                          \* (Driver) Roll is held inside its critical section
    cur = 0,
    rq = <<>>, rel = <<>>, turn = {}, last = [ev |-> "init"],       \* DpqP
    ok = TRUE,
    strand = {},                           \* popped before its time-to-live ended, yet not released
    hist = <<>>;

define {
    P == INSTANCE DpqP WITH PReq <- {}, PPrio <- <<>>, PTtl <- <<>>, PMaxNow <- 0
    Less(i, j) == Prio[i] < Prio[j] \/ (Prio[i] = Prio[j] /\ ts[i] < ts[j])
    Mins == {i \in heap : \A j \in heap : ~Less(j, i)}
    NewEnd == (now \div W + 1) * W
    TimerDue(i) == parked[i] /\ now >= deadline[i]
    RollDue == pc["roll"] = "r0" /\ now >= rollAt
    \* undelivered timers that are due, by creation stamp; the one the driver delivers next
    DueStamps == {stamp[i] : i \in {j \in Req : TimerDue(j)}} \cup (IF RollDue THEN {rollStamp} ELSE {})
    NextStamp == IF rev THEN CHOOSE x \in DueStamps : \A y \in DueStamps : y <= x
                 ELSE CHOOSE x \in DueStamps : \A y \in DueStamps : x <= y
    \* every goroutine is blocked (on an undelivered timer, on the mutex, at a yield point, in its select)
    Settled == /\ pc["roll"] = "r0" \/ (pc["roll"] = "rh" /\ held)
               /\ \A i \in Req : \/ pc[i] \in {"e1", "Done"}
                                 \/ pc[i] = "e2" /\ gated[i]
                                 \/ pc[i] = "e3" /\ woke[i] = "no"
                                 \/ pc[i] = "e4" /\ lock # "free"
    \* ... and nothing is left to deliver: the driver acts
    Quiet == Settled /\ DueStamps = {} /\ pc["roll"] = "r0"
    \* ... or nothing of the new instant has been delivered yet: an arrival can still come first
    Early == Settled /\ DueStamps # {} /\ ~fired /\ pc["roll"] = "r0"
    \* bounded lag: what a timer woke has reacted before the next tick
    Prompt == /\ pc["roll"] = "r0" /\ now < rollAt
              /\ \A i \in Req : ~TimerDue(i) /\ pc[i] # "e4" /\ (pc[i] = "e3" => woke[i] = "no")
    Log(e) == IF KeepHist THEN Append(hist, e) ELSE hist
    CountRel == (P!Win(now) :> P!Rel(P!Win(now)) + 1) @@ rel
    NewRq(i, st) == (i :> [st |-> st, arr |-> now, sub |-> 0, prio |-> Prio[i], ttl |-> Ttl[i], inq |-> st = "waiting"]) @@ rq
}

\* processQueueItems, one iteration: pop the best request and hand the slot over
macro PopOne() {
    with (i \in Mins) {
        heap := heap \ {i};
        if (IF KF_C10_LostHandoff THEN parked[i] ELSE ~gone[i]) {
            \* the send succeeds: a parked receiver is taken out of its select
            sig[i] := TRUE; counter := counter + 1; relWin[i] := P!Win(now);
            if (parked[i]) { parked[i] := FALSE; woke[i] := "sig" };
            ok := ok /\ P!CanRelease(i); rq := [rq EXCEPT ![i].st = "released"]; rel := CountRel;
            last := [ev |-> "release", i |-> i];
            turn := turn \cup P!TurnIn(rq, rel, now);
        } else {
            \* nobody receives: skipped.  Harmless when the waiter's TTL has fired, a lost hand-over otherwise
            strand := IF woke[i] = "ttl" \/ gone[i] \/ now >= ts[i] + Ttl[i] THEN strand ELSE strand \cup {i};
        }
    }
}

process (Enq \in Req) {
  e1: \* NewRequest . Lock . ensureWindowIsUpdated
      await lock = "free" /\ (Driver => Quiet \/ Early);
      lock := self;
      ts[self] := now;
      hist := Log([ev |-> "arrive", i |-> self, early |-> (DueStamps # {})]);
      with (c = IF NewEnd > wend THEN 0 ELSE counter) {
          counter := c; wend := IF NewEnd > wend THEN NewEnd ELSE wend;
      };
  e1p: \* (repaired) the waiters are served first
      while (~KF_Overtake /\ heap # {} /\ counter < Quota) { PopOne() };
  e1d: \* (fast path | full | push) . Unlock
      lock := "free";
      with (g \in IF Driver THEN BOOLEAN ELSE {FALSE}) {
          if (counter < Quota) {
              counter := counter + 1; res[self] := "ok";
              ok := ok /\ P!CanAdmit; rq := NewRq(self, "released"); rel := CountRel;
              last := [ev |-> "admit", i |-> self];
              hist := Log([ev |-> "enq", i |-> self, gate |-> FALSE]);
              turn := turn \cup P!TurnIn(rq, rel, now);
              goto Done;
          } else if (waitcnt >= QSize) {
              res[self] := "full";
              ok := ok /\ P!CanRejectFull; rq := NewRq(self, "rejected");
              last := [ev |-> "full", i |-> self];
              hist := Log([ev |-> "enq", i |-> self, gate |-> FALSE]);
              goto Done;
          } else {
              heap := heap \cup {self}; waitcnt := waitcnt + 1;
              ok := ok /\ P!CanEnqueue; rq := NewRq(self, "waiting");
              last := [ev |-> "enqueue", i |-> self];
              gated[self] := g;
              hist := Log([ev |-> "enq", i |-> self, gate |-> g]);
              turn := turn \cup P!TurnIn(rq, rel, now);
          }
      };
  e2: \* [dpq.before_park] select entered: timer armed; a buffered value is taken at once, otherwise park
      await gated[self] => Quiet;
      deadline[self] := now + Ttl[self];
      stamp[self] := seq; seq := seq + 1;
      if (sig[self]) { woke[self] := "sig" } else { parked[self] := TRUE };
      hist := IF gated[self] THEN Log([ev |-> "park", i |-> self]) ELSE hist;
      gated[self] := FALSE;
  e3: \* woken: by a hand-over (woke was set by the sender) or by the TTL timer (delivered in the driver's order)
      await woke[self] # "no" \/ (TimerDue(self) /\ (Driver => Settled /\ stamp[self] = NextStamp));
      if (woke[self] = "no") { woke[self] := "ttl"; parked[self] := FALSE; peek[self] := sig[self]; fired := TRUE };
  e4: \* Lock . requestCounts-- . Unlock . return
      await lock = "free";
      waitcnt := waitcnt - 1;
      if (woke[self] = "sig") {
          res[self] := "ok"; rq := [rq EXCEPT ![self].inq = FALSE];
      } else if (~KF_C10_LostHandoff /\ (IF TtlPeek THEN peek[self] ELSE sig[self])) {
          res[self] := "ok";                    \* repaired: released while the TTL fired - the slot is taken
          rq := [rq EXCEPT ![self].inq = FALSE];
      } else if (sig[self]) {
          \* (TtlPeek) handed over after the look: the slot was counted, the caller is refused all the same.
          \* What can be observed is a refusal and a window in which one request less was let through
          res[self] := "ttl"; gone[self] := TRUE;
          ok := ok /\ P!Expired(self);
          rq := [rq EXCEPT ![self].st = "rejected", ![self].inq = FALSE];
          rel := (relWin[self] :> rel[relWin[self]] - 1) @@ rel;
          last := [ev |-> "ttl", i |-> self];
          turn := turn \cup P!TurnIn(rq, rel, now);
      } else {
          res[self] := "ttl"; gone[self] := TRUE;
          ok := ok /\ P!CanRejectTTL(self); rq := [rq EXCEPT ![self].st = "rejected", ![self].inq = FALSE];
          last := [ev |-> "ttl", i |-> self];
          turn := turn \cup P!TurnIn(rq, rel, now);
      };
}

process (Roll = "roll") {
  r0: while (TRUE) {
      await now >= rollAt /\ (Driver => Settled /\ rollStamp = NextStamp);
      fired := TRUE;
  r1: \* Lock . ensureWindowIsUpdated [the driver can hold the goroutine here, inside the critical section]
      await lock = "free";
      lock := "roll";
      with (c = IF NewEnd > wend THEN 0 ELSE counter; h \in IF Driver THEN BOOLEAN ELSE {FALSE}) {
          counter := c; wend := IF NewEnd > wend THEN NewEnd ELSE wend;
          held := h;
          hist := IF h THEN Log([ev |-> "hold"]) ELSE hist;
      };
  rh: await ~held \/ (Settled /\ DueStamps = {});
      hist := IF held THEN Log([ev |-> "unhold"]) ELSE hist;
      held := FALSE;
  r2: while (heap # {} /\ counter < Quota) { PopOne() };
  r3: lock := "free";
      rollAt := wend;
      rollStamp := seq; seq := seq + 1;
  }
}

process (Clock = "clock") {
  c0: while (now < MaxNow) {
          await Prompt /\ lock = "free" /\ (Driver => Quiet);
          with (r \in IF Driver THEN BOOLEAN ELSE {FALSE}) {
              rev := r;
              hist := Log([ev |-> "tick", rev |-> r]);
          };
          now := now + 1;
          fired := FALSE;
          turn := turn \cup P!TurnIn(rq, rel, now);
      }
}
} *)
\* BEGIN TRANSLATION (chksum(pcal) = "d13a5f53" /\ chksum(tla) = "4c40cdac")
VARIABLES pc, now, counter, wend, heap, waitcnt, lock, ts, gated, parked, sig, 
          woke, peek, gone, deadline, stamp, res, relWin, rollAt, rollStamp, 
          seq, rev, fired, held, cur, rq, rel, turn, last, ok, strand, hist

(* define statement *)
P == INSTANCE DpqP WITH PReq <- {}, PPrio <- <<>>, PTtl <- <<>>, PMaxNow <- 0
Less(i, j) == Prio[i] < Prio[j] \/ (Prio[i] = Prio[j] /\ ts[i] < ts[j])
Mins == {i \in heap : \A j \in heap : ~Less(j, i)}
NewEnd == (now \div W + 1) * W
TimerDue(i) == parked[i] /\ now >= deadline[i]
RollDue == pc["roll"] = "r0" /\ now >= rollAt

DueStamps == {stamp[i] : i \in {j \in Req : TimerDue(j)}} \cup (IF RollDue THEN {rollStamp} ELSE {})
NextStamp == IF rev THEN CHOOSE x \in DueStamps : \A y \in DueStamps : y <= x
             ELSE CHOOSE x \in DueStamps : \A y \in DueStamps : x <= y

Settled == /\ pc["roll"] = "r0" \/ (pc["roll"] = "rh" /\ held)
           /\ \A i \in Req : \/ pc[i] \in {"e1", "Done"}
                             \/ pc[i] = "e2" /\ gated[i]
                             \/ pc[i] = "e3" /\ woke[i] = "no"
                             \/ pc[i] = "e4" /\ lock # "free"

Quiet == Settled /\ DueStamps = {} /\ pc["roll"] = "r0"

Early == Settled /\ DueStamps # {} /\ ~fired /\ pc["roll"] = "r0"

Prompt == /\ pc["roll"] = "r0" /\ now < rollAt
          /\ \A i \in Req : ~TimerDue(i) /\ pc[i] # "e4" /\ (pc[i] = "e3" => woke[i] = "no")
Log(e) == IF KeepHist THEN Append(hist, e) ELSE hist
CountRel == (P!Win(now) :> P!Rel(P!Win(now)) + 1) @@ rel
NewRq(i, st) == (i :> [st |-> st, arr |-> now, sub |-> 0, prio |-> Prio[i], ttl |-> Ttl[i], inq |-> st = "waiting"]) @@ rq


vars == << pc, now, counter, wend, heap, waitcnt, lock, ts, gated, parked, 
           sig, woke, peek, gone, deadline, stamp, res, relWin, rollAt, 
           rollStamp, seq, rev, fired, held, cur, rq, rel, turn, last, ok, 
           strand, hist >>

ProcSet == (Req) \cup {"roll"} \cup {"clock"}

Init == (* Global variables *)
        /\ now = 0
        /\ counter = 0
        /\ wend = W
        /\ heap = {}
        /\ waitcnt = 0
        /\ lock = "free"
        /\ ts = [i \in Req |-> -1]
        /\ gated = [i \in Req |-> FALSE]
        /\ parked = [i \in Req |-> FALSE]
        /\ sig = [i \in Req |-> FALSE]
        /\ woke = [i \in Req |-> "no"]
        /\ peek = [i \in Req |-> FALSE]
        /\ gone = [i \in Req |-> FALSE]
        /\ deadline = [i \in Req |-> -1]
        /\ stamp = [i \in Req |-> -1]
        /\ res = [i \in Req |-> "none"]
        /\ relWin = [i \in Req |-> -1]
        /\ rollAt = W
        /\ rollStamp = 0
        /\ seq = 1
        /\ rev = FALSE
        /\ fired = FALSE
        /\ held = FALSE
        /\ cur = 0
        /\ rq = <<>>
        /\ rel = <<>>
        /\ turn = {}
        /\ last = [ev |-> "init"]
        /\ ok = TRUE
        /\ strand = {}
        /\ hist = <<>>
        /\ pc = [self \in ProcSet |-> CASE self \in Req -> "e1"
                                        [] self = "roll" -> "r0"
                                        [] self = "clock" -> "c0"]

e1(self) == /\ pc[self] = "e1"
            /\ lock = "free" /\ (Driver => Quiet \/ Early)
            /\ lock' = self
            /\ ts' = [ts EXCEPT ![self] = now]
            /\ hist' = Log([ev |-> "arrive", i |-> self, early |-> (DueStamps # {})])
            /\ LET c == IF NewEnd > wend THEN 0 ELSE counter IN
                 /\ counter' = c
                 /\ wend' = (IF NewEnd > wend THEN NewEnd ELSE wend)
            /\ pc' = [pc EXCEPT ![self] = "e1p"]
            /\ UNCHANGED << now, heap, waitcnt, gated, parked, sig, woke, peek, 
                            gone, deadline, stamp, res, relWin, rollAt, 
                            rollStamp, seq, rev, fired, held, cur, rq, rel, 
                            turn, last, ok, strand >>

e1p(self) == /\ pc[self] = "e1p"
             /\ IF ~KF_Overtake /\ heap # {} /\ counter < Quota
                   THEN /\ \E i \in Mins:
                             /\ heap' = heap \ {i}
                             /\ IF IF KF_C10_LostHandoff THEN parked[i] ELSE ~gone[i]
                                   THEN /\ sig' = [sig EXCEPT ![i] = TRUE]
                                        /\ counter' = counter + 1
                                        /\ relWin' = [relWin EXCEPT ![i] = P!Win(now)]
                                        /\ IF parked[i]
                                              THEN /\ parked' = [parked EXCEPT ![i] = FALSE]
                                                   /\ woke' = [woke EXCEPT ![i] = "sig"]
                                              ELSE /\ TRUE
                                                   /\ UNCHANGED << parked, 
                                                                   woke >>
                                        /\ ok' = (ok /\ P!CanRelease(i))
                                        /\ rq' = [rq EXCEPT ![i].st = "released"]
                                        /\ rel' = CountRel
                                        /\ last' = [ev |-> "release", i |-> i]
                                        /\ turn' = (turn \cup P!TurnIn(rq', rel', now))
                                        /\ UNCHANGED strand
                                   ELSE /\ strand' = (IF woke[i] = "ttl" \/ gone[i] \/ now >= ts[i] + Ttl[i] THEN strand ELSE strand \cup {i})
                                        /\ UNCHANGED << counter, parked, sig, 
                                                        woke, relWin, rq, rel, 
                                                        turn, last, ok >>
                        /\ pc' = [pc EXCEPT ![self] = "e1p"]
                   ELSE /\ pc' = [pc EXCEPT ![self] = "e1d"]
                        /\ UNCHANGED << counter, heap, parked, sig, woke, 
                                        relWin, rq, rel, turn, last, ok, 
                                        strand >>
             /\ UNCHANGED << now, wend, waitcnt, lock, ts, gated, peek, gone, 
                             deadline, stamp, res, rollAt, rollStamp, seq, rev, 
                             fired, held, cur, hist >>

e1d(self) == /\ pc[self] = "e1d"
             /\ lock' = "free"
             /\ \E g \in IF Driver THEN BOOLEAN ELSE {FALSE}:
                  IF counter < Quota
                     THEN /\ counter' = counter + 1
                          /\ res' = [res EXCEPT ![self] = "ok"]
                          /\ ok' = (ok /\ P!CanAdmit)
                          /\ rq' = NewRq(self, "released")
                          /\ rel' = CountRel
                          /\ last' = [ev |-> "admit", i |-> self]
                          /\ hist' = Log([ev |-> "enq", i |-> self, gate |-> FALSE])
                          /\ turn' = (turn \cup P!TurnIn(rq', rel', now))
                          /\ pc' = [pc EXCEPT ![self] = "Done"]
                          /\ UNCHANGED << heap, waitcnt, gated >>
                     ELSE /\ IF waitcnt >= QSize
                                THEN /\ res' = [res EXCEPT ![self] = "full"]
                                     /\ ok' = (ok /\ P!CanRejectFull)
                                     /\ rq' = NewRq(self, "rejected")
                                     /\ last' = [ev |-> "full", i |-> self]
                                     /\ hist' = Log([ev |-> "enq", i |-> self, gate |-> FALSE])
                                     /\ pc' = [pc EXCEPT ![self] = "Done"]
                                     /\ UNCHANGED << heap, waitcnt, gated, 
                                                     turn >>
                                ELSE /\ heap' = (heap \cup {self})
                                     /\ waitcnt' = waitcnt + 1
                                     /\ ok' = (ok /\ P!CanEnqueue)
                                     /\ rq' = NewRq(self, "waiting")
                                     /\ last' = [ev |-> "enqueue", i |-> self]
                                     /\ gated' = [gated EXCEPT ![self] = g]
                                     /\ hist' = Log([ev |-> "enq", i |-> self, gate |-> g])
                                     /\ turn' = (turn \cup P!TurnIn(rq', rel, now))
                                     /\ pc' = [pc EXCEPT ![self] = "e2"]
                                     /\ res' = res
                          /\ UNCHANGED << counter, rel >>
             /\ UNCHANGED << now, wend, ts, parked, sig, woke, peek, gone, 
                             deadline, stamp, relWin, rollAt, rollStamp, seq, 
                             rev, fired, held, cur, strand >>

e2(self) == /\ pc[self] = "e2"
            /\ gated[self] => Quiet
            /\ deadline' = [deadline EXCEPT ![self] = now + Ttl[self]]
            /\ stamp' = [stamp EXCEPT ![self] = seq]
            /\ seq' = seq + 1
            /\ IF sig[self]
                  THEN /\ woke' = [woke EXCEPT ![self] = "sig"]
                       /\ UNCHANGED parked
                  ELSE /\ parked' = [parked EXCEPT ![self] = TRUE]
                       /\ woke' = woke
            /\ hist' = IF gated[self] THEN Log([ev |-> "park", i |-> self]) ELSE hist
            /\ gated' = [gated EXCEPT ![self] = FALSE]
            /\ pc' = [pc EXCEPT ![self] = "e3"]
            /\ UNCHANGED << now, counter, wend, heap, waitcnt, lock, ts, sig, 
                            peek, gone, res, relWin, rollAt, rollStamp, rev, 
                            fired, held, cur, rq, rel, turn, last, ok, strand >>

e3(self) == /\ pc[self] = "e3"
            /\ woke[self] # "no" \/ (TimerDue(self) /\ (Driver => Settled /\ stamp[self] = NextStamp))
            /\ IF woke[self] = "no"
                  THEN /\ woke' = [woke EXCEPT ![self] = "ttl"]
                       /\ parked' = [parked EXCEPT ![self] = FALSE]
                       /\ peek' = [peek EXCEPT ![self] = sig[self]]
                       /\ fired' = TRUE
                  ELSE /\ TRUE
                       /\ UNCHANGED << parked, woke, peek, fired >>
            /\ pc' = [pc EXCEPT ![self] = "e4"]
            /\ UNCHANGED << now, counter, wend, heap, waitcnt, lock, ts, gated, 
                            sig, gone, deadline, stamp, res, relWin, rollAt, 
                            rollStamp, seq, rev, held, cur, rq, rel, turn, 
                            last, ok, strand, hist >>

e4(self) == /\ pc[self] = "e4"
            /\ lock = "free"
            /\ waitcnt' = waitcnt - 1
            /\ IF woke[self] = "sig"
                  THEN /\ res' = [res EXCEPT ![self] = "ok"]
                       /\ rq' = [rq EXCEPT ![self].inq = FALSE]
                       /\ UNCHANGED << gone, rel, turn, last, ok >>
                  ELSE /\ IF ~KF_C10_LostHandoff /\ (IF TtlPeek THEN peek[self] ELSE sig[self])
                             THEN /\ res' = [res EXCEPT ![self] = "ok"]
                                  /\ rq' = [rq EXCEPT ![self].inq = FALSE]
                                  /\ UNCHANGED << gone, rel, turn, last, ok >>
                             ELSE /\ IF sig[self]
                                        THEN /\ res' = [res EXCEPT ![self] = "ttl"]
                                             /\ gone' = [gone EXCEPT ![self] = TRUE]
                                             /\ ok' = (ok /\ P!Expired(self))
                                             /\ rq' = [rq EXCEPT ![self].st = "rejected", ![self].inq = FALSE]
                                             /\ rel' = (relWin[self] :> rel[relWin[self]] - 1) @@ rel
                                             /\ last' = [ev |-> "ttl", i |-> self]
                                             /\ turn' = (turn \cup P!TurnIn(rq', rel', now))
                                        ELSE /\ res' = [res EXCEPT ![self] = "ttl"]
                                             /\ gone' = [gone EXCEPT ![self] = TRUE]
                                             /\ ok' = (ok /\ P!CanRejectTTL(self))
                                             /\ rq' = [rq EXCEPT ![self].st = "rejected", ![self].inq = FALSE]
                                             /\ last' = [ev |-> "ttl", i |-> self]
                                             /\ turn' = (turn \cup P!TurnIn(rq', rel, now))
                                             /\ rel' = rel
            /\ pc' = [pc EXCEPT ![self] = "Done"]
            /\ UNCHANGED << now, counter, wend, heap, lock, ts, gated, parked, 
                            sig, woke, peek, deadline, stamp, relWin, rollAt, 
                            rollStamp, seq, rev, fired, held, cur, strand, 
                            hist >>

Enq(self) == e1(self) \/ e1p(self) \/ e1d(self) \/ e2(self) \/ e3(self)
                \/ e4(self)

r0 == /\ pc["roll"] = "r0"
      /\ now >= rollAt /\ (Driver => Settled /\ rollStamp = NextStamp)
      /\ fired' = TRUE
      /\ pc' = [pc EXCEPT !["roll"] = "r1"]
      /\ UNCHANGED << now, counter, wend, heap, waitcnt, lock, ts, gated, 
                      parked, sig, woke, peek, gone, deadline, stamp, res, 
                      relWin, rollAt, rollStamp, seq, rev, held, cur, rq, rel, 
                      turn, last, ok, strand, hist >>

r1 == /\ pc["roll"] = "r1"
      /\ lock = "free"
      /\ lock' = "roll"
      /\ LET c == IF NewEnd > wend THEN 0 ELSE counter IN
           \E h \in IF Driver THEN BOOLEAN ELSE {FALSE}:
             /\ counter' = c
             /\ wend' = (IF NewEnd > wend THEN NewEnd ELSE wend)
             /\ held' = h
             /\ hist' = IF h THEN Log([ev |-> "hold"]) ELSE hist
      /\ pc' = [pc EXCEPT !["roll"] = "rh"]
      /\ UNCHANGED << now, heap, waitcnt, ts, gated, parked, sig, woke, peek, 
                      gone, deadline, stamp, res, relWin, rollAt, rollStamp, 
                      seq, rev, fired, cur, rq, rel, turn, last, ok, strand >>

rh == /\ pc["roll"] = "rh"
      /\ ~held \/ (Settled /\ DueStamps = {})
      /\ hist' = IF held THEN Log([ev |-> "unhold"]) ELSE hist
      /\ held' = FALSE
      /\ pc' = [pc EXCEPT !["roll"] = "r2"]
      /\ UNCHANGED << now, counter, wend, heap, waitcnt, lock, ts, gated, 
                      parked, sig, woke, peek, gone, deadline, stamp, res, 
                      relWin, rollAt, rollStamp, seq, rev, fired, cur, rq, rel, 
                      turn, last, ok, strand >>

r2 == /\ pc["roll"] = "r2"
      /\ IF heap # {} /\ counter < Quota
            THEN /\ \E i \in Mins:
                      /\ heap' = heap \ {i}
                      /\ IF IF KF_C10_LostHandoff THEN parked[i] ELSE ~gone[i]
                            THEN /\ sig' = [sig EXCEPT ![i] = TRUE]
                                 /\ counter' = counter + 1
                                 /\ relWin' = [relWin EXCEPT ![i] = P!Win(now)]
                                 /\ IF parked[i]
                                       THEN /\ parked' = [parked EXCEPT ![i] = FALSE]
                                            /\ woke' = [woke EXCEPT ![i] = "sig"]
                                       ELSE /\ TRUE
                                            /\ UNCHANGED << parked, woke >>
                                 /\ ok' = (ok /\ P!CanRelease(i))
                                 /\ rq' = [rq EXCEPT ![i].st = "released"]
                                 /\ rel' = CountRel
                                 /\ last' = [ev |-> "release", i |-> i]
                                 /\ turn' = (turn \cup P!TurnIn(rq', rel', now))
                                 /\ UNCHANGED strand
                            ELSE /\ strand' = (IF woke[i] = "ttl" \/ gone[i] \/ now >= ts[i] + Ttl[i] THEN strand ELSE strand \cup {i})
                                 /\ UNCHANGED << counter, parked, sig, woke, 
                                                 relWin, rq, rel, turn, last, 
                                                 ok >>
                 /\ pc' = [pc EXCEPT !["roll"] = "r2"]
            ELSE /\ pc' = [pc EXCEPT !["roll"] = "r3"]
                 /\ UNCHANGED << counter, heap, parked, sig, woke, relWin, rq, 
                                 rel, turn, last, ok, strand >>
      /\ UNCHANGED << now, wend, waitcnt, lock, ts, gated, peek, gone, 
                      deadline, stamp, res, rollAt, rollStamp, seq, rev, fired, 
                      held, cur, hist >>

r3 == /\ pc["roll"] = "r3"
      /\ lock' = "free"
      /\ rollAt' = wend
      /\ rollStamp' = seq
      /\ seq' = seq + 1
      /\ pc' = [pc EXCEPT !["roll"] = "r0"]
      /\ UNCHANGED << now, counter, wend, heap, waitcnt, ts, gated, parked, 
                      sig, woke, peek, gone, deadline, stamp, res, relWin, rev, 
                      fired, held, cur, rq, rel, turn, last, ok, strand, hist >>

Roll == r0 \/ r1 \/ rh \/ r2 \/ r3

c0 == /\ pc["clock"] = "c0"
      /\ IF now < MaxNow
            THEN /\ Prompt /\ lock = "free" /\ (Driver => Quiet)
                 /\ \E r \in IF Driver THEN BOOLEAN ELSE {FALSE}:
                      /\ rev' = r
                      /\ hist' = Log([ev |-> "tick", rev |-> r])
                 /\ now' = now + 1
                 /\ fired' = FALSE
                 /\ turn' = (turn \cup P!TurnIn(rq, rel, now'))
                 /\ pc' = [pc EXCEPT !["clock"] = "c0"]
            ELSE /\ pc' = [pc EXCEPT !["clock"] = "Done"]
                 /\ UNCHANGED << now, rev, fired, turn, hist >>
      /\ UNCHANGED << counter, wend, heap, waitcnt, lock, ts, gated, parked, 
                      sig, woke, peek, gone, deadline, stamp, res, relWin, 
                      rollAt, rollStamp, seq, held, cur, rq, rel, last, ok, 
                      strand >>

Clock == c0

(* Allow infinite stuttering to prevent deadlock on termination. *)
Terminating == /\ \A self \in ProcSet: pc[self] = "Done"
               /\ UNCHANGED vars

Next == Roll \/ Clock
           \/ (\E self \in Req: Enq(self))
           \/ Terminating

Spec == Init /\ [][Next]_vars

Termination == <>(\A self \in ProcSet: pc[self] = "Done")

\* END TRANSLATION 
 
 
 
=============================================================================
