----------------------------- MODULE DpqCreateI -----------------------------
(* C10 - first use of per-remedy state in StrategyBasedQueuePlugin.OnRequest     *)
(* (implementation-shaped): n callers make the first requests of a remedy at one  *)
(* instant.  Each looks the queue up in the plugin's map, creates it when it is   *)
(* missing, stores it, and then enqueues on *the queue it holds* (queue size 0:   *)
(* let through while that queue's window counter is below the quota, refused      *)
(* otherwise).                                                                    *)
(*   repaired / pinned code: lookup . create . store under one Lock               *)
(*   KF_CreateRace = TRUE (non-vacuity): lookup under RLock, create outside any   *)
(*   lock, store under Lock without looking again - two callers can each build a  *)
(*   queue, one is orphaned, and both queues grant the full quota.                *)
(* Property (DpqP!FreshBatch): of the n requests at most Quota are let through.   *)
EXTENDS Integers, FiniteSets

CONSTANTS Callers, Quota, KF_CreateRace

VARIABLES pc,        \* Callers -> "lookup" | "create" | "store" | "enq" | "done"
          map,       \* the queue registered for the remedy (0 = none); queues are numbered as they are created
          mine,      \* Callers -> the queue the caller holds
          made,      \* number of queues created
          counter,   \* queue -> window counter
          ok         \* Callers -> let through?

vars == <<pc, map, mine, made, counter, ok>>

Init == /\ pc = [c \in Callers |-> "lookup"] /\ map = 0 /\ mine = [c \in Callers |-> 0] /\ made = 0
        /\ counter = [q \in 1..Cardinality(Callers) |-> 0] /\ ok = [c \in Callers |-> FALSE]

\* one critical section: lookup, create when missing, store
LockedGet(c) ==
    /\ ~KF_CreateRace /\ pc[c] = "lookup"
    /\ IF map # 0 THEN mine' = [mine EXCEPT ![c] = map] /\ UNCHANGED <<map, made>>
       ELSE made' = made + 1 /\ map' = made + 1 /\ mine' = [mine EXCEPT ![c] = made + 1]
    /\ pc' = [pc EXCEPT ![c] = "enq"] /\ UNCHANGED <<counter, ok>>

Lookup(c) ==
    /\ KF_CreateRace /\ pc[c] = "lookup"
    /\ IF map # 0 THEN mine' = [mine EXCEPT ![c] = map] /\ pc' = [pc EXCEPT ![c] = "enq"]
       ELSE UNCHANGED mine /\ pc' = [pc EXCEPT ![c] = "create"]
    /\ UNCHANGED <<map, made, counter, ok>>
Create(c) ==
    /\ pc[c] = "create"
    /\ made' = made + 1 /\ mine' = [mine EXCEPT ![c] = made + 1]
    /\ pc' = [pc EXCEPT ![c] = "store"] /\ UNCHANGED <<map, counter, ok>>
Store(c) ==
    /\ pc[c] = "store"
    /\ map' = mine[c]
    /\ pc' = [pc EXCEPT ![c] = "enq"] /\ UNCHANGED <<mine, made, counter, ok>>

\* Enqueue on the queue the caller holds (its own mutex): fast path or refused (queue size 0)
Enq(c) ==
    /\ pc[c] = "enq"
    /\ IF counter[mine[c]] < Quota
       THEN counter' = [counter EXCEPT ![mine[c]] = @ + 1] /\ ok' = [ok EXCEPT ![c] = TRUE]
       ELSE UNCHANGED <<counter, ok>>
    /\ pc' = [pc EXCEPT ![c] = "done"] /\ UNCHANGED <<map, mine, made>>

Next == \E c \in Callers : LockedGet(c) \/ Lookup(c) \/ Create(c) \/ Store(c) \/ Enq(c)
Spec == Init /\ [][Next]_vars

P == INSTANCE DpqP WITH W <- 1, QSize <- 0, now <- 0, rq <- <<>>, rel <- <<>>, turn <- {}, last <- 0,
        PReq <- {}, PPrio <- <<>>, PTtl <- <<>>, PMaxNow <- 0
Released == Cardinality({c \in Callers : ok[c]})
\* I => P: whatever has been let through so far is a permitted batch
BatchOK == P!FreshBatch(Quota, Cardinality(Callers), Released)
OneQueue == made <= 1
=============================================================================
