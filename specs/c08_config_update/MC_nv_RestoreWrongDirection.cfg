CONSTANTS
  FlowSet = {"flows/a.yaml", "flows/b.yaml"}
  Endpoints = {"configuration", "apply_flows"}
  Methods = {"PUT", "POST"}
  MaxNth = 2
  WithBadB64 = TRUE
  MxOld = {"m1"}
  GwOld = {"none"}
  AnchorFlows = {"flows/a.yaml"}
  Paths <- PathsMC
  Cat <- CatMC
  Txns = {1}
  RestoreWrongDirection = TRUE
  PublishBeforeInit = FALSE
  ContinueAfter405 = FALSE
  ApplyNoBackup = FALSE
  NoReloadAfterRestore = FALSE
  MetricsToDefaultPath = FALSE
SPECIFICATION SpecMC
INVARIANTS DiskAtomic BehavAtomic NeverHalf OneConfig
CHECK_DEADLOCK FALSE
