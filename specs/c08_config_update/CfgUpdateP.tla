----------------------------- MODULE CfgUpdateP -----------------------------
(* C08 - a configuration update is all-or-nothing: the PROPERTY, as a monitor   *)
(* over observable events only.                                                 *)
(*                                                                             *)
(* Observables of one update ("case"):                                          *)
(*   the configuration tree before the update (disk0: path -> content tag,      *)
(*   absent paths missing; tree0: SHA-256 of the whole tree), the payload       *)
(*   (path -> content tag, whether it can be decoded at all), the endpoint,     *)
(*   probe transactions (request phase / response phase, each answered by the   *)
(*   engine that is active at that moment; `served` = which version of every    *)
(*   flow acted on the probe), the HTTP status the handler signals, and the     *)
(*   tree after the handler returned.                                           *)
(*                                                                             *)
(* The statement, clause by clause:                                             *)
(*   DiskAtomic   rejected/failed update  => tree byte-for-byte as before       *)
(*   BehavAtomic  rejected/failed update  => afterwards every transaction is    *)
(*                handled as by the old configuration                           *)
(*   NeverHalf    at every moment a transaction phase is handled entirely by    *)
(*                the old or entirely by the new configuration (never by an     *)
(*                empty / partly built one)                                     *)
(*   Complete     accepted update => the tree is exactly the one it asks for      *)
(*   OneConfig    one transaction: request by new, response by old is a         *)
(*                mixture (unless the update failed in between = roll-back)     *)
(*                                                                             *)
(* Deliberately permissive (the statement leaves it open): while the update is  *)
(* running, and after a successful one, both old and new are acceptable; what   *)
(* the status code is; whether a failed update was visible for a moment as      *)
(* the complete new configuration.                                              *)
(* Assumption (weakening, DESIGN §4 C08): a failure injected into a step of the *)
(* roll-back itself - i.e. after the handler already signalled failure - makes  *)
(* the case exempt from that moment on (no single-copy design can restore       *)
(* through a failing disk); everything observed before it is still judged.      *)
EXTENDS Integers, FiniteSets, TLC

At(d, p) == IF p \in DOMAIN d THEN d[p] ELSE "none"

DiskEq(d1, d2) == \A p \in (DOMAIN d1) \cup (DOMAIN d2) : At(d1, p) = At(d2, p)

\* the configuration the update asks for
Target(endpoint, disk, payload) ==
    IF endpoint = "apply_flows"
    THEN payload                                  \* replace everything
    ELSE [p \in (DOMAIN disk) \cup (DOMAIN payload) |->
             IF p \in DOMAIN payload THEN payload[p] ELSE disk[p]]   \* overlay

\* behaviour of an engine built from a configuration, as seen by the probes
Beh(Flows, d) == [f \in Flows |-> At(d, f)]

IsOK(code) == code >= 200 /\ code <= 299

\* the whole tree the update asks for; fixed = files that are no part of the pushed configuration (the gateway's built-in
\* default metrics file): /apply_flows replaces everything else
TargetFull(fixed, endpoint, disk, payload) ==
    IF endpoint = "apply_flows"
    THEN [q \in (DOMAIN payload) \cup ((DOMAIN disk) \cap fixed) |-> IF q \in DOMAIN payload THEN payload[q] ELSE disk[q]]
    ELSE Target(endpoint, disk, payload)

\* monitor state for one case
PStartF(Flows, c, fixed) ==
    [st      |-> "idle",
     want    |-> IF c.decodable /\ c.badb64 = {} THEN TargetFull(fixed, c.endpoint, c.disk, c.payload) ELSE c.disk,
     old     |-> Beh(Flows, c.disk),
     new     |-> IF c.decodable /\ c.badb64 = {}
                 THEN Beh(Flows, Target(c.endpoint, c.disk, c.payload))
                 ELSE Beh(Flows, c.disk),            \* nothing decodable: there is no new configuration
     disk0   |-> c.disk,
     tree0   |-> c.tree,
     code    |-> 0,            \* first status the handler signalled (0 = none yet)
     sig     |-> FALSE,        \* the handler signalled failure
     exempt  |-> FALSE,        \* an injected failure hit the roll-back
     reqBy   |-> << >>]        \* txn -> "old" | "new" | "any"  for open transactions
PStart(Flows, c) == PStartF(Flows, c, {})

WhoServed(p, served) ==
    IF served = p.old /\ served = p.new THEN "any"
    ELSE IF served = p.old THEN "old"
    ELSE IF served = p.new THEN "new" ELSE "neither"

\* which clause a probe observation violates ("" = none)
ProbeVerdict(p, ph, txn, served) ==
    LET w == WhoServed(p, served) IN
    IF p.exempt THEN "" ELSE
    CASE p.st \in {"idle"} /\ w \notin {"old", "any"}                        -> "NeverHalf"
      [] p.st = "failed" /\ w \notin {"old", "any"}                            -> "BehavAtomic"
      [] w = "neither"                                                        -> "NeverHalf"
      [] ph = "resp" /\ txn \in DOMAIN p.reqBy /\ p.reqBy[txn] = "new"
           /\ w = "old" /\ p.st # "failed" /\ ~p.sig                          -> "OneConfig"
      [] OTHER                                                                -> ""

PAfterProbe(p, ph, txn, served) ==
    IF ph = "req"
    THEN [p EXCEPT !.reqBy = [t \in (DOMAIN p.reqBy) \cup {txn} |->
                                 IF t = txn THEN WhoServed(p, served) ELSE p.reqBy[t]]]
    ELSE [p EXCEPT !.reqBy = [t \in (DOMAIN p.reqBy) \ {txn} |-> p.reqBy[t]]]

PAfterCall(p) == [p EXCEPT !.st = "running"]

PAfterStatus(p, code) == [p EXCEPT !.sig = p.sig \/ ~IsOK(code),
                                   !.code = IF p.code = 0 THEN code ELSE p.code]

PAfterFault(p) == [p EXCEPT !.exempt = p.exempt \/ p.sig]

\* Complete: an accepted update is applied completely - the tree is exactly the one the update asks for (for /apply_flows the
\* payload's files and nothing else, whatever the names of the files that were there before)
ReplyVerdict(p, code, disk, tree) ==
    IF ~IsOK(code) /\ ~p.exempt /\ ~(DiskEq(disk, p.disk0) /\ tree = p.tree0)
    THEN "DiskAtomic"
    ELSE IF IsOK(code) /\ ~p.exempt /\ ~DiskEq(disk, p.want) THEN "Complete" ELSE ""

PAfterReply(p, code) == [p EXCEPT !.st = IF IsOK(code) THEN "ok" ELSE "failed"]
=============================================================================
