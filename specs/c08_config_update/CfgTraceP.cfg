SPECIFICATION TraceSpec
INVARIANTS DiskAtomic BehavAtomic NeverHalf OneConfig Complete
CONSTRAINT HWM
POSTCONDITION Post
CHECK_DEADLOCK FALSE
