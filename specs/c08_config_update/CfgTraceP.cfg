SPECIFICATION TraceSpec
INVARIANTS DiskAtomic BehavAtomic NeverHalf OneConfig
CONSTRAINT HWM
POSTCONDITION Post
CHECK_DEADLOCK FALSE
