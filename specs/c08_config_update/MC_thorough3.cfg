CONSTANTS
  FlowSet = {"flows/a.yaml", "flows/b.yaml", "flows/c.yaml"}
  Endpoints = {"configuration"}
  Methods = {"PUT", "POST"}
  MaxNth = 6
  WithBadB64 = TRUE
  AnchorFlows = {}
  Paths <- PathsMC
  Cat <- CatMC
  Txns = {1}
  RestoreWrongDirection = FALSE
  PublishBeforeInit = FALSE
  ContinueAfter405 = FALSE
  ApplyNoBackup = FALSE
SPECIFICATION SpecMC
INVARIANTS DiskAtomic BehavAtomic NeverHalf OneConfig
CHECK_DEADLOCK FALSE
