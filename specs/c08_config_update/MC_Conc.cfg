CONSTANTS
  Upd = {"A", "B"}
  EndpointsC = {"configuration", "apply_flows"}
  WithB = {"none", "v1"}
  OptA = {"absent", "v2", "bad"}
  OptB = {"absent", "v3", "bad"}
  OptM = {"absent", "mbad"}
  Paths <- PathsC
  Cat <- CatC
  UnlockBeforeReload = FALSE
  RecordSched = FALSE
SPECIFICATION SpecMCC
INVARIANTS Serial Behav NeverHalfC
CHECK_DEADLOCK FALSE
