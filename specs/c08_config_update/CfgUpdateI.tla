----------------------------- MODULE CfgUpdateI -----------------------------
(* C08 - implementation-shaped model of routing.HandlingDataManager's          *)
(* handleConfiguration / handleApplyFlows (one action per step of the handler,  *)
(* per file-system operation, per call to the HAProxy admin API), of            *)
(* config.FileSystemOperation Backup/Restore, of initializeStreams' switch of   *)
(* the active engine, with ONE injected failure (the n-th occurrence of a       *)
(* fault point fails once) and probe transactions reading the active engine at  *)
(* any moment.  It carries the monitor of the property (CfgUpdateP) and         *)
(* records every clause an observation violates in `viol`.                      *)
(*                                                                             *)
(* Deviation flags (all FALSE = the code after the `fix:` commits; TRUE = a       *)
(* behaviour found in the pinned tree, kept for the non-vacuity runs: TLC must   *)
(* refute each of them):                                                        *)
(*   RestoreWrongDirection  Restore() rewrites the current contents (O2)        *)
(*   PublishBeforeInit      rd.stream is replaced before Initialize() (O3)      *)
(*   ContinueAfter405       a non-PUT request is answered 405 and then applied  *)
(*   ApplyNoBackup          /apply_flows has no Backup/Restore at all           *)
(*   MetricsToDefaultPath   a pushed metrics config is written over the         *)
(*                          gateway's built-in default metrics file when the    *)
(*                          user's file does not exist; that file is not part   *)
(*                          of the backup                                       *)
(*   StaleBackup            (seeded) Backup() adds to the snapshot of the earlier *)
(*                          updates instead of replacing it: files removed by   *)
(*                          an earlier successful update come back on a         *)
(*                          roll-back.  Visible only in a HISTORY of updates.   *)
(*   NoReloadAfterRestore   (never in the tree; sensitivity of BehavAtomic)     *)
(*                          the restored files are not loaded again             *)
EXTENDS CfgUpdateP, Sequences

CONSTANTS Paths,      \* every path of the configuration tree the model knows
          Cat,        \* Paths -> 1..6 : flows, quotas, path params, gateway config, metrics config (= save order),
                      \*                6 = the gateway's built-in default metrics file (outside Backup/Restore)
          Inert,      \* files in a sub-directory of a directory the engine reads at the top level only (flows, quotas):
                      \* part of the tree, Backup / Restore / clean-up see them, no engine ever loads them
          CleanSkips, \* (deviation, {} in the code) files the clean-up of /apply_flows leaves in place
          Unseen,     \* (deviation, {} in the code) files Backup's snapshot and Restore's comparison do not look at
          Txns,       \* probe transaction ids
          RestoreWrongDirection, PublishBeforeInit, ContinueAfter405, ApplyNoBackup, NoReloadAfterRestore,
          MetricsToDefaultPath, StaleBackup,
          RecordHistory   \* keep the earlier updates of a history in c.prev (case generation only: it keeps histories apart)

VARIABLES c, pc, nxt, sigc, after, round, disk, backup, active, todo, todoR, sub, wp, hapLeft,
          cnt, fired, faultPending, open, closed, p, viol

ivars == <<c, pc, nxt, sigc, after, round, disk, backup, active, todo, todoR, sub, wp, hapLeft,
           cnt, fired, faultPending, open, closed, p, viol>>

Flows == {q \in Paths : Cat[q] = 1 /\ q \notin Inert}
Gw == CHOOSE q \in Paths : Cat[q] = 4
Mx == CHOOSE q \in Paths : Cat[q] = 5
Dx == CHOOSE q \in Paths : Cat[q] = 6          \* the built-in default metrics file: read when the user's file is absent
Managed == {q \in Paths : Cat[q] <= 5}         \* what Backup / Restore / CleanAll look at (directories are walked recursively)
Snap == Managed \ Unseen
Points == {"fs.store", "fs.remove", "hdm.initialize", "haproxy"}

Total(d) == [q \in Paths |-> At(d, q)]
TreeOf(d) == [q \in {r \in DOMAIN d : d[r] # "none"} |-> d[q]]      \* stands for the SHA-256 of the tree
Unbuilt == [f \in Flows |-> "none"]
Built(b) == [k |-> "built", beh |-> b]
EmptyEngine == [k |-> "unbuilt", beh |-> Unbuilt]
Observed == active.beh

NoCase == [endpoint |-> "configuration", method |-> "PUT", disk |-> << >>, payload |-> << >>, decodable |-> TRUE,
           badb64 |-> {}, fault |-> [point |-> "none", nth |-> 0], tree |-> "", n |-> 0, prev |-> << >>]

\* before a case is loaded
Init ==
    /\ c = NoCase /\ pc = "pick" /\ nxt = "" /\ sigc = 0 /\ after = "" /\ round = 1
    /\ disk = Total(<< >>) /\ backup = Total(<< >>) /\ active = EmptyEngine
    /\ todo = {} /\ todoR = {} /\ sub = "" /\ wp = "" /\ hapLeft = 0
    /\ cnt = [pt \in Points |-> 0] /\ fired = FALSE /\ faultPending = FALSE
    /\ open = {} /\ closed = {}
    /\ p = PStart(Flows, NoCase) /\ viol = {}

\* a case begins: the tree holds cs.disk and the active engine was built from it
Load(cs) ==
    /\ c' = [cs EXCEPT !.n = 1, !.prev = << >>]
    /\ pc' = "idle" /\ nxt' = "" /\ sigc' = 0 /\ after' = "" /\ round' = 1
    /\ disk' = Total(cs.disk) /\ backup' = Total(<< >>) /\ active' = Built(Beh(Flows, cs.disk))
    /\ todo' = {} /\ todoR' = {} /\ sub' = "" /\ wp' = "" /\ hapLeft' = 0
    /\ cnt' = [pt \in Points |-> 0] /\ fired' = FALSE /\ faultPending' = FALSE
    /\ open' = {} /\ closed' = {}
    /\ p' = PStartF(Flows, cs, {Dx}) /\ viol' = {}

\* a HISTORY of updates on one gateway: the next update starts from whatever the previous one left - tree, active engine
\* and the backup object - and is judged against that tree ("all or nothing" holds for every update of a history).
\* A history ends after an update whose roll-back was hit by the injected failure (nothing is promised about its result).
Brief(cs) == [endpoint |-> cs.endpoint, method |-> cs.method, disk |-> cs.disk, payload |-> cs.payload,
              decodable |-> cs.decodable, badb64 |-> cs.badb64, fault |-> cs.fault]
Present(d) == [q \in {r \in DOMAIN d : d[r] # "none"} |-> d[q]]
LoadNext(cs) ==
    /\ pc = "done" /\ ~p.exempt
    /\ LET nc == [cs EXCEPT !.disk = Present(disk), !.tree = TreeOf(disk), !.n = c.n + 1, !.prev = IF RecordHistory THEN Append(c.prev, Brief(c)) ELSE << >>] IN
       /\ c' = nc /\ p' = PStartF(Flows, nc, {Dx})
    /\ pc' = "idle" /\ nxt' = "" /\ sigc' = 0 /\ after' = "" /\ round' = 1
    /\ UNCHANGED <<disk, backup, active>>
    /\ todo' = {} /\ todoR' = {} /\ sub' = "" /\ wp' = "" /\ hapLeft' = 0
    /\ cnt' = [pt \in Points |-> 0] /\ fired' = FALSE /\ faultPending' = FALSE
    /\ open' = {} /\ closed' = {} /\ viol' = {}

Note(v) == viol' = IF v = "" THEN viol ELSE viol \cup {v}

\* ---- the injected failure: the n-th time point `pt` is reached, once
Fires(pt) == ~fired /\ c.fault.point = pt /\ cnt[pt] + 1 = c.fault.nth
Hit(pt) == /\ cnt' = [cnt EXCEPT ![pt] = @ + 1]
           /\ fired' = (fired \/ Fires(pt))
           /\ faultPending' = Fires(pt)

Quiet == ~faultPending            \* the handler does nothing between an injected failure and its report
NoHit == UNCHANGED <<cnt, fired, faultPending>>
NoObs == UNCHANGED <<p, viol, open, closed>>

GoSignal(code, then) == pc' = "signal" /\ sigc' = code /\ nxt' = then

ApplyEP == c.endpoint = "apply_flows"
HasBackup == ~(ApplyEP /\ ApplyNoBackup)

\* ---------------------------------------------------------------- observable events
Call ==
    /\ pc = "idle" /\ pc' = "start" /\ p' = PAfterCall(p)
    /\ UNCHANGED <<c, nxt, sigc, after, round, disk, backup, active, todo, todoR, sub, wp, hapLeft, viol, open, closed>> /\ NoHit

ProbeCore(k, ph) ==
    /\ Note(ProbeVerdict(p, ph, k, Observed))
    /\ p' = PAfterProbe(p, ph, k, Observed)
    /\ open' = IF ph = "req" THEN open \cup {k} ELSE open \ {k}
    /\ closed' = IF ph = "req" THEN closed ELSE closed \cup {k}
    /\ UNCHANGED <<c, pc, nxt, sigc, after, round, disk, backup, active, todo, todoR, sub, wp, hapLeft>> /\ NoHit

Probe(k, ph) ==
    /\ IF ph = "req" THEN k \notin open \cup closed ELSE k \in open
    /\ ProbeCore(k, ph)

FaultEv ==
    /\ faultPending /\ faultPending' = FALSE /\ p' = PAfterFault(p)
    /\ UNCHANGED <<c, pc, nxt, sigc, after, round, disk, backup, active, todo, todoR, sub, wp, hapLeft, cnt, fired, viol, open, closed>>

Signal ==
    /\ pc = "signal" /\ Quiet /\ pc' = nxt /\ p' = PAfterStatus(p, sigc)
    /\ UNCHANGED <<c, nxt, sigc, after, round, disk, backup, active, todo, todoR, sub, wp, hapLeft, viol, open, closed>> /\ NoHit

Reply ==
    /\ pc = "reply" /\ Quiet /\ pc' = "done"
    /\ Note(ReplyVerdict(p, p.code, disk, TreeOf(disk)))
    /\ p' = PAfterReply(p, p.code)
    /\ UNCHANGED <<c, nxt, sigc, after, round, disk, backup, active, todo, todoR, sub, wp, hapLeft, open, closed>> /\ NoHit

\* ---------------------------------------------------------------- handler steps (internal unless noted)
Step(newpc) == pc' = newpc /\ UNCHANGED <<nxt, sigc>>
Same == UNCHANGED <<c, after, round, disk, backup, active, todo, todoR, sub, wp, hapLeft>>

MethodOK  == pc = "start" /\ c.method = "PUT" /\ Step("decode") /\ Same /\ NoHit /\ NoObs
Method405 == pc = "start" /\ c.method # "PUT"
             /\ GoSignal(405, IF ContinueAfter405 THEN "decode" ELSE "reply") /\ Same /\ NoHit /\ NoObs

DecodeBad == pc = "decode" /\ ~c.decodable /\ GoSignal(400, "reply") /\ Same /\ NoHit /\ NoObs
DecodeOK  == pc = "decode" /\ c.decodable /\ Step(IF HasBackup THEN "backup" ELSE "parse") /\ Same /\ NoHit /\ NoObs

Backup == /\ pc = "backup" /\ Step("parse")
          /\ backup' = IF StaleBackup THEN [q \in Paths |-> IF disk[q] # "none" THEN disk[q] ELSE backup[q]] ELSE disk
          /\ UNCHANGED <<c, after, round, disk, active, todo, todoR, sub, wp, hapLeft>> /\ NoHit /\ NoObs

ParseBad == pc = "parse" /\ c.badb64 # {} /\ GoSignal(400, "reply") /\ Same /\ NoHit /\ NoObs
ParseOK  == /\ pc = "parse" /\ c.badb64 = {}
            /\ IF ApplyEP
               THEN Step("clean") /\ todo' = {q \in Managed \ CleanSkips : disk[q] # "none" \/ Cat[q] >= 4}
               ELSE Step("save") /\ todo' = DOMAIN c.payload
            /\ UNCHANGED <<c, after, round, disk, backup, active, todoR, sub, wp, hapLeft>> /\ NoHit /\ NoObs

\* /apply_flows: CleanAll - directories first (any order), then the two files      [event fs remove q]
CleanRemove(q) ==
    /\ pc = "clean" /\ Quiet /\ q \in todo
    /\ (Cat[q] <= 3 \/ \A r \in todo : Cat[r] >= 4)
    /\ Hit("fs.remove")
    /\ IF Fires("fs.remove")
       THEN /\ GoSignal(500, IF HasBackup THEN "restore" ELSE "reply") /\ after' = "reply"
            /\ UNCHANGED <<disk, todo>>
       ELSE /\ disk' = [disk EXCEPT ![q] = "none"] /\ todo' = todo \ {q}
            /\ UNCHANGED <<pc, nxt, sigc, after>>
    /\ UNCHANGED <<c, round, backup, active, todoR, sub, wp, hapLeft>> /\ NoObs
CleanDone ==
    /\ pc = "clean" /\ Quiet /\ todo = {} /\ Step("save") /\ todo' = DOMAIN c.payload
    /\ UNCHANGED <<c, after, round, disk, backup, active, todoR, sub, wp, hapLeft>> /\ NoHit /\ NoObs

\* storeFileOnDisk = cleanUpFile (error ignored) then create+write                 [events fs remove q, fs store q]
NextToSave(q) == q \in todo /\ \A r \in todo : Cat[q] <= Cat[r]
Resolve(q) == IF Cat[q] = 5 /\ MetricsToDefaultPath /\ disk[Mx] = "none" THEN Dx ELSE q   \* path the file is written to
SaveRemove(q) ==
    /\ pc = "save" /\ Quiet /\ sub = "" /\ NextToSave(q)
    /\ Hit("fs.remove")
    /\ disk' = IF Fires("fs.remove") THEN disk ELSE [disk EXCEPT ![Resolve(q)] = "none"]
    /\ sub' = q /\ wp' = Resolve(q)
    /\ UNCHANGED <<c, pc, nxt, sigc, after, round, backup, active, todo, todoR, hapLeft>> /\ NoObs
SaveStore(q) ==
    /\ pc = "save" /\ Quiet /\ sub = q /\ q \in todo
    /\ Hit("fs.store")
    /\ IF Fires("fs.store")
       THEN /\ GoSignal(500, IF HasBackup THEN "restore" ELSE "reply") /\ after' = "reply"
            /\ UNCHANGED <<disk, todo>>
       ELSE /\ disk' = [disk EXCEPT ![wp] = c.payload[q]] /\ todo' = todo \ {q}
            /\ UNCHANGED <<pc, nxt, sigc, after>>
    /\ sub' = "" /\ wp' = ""
    /\ UNCHANGED <<c, round, backup, active, todoR, hapLeft>> /\ NoObs
SaveDone ==
    /\ pc = "save" /\ Quiet /\ todo = {} /\ sub = "" /\ Step("validate")
    /\ UNCHANGED <<c, after, round, disk, backup, active, todo, todoR, sub, wp, hapLeft>> /\ NoHit /\ NoObs

\* reloadFlows: dry-run validation, build+switch, health check, HAProxy endpoints, metrics reload
\* placeholders: e0 = zero-length file, ws = whitespace only, cm = comment only.  The loaders accept an empty gateway config
\* and empty path-parameter files; flows and (top-level) quota files must have content; files no engine reads may hold anything
Hollow == {"e0", "ws", "cm"}
Valid == /\ \A f \in Flows : disk[f] \notin {"bad", "junk"} \cup Hollow
         /\ \A q \in Paths : (Cat[q] = 2 /\ q \notin Inert) => disk[q] \notin Hollow
         /\ disk[Gw] \notin {"gbad", "ws", "cm"}
\* after the roll-back's reload /configuration reports 500 in any case (a second, ignored WriteHeader); /apply_flows only logs
EndRound2 == IF ApplyEP THEN pc' = "reply" /\ UNCHANGED <<nxt, sigc>> ELSE GoSignal(500, "reply")
Fail == IF round = 1
        THEN IF HasBackup THEN GoSignal(422, "restore") /\ after' = "reload2"
                          ELSE GoSignal(422, "reply") /\ after' = after
        ELSE EndRound2 /\ after' = after

ValidateOK  == pc = "validate" /\ Quiet /\ Valid /\ Step(IF PublishBeforeInit THEN "publish0" ELSE "init")
               /\ Same /\ NoHit /\ NoObs
ValidateBad == pc = "validate" /\ Quiet /\ ~Valid /\ Fail
               /\ UNCHANGED <<c, round, disk, backup, active, todo, todoR, sub, wp, hapLeft>> /\ NoHit /\ NoObs

\* pinned tree: the new, still empty engine becomes the active one first           [event hook published]
PublishUnbuilt ==
    /\ pc = "publish0" /\ Step("init") /\ active' = EmptyEngine
    /\ UNCHANGED <<c, after, round, disk, backup, todo, todoR, sub, wp, hapLeft>> /\ NoHit /\ NoObs
BuildInit ==
    /\ pc = "init" /\ Hit("hdm.initialize")
    /\ IF Fires("hdm.initialize")
       THEN Fail /\ UNCHANGED active
       ELSE /\ Step("hookinit") /\ after' = after
            /\ active' = IF PublishBeforeInit THEN Built(Beh(Flows, disk)) ELSE active
    /\ UNCHANGED <<c, round, disk, backup, todo, todoR, sub, wp, hapLeft>> /\ NoObs
HookInitialized ==                                                                \* [event hook initialized]
    /\ pc = "hookinit" /\ Step(IF PublishBeforeInit THEN "health" ELSE "swap") /\ Same /\ NoHit /\ NoObs
Publish ==                                                                         \* [event hook published]
    /\ pc = "swap" /\ Step("health") /\ active' = Built(Beh(Flows, disk))
    /\ UNCHANGED <<c, after, round, disk, backup, todo, todoR, sub, wp, hapLeft>> /\ NoHit /\ NoObs

HealthFail ==
    /\ pc = "health" /\ ~fired /\ c.fault.point = "health"
    /\ fired' = TRUE /\ faultPending' = TRUE /\ UNCHANGED cnt /\ Fail
    /\ UNCHANGED <<c, round, disk, backup, active, todo, todoR, sub, wp, hapLeft>> /\ NoObs
HealthOK ==
    /\ pc = "health" /\ ~(~fired /\ c.fault.point = "health") /\ Step("haproxy")
    /\ hapLeft' = 2 * Cardinality({f \in Flows : disk[f] # "none"})
    /\ UNCHANGED <<c, after, round, disk, backup, active, todo, todoR, sub, wp>> /\ NoHit /\ NoObs

HapCall ==                                                                         \* [event haproxy n code]
    /\ pc = "haproxy" /\ Quiet /\ hapLeft > 0 /\ Hit("haproxy")
    /\ IF Fires("haproxy") THEN Fail /\ UNCHANGED hapLeft
       ELSE hapLeft' = hapLeft - 1 /\ UNCHANGED <<pc, nxt, sigc, after>>
    /\ UNCHANGED <<c, round, disk, backup, active, todo, todoR, sub, wp>> /\ NoObs
HapDone == pc = "haproxy" /\ Quiet /\ hapLeft = 0 /\ Step("metrics") /\ Same /\ NoHit /\ NoObs

EffMetrics == IF disk[Mx] # "none" THEN disk[Mx] ELSE disk[Dx]     \* the user's file if it exists, else the built-in default
MetricsBad == pc = "metrics" /\ EffMetrics = "mbad" /\ Fail
              /\ UNCHANGED <<c, round, disk, backup, active, todo, todoR, sub, wp, hapLeft>> /\ NoHit /\ NoObs
MetricsOK  == /\ pc = "metrics" /\ EffMetrics # "mbad"
              /\ IF round = 1 THEN GoSignal(200, "reply") ELSE EndRound2
              /\ Same /\ NoHit /\ NoObs

\* FileSystemOperation.Restore
RestoreBegin ==
    /\ pc = "restore" /\ Quiet /\ Step("restoring")
    /\ IF RestoreWrongDirection
       THEN /\ todo' = {q \in Snap : disk[q] # "none" /\ disk[q] # backup[q]}    \* rewrites what is there now
            /\ todoR' = {}
       ELSE /\ todo' = {q \in Snap : backup[q] # "none" /\ disk[q] # backup[q]}  \* changed or removed files come back
            /\ todoR' = {q \in Snap : backup[q] = "none" /\ disk[q] # "none"}    \* added files go away
    /\ UNCHANGED <<c, after, round, disk, backup, active, sub, wp, hapLeft>> /\ NoHit /\ NoObs
AfterRestore == IF after = "reload2" /\ ~NoReloadAfterRestore
                THEN pc' = "validate" /\ round' = 2 ELSE pc' = "reply" /\ round' = round
RStoreRemove(q) ==
    /\ pc = "restoring" /\ Quiet /\ sub = "" /\ q \in todo
    /\ Hit("fs.remove")
    /\ disk' = IF Fires("fs.remove") THEN disk ELSE [disk EXCEPT ![q] = "none"]
    /\ sub' = q
    /\ UNCHANGED <<c, pc, nxt, sigc, after, round, backup, active, todo, todoR, wp, hapLeft>> /\ NoObs
RStoreStore(q) ==
    /\ pc = "restoring" /\ Quiet /\ sub = q /\ q \in todo
    /\ Hit("fs.store")
    /\ IF Fires("fs.store")
       THEN AfterRestore /\ UNCHANGED <<disk, todo>>                               \* Restore gives up, the error is only logged
       ELSE /\ disk' = [disk EXCEPT ![q] = IF RestoreWrongDirection THEN c.payload[q] ELSE backup[q]]
            /\ todo' = todo \ {q} /\ UNCHANGED <<pc, round>>
    /\ sub' = ""
    /\ UNCHANGED <<c, nxt, sigc, after, backup, active, todoR, wp, hapLeft>> /\ NoObs
RRemove(q) ==
    /\ pc = "restoring" /\ Quiet /\ sub = "" /\ todo = {} /\ q \in todoR
    /\ Hit("fs.remove")
    /\ IF Fires("fs.remove")
       THEN AfterRestore /\ UNCHANGED <<disk, todoR>>
       ELSE disk' = [disk EXCEPT ![q] = "none"] /\ todoR' = todoR \ {q} /\ UNCHANGED <<pc, round>>
    /\ UNCHANGED <<c, nxt, sigc, after, backup, active, todo, sub, wp, hapLeft>> /\ NoObs
RestoreDone ==
    /\ pc = "restoring" /\ Quiet /\ sub = "" /\ todo = {} /\ todoR = {} /\ AfterRestore
    /\ UNCHANGED <<c, nxt, sigc, after, disk, backup, active, todo, todoR, sub, wp, hapLeft>> /\ NoHit /\ NoObs

Internal ==
    \/ MethodOK \/ DecodeOK \/ Backup \/ ParseOK \/ CleanDone \/ SaveDone
    \/ ValidateOK \/ ValidateBad \/ BuildInit \/ HealthFail \/ HealthOK \/ HapDone
    \/ MetricsBad \/ MetricsOK \/ RestoreBegin \/ RestoreDone
    \/ Method405 \/ DecodeBad \/ ParseBad

Handler ==
    \/ Internal \/ Signal \/ Reply \/ FaultEv
    \/ PublishUnbuilt \/ HookInitialized \/ Publish \/ HapCall
    \/ \E q \in Paths : CleanRemove(q) \/ SaveRemove(q) \/ SaveStore(q)
                        \/ RStoreRemove(q) \/ RStoreStore(q) \/ RRemove(q)

Next == Call \/ Handler \/ \E k \in Txns, ph \in {"req", "resp"} : Probe(k, ph)

\* ---------------------------------------------------------------- the property, clause by clause
DiskAtomic  == "DiskAtomic" \notin viol
BehavAtomic == "BehavAtomic" \notin viol
NeverHalf   == "NeverHalf" \notin viol
OneConfig   == "OneConfig" \notin viol
Complete    == "Complete" \notin viol

\* witnesses (expected to be VIOLATED): the antecedents of the clauses are reachable
WitnessOpenTxnServedByNew == ~(\E k \in DOMAIN p.reqBy : p.reqBy[k] = "new" /\ p.st = "ok")
WitnessFailedNotExempt    == ~(p.st = "failed" /\ ~p.exempt /\ p.disk0 # << >> /\ closed # {})
WitnessExempt             == ~(p.exempt /\ pc = "done")
=============================================================================
