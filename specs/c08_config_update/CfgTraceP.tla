------------------------------ MODULE CfgTraceP ------------------------------
(* C08 - trace validation of recorded executions of the real handlers          *)
(* (harness/cmd/c08) against the PROPERTY monitor CfgUpdateP: the verdict.      *)
(* trace.ndjson: line 1 = {"ev":"config","flows":[...],...}; per case           *)
(*   reset (old tree, payload, endpoint, ...), probe*, call, then the events    *)
(*   the handler produced (status / fault are observed by the property; fs,     *)
(*   hook, haproxy events belong to the implementation model and are skipped    *)
(*   here), reply (status code, tree afterwards), probe*.                       *)
EXTENDS TraceLib, CfgUpdateP

Cfg == TraceLog[1]
SeqSet(s) == {s[i] : i \in 1..Len(s)}
FlowsT == SeqSet(Cfg.flows)

VARIABLES l, p, viol, loaded0      \* loaded0: which path-parameter files the engine had loaded before the update
tvars == <<l, p, viol, loaded0>>

Ev == TraceLog[l + 1]
Consume(name) == l < TraceLen /\ Ev.ev = name /\ l' = l + 1

CaseOf(e) == [endpoint |-> e.endpoint, method |-> e.method, disk |-> e.disk, payload |-> e.payload,
              decodable |-> e.decodable, badb64 |-> SeqSet(e.badb64), fault |-> e.fault, tree |-> e.tree]
NoCaseT == [endpoint |-> "configuration", method |-> "PUT", disk |-> << >>, payload |-> << >>, decodable |-> TRUE,
            badb64 |-> {}, fault |-> [point |-> "none", nth |-> 0], tree |-> ""]

LoadedTag(tag) == IF tag \in {"e0", "ws", "cm"} THEN "none" ELSE tag      \* an empty file loads nothing
Note(v) == viol' = IF v = "" THEN viol ELSE viol \cup {v}

TInit == l = 1 /\ p = PStart(FlowsT, NoCaseT) /\ viol = {} /\ loaded0 = << >>

TReset  == Consume("reset") /\ p' = PStartF(FlowsT, CaseOf(Ev), SeqSet(Cfg.fixed)) /\ viol' = {} /\ loaded0' = Ev.loaded
TProbe  == /\ Consume("probe")
           /\ Note(ProbeVerdict(p, Ev.ph, Ev.txn, Ev.served))
           /\ p' = PAfterProbe(p, Ev.ph, Ev.txn, Ev.served) /\ UNCHANGED loaded0
TCall   == Consume("call") /\ p.st = "idle" /\ p' = PAfterCall(p) /\ UNCHANGED <<viol, loaded0>>
TStatus == Consume("status") /\ p' = PAfterStatus(p, Ev.code) /\ UNCHANGED <<viol, loaded0>>
TFault  == Consume("fault") /\ p' = PAfterFault(p) /\ UNCHANGED <<viol, loaded0>>
TReply  == /\ Consume("reply") /\ p.st = "running"
           \* the whole tree byte for byte, and what the engine loaded from the directories it reads recursively
           /\ LET v == ReplyVerdict(p, Ev.code, Ev.disk, Ev.tree) IN
              Note(IF v # "" THEN v
                   ELSE IF ~IsOK(Ev.code) /\ ~p.exempt /\ Ev.loaded # loaded0 THEN "BehavAtomic"
                   \* an accepted update: the engine loaded exactly the path-parameter files of the tree it asked for
                   ELSE IF IsOK(Ev.code) /\ ~p.exempt
                           /\ \E f \in DOMAIN Ev.loaded : Ev.loaded[f] # LoadedTag(At(p.want, f)) THEN "Complete" ELSE "")
           /\ p' = PAfterReply(p, Ev.code) /\ UNCHANGED loaded0
TSkip   == l < TraceLen /\ Ev.ev \in {"fs", "hook", "haproxy"} /\ l' = l + 1 /\ UNCHANGED <<p, viol, loaded0>>

TNext == TReset \/ TProbe \/ TCall \/ TStatus \/ TFault \/ TReply \/ TSkip
TraceSpec == TInit /\ [][TNext]_tvars

DiskAtomic  == "DiskAtomic" \notin viol
BehavAtomic == "BehavAtomic" \notin viol
NeverHalf   == "NeverHalf" \notin viol
OneConfig   == "OneConfig" \notin viol
Complete    == "Complete" \notin viol
HWM == Mark(l)
Post == Report
================================================================================
