CONSTANTS
  FlowSet = {"flows/a.yaml", "flows/b.yaml"}
  Endpoints = {"configuration", "apply_flows"}
  Methods = {"PUT"}
  MaxNth = 1
  WithBadB64 = FALSE
  MxOld = {"m1"}
  GwOld = {"none"}
  MaxUpdates = 1
  PayloadCats = {1, 3}
  AnchorFlows = {"flows/a.yaml"}
  Paths <- PathsMC
  Cat <- CatMC
  Inert <- NestedFlows
  CleanSkips = {}
  Unseen = {}
  NestedPP = {"path_params/team/np.yaml"}
  NestedFlows = {"flows/team/n.yaml"}
  Txns = {}
  RestoreWrongDirection = FALSE
  PublishBeforeInit = FALSE
  ContinueAfter405 = FALSE
  ApplyNoBackup = FALSE
  NoReloadAfterRestore = FALSE
  MetricsToDefaultPath = FALSE
  StaleBackup = FALSE
  RecordHistory = TRUE
SPECIFICATION SpecMC
INVARIANT Emit
CHECK_DEADLOCK FALSE
