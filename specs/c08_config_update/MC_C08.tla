------------------------------- MODULE MC_C08 -------------------------------
(* Bounded instance of CfgUpdateI for TLC: every update ("case") over a small   *)
(* configuration tree x every payload kind x every single injected failure,     *)
(* with probe transactions interleaved at every step.                           *)
EXTENDS CfgUpdateI

CONSTANTS FlowSet,        \* flow files of the instance
          Endpoints, Methods, MaxNth, WithBadB64,
          MxOld,          \* contents of the user's metrics file in the old configurations ("none": the built-in default is in force)
          GwOld,          \* contents of the gateway config file in the old configurations ("none" = absent)
          MaxUpdates,     \* length of the histories of updates on one gateway (1 = single updates)
          PayloadCats,    \* categories of files a payload may carry (1 flows, 4 gateway config, 5 metrics config)
          NestedPP,       \* path-parameter files in a sub-directory (the engine loads them recursively)
          NestedFlows,    \* flow files in a sub-directory (inert: flows are read from the top level only)
          AnchorFlows     \* flows that exist (v1) in every old configuration (shrinks the quick instance; {} = no restriction)

PathsMC == FlowSet \cup NestedFlows \cup NestedPP \cup {"gateway_config.yaml", "metrics.yaml", "default_metrics.yaml"}
CatMC == [q \in PathsMC |-> IF q \in FlowSet \cup NestedFlows THEN 1 ELSE IF q \in NestedPP THEN 3
                                                     ELSE IF q = "gateway_config.yaml" THEN 4
                                                     ELSE IF q = "metrics.yaml" THEN 5 ELSE 6]

\* old configuration: every flow absent or v1 (at least one flow), gateway config absent or g1, the user's metrics
\* file absent or m1, the gateway's built-in default metrics file d1 (not part of any payload)
Disks == {d \in [PathsMC -> {"none", "v1", "g1", "m1", "d1", "p1", "e0"}] :
            /\ \A q \in NestedFlows : d[q] \in {"none", "v1"}
            /\ \A q \in NestedPP : d[q] \in {"none", "p1"}
            /\ \A f \in FlowSet : d[f] \in {"none", "v1"}
            /\ \E f \in FlowSet : d[f] = "v1"
            /\ \A f \in AnchorFlows : d[f] = "v1"
            /\ d["gateway_config.yaml"] \in GwOld
            /\ d["metrics.yaml"] \in MxOld
            /\ d["default_metrics.yaml"] = "d1"}

\* payload: per path absent / a valid new version / an invalid one
Opts == {o \in [PathsMC -> {"absent", "v2", "bad", "g2", "gbad", "m2", "mbad", "p2"}] :
            /\ \A q \in NestedFlows : o[q] \in {"absent", "v2"}
            /\ \A q \in NestedPP : o[q] \in {"absent", "p2"}
            /\ \A f \in FlowSet : o[f] \in {"absent", "v2", "bad"}
            /\ o["gateway_config.yaml"] \in {"absent", "g2", "gbad"}
            /\ o["metrics.yaml"] \in {"absent", "m2", "mbad"}
            /\ o["default_metrics.yaml"] = "absent"
            /\ \A q \in PathsMC : CatMC[q] \notin PayloadCats => o[q] = "absent"}
PayloadOf(o) == [q \in {r \in PathsMC : o[r] # "absent"} |-> o[q]]

Faults == {[point |-> "none", nth |-> 0]}
          \cup {[point |-> pt, nth |-> n] : pt \in {"fs.store", "fs.remove"}, n \in 1..MaxNth}
          \cup {[point |-> "haproxy", nth |-> n] : n \in 1..MaxNth}
          \cup {[point |-> "hdm.initialize", nth |-> n] : n \in 1..2}
          \cup {[point |-> "health", nth |-> 1]}

Mk(e, m, d, pl, dec, bb, f) ==
    [endpoint |-> e, method |-> m, disk |-> d, payload |-> pl, decodable |-> dec, badb64 |-> bb, fault |-> f, tree |-> "",
     n |-> 0, prev |-> << >>]
NoFault == [point |-> "none", nth |-> 0]

\* /apply_flows payloads: at least one flow, no metrics file (the handler would write it outside the tree)
OptsFor(e) == IF e = "apply_flows"
              THEN {o \in Opts : o["metrics.yaml"] = "absent" /\ \E f \in FlowSet : o[f] # "absent"}
              ELSE Opts

TreeTag(d) == TreeOf([q \in PathsMC |-> d[q]])

\* the model's stand-in for the SHA-256 of the tree is the tree itself
Pick(cs) == pc = "pick" /\ Load([cs EXCEPT !.tree = TreeTag(cs.disk)])

\* the updates of the instance (the old tree d matters for the first update of a history only)
Updates(e, d, Do(_)) ==
    \* every payload x every single failure, through the proper verb
    \/ \E o \in OptsFor(e), f \in Faults : Do(Mk(e, "PUT", d, PayloadOf(o), TRUE, {}, f))
    \* the same payloads through another verb
    \/ \E o \in OptsFor(e), m \in Methods \ {"PUT"} : Do(Mk(e, m, d, PayloadOf(o), TRUE, {}, NoFault))
    \* one file of the payload is not valid base64
    \/ /\ WithBadB64
       /\ \E o \in OptsFor(e) : \E q \in DOMAIN PayloadOf(o) : Do(Mk(e, "PUT", d, PayloadOf(o), TRUE, {q}, NoFault))
    \* the body is not JSON at all
    \/ Do(Mk(e, "PUT", d, << >>, FALSE, {}, NoFault))

PickMC == pc = "pick" /\ \E e \in Endpoints, d \in Disks : Updates(e, d, Pick)

\* the next update of a history: same gateway, tree / engine / backup object as the previous update left them
PickNextMC == pc = "done" /\ c.n < MaxUpdates /\ \E e \in Endpoints : Updates(e, << >>, LoadNext)

NextMC == PickMC \/ PickNextMC \/ Next
SpecMC == Init /\ [][NextMC]_ivars
=============================================================================
