------------------------------ MODULE CfgConcI ------------------------------
(* C08 - implementation-shaped model of OVERLAPPING update requests: every      *)
(* request is a process running the handler (handleConfiguration /              *)
(* handleApplyFlows), the handler's lock is an explicit variable.  A process    *)
(* moves from yield point to yield point (the points the harness gates: start,  *)
(* every file operation = hook fs.remove, hdm.initialized, hdm.published) and   *)
(* runs everything in between at once - exactly the interleavings the harness   *)
(* can force on the real code.  Carries the monitor CfgConcP.                   *)
(* Deviation flag: UnlockBeforeReload - the lock is released after the payload  *)
(* was saved, the reload and the failure path run unlocked (seeded).            *)
EXTENDS CfgConcP

CONSTANTS Paths, Cat, Upd, UnlockBeforeReload, RecordSched

VARIABLES cs, disk, active, lock, ps, m, viol, quiet, sched
cvars == <<cs, disk, active, lock, ps, m, viol, quiet, sched>>

FlowsC == {q \in Paths : Cat[q] = 1}
GwC == CHOOSE q \in Paths : Cat[q] = 4
MxC == CHOOSE q \in Paths : Cat[q] = 5
ManagedC == {q \in Paths : Cat[q] <= 5}
TotalC(d) == [q \in Paths |-> At(d, q)]
TreeC(d) == [q \in {r \in DOMAIN d : d[r] # "none"} |-> d[q]]
ValidC(d) == (\A f \in FlowsC : d[f] \notin {"bad", "junk"}) /\ d[GwC] # "gbad"

Idle == [pc |-> "idle", backup |-> TotalC(<< >>), todo |-> {}, rt |-> {}, rr |-> {}, round |-> 1, code |-> 0]

Init == /\ cs = [disk |-> << >>, ups |-> << >>] /\ disk = TotalC(<< >>) /\ active = [f \in FlowsC |-> "none"]
        /\ lock = "free" /\ ps = [u \in Upd |-> [Idle EXCEPT !.pc = "nocase"]]
        /\ m = CStart(<< >>, << >>, << >>, {}) /\ viol = {} /\ quiet = FALSE /\ sched = << >>

\* a case: the old tree (the active engine was built from it) and one update per process
LoadC(d, ups) ==
    /\ \A u \in Upd : ps[u].pc = "nocase"
    /\ cs' = [disk |-> d, ups |-> ups] /\ disk' = TotalC(d) /\ active' = Beh(FlowsC, d)
    /\ lock' = "free" /\ ps' = [u \in Upd |-> Idle]
    /\ m' = CStart(d, TreeC(TotalC(d)), ups, {}) /\ viol' = {} /\ quiet' = FALSE /\ sched' = << >>

Note(v) == viol' = IF v = "" THEN viol ELSE viol \cup {v}
Set(u, r) == ps' = [ps EXCEPT ![u] = r]
Pay(u) == cs.ups[u].payload
IsApply(u) == cs.ups[u].endpoint = "apply_flows"

\* ---------------------------------------------------------------- what a process does without reaching a yield point
FailRec(r) == IF r.round = 1
              THEN [r EXCEPT !.code = 422, !.pc = "restore",
                             !.rt = {q \in ManagedC : r.backup[q] # "none" /\ disk[q] # r.backup[q]},
                             !.rr = {q \in ManagedC : r.backup[q] = "none" /\ disk[q] # "none"}]
              ELSE [r EXCEPT !.pc = "reply"]

Internal(u) == LET r == ps[u] IN
    \/ /\ r.pc = "trylock"
       /\ IF lock = "free" THEN lock' = u /\ Set(u, [r EXCEPT !.pc = "backup"])
                           ELSE UNCHANGED lock /\ Set(u, [r EXCEPT !.pc = "reply", !.code = 226])
       /\ UNCHANGED <<cs, disk, active, m, viol, quiet, sched>>
    \/ /\ r.pc = "backup"
       /\ Set(u, [r EXCEPT !.backup = disk,
                           !.pc = IF IsApply(u) THEN "clean" ELSE "save",
                           !.todo = IF IsApply(u) THEN {q \in ManagedC : disk[q] # "none" \/ Cat[q] >= 4} ELSE DOMAIN Pay(u)])
       /\ UNCHANGED <<cs, disk, active, lock, m, viol, quiet, sched>>
    \/ /\ r.pc = "clean" /\ r.todo = {}
       /\ Set(u, [r EXCEPT !.pc = "save", !.todo = DOMAIN Pay(u)])
       /\ UNCHANGED <<cs, disk, active, lock, m, viol, quiet, sched>>
    \/ /\ r.pc = "save" /\ r.todo = {}
       /\ lock' = IF UnlockBeforeReload /\ lock = u THEN "free" ELSE lock
       /\ Set(u, [r EXCEPT !.pc = "validate"])
       /\ UNCHANGED <<cs, disk, active, m, viol, quiet, sched>>
    \/ /\ r.pc = "validate"
       /\ Set(u, IF ValidC(disk) THEN [r EXCEPT !.pc = "g_init"] ELSE FailRec(r))
       /\ UNCHANGED <<cs, disk, active, lock, m, viol, quiet, sched>>
    \/ /\ r.pc = "metrics"
       /\ Set(u, IF disk[MxC] = "mbad" THEN FailRec(r)
                 ELSE [r EXCEPT !.pc = "reply", !.code = IF r.round = 1 THEN 200 ELSE r.code])
       /\ UNCHANGED <<cs, disk, active, lock, m, viol, quiet, sched>>
    \/ /\ r.pc = "restore" /\ r.rt = {} /\ r.rr = {}
       /\ Set(u, [r EXCEPT !.pc = "validate", !.round = 2])
       /\ UNCHANGED <<cs, disk, active, lock, m, viol, quiet, sched>>
    \/ /\ r.pc = "reply"
       /\ m' = CAfterReply(m, u, r.code)
       /\ lock' = IF lock = u THEN "free" ELSE lock
       /\ Set(u, [r EXCEPT !.pc = "done"])
       /\ UNCHANGED <<cs, disk, active, viol, quiet, sched>>

Busy == \E u \in Upd : ENABLED Internal(u)

\* ---------------------------------------------------------------- yield points: one process is let go until the next one
Log(u) == sched' = IF RecordSched THEN Append(sched, u) ELSE sched
NextCat(r, q) == q \in r.todo /\ \A x \in r.todo : Cat[q] <= Cat[x]

Gate(u) == LET r == ps[u] IN
    \/ /\ r.pc = "idle" /\ m' = CAfterCall(m, u) /\ Set(u, [r EXCEPT !.pc = "trylock"])                \* the request is sent
       /\ UNCHANGED <<cs, disk, active, lock, viol, quiet>>
    \/ /\ r.pc = "clean" /\ \E q \in r.todo :                                                         \* CleanAll removes one file
             /\ (Cat[q] <= 3 \/ \A x \in r.todo : Cat[x] >= 4)
             /\ disk' = [disk EXCEPT ![q] = "none"] /\ Set(u, [r EXCEPT !.todo = @ \ {q}])
       /\ UNCHANGED <<cs, active, lock, m, viol, quiet>>
    \/ /\ r.pc = "save" /\ \E q \in r.todo :                                                          \* one file of the payload is written
             /\ NextCat(r, q)
             /\ disk' = [disk EXCEPT ![q] = Pay(u)[q]] /\ Set(u, [r EXCEPT !.todo = @ \ {q}])
       /\ UNCHANGED <<cs, active, lock, m, viol, quiet>>
    \/ /\ r.pc = "g_init" /\ active' = Beh(FlowsC, disk) /\ Set(u, [r EXCEPT !.pc = "g_pub"])          \* the built engine becomes the active one
       /\ UNCHANGED <<cs, disk, lock, m, viol, quiet>>
    \/ /\ r.pc = "g_pub" /\ Set(u, [r EXCEPT !.pc = "metrics"])                                       \* health check, HAProxy, metrics reload
       /\ UNCHANGED <<cs, disk, active, lock, m, viol, quiet>>
    \/ /\ r.pc = "restore" /\ r.rt # {} /\ \E q \in r.rt :                                            \* Restore writes one file back
             disk' = [disk EXCEPT ![q] = r.backup[q]] /\ Set(u, [r EXCEPT !.rt = @ \ {q}])
       /\ UNCHANGED <<cs, active, lock, m, viol, quiet>>
    \/ /\ r.pc = "restore" /\ r.rt = {} /\ r.rr # {} /\ \E q \in r.rr :                                \* Restore removes one added file
             disk' = [disk EXCEPT ![q] = "none"] /\ Set(u, [r EXCEPT !.rr = @ \ {q}])
       /\ UNCHANGED <<cs, active, lock, m, viol, quiet>>

Probe == /\ ~quiet /\ \A u \in Upd : ps[u].pc # "nocase"
         /\ Note(CProbeVerdict(m, FlowsC, active))
         /\ UNCHANGED <<cs, disk, active, lock, ps, m, quiet, sched>>

Quiet == /\ ~quiet /\ \A u \in Upd : ps[u].pc = "done"
         /\ Note(CQuietVerdict(m, FlowsC, disk, TreeC(disk), active))
         /\ quiet' = TRUE /\ UNCHANGED <<cs, disk, active, lock, ps, m, sched>>

NextC == IF Busy THEN \E u \in Upd : Internal(u)
         ELSE \/ \E u \in Upd : Gate(u) /\ Log(u)
              \/ Probe \/ Quiet

Serial    == "Serial" \notin viol
Behav     == "Behav" \notin viol
NeverHalfC == "NeverHalf" \notin viol
=============================================================================
