CONSTANTS
  Paths <- PathsT
  Cat <- CatT
  Inert <- InertT
  CleanSkips = {}
  Unseen = {}
  Txns = {}
  RestoreWrongDirection = TRUE
  PublishBeforeInit = FALSE
  ContinueAfter405 = FALSE
  ApplyNoBackup = FALSE
  NoReloadAfterRestore = FALSE
  MetricsToDefaultPath = FALSE
  StaleBackup = FALSE
  RecordHistory = FALSE
SPECIFICATION TraceSpec
CONSTRAINT HWM
POSTCONDITION Post
CHECK_DEADLOCK FALSE
