------------------------------ MODULE CfgTraceI ------------------------------
(* C08 - trace validation of recorded executions of the real handlers against   *)
(* the IMPLEMENTATION-SHAPED model CfgUpdateI (binding of the model that TLC    *)
(* checks exhaustively to the code): every logged event must be the event of    *)
(* an enabled model action with the logged arguments; actions without an event  *)
(* (decode, backup, validation, ...) are taken silently.  A rejection here      *)
(* means the code no longer behaves like the model ("model drift"); it is not   *)
(* a verdict about the property (CfgTraceP gives that).                         *)
EXTENDS TraceLib, CfgUpdateI

CfgLine == TraceLog[1]
PathsT == DOMAIN CfgLine.cat
CatT == CfgLine.cat
InertT == {CfgLine.inert[i] : i \in 1..Len(CfgLine.inert)}
SeqSet(s) == {s[i] : i \in 1..Len(s)}

VARIABLE l
tvars == <<ivars, l>>

Ev == TraceLog[l + 1]
Consume(name) == l < TraceLen /\ Ev.ev = name /\ l' = l + 1

CaseOf(e) == [endpoint |-> e.endpoint, method |-> e.method, disk |-> e.disk, payload |-> e.payload,
              decodable |-> e.decodable, badb64 |-> SeqSet(e.badb64), fault |-> e.fault,
              tree |-> TreeOf(Total(e.disk)), n |-> 1, prev |-> << >>]

TInit == Init /\ l = 1

TReset  == Consume("reset") /\ (\A q \in DOMAIN Ev.disk : q \in Paths) /\ Load(CaseOf(Ev))
TCall   == Consume("call") /\ Call
TProbe  == Consume("probe") /\ Ev.served = Observed /\ ProbeCore(Ev.txn, Ev.ph)
TFs     == /\ Consume("fs") /\ Ev.path \in Paths
           /\ IF Ev.op = "remove"
              THEN \/ CleanRemove(Ev.path) \/ RStoreRemove(Ev.path) \/ RRemove(Ev.path)
                   \/ \E q \in Paths : Resolve(q) = Ev.path /\ SaveRemove(q)
              ELSE \/ RStoreStore(Ev.path)
                   \/ \E q \in Paths : wp = Ev.path /\ SaveStore(q)
THook   == /\ Consume("hook")
           /\ IF Ev.point = "published" THEN PublishUnbuilt \/ Publish ELSE HookInitialized
THap    == Consume("haproxy") /\ HapCall /\ cnt'["haproxy"] = Ev.n /\ ((Ev.code # 200) <=> Fires("haproxy"))
TFault  == Consume("fault") /\ c.fault.point = Ev.point /\ FaultEv
TStatus == Consume("status") /\ sigc = Ev.code /\ Signal
TReply  == Consume("reply") /\ p.code = Ev.code /\ DiskEq(Ev.disk, disk) /\ Reply
TSilent == Internal /\ UNCHANGED l

TNext == TReset \/ TCall \/ TProbe \/ TFs \/ THook \/ THap \/ TFault \/ TStatus \/ TReply \/ TSilent
TraceSpec == TInit /\ [][TNext]_tvars

HWM == Mark(l)
Post == Report
================================================================================
