------------------------------- MODULE MC_Conc -------------------------------
(* Bounded instance of CfgConcI: two (three) overlapping update requests over a *)
(* small tree, every payload kind, every interleaving at the yield points.      *)
EXTENDS CfgConcI, Json

CONSTANTS EndpointsC, WithB, OptA, OptB, OptM     \* per update: what a payload may say about flow a, flow b, the metrics file

PathsC == {"flows/a.yaml", "flows/b.yaml", "gateway_config.yaml", "metrics.yaml"}
CatC == [q \in PathsC |-> IF q \in {"flows/a.yaml", "flows/b.yaml"} THEN 1 ELSE IF q = "gateway_config.yaml" THEN 4 ELSE 5]

DisksC == {[q \in PathsC |-> IF q = "flows/a.yaml" THEN "v1" ELSE IF q = "flows/b.yaml" THEN b
                              ELSE IF q = "metrics.yaml" THEN "m1" ELSE "none"] : b \in WithB}
\* per update: flows absent / new version / invalid, metrics absent / unloadable (fails after the switch)
OptsC == {o \in [PathsC -> {"absent", "v2", "v3", "bad", "mbad"}] :
            /\ o["flows/a.yaml"] \in OptA /\ o["flows/b.yaml"] \in OptB
            /\ o["gateway_config.yaml"] = "absent" /\ o["metrics.yaml"] \in OptM}
PayC(o) == [q \in {r \in PathsC : o[r] # "absent"} |-> o[q]]
UpdC == {[endpoint |-> e, payload |-> PayC(o)] : e \in EndpointsC, o \in OptsC}
OkUpd(x) == (x.endpoint = "apply_flows") => ("metrics.yaml" \notin DOMAIN x.payload /\ \E f \in FlowsC : f \in DOMAIN x.payload)

PickC == \E d \in DisksC, ups \in [Upd -> {x \in UpdC : OkUpd(x)}] :
            LoadC([q \in {r \in PathsC : d[r] # "none"} |-> d[q]], ups)

NextMCC == PickC \/ NextC
SpecMCC == Init /\ [][NextMCC]_cvars

\* generation: every quiescent state is a case with the schedule (process let go at each yield point) that led to it
EmitC == quiet => PrintT(<<"VH", ToJson([disk |-> cs.disk, ups |-> cs.ups, sched |-> sched, violated |-> viol,
                                         codes |-> m.done, final |-> disk])>>)
=============================================================================
