CONSTANTS
  FlowSet = {"flows/a.yaml", "flows/b.yaml"}
  Endpoints = {"apply_flows"}
  Methods = {"PUT"}
  MaxNth = 1
  WithBadB64 = FALSE
  MxOld = {"m1"}
  GwOld = {"none"}
  MaxUpdates = 1
  PayloadCats = {1}
  AnchorFlows = {"flows/a.yaml"}
  Paths <- PathsMC
  Cat <- CatMC
  Inert <- NestedFlows
  CleanSkips = {"flows/b.yaml"}
  Unseen = {}
  NestedPP = {}
  NestedFlows = {}
  Txns = {1}
  RestoreWrongDirection = FALSE
  PublishBeforeInit = FALSE
  ContinueAfter405 = FALSE
  ApplyNoBackup = FALSE
  NoReloadAfterRestore = FALSE
  MetricsToDefaultPath = FALSE
  StaleBackup = FALSE
  RecordHistory = FALSE
SPECIFICATION SpecMC
INVARIANTS DiskAtomic BehavAtomic NeverHalf OneConfig Complete
CHECK_DEADLOCK FALSE
