CONSTANTS
  FlowSet = {"flows/a.yaml", "flows/b.yaml"}
  Endpoints = {"configuration", "apply_flows"}
  Methods = {"PUT", "POST"}
  MaxNth = 4
  WithBadB64 = TRUE
  MxOld = {"none", "m1"}
  GwOld = {"none"}
  MaxUpdates = 1
  PayloadCats = {1, 4, 5}
  AnchorFlows = {}
  Paths <- PathsMC
  Cat <- CatMC
  Inert <- NestedFlows
  CleanSkips = {}
  Unseen = {}
  NestedPP = {}
  NestedFlows = {}
  Txns = {}
  RestoreWrongDirection = FALSE
  PublishBeforeInit = FALSE
  ContinueAfter405 = FALSE
  ApplyNoBackup = FALSE
  NoReloadAfterRestore = FALSE
  MetricsToDefaultPath = FALSE
  StaleBackup = FALSE
  RecordHistory = TRUE
SPECIFICATION SpecMC
INVARIANT Emit
CHECK_DEADLOCK FALSE
