CONSTANTS
  FlowSet = {"flows/a.yaml", "flows/b.yaml"}
  Endpoints = {"configuration", "apply_flows"}
  Methods = {"PUT", "POST"}
  MaxNth = 4
  WithBadB64 = TRUE
  MxOld = {"none", "m1"}
  GwOld = {"none"}
  AnchorFlows = {}
  Paths <- PathsMC
  Cat <- CatMC
  Txns = {}
  RestoreWrongDirection = FALSE
  PublishBeforeInit = FALSE
  ContinueAfter405 = FALSE
  ApplyNoBackup = FALSE
  NoReloadAfterRestore = FALSE
  MetricsToDefaultPath = FALSE
SPECIFICATION SpecMC
INVARIANT Emit
CHECK_DEADLOCK FALSE
