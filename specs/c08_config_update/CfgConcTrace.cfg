SPECIFICATION TraceSpec
INVARIANTS Serial Behav NeverHalfC
CONSTRAINT HWM
POSTCONDITION Post
CHECK_DEADLOCK FALSE
