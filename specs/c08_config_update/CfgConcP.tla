------------------------------ MODULE CfgConcP ------------------------------
(* C08 - OVERLAPPING updates: the property, as a monitor over observable        *)
(* events.  Several update requests are in flight at the same time on one       *)
(* gateway; each is answered with a status; "busy" (226) and every non-2xx      *)
(* status mean the update was not applied.                                      *)
(*                                                                             *)
(*   Serial   when every request has been answered, the tree is the old tree    *)
(*            with the ACCEPTED updates applied one after the other, in an      *)
(*            order that respects real time (u before v when u was answered     *)
(*            before v was sent) - a rejected update contributes nothing, so    *)
(*            what remains is the state of the last accepted one; with no       *)
(*            accepted update the tree is byte-for-byte the old one             *)
(*   Behav    ... and the running engine serves exactly that tree               *)
(*   NeverHalf at every moment a probe is served by the configuration that      *)
(*            results from the old tree by applying some of the updates sent    *)
(*            so far, each completely, in some order (never a mixture)          *)
EXTENDS CfgUpdateP, Sequences

Accepted(code) == IsOK(code) /\ code # 226

Ext(f, k, v) == [x \in (DOMAIN f) \cup {k} |-> IF x = k THEN v ELSE f[x]]

\* fixed: files of the tree that are no part of the pushed configuration (the gateway's built-in default metrics file):
\* /apply_flows replaces everything else
CStart(disk, tree, ups, fixed) ==
    [disk0 |-> disk, tree0 |-> tree, ups |-> ups, fixed |-> fixed, called |-> {}, done |-> << >>, before |-> << >>]

TargetC(fixed, endpoint, d, payload) ==
    IF endpoint = "apply_flows"
    THEN [q \in (DOMAIN payload) \cup ((DOMAIN d) \cap fixed) |-> IF q \in DOMAIN payload THEN payload[q] ELSE d[q]]
    ELSE Target(endpoint, d, payload)

CAfterCall(m, u) ==
    [m EXCEPT !.called = @ \cup {u},
              !.before = Ext(@, u, {v \in DOMAIN m.done : Accepted(m.done[v])})]
CAfterReply(m, u, code) == [m EXCEPT !.done = Ext(@, u, code)]

RECURSIVE ApplySeqF(_, _, _, _)
ApplySeqF(fixed, ups, d, seq) ==
    IF Len(seq) = 0 THEN d
    ELSE ApplySeqF(fixed, ups, TargetC(fixed, ups[Head(seq)].endpoint, d, ups[Head(seq)].payload), Tail(seq))
ApplySeq(m, seq) == ApplySeqF(m.fixed, m.ups, m.disk0, seq)

Perms(S) == {s \in [1..Cardinality(S) -> S] : \A i, j \in 1..Cardinality(S) : i # j => s[i] # s[j]}
SubSeqs(S) == UNION {Perms(T) : T \in SUBSET S}

Orders(m) == LET ok == {u \in DOMAIN m.done : Accepted(m.done[u])} IN
    {s \in Perms(ok) : \A i, j \in DOMAIN s : s[i] \in m.before[s[j]] => i < j}

CProbeVerdict(m, Flows, served) ==
    IF \E s \in SubSeqs(m.called) : served = Beh(Flows, ApplySeq(m, s)) THEN "" ELSE "NeverHalf"

CQuietVerdict(m, Flows, disk, tree, served) ==
    LET fits == {s \in Orders(m) : DiskEq(disk, ApplySeq(m, s))} IN
    IF fits = {} THEN "Serial"
    ELSE IF Orders(m) = {<< >>} /\ tree # m.tree0 THEN "Serial"
    ELSE IF served # Beh(Flows, disk) THEN "Behav" ELSE ""
=============================================================================
