CONSTANTS
  Upd = {"A", "B", "C"}
  EndpointsC = {"configuration"}
  WithB = {"v1"}
  OptA = {"absent", "v2"}
  OptB = {"absent", "bad"}
  OptM = {"absent", "mbad"}
  Paths <- PathsC
  Cat <- CatC
  UnlockBeforeReload = FALSE
  RecordSched = FALSE
SPECIFICATION SpecMCC
INVARIANTS Serial Behav NeverHalfC
CHECK_DEADLOCK FALSE
