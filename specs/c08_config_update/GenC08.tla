------------------------------- MODULE GenC08 -------------------------------
(* Case generation for replay (spec -> code): every terminal state of the      *)
(* bounded model without probe transactions is one case (old tree, payload,     *)
(* verb, injected failure) together with the outcome the model predicts         *)
(* (status, tree afterwards, behaviour of the active engine afterwards).        *)
(* Exhaustive (BFS) in the thorough tier, `-simulate` walks in the quick tier.  *)
EXTENDS MC_C08, Json

Outcome == [case |-> [endpoint |-> c.endpoint, method |-> c.method, disk |-> c.disk, payload |-> c.payload,
                      decodable |-> c.decodable, badb64 |-> c.badb64, fault |-> c.fault],
            n |-> c.n, prev |-> c.prev, exempt |-> p.exempt,
            code |-> p.code, disk |-> disk, served |-> Observed, violated |-> viol]

Emit == (pc = "done") => PrintT(<<"VH", ToJson(Outcome)>>)
=============================================================================
