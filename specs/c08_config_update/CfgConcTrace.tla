----------------------------- MODULE CfgConcTrace -----------------------------
(* C08 - trace validation of recorded OVERLAPPING updates (harness/cmd/c08,     *)
(* trace-conc.ndjson) against the property monitor CfgConcP: the verdict.       *)
EXTENDS TraceLib, CfgConcP

Cfg == TraceLog[1]
FlowsT == {Cfg.flows[i] : i \in 1..Len(Cfg.flows)}

VARIABLES l, m, viol
tvars == <<l, m, viol>>
Ev == TraceLog[l + 1]
Consume(name) == l < TraceLen /\ Ev.ev = name /\ l' = l + 1
Note(v) == viol' = IF v = "" THEN viol ELSE viol \cup {v}

TInit  == l = 1 /\ m = CStart(<< >>, "", << >>, {}) /\ viol = {}
TReset == Consume("reset") /\ m' = CStart(Ev.disk, Ev.tree, Ev.ups, {Cfg.fixed[i] : i \in 1..Len(Cfg.fixed)}) /\ viol' = {}
TCall  == Consume("call") /\ Ev.u \in DOMAIN m.ups /\ Ev.u \notin m.called /\ m' = CAfterCall(m, Ev.u) /\ UNCHANGED viol
TReply == Consume("reply") /\ Ev.u \in m.called /\ Ev.u \notin DOMAIN m.done /\ m' = CAfterReply(m, Ev.u, Ev.code) /\ UNCHANGED viol
TProbe == Consume("probe") /\ Note(CProbeVerdict(m, FlowsT, Ev.served)) /\ UNCHANGED m
TQuiet == /\ Consume("quiet") /\ DOMAIN m.done = DOMAIN m.ups
          /\ Note(CQuietVerdict(m, FlowsT, Ev.disk, Ev.tree, Ev.served)) /\ UNCHANGED m
TSkip  == l < TraceLen /\ Ev.ev \in {"gate", "status"} /\ l' = l + 1 /\ UNCHANGED <<m, viol>>

TNext == TReset \/ TCall \/ TReply \/ TProbe \/ TQuiet \/ TSkip
TraceSpec == TInit /\ [][TNext]_tvars

Serial     == "Serial" \notin viol
Behav      == "Behav" \notin viol
NeverHalfC == "NeverHalf" \notin viol
HWM == Mark(l)
Post == Report
================================================================================
