CONSTANTS
  FlowSet = {"flows/a.yaml", "flows/b.yaml"}
  Endpoints = {"configuration", "apply_flows"}
  Methods = {"PUT", "POST"}
  MaxNth = 4
  WithBadB64 = TRUE
  MxOld = {"m1"}
  GwOld = {"none"}
  MaxUpdates = 1
  PayloadCats = {1, 4, 5}
  AnchorFlows = {"flows/a.yaml"}
  Paths <- PathsMC
  Cat <- CatMC
  Inert <- NestedFlows
  CleanSkips = {}
  Unseen = {}
  NestedPP = {}
  NestedFlows = {}
  Txns = {1}
  RestoreWrongDirection = FALSE
  PublishBeforeInit = FALSE
  ContinueAfter405 = FALSE
  ApplyNoBackup = FALSE
  NoReloadAfterRestore = FALSE
  MetricsToDefaultPath = FALSE
  StaleBackup = FALSE
  RecordHistory = FALSE
SPECIFICATION SpecMC
INVARIANT WitnessExempt
CHECK_DEADLOCK FALSE
