CONSTANTS
  FlowSet = {"flows/a.yaml", "flows/b.yaml"}
  Endpoints = {"configuration", "apply_flows"}
  Methods = {"PUT", "POST"}
  MaxNth = 6
  WithBadB64 = TRUE
  MxOld = {"none", "m1"}
  GwOld = {"none", "g1"}
  MaxUpdates = 1
  PayloadCats = {1, 4, 5}
  AnchorFlows = {}
  Paths <- PathsMC
  Cat <- CatMC
  Inert <- NestedFlows
  CleanSkips = {}
  Unseen = {}
  NestedPP = {}
  NestedFlows = {}
  Txns = {1, 2}
  RestoreWrongDirection = FALSE
  PublishBeforeInit = FALSE
  ContinueAfter405 = FALSE
  ApplyNoBackup = FALSE
  NoReloadAfterRestore = FALSE
  MetricsToDefaultPath = FALSE
  StaleBackup = FALSE
  RecordHistory = FALSE
SPECIFICATION SpecMC
INVARIANTS DiskAtomic BehavAtomic NeverHalf OneConfig Complete
CHECK_DEADLOCK FALSE
