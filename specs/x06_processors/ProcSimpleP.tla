---------------------------- MODULE ProcSimpleP ----------------------------
(* X06 - GenerateResponse, MockProcessor, UserDefinedTraces: what a flow author relies on.  *)
(*                                                                                          *)
(* GenerateResponse  (registry/generate_response_processor.yaml: "A generate response       *)
(*   processor", parameters status "status code" default 200, body "body text" default      *)
(*   "OK", Content-Type "content type" default "text/plain"; README.md: "If the limit is    *)
(*   exceeded, the plugin will return a Lunar-generated API response with 429 HTTP status   *)
(*   code"; flow-samples/*.yaml; actions: "return the supplied status, body and headers as  *)
(*   a response to the calling client, without ever reaching to the actual API provider"):  *)
(*  G1  a request that reaches the processor is answered with the configured status, body   *)
(*      and Content-Type (declared defaults for what is not written);                       *)
(*  G2  nothing of the request side runs after it (the provider is never reached);          *)
(*  G3  the response-side connections written for the processor are followed;               *)
(*  G4  a request that does not reach it is not answered by it.                             *)
(* MockProcessor  ("A mock processor that does nothing", outputs output_1 / output_2):      *)
(*  M1  it hands back no action and leaves the transaction as it is; which of its two       *)
(*      outputs is taken is not specified (any, or none).                                   *)
(* UserDefinedTraces  (registry: "generate and collect distributed trace data for API       *)
(*   calls"; trace_exporter_id "Id of backend configuration (from gateway_config)"; code    *)
(*   comments of onRequest: "If no parent trace is found, a new root span will be created.  *)
(*   If a parent trace is found, this span will be a child of that trace", "Inject the      *)
(*   current span context into the outbound request headers for propagation"):              *)
(*  T0  a trace_exporter_id that the gateway configuration does not define: refused at load *)
(*  T1  the request goes on with every header it came with; only trace-propagation headers  *)
(*      (traceparent, tracestate, baggage, b3, x-b3-...) are added or renewed;              *)
(*  T2  it carries a traceparent: of the incoming trace (same trace id, new span id) when   *)
(*      the request came with a valid one, of a new trace otherwise;                        *)
(*  T3  the response is not altered.                                                        *)
EXTENDS ProcParamsP

\* ---------------------------------------------------------------- GenerateResponse
GV(par, p) == Val("GenerateResponse", par, p)

GenStatuses(par, Dev) ==
    LET sv == GV(par, "status")
    IN CASE sv.t = "int" -> {sv.n}
         [] sv.t = "str" -> (IF IsNumber(sv.s) THEN {NumVal(sv.s)} ELSE {}) \cup (IF "status_string_zero" \in Dev THEN {0} ELSE {})
         [] OTHER -> {0}                                   \* (only reachable through type_error_silent)

GenConfigs(par, Dev) ==
    {[status |-> s, body |-> AsStr(GV(par, "body")), ct |-> AsStr(GV(par, "Content-Type"))] : s \in GenStatuses(par, Dev)}

GenMustReject(par, Dev) == GenericMustReject("GenerateResponse", par)
GenMayReject(par, Dev) ==
    \/ GenMustReject(par, Dev) \/ GenericFaulty("GenerateResponse", par)
    \/ (GV(par, "status").t = "str" /\ ~IsNumber(GV(par, "status").s))
GenMayLoad(par, Dev) == GenericMayLoad("GenerateResponse", par, Dev) /\ GenConfigs(par, Dev) # {}

(* observation of one request side:  [ran, early, st, body, ct, xh (headers of the answer other than Content-Type),  *)
(*   after (request-side processors executed after it), respok (its response-side connections were followed)]        *)
GenObsOK(c, x, o) ==
    IF x.dir = "request" /\ o.ran
    THEN /\ o.early /\ o.st = c.status /\ o.body = c.body /\ o.ct = c.ct /\ o.xh = 0     \* G1
         /\ o.after = <<>>                                                              \* G2
         /\ o.respok                                                                    \* G3
    ELSE ~o.early                                                                       \* G4

\* ---------------------------------------------------------------- MockProcessor
MockConfigs(par, Dev) == {[mock |-> TRUE]}
MockMustReject(par, Dev) == GenericMustReject("MockProcessor", par)
MockMayReject(par, Dev) == MockMustReject(par, Dev) \/ GenericFaulty("MockProcessor", par)
MockMayLoad(par, Dev) == GenericMayLoad("MockProcessor", par, Dev)
\* [ran, acts (actions other than no-op handed back by the whole walk), same (the transaction goes on unchanged)]
MockObsOK(c, x, o) == o.acts = 0 /\ o.same

\* ---------------------------------------------------------------- UserDefinedTraces
\* env.gwid: trace_exporter.trace_exporter_id of the gateway configuration (<<>> = none)
TracesConfigs(par, Dev) == {[id |-> AsStr(Val("UserDefinedTraces", par, "trace_exporter_id"))]}
TracesMustReject(par, env, Dev) ==
    \/ GenericMustReject("UserDefinedTraces", par)
    \/ \A c \in TracesConfigs(par, Dev) : c.id # env.gwid \/ c.id = <<>>                \* T0
TracesMayReject(par, env, Dev) == TracesMustReject(par, env, Dev) \/ GenericFaulty("UserDefinedTraces", par)
TracesMayLoad(par, env, Dev) == ~TracesMustReject(par, env, Dev) /\ GenericMayLoad("UserDefinedTraces", par, Dev)
(* x.tp: "none" | "valid" | "garbage" (the traceparent the request came with);                                        *)
(* o: [ran, kept (T1), tp: "none" | "new" | "child" | "same" | "bad" (outgoing traceparent against the incoming one),  *)
(*     same (nothing but headers differs / the response is unchanged)]                                                 *)
TracesObsOK(c, x, o) ==
    IF ~o.ran THEN o.same /\ o.kept
    ELSE IF x.dir = "request"
    THEN /\ o.kept /\ o.same                                                            \* T1
         /\ o.tp = (IF x.tp = "valid" THEN "child" ELSE "new")                          \* T2
    ELSE o.same /\ o.kept                                                               \* T3
=============================================================================
