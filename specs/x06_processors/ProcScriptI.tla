---------------------------- MODULE ProcScriptI ----------------------------
(* X06 - CustomScript as the engine computes it: custom_script_processor.go (init,           *)
(* initGojaVM, runScript, storeRequestChanges / storeResponseChanges, Execute).              *)
EXTENDS ProcScriptP, ProcBug

ScriptEngLoad(par) ==
    LET sc == AsJs(IF "script_text" \in Given(par) THEN par["script_text"] ELSE Nil)
    IN [ok |-> "script_text" \in Given(par) /\ ~HasOp(sc, "syntax"), c |-> [script |-> sc]]

\* a statement on the other side's object: `response` is not defined on the request side, `request` is not defined on the
\* response side of an engine whose script never ran on a request (ReferenceError); (when it did run on requests, `request`
\* is what the LAST request-side run left in the VM - another transaction's request; not modelled)
ScriptEngObs(c, x) ==
    LET orig == [h |-> x.h, body |-> x.body]
        fails == Throws(c.script) \/ Foreign(c.script, x.dir)
        d == IF Bug = "script_delete_ignored"
             THEN RunScript(SelectSeq(c.script, LAMBDA s : s.op # "delhdr"), 1, x.dir, orig)
             ELSE RunScript(c.script, 1, x.dir, orig)
    \* (fwd: what goes on equals the call as the following processors see it = "modified", also when nothing was changed)
    IN IF ~x.reach THEN [next |-> "none", h |-> x.h, body |-> x.body, fwd |-> "modified"]
       ELSE IF fails /\ Bug # "script_failure_is_success" THEN [next |-> "failure", h |-> x.h, body |-> x.body, fwd |-> "modified"]
       ELSE [next |-> "success", h |-> d.h, body |-> d.body, fwd |-> IF d = orig THEN "modified" ELSE "same"]
=============================================================================
