---------------------------- MODULE ProcEngineI ----------------------------
(* X06 - all processor contracts (P) and engine models (I) under one roof, by processor     *)
(* kind: used by the bounded case spaces (MC_X06F, MC_X06G) and by the trace validation.    *)
(*   par  parameters as written in the flow file;  env  [gwid: trace exporter id of the      *)
(*   gateway configuration];  a loaded flow is judged against the SET of effective          *)
(*   configurations the texts permit for what was written (more than one where a named      *)
(*   deviation or an undocumented choice leaves it open).                                    *)
EXTENDS ProcFilterI, ProcSimpleI, ProcSanitI, ProcMetricsI, ProcScriptI

AllDev == FilterDevs \cup ParamDevs \cup SanitDevs \cup MetricsDevs \cup ScriptDevs

MustReject(kind, par, env, Dev) ==
    CASE kind = "Filter" -> FilterMustReject(par, Dev)
      [] kind = "GenerateResponse" -> GenMustReject(par, Dev)
      [] kind = "MockProcessor" -> MockMustReject(par, Dev)
      [] kind = "UserDefinedTraces" -> TracesMustReject(par, env, Dev)
      [] kind = "DataSanitation" -> SanMustReject(par, Dev)
      [] kind = "UserDefinedMetrics" -> MetricsMustReject(par, Dev)
      [] kind = "CustomScript" -> ScriptMustReject(par, Dev)
      [] OTHER -> TRUE                                   \* L5: not a registered processor

MayReject(kind, par, env, Dev) ==
    CASE kind = "Filter" -> FilterMayReject(par, Dev)
      [] kind = "GenerateResponse" -> GenMayReject(par, Dev)
      [] kind = "MockProcessor" -> MockMayReject(par, Dev)
      [] kind = "UserDefinedTraces" -> TracesMayReject(par, env, Dev)
      [] kind = "DataSanitation" -> SanMayReject(par, Dev)
      [] kind = "UserDefinedMetrics" -> MetricsMayReject(par, Dev)
      [] kind = "CustomScript" -> ScriptMayReject(par, Dev)
      [] OTHER -> TRUE

MayLoad(kind, par, env, Dev) ==
    CASE kind = "Filter" -> FilterMayLoad(par, Dev)
      [] kind = "GenerateResponse" -> GenMayLoad(par, Dev)
      [] kind = "MockProcessor" -> MockMayLoad(par, Dev)
      [] kind = "UserDefinedTraces" -> TracesMayLoad(par, env, Dev)
      [] kind = "DataSanitation" -> SanMayLoad(par, Dev)
      [] kind = "UserDefinedMetrics" -> MetricsMayLoad(par, Dev)
      [] kind = "CustomScript" -> ScriptMayLoad(par, Dev)
      [] OTHER -> FALSE

Configs(kind, par, Dev) ==
    CASE kind = "Filter" -> FilterConfigs(par, Dev)
      [] kind = "GenerateResponse" -> GenConfigs(par, Dev)
      [] kind = "MockProcessor" -> MockConfigs(par, Dev)
      [] kind = "UserDefinedTraces" -> TracesConfigs(par, Dev)
      [] kind = "DataSanitation" -> SanConfigs(par, Dev)
      [] kind = "UserDefinedMetrics" -> MetricsConfigs(par, Dev)
      [] kind = "CustomScript" -> ScriptConfigs(par, Dev)
      [] OTHER -> {}

\* one transaction side x with what was observed o, under the effective configuration c (all kinds but UserDefinedMetrics)
ObsOK(kind, c, x, o, Dev) ==
    CASE kind = "Filter" -> o.next \in (IF x.reach THEN FilterPermitted(c, x, Dev) ELSE {"none"})
      [] kind = "GenerateResponse" -> GenObsOK(c, x, o)
      [] kind = "MockProcessor" -> MockObsOK(c, x, o)
      [] kind = "UserDefinedTraces" -> TracesObsOK(c, x, o)
      [] kind = "DataSanitation" -> SanObsOK(c, x, o, Dev)
      [] kind = "CustomScript" -> ScriptObsOK(c, x, o, Dev)
      [] OTHER -> FALSE

EngLoad(kind, par, env) ==
    CASE kind = "Filter" -> FilterEngLoad(par)
      [] kind = "GenerateResponse" -> GenEngLoad(par)
      [] kind = "MockProcessor" -> MockEngLoad(par)
      [] kind = "UserDefinedTraces" -> TracesEngLoad(par, env)
      [] kind = "DataSanitation" -> SanEngLoad(par)
      [] kind = "UserDefinedMetrics" -> MetricsEngLoad(par)
      [] kind = "CustomScript" -> ScriptEngLoad(par)
      [] OTHER -> [ok |-> FALSE, c |-> <<>>]

EngObs(kind, c, x) ==
    CASE kind = "Filter" -> [next |-> IF x.reach THEN FilterEng(c, x) ELSE "none"]
      [] kind = "GenerateResponse" -> GenEngObs(c, x)
      [] kind = "MockProcessor" -> MockEngObs(c, x)
      [] kind = "UserDefinedTraces" -> TracesEngObs(c, x)
      [] kind = "DataSanitation" -> SanEngObs(c, x)
      [] kind = "CustomScript" -> ScriptEngObs(c, x)
      [] OTHER -> <<>>
=============================================================================
