CONSTANTS
  Bug = "url_list_any"
  Tier = "large"
  Dev <- AllDev
SPECIFICATION Spec
INVARIANT Conf
CHECK_DEADLOCK FALSE
