CONSTANTS
  Bug = "metrics_error_swallowed"
  Tier = "quick"
  Dev <- AllDev
SPECIFICATION Spec
INVARIANT Conf
CHECK_DEADLOCK FALSE
