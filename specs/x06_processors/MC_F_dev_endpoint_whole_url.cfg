CONSTANTS
  Bug = "none"
  Tier = "large"
  Dev <- No_endpoint_whole_url
SPECIFICATION Spec
INVARIANT Conf
CHECK_DEADLOCK FALSE
