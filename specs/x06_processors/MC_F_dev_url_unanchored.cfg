CONSTANTS
  Bug = "none"
  Tier = "large"
  Dev <- No_url_unanchored
SPECIFICATION Spec
INVARIANT Conf
CHECK_DEADLOCK FALSE
