---------------------------- MODULE ProcSanitP ----------------------------
(* X06 - DataSanitation: what a flow author relies on.                                      *)
(* registry/data_sanitation_processor.yaml: "A processor that sanitizes request by removing *)
(* sensitive information. It can be configured to either blacklist or whitelist specific     *)
(* fields for scrubbing."; blocklisted_entities "List of fields for scrubbing. Only these   *)
(* entities will be processed; all others are ignored", default [CreditCard, Email, Phone]; *)
(* ignored_entities "List of fields to be excluded from scrubbing", default [];             *)
(* data_sanitation_processor.go: entityMap "Mapping from lowercase user input", "normalize  *)
(* snake_case and camelCase", "Skipping unknown entity", "changes the default entity mask   *)
(* (default uses <> that breaks JSON)"; data_sanitation_processor_test.go.                  *)
(*  S1  every occurrence of a blocklisted, not ignored entity in the request body is        *)
(*      replaced by a mask before the request goes on (the value itself is gone);           *)
(*  S2  everything else stays: the other text of the body, occurrences of entities that are *)
(*      not blocklisted or are ignored, headers (Content-Length apart), host, path, query;  *)
(*  S3  entity names are read without regard to letter case and underscores, with the       *)
(*      aliases of entityMap; a name it does not know is skipped (or the flow refused);     *)
(*  S4  a request without body goes on untouched; the walk continues after the processor.   *)
(* Where the patterns of two entities made of digits can overlap (phone / credit card /     *)
(* SSN / IP), an occurrence that is not itself to be scrubbed may still be (partly)         *)
(* masked by another blocklisted entity: either.                                            *)
(* DEVIATIONS (named; accepted when listed in Dev):                                         *)
(*   scrub_stops_after_overlap  once a credit-card number has been scrubbed while Phone is  *)
(*        blocklisted as well (the DEFAULT configuration), nothing after it in the body is   *)
(*        scrubbed any more: later e-mail addresses, phone numbers ... go on as they came    *)
(*   ignored_unmasks_overlap    ignoring one digit entity (Phone) also switches off the      *)
(*        scrubbing of the blocklisted digit entities its pattern overlaps (card, IP, SSN)   *)
EXTENDS ProcParamsP

\* entity kinds of this specification (a subset of entityMap) and their aliases
SanKinds == {"creditcard", "email", "phone", "ip", "ssn"}
Numeric == {"creditcard", "phone", "ip", "ssn"}
CanonName(s) == Join(SelectSeq(LowerS(s), LAMBDA ch : ch # "_"))
KindOfName(n) == CASE n \in {"creditcard"} -> "creditcard" [] n \in {"email", "emailaddress"} -> "email"
                   [] n \in {"phone"} -> "phone" [] n \in {"ip", "ipaddress"} -> "ip" [] n \in {"ssn"} -> "ssn"
                   [] n \in {"date", "time", "unknownport", "link", "strictlink", "iban", "mac", "macaddress", "guid", "address",
                             "streetaddress", "zipcode", "zip", "pobox", "hashmd5", "md5", "md5hex", "hashsha1", "sha1hex", "sha1",
                             "hashsha256", "sha256hex", "sha256", "bitcoin", "btcaddress", "isbn", "git", "gitrepo"} -> "outside"
                   [] OTHER -> "unknown"
KindsOf(l) == {KindOfName(CanonName(l[i])) : i \in 1..Len(l)}

SV(par, p) == Val("DataSanitation", par, p)
SanConfigs(par, Dev) ==
    {[block |-> KindsOf(AsSList(SV(par, "blocklisted_entities"))) \cap SanKinds,
      ign |-> KindsOf(AsSList(SV(par, "ignored_entities"))) \cap SanKinds]}
\* entities of entityMap outside this specification's kinds are not written by its cases
SanUnknownNames(par) == "unknown" \in KindsOf(AsSList(SV(par, "blocklisted_entities"))) \cup KindsOf(AsSList(SV(par, "ignored_entities")))

SanitDevs == {"scrub_stops_after_overlap", "ignored_unmasks_overlap"}

SanMustReject(par, Dev) == GenericMustReject("DataSanitation", par)
SanMayReject(par, Dev) == SanMustReject(par, Dev) \/ GenericFaulty("DataSanitation", par) \/ SanUnknownNames(par)
SanMayLoad(par, Dev) == GenericMayLoad("DataSanitation", par, Dev)

(* x.toks: the body as a sequence of token kinds ("plain" or an entity kind);                                   *)
(* o: [ran, toks: per token "kept" | "masked" (nothing of the value left) | "other", frame (S2 for all that is    *)
(*     not a token), after (the next processor of the flow ran)]                                                  *)
TokPermitted(k, c, Dev, afterOverlap) ==
    LET active == c.block \ c.ign
        overlap == k \in Numeric /\ (active \ {k}) \cap Numeric # {}
    IN IF k = "plain" THEN {"kept"}
       ELSE IF k \in active
       THEN {"masked"}
            \cup (IF "scrub_stops_after_overlap" \in Dev /\ afterOverlap THEN {"kept"} ELSE {})
            \cup (IF "ignored_unmasks_overlap" \in Dev /\ k \in Numeric /\ (c.ign \ {k}) \cap Numeric # {} THEN {"kept"} ELSE {})
       ELSE {"kept"} \cup (IF overlap THEN {"masked", "other"} ELSE {})

\* a credit-card number earlier in the body, with creditcard and phone both to be scrubbed
AfterOverlap(toks, i, c) ==
    {"creditcard", "phone"} \subseteq (c.block \ c.ign) /\ \E j \in 1..(i - 1) : toks[j] = "creditcard"

SanObsOK(c, x, o, Dev) ==
    IF ~o.ran THEN o.frame /\ \A i \in 1..Len(x.toks) : o.toks[i] = "kept"
    ELSE /\ Len(o.toks) = Len(x.toks)
         /\ \A i \in 1..Len(x.toks) : o.toks[i] \in TokPermitted(x.toks[i], c, Dev, AfterOverlap(x.toks, i, c))     \* S1, S2
         /\ o.frame                                                                    \* S2
         /\ o.after                                                                    \* S4
=============================================================================
