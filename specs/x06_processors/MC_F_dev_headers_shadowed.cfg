CONSTANTS
  Bug = "none"
  Tier = "large"
  Dev <- No_headers_shadowed
SPECIFICATION Spec
INVARIANT Conf
CHECK_DEADLOCK FALSE
