CONSTANTS
  Bug = "none"
  Tier = "quick"
  Dev <- No_type_error_silent
SPECIFICATION Spec
INVARIANT Conf
CHECK_DEADLOCK FALSE
