CONSTANTS
  Bug = "none"
  Tier = "quick"
  Dev <- AllDev
SPECIFICATION Spec
INVARIANT Conf
CHECK_DEADLOCK FALSE
