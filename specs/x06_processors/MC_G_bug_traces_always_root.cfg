CONSTANTS
  Bug = "traces_always_root"
  Tier = "quick"
  Dev <- AllDev
SPECIFICATION Spec
INVARIANT Conf
CHECK_DEADLOCK FALSE
