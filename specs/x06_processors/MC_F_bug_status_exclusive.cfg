CONSTANTS
  Bug = "status_exclusive"
  Tier = "quick"
  Dev <- AllDev
SPECIFICATION Spec
INVARIANT Conf
CHECK_DEADLOCK FALSE
