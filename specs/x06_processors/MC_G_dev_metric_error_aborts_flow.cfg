CONSTANTS
  Bug = "none"
  Tier = "quick"
  Dev <- No_metric_error_aborts_flow
SPECIFICATION Spec
INVARIANT Conf
CHECK_DEADLOCK FALSE
