------------------------------ MODULE MC_X06G ------------------------------
(* X06 - GenerateResponse, MockProcessor, UserDefinedTraces, DataSanitation, CustomScript,  *)
(* UserDefinedMetrics and the parameter plumbing: bounded input space, one TLC state per     *)
(* case  [kind, par, env, xs]  (processor kind, parameters as written, gateway environment,  *)
(* the transaction sides sent through one loaded engine, in order).                          *)
(* Conf: what the engine models do (refuse the flow; or load it and, side after side,        *)
(* produce an observation) is permitted by the contracts - a loaded flow is followed as the  *)
(* set of effective configurations still consistent with everything observed so far.         *)
(* The same module writes the case set with the models' predictions (GenInit).               *)
EXTENDS ProcEngineI, Json, SequencesExt

CONSTANTS Dev, Tier

NoDev == {}
No_type_error_silent == AllDev \ {"type_error_silent"}
No_unknown_param_ignored == AllDev \ {"unknown_param_ignored"}
No_status_string_zero == AllDev \ {"status_string_zero"}
No_scrub_stops_after_overlap == AllDev \ {"scrub_stops_after_overlap"}
No_ignored_unmasks_overlap == AllDev \ {"ignored_unmasks_overlap"}
No_metric_error_aborts_flow == AllDev \ {"metric_error_aborts_flow"}
No_script_changes_not_forwarded == AllDev \ {"script_changes_not_forwarded"}

\* ---- texts
s_status == <<"s", "t", "a", "t", "u", "s">>
s_429 == <<"4", "2", "9">>
s_abc == <<"a", "b", "c">>
s_slow == <<"s", "l", "o", "w", " ", "d", "o", "w", "n">>
s_json == <<"a", "p", "p", "l", "i", "c", "a", "t", "i", "o", "n", "/", "j", "s", "o", "n">>
s_tempo1 == <<"t", "e", "m", "p", "o", "1">>
s_other == <<"o", "t", "h", "e", "r">>
s_email == <<"e", "m", "a", "i", "l">>
s_Email == <<"E", "m", "a", "i", "l">>
s_PHONE == <<"P", "H", "O", "N", "E">>
s_phone == <<"p", "h", "o", "n", "e">>
s_credit_card == <<"c", "r", "e", "d", "i", "t", "_", "c", "a", "r", "d">>
s_creditcard == <<"c", "r", "e", "d", "i", "t", "c", "a", "r", "d">>
s_IPAddress == <<"I", "P", "A", "d", "d", "r", "e", "s", "s">>
s_ip == <<"i", "p">>
s_SSN == <<"S", "S", "N">>
s_passport == <<"p", "a", "s", "s", "p", "o", "r", "t">>
s_m == <<"m">>
s_counter == <<"c", "o", "u", "n", "t", "e", "r">>
s_gauge == <<"g", "a", "u", "g", "e">>
s_histogram == <<"h", "i", "s", "t", "o", "g", "r", "a", "m">>
s_updown == <<"u", "p", "_", "d", "o", "w", "n", "_", "c", "o", "u", "n", "t", "e", "r">>
s_summary == <<"s", "u", "m", "m", "a", "r", "y">>
s_size == <<"a", "p", "i", "_", "c", "a", "l", "l", "_", "s", "i", "z", "e">>
s_count == <<"a", "p", "i", "_", "c", "a", "l", "l", "_", "c", "o", "u", "n", "t">>
s_path_n == <<"$", ".", "r", "e", "q", "u", "e", "s", "t", ".", "b", "o", "d", "y", ".", "n">>
s_path_rn == <<"$", ".", "r", "e", "s", "p", "o", "n", "s", "e", ".", "b", "o", "d", "y", ".", "n">>
s_path_deep == <<"$", ".", "r", "e", "q", "u", "e", "s", "t", ".", "b", "o", "d", "y", ".", "a", ".", "b", "[", "0", "]">>
s_http_method == <<"h", "t", "t", "p", "_", "m", "e", "t", "h", "o", "d">>
s_url == <<"u", "r", "l">>
s_status_code == <<"s", "t", "a", "t", "u", "s", "_", "c", "o", "d", "e">>
s_tenant == <<"t", "e", "n", "a", "n", "t">>
s_path_ht == <<"$", ".", "r", "e", "q", "u", "e", "s", "t", ".", "h", "e", "a", "d", "e", "r", "s", ".", "x", "t">>
s_n == <<"n">>
s_k == <<"k">>
s_5 == <<"5">>
s_7 == <<"7">>
s_xt == <<"x", "t">>
s_acme == <<"a", "c", "m", "e">>
s_GET == <<"G", "E", "T">>
s_POST == <<"P", "O", "S", "T">>
s_at_p == <<"a", ".", "t", "/", "p">>
s_xa == <<"x", "-", "a">>
s_xnew == <<"x", "-", "n", "e", "w">>
s_auth == <<"a", "u", "t", "h", "o", "r", "i", "z", "a", "t", "i", "o", "n">>
s_1 == <<"1">>
s_2 == <<"2">>
s_tok == <<"B", "e", "a", "r", "e", "r", " ", "t">>
s_f == <<"f">>
s_g == <<"g">>
s_v == <<"v">>
s_w == <<"w">>

P0 == <<>>                      \* no parameter written
P1(k, v) == k :> v
NoEnv == [gwid |-> <<>>]
Large == Tier = "large"

\* ---- GenerateResponse
GenPars ==
    {P0, P1("status", VInt(429)) @@ P1("body", VStr(s_slow)) @@ P1("Content-Type", VStr(s_json)),
     P1("status", VStr(s_429)), P1("status", VStr(s_abc)), P1("status", VFloat(429)), P1("body", VInt(5)),
     P1("Content-Type", VInt(5)), P1("X-Extra", VStr(s_1)), P1("status", VInt(0))}
    \cup (IF Large THEN {P1("status", VInt(503)), P1("body", VStr(<<>>)), P1("status", VBool(TRUE)),
                         P1("status", VInt(201)) @@ P1("Retry-After", VInt(5))} ELSE {})
GX(dir, reach) == [dir |-> dir, reach |-> reach]
GenCases == {[kind |-> "GenerateResponse", par |-> p, env |-> NoEnv, xs |-> <<GX("request", TRUE), GX("request", FALSE)>>] : p \in GenPars}

\* ---- MockProcessor, an unregistered processor
MockCases ==
    {[kind |-> "MockProcessor", par |-> p, env |-> NoEnv, xs |-> <<GX("request", TRUE)>>] :
        p \in {P0, P1("arg1", VInt(7)) @@ P1("arg2", VStr(s_v)), P1("arg1", VStr(s_v)), P1("arg3", VInt(1))}}
    \cup {[kind |-> "NoSuchProcessor", par |-> P0, env |-> NoEnv, xs |-> <<>>]}

\* ---- UserDefinedTraces
TX(dir, tp) == [dir |-> dir, reach |-> TRUE, tp |-> tp]
TracesCases ==
    {[kind |-> "UserDefinedTraces", par |-> p, env |-> [gwid |-> g],
      xs |-> <<TX("request", "none"), TX("response", "none"), TX("request", "valid"), TX("response", "none"), TX("request", "garbage")>>] :
        p \in {P0, P1("trace_exporter_id", VStr(s_tempo1)), P1("trace_exporter_id", VInt(5)), P1("trace_exporter_id", VStr(<<>>))},
        g \in {s_tempo1, s_other, <<>>}}

\* ---- DataSanitation
SanPars ==
    {P0, P1("blocklisted_entities", VSList(<<s_email>>)),
     P1("blocklisted_entities", VSList(<<s_Email, s_PHONE, s_credit_card, s_IPAddress, s_SSN>>)),
     P1("blocklisted_entities", VSList(<<s_phone>>)) @@ P1("ignored_entities", VSList(<<s_ip>>)),
     P1("blocklisted_entities", VSList(<<s_email, s_phone>>)) @@ P1("ignored_entities", VSList(<<s_Email>>)),
     P1("blocklisted_entities", VSList(<<s_creditcard, s_SSN>>)) @@ P1("ignored_entities", VSList(<<s_phone>>)),
     P1("blocklisted_entities", VSList(<<s_passport>>)), P1("blocklisted_entities", VStr(s_email)),
     P1("blocklisted_entities", VSList(<<>>))}
    \cup (IF Large THEN {P1("ignored_entities", VSList(<<s_creditcard>>)), P1("blocklisted_entities", VSList(<<s_phone, s_ip>>)),
                         P1("blocklisted_entities", VSList(<<s_passport, s_email>>)), P1("ignored_entities", VStr(s_email)),
                         P1("blocklisted_entities", VSList(<<s_ip, s_SSN>>)) @@ P1("ignored_entities", VSList(<<s_SSN>>))} ELSE {})
SX(toks) == [dir |-> "request", reach |-> TRUE, toks |-> toks]
SanToks ==
    {<<>>, <<"plain">>, <<"plain", "email", "plain">>, <<"email", "phone", "creditcard", "ip", "ssn">>,
     <<"creditcard", "email", "phone">>, <<"phone", "email", "plain">>}
    \cup (IF Large THEN {<<"ssn", "ip", "creditcard", "plain", "ssn">>, <<"email", "email">>, <<"ip", "creditcard", "ip">>} ELSE {})
SanCases == {[kind |-> "DataSanitation", par |-> p, env |-> NoEnv, xs |-> <<SX(t)>>] : p \in SanPars, t \in SanToks}

\* ---- CustomScript
St(op, a, b) == [op |-> op, a |-> a, b |-> b]
VJs(sc) == [t |-> "js", js |-> sc]
Scripts ==
    {<<St("sethdr", s_xnew, s_1)>>, <<St("sethdr", s_xa, s_2), St("delhdr", s_auth, <<>>)>>, <<St("setbody", s_g, s_w)>>,
     <<St("throw", <<>>, <<>>)>>, <<St("sethdr", s_xnew, s_1), St("throw", <<>>, <<>>)>>, <<St("deref", <<>>, <<>>)>>,
     <<St("syntax", <<>>, <<>>)>>, <<>>, <<St("resphdr", s_xnew, s_1)>>}
    \cup (IF Large THEN {<<St("delhdr", s_xnew, <<>>)>>, <<St("setbody", s_f, s_w), St("sethdr", s_xnew, s_2), St("sethdr", s_xnew, s_1)>>,
                         <<St("sethdr", s_xnew, s_1), St("syntax", <<>>, <<>>)>>} ELSE {})
CX(dir, h, body) == [dir |-> dir, reach |-> TRUE, h |-> h, body |-> body]
ScriptXs == <<CX("request", {<<s_xa, s_1>>, <<s_auth, s_tok>>}, {<<s_f, s_v>>}), CX("request", {}, {}),
              CX("response", {<<s_xa, s_1>>}, {})>>
ScriptCases ==
    {[kind |-> "CustomScript", par |-> P1("script_text", VJs(sc)), env |-> NoEnv, xs |-> ScriptXs] : sc \in Scripts}
    \cup {[kind |-> "CustomScript", par |-> p, env |-> NoEnv, xs |-> ScriptXs] : p \in {P0, P1("script_text", VInt(5))}}

\* ---- UserDefinedMetrics
MPars ==
    {P1("metric_name", VStr(s_m)),
     P1("metric_name", VStr(s_m)) @@ P1("metric_value", VStr(s_path_n)),
     P1("metric_name", VStr(s_m)) @@ P1("metric_type", VStr(s_gauge)) @@ P1("metric_value", VStr(s_path_n)),
     P1("metric_name", VStr(s_m)) @@ P1("metric_type", VStr(s_histogram)) @@ P1("metric_value", VStr(s_path_n)) @@ P1("buckets", VNList(<<1, 5, 10>>)),
     P1("metric_name", VStr(s_m)) @@ P1("metric_value", VStr(s_size)) @@ P1("labels", VSList(<<s_http_method, s_url>>)),
     P1("metric_name", VStr(s_m)) @@ P1("metric_value", VStr(s_path_n)) @@ P1("custom_metric_labels", VSMap(<<<<s_tenant, s_path_ht>>>>)),
     P1("metric_name", VStr(s_m)) @@ P1("metric_type", VStr(s_summary)),
     P0, P1("metric_name", VInt(5)), P1("metric_name", VStr(s_m)) @@ P1("labels", VStr(s_url))}
    \cup (IF Large THEN {P1("metric_name", VStr(s_m)) @@ P1("metric_type", VStr(s_updown)) @@ P1("metric_value", VStr(s_path_n)),
                         P1("metric_name", VStr(s_m)) @@ P1("metric_value", VStr(s_count)) @@ P1("metric_type", VStr(s_counter)),
                         P1("metric_name", VStr(s_m)) @@ P1("metric_value", VStr(s_path_deep)),
                         P1("metric_name", VStr(s_m)) @@ P1("buckets", VStr(s_5)),
                         P1("metric_name", VStr(s_m)) @@ P1("metric_type", VInt(1))} ELSE {})
N(v) == [t |-> "n", n |-> v]
S(v) == [t |-> "s", s |-> v]
MX(m, size, body, h) == [dir |-> "request", reach |-> TRUE, m |-> m, url |-> s_at_p, st |-> 0, size |-> size, body |-> body, h |-> h]
MTxns ==
    {MX(s_GET, 7, {<<s_n, N(5)>>}, {}), MX(s_POST, 9, {<<s_n, N(3)>>}, {<<s_xt, s_acme>>}), MX(s_GET, 9, {<<s_n, S(s_7)>>}, {}),
     MX(s_GET, 7, {<<s_k, N(1)>>}, {}), MX(s_GET, 0, {}, {})}
    \cup (IF Large THEN {MX(s_GET, 11, {<<s_n, S(s_abc)>>}, {}), MX(s_GET, 10, {<<s_n, [t |-> "b"]>>}, {<<s_xt, s_acme>>})} ELSE {})
MSeqs == {<<a>> : a \in MTxns} \cup {<<a, b>> : a \in MTxns, b \in MTxns}
         \cup (IF Large THEN {<<a, b, c>> : a \in MTxns, b \in MTxns, c \in {x \in MTxns : x.size \in {7, 9}}} ELSE {})
\* response side: status_code label, the value read from the response body
MRespPar == P1("metric_name", VStr(s_m)) @@ P1("metric_value", VStr(s_path_rn)) @@ P1("labels", VSList(<<s_status_code>>))
MRX(st, body) == [dir |-> "response", reach |-> TRUE, m |-> s_GET, url |-> s_at_p, st |-> st, size |-> 7, body |-> body, h |-> {}]
MetricsCases ==
    {[kind |-> "UserDefinedMetrics", par |-> p, env |-> NoEnv, xs |-> xs] : p \in MPars, xs \in MSeqs}
    \cup {[kind |-> "UserDefinedMetrics", par |-> MRespPar, env |-> NoEnv, xs |-> xs] :
            xs \in {<<MRX(200, {<<s_n, N(4)>>}), MRX(500, {<<s_n, N(2)>>}), MRX(200, {<<s_n, N(1)>>})>>, <<MRX(404, {})>>}}

Cases == UNION {GenCases, MockCases, TracesCases, SanCases, ScriptCases, MetricsCases}

-----------------------------------------------------------------------------
\* the engine model over a case: [ok, obs: sequence of observations, samples: what the exposition shows at the end]
RECURSIVE EngRun(_, _, _, _, _)
EngRun(kind, c, xs, i, acc) ==
    IF i > Len(xs) THEN [obs |-> <<>>, acc |-> acc]
    ELSE IF kind = "UserDefinedMetrics"
         THEN LET st == MetricsEngStep(c, acc, xs[i]) r == EngRun(kind, c, xs, i + 1, st.acc)
              IN [obs |-> <<st.o>> \o r.obs, acc |-> r.acc]
         ELSE LET r == EngRun(kind, c, xs, i + 1, acc) IN [obs |-> <<EngObs(kind, c, xs[i])>> \o r.obs, acc |-> acc]

Pred(x) ==
    LET ld == EngLoad(x.kind, x.par, x.env)
        r == IF ld.ok THEN EngRun(x.kind, ld.c, x.xs, 1, <<>>) ELSE [obs |-> <<>>, acc |-> <<>>]
    IN [ok |-> ld.ok, obs |-> r.obs,
        samples |-> IF ld.ok /\ x.kind = "UserDefinedMetrics" THEN MetricsEngSamples(ld.c, r.acc) ELSE {}]

\* the contracts over a case and observations: the live set [c, acc] after side i (empty = not permitted)
RECURSIVE Follow(_, _, _, _, _, _)
Follow(kind, live, xs, obs, i, D) ==
    IF i > Len(xs) \/ live = {} THEN live
    ELSE LET nxt == IF kind = "UserDefinedMetrics"
                    THEN UNION {{[c |-> l.c, acc |-> a] : a \in MetricsStep(l.c, l.acc, xs[i], obs[i], D)} : l \in live}
                    ELSE {l \in live : ObsOK(kind, l.c, xs[i], obs[i], D)}
         IN Follow(kind, nxt, xs, obs, i + 1, D)

ConfOf(x, D) ==
    LET p == Pred(x) IN
    IF ~p.ok THEN MayReject(x.kind, x.par, x.env, D)
    ELSE /\ MayLoad(x.kind, x.par, x.env, D)
         /\ LET live == Follow(x.kind, {[c |-> cf, acc |-> <<>>] : cf \in Configs(x.kind, x.par, D)}, x.xs, p.obs, 1, D)
            IN /\ live # {}
               /\ x.kind = "UserDefinedMetrics" => \E l \in live : MetricsShown(l.c, l.acc, p.samples)

VARIABLE cs
Init == cs \in Cases
Next == UNCHANGED cs
Spec == Init /\ [][Next]_cs
Conf == ConfOf(cs, Dev)

\* reachability witnesses (checked at start-up of every run of the model as it is; a missing witness makes the run fail)
WitAll ==
    /\ \E x \in Cases : ~Pred(x).ok
    /\ \E x \in Cases : x.kind = "GenerateResponse" /\ Pred(x).ok /\ Pred(x).obs[1].st = 429
    /\ \E x \in Cases : x.kind = "DataSanitation" /\ Pred(x).ok /\ \E i \in 1..Len(Pred(x).obs[1].toks) : Pred(x).obs[1].toks[i] = "masked"
    /\ \E x \in Cases : x.kind = "DataSanitation" /\ Pred(x).ok /\ ~ConfOf(x, No_scrub_stops_after_overlap)
    /\ \E x \in Cases : x.kind = "CustomScript" /\ Pred(x).ok /\ Pred(x).obs[1].next = "failure"
    /\ \E x \in Cases : x.kind = "UserDefinedMetrics" /\ Pred(x).ok /\ \E s \in Pred(x).samples : s.sum > 5
    /\ \E x \in Cases : x.kind = "UserDefinedMetrics" /\ Pred(x).ok /\ \E i \in 1..Len(Pred(x).obs) : Pred(x).obs[i].err
    /\ \E x \in Cases : x.kind = "UserDefinedTraces" /\ Pred(x).ok /\ Pred(x).obs[3].tp = "child"
ASSUME Bug = "none" => WitAll

-----------------------------------------------------------------------------
RECURSIVE SetSeq(_)
SetSeq(X) == IF X = {} THEN <<>> ELSE LET y == CHOOSE z \in X : TRUE IN <<y>> \o SetSeq(X \ {y})
\* sets inside transaction sides / observations as arrays
XJ(kind, x) == [f \in DOMAIN x |-> IF f \in {"h", "body"} /\ kind \in {"CustomScript", "UserDefinedMetrics"} THEN SetSeq(x[f]) ELSE x[f]]
OJ(kind, o) == [f \in DOMAIN o |-> IF f \in {"h", "body"} /\ kind = "CustomScript" THEN SetSeq(o[f]) ELSE o[f]]
GenCase(x) ==
    LET p == Pred(x) IN
    [kind |-> x.kind, par |-> x.par, env |-> x.env, xs |-> [i \in 1..Len(x.xs) |-> XJ(x.kind, x.xs[i])],
     load |-> IF p.ok THEN "ok" ELSE "reject", obs |-> [i \in 1..Len(p.obs) |-> OJ(x.kind, p.obs[i])],
     samples |-> SetSeq({[labels |-> SetSeq(s.labels), v |-> s.v, count |-> s.count, sum |-> s.sum] : s \in p.samples})]
GenInit == /\ cs = [kind |-> "gen"]
           /\ LET sq == SetToSeq(Cases) IN JsonSerialize("gen_cases_g.json", [cases |-> [i \in 1..Len(sq) |-> GenCase(sq[i])]])
           /\ PrintT(<<"GEN-CASES", Cardinality(Cases)>>)
=============================================================================
