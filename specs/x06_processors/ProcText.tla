------------------------------ MODULE ProcText ------------------------------
(* X06 - text as sequences of one-character strings (TLC cannot look inside a string).      *)
(* Used by the property specifications (anchored wildcard matching, case folding) and by    *)
(* the implementation-shaped models (Go regexp sub-language, url.Parse sub-language).       *)
EXTENDS Naturals, Sequences, FiniteSets

Lower(c) ==
    CASE c = "A" -> "a" [] c = "B" -> "b" [] c = "C" -> "c" [] c = "D" -> "d" [] c = "E" -> "e" [] c = "F" -> "f"
      [] c = "G" -> "g" [] c = "H" -> "h" [] c = "I" -> "i" [] c = "J" -> "j" [] c = "K" -> "k" [] c = "L" -> "l"
      [] c = "M" -> "m" [] c = "N" -> "n" [] c = "O" -> "o" [] c = "P" -> "p" [] c = "Q" -> "q" [] c = "R" -> "r"
      [] c = "S" -> "s" [] c = "T" -> "t" [] c = "U" -> "u" [] c = "V" -> "v" [] c = "W" -> "w" [] c = "X" -> "x"
      [] c = "Y" -> "y" [] c = "Z" -> "z" [] OTHER -> c

LowerS(s) == [i \in 1..Len(s) |-> Lower(s[i])]
EqFold(a, b) == LowerS(a) = LowerS(b)

Chars(s) == {s[i] : i \in 1..Len(s)}
Drop(s, n) == SubSeq(s, n + 1, Len(s))
Take(s, n) == SubSeq(s, 1, n)
HasPrefix(s, p) == Len(p) <= Len(s) /\ Take(s, Len(p)) = p
\* first position of character c in s, 0 when absent
IndexOf(s, c) == IF c \in Chars(s) THEN CHOOSE i \in 1..Len(s) : s[i] = c /\ \A j \in 1..(i - 1) : s[j] # c ELSE 0
Count(s, c) == Cardinality({i \in 1..Len(s) : s[i] = c})

RECURSIVE Join(_)
\* a sequence of characters as one TLA+ string (for messages / exported cases)
Join(s) == IF s = <<>> THEN "" ELSE s[1] \o Join(Drop(s, 1))

-----------------------------------------------------------------------------
(* Regular expressions: the sub-language of Go's regexp that the patterns of this          *)
(* specification use -  literal characters,  .  \c  ^  $  and  x*  (x one of the former).  *)
(* A pattern is first turned into tokens [k, c, star].                                      *)
Unsupported == {"[", "]", "(", ")", "{", "}", "|", "+", "?"}

RECURSIVE Toks(_, _)
Toks(p, i) ==
    IF i > Len(p) THEN <<>>
    ELSE LET esc == p[i] = "\\" /\ i < Len(p)
             k == IF esc THEN "lit" ELSE IF p[i] = "." THEN "any" ELSE IF p[i] = "^" THEN "bol"
                  ELSE IF p[i] = "$" THEN "eol" ELSE "lit"
             ch == IF esc THEN p[i + 1] ELSE p[i]
             j == IF esc THEN i + 2 ELSE i + 1
             st == j <= Len(p) /\ p[j] = "*" /\ k \in {"lit", "any"}
         IN <<[k |-> k, c |-> ch, star |-> st]>> \o Toks(p, IF st THEN j + 1 ELSE j)

\* wildcard text -> tokens:  *  stands for any run of characters, everything else for itself
\* (regexp.QuoteMeta followed by  \* -> .* )
GlobToks(p) == [i \in 1..Len(p) |-> IF p[i] = "*" THEN [k |-> "any", c |-> ".", star |-> TRUE]
                                                   ELSE [k |-> "lit", c |-> p[i], star |-> FALSE]]
\* the loosest reading of a wildcard text: additionally  .  stands for any one character
LooseToks(p) == [i \in 1..Len(p) |-> IF p[i] = "*" THEN [k |-> "any", c |-> ".", star |-> TRUE]
                                     ELSE IF p[i] = "." THEN [k |-> "any", c |-> ".", star |-> FALSE]
                                     ELSE [k |-> "lit", c |-> p[i], star |-> FALSE]]

TokMatch(t, ch) == t.k = "any" \/ (t.k = "lit" /\ t.c = ch)

RECURSIVE MHere(_, _, _, _, _)
\* do the tokens re[i..] match a prefix of s[j..]  (full = TRUE: all of s[j..])
MHere(re, i, s, j, full) ==
    IF i > Len(re) THEN (~full \/ j = Len(s) + 1)
    ELSE LET t == re[i] IN
         IF t.k = "bol" THEN j = 1 /\ MHere(re, i + 1, s, j, full)
         ELSE IF t.k = "eol" THEN j = Len(s) + 1 /\ MHere(re, i + 1, s, j, full)
         ELSE IF t.star THEN \E n \in 0..(Len(s) - j + 1) :
                                /\ \A m \in j..(j + n - 1) : TokMatch(t, s[m])
                                /\ MHere(re, i + 1, s, j + n, full)
         ELSE j <= Len(s) /\ TokMatch(t, s[j]) /\ MHere(re, i + 1, s, j + 1, full)

\* regexp.MatchString: the expression occurs somewhere in s
Find(re, s) == \E j \in 1..(Len(s) + 1) : MHere(re, 1, s, j, FALSE)
\* the expression describes all of s
Full(re, s) == MHere(re, 1, s, 1, TRUE)

-----------------------------------------------------------------------------
(* URLs as the gateway sees them:  host/path  without scheme or query (lunar.lua hands the  *)
(* engine  url = host .. path).  A configured pattern may carry a scheme.                   *)
SchemeHttp == <<"h", "t", "t", "p", ":", "/", "/">>
SchemeHttps == <<"h", "t", "t", "p", "s", ":", "/", "/">>
Www == <<"w", "w", "w", ".">>

HasScheme(s) == HasPrefix(LowerS(s), SchemeHttp) \/ HasPrefix(LowerS(s), SchemeHttps)
StripScheme(s) == IF HasPrefix(LowerS(s), SchemeHttps) THEN Drop(s, 8)
                  ELSE IF HasPrefix(LowerS(s), SchemeHttp) THEN Drop(s, 7) ELSE s
StripWww(h) == IF HasPrefix(h, Www) THEN Drop(h, 4) ELSE h

\* host = up to the first "/", path = the rest (with its leading "/")
SplitRaw(s) == LET t == StripScheme(s)
                   k == IndexOf(t, "/")
               IN IF k = 0 THEN [host |-> t, path |-> <<>>]
                  ELSE [host |-> Take(t, k - 1), path |-> Drop(t, k - 1)]
\* the same with a leading "www." dropped from the host
Split(s) == [host |-> StripWww(SplitRaw(s).host), path |-> SplitRaw(s).path]
=============================================================================
