CONSTANTS
  Bug = "gen_no_response_walk"
  Tier = "quick"
  Dev <- AllDev
SPECIFICATION Spec
INVARIANT Conf
CHECK_DEADLOCK FALSE
