CONSTANTS
  Bug = "any_criterion"
  Tier = "quick"
  Dev <- AllDev
SPECIFICATION Spec
INVARIANT Conf
CHECK_DEADLOCK FALSE
