CONSTANTS
  Bug = "gen_status_default"
  Tier = "quick"
  Dev <- AllDev
SPECIFICATION Spec
INVARIANT Conf
CHECK_DEADLOCK FALSE
