CONSTANTS
  Bug = "metrics_gauge_adds"
  Tier = "quick"
  Dev <- AllDev
SPECIFICATION Spec
INVARIANT Conf
CHECK_DEADLOCK FALSE
