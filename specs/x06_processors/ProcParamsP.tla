---------------------------- MODULE ProcParamsP ----------------------------
(* X06 - processor parameters of a flow file and what becomes of them at load.             *)
(*                                                                                          *)
(* STATEMENT, derived from streams/processors/registry/*.yaml (every parameter is declared  *)
(* with `type`, `required`, `default`, `description`), processor_util.go                    *)
(* ("param %s is required in processor %s", "processor %s not found"), the flows-validator  *)
(* test cases (flow-with-invalid-processor, invalid-queue-processor-config: a flow whose    *)
(* processor configuration is invalid is refused as a whole) and the README flow example:   *)
(*  L1  a required parameter that is not written: the flow is refused at load.              *)
(*  L2  an optional parameter that is not written takes the declared default; without a     *)
(*      declared default the feature it configures is off.                                  *)
(*  L3  a parameter written with a value of the declared type is used as written.           *)
(*  L4  a value of another type, or a parameter the processor does not declare, is a        *)
(*      configuration error: the flow is refused - never loaded with some OTHER value.      *)
(*  L5  a processor name that is not registered: refused.                                   *)
(* DEVIATIONS (named; accepted when listed in Dev):                                         *)
(*   type_error_silent     a value of the wrong type is replaced by the zero value of the   *)
(*                         type the code asks for ("", 0, empty list / map) and the flow    *)
(*                         loads                                                            *)
(*   unknown_param_ignored an undeclared parameter is dropped and the flow loads            *)
(*   status_string_zero    GenerateResponse.status is declared `string`, the code reads a   *)
(*                         number: a written string gives status 0                          *)
EXTENDS ProcText, Integers, TLC

ParamDevs == {"type_error_silent", "unknown_param_ignored", "status_string_zero"}

(* A written value:  [t, <payload>]  with t in  str (s: text), int, float (n: the whole     *)
(* part), bool (b), slist (l: texts), nlist (nl: numbers), smap (m: sequence of <<key text, *)
(* value text>>), nil (nothing), js (a text that is a script: js = its statements, see      *)
(* ProcScriptP).  (One payload field per type: TLC cannot compare a number with a text.)    *)
Nil == [t |-> "nil"]
VStr(s) == [t |-> "str", s |-> s]
VInt(n) == [t |-> "int", n |-> n]
VFloat(n) == [t |-> "float", n |-> n]
VBool(b) == [t |-> "bool", b |-> b]
VSList(l) == [t |-> "slist", l |-> l]
VNList(l) == [t |-> "nlist", nl |-> l]
VSMap(m) == [t |-> "smap", m |-> m]

\* declared types: string, number, list_of_strings, list_of_numbers, map_of_strings; "strnum" = GenerateResponse.status
\* (declared string, default and every example a number)
TypeOK(ty, val) ==
    CASE ty = "string" -> val.t \in {"str", "js"}
      [] ty = "number" -> val.t \in {"int", "float"}
      [] ty = "strnum" -> val.t \in {"str", "int"}
      [] ty = "list_of_strings" -> val.t = "slist"
      [] ty = "list_of_numbers" -> val.t \in {"nlist"} \/ (val.t = "slist" /\ val.l = <<>>)
      [] ty = "map_of_strings" -> val.t = "smap"
      [] OTHER -> FALSE

Dcl(ty, req, def) == [ty |-> ty, req |-> req, def |-> def]

t_OK == <<"O", "K">>
t_text_plain == <<"t", "e", "x", "t", "/", "p", "l", "a", "i", "n">>
t_mock == <<"m", "o", "c", "k">>
t_CreditCard == <<"C", "r", "e", "d", "i", "t", "C", "a", "r", "d">>
t_Email == <<"E", "m", "a", "i", "l">>
t_Phone == <<"P", "h", "o", "n", "e">>

\* the registry, transcribed from registry/*.yaml
Registry ==
    [Filter |->
        [url |-> Dcl("string", FALSE, Nil), urls |-> Dcl("list_of_strings", FALSE, Nil),
         endpoint |-> Dcl("string", FALSE, Nil), endpoints |-> Dcl("list_of_strings", FALSE, Nil),
         method |-> Dcl("string", FALSE, Nil), methods |-> Dcl("list_of_strings", FALSE, Nil),
         header |-> Dcl("string", FALSE, Nil), headers |-> Dcl("map_of_strings", FALSE, Nil),
         status_code_range |-> Dcl("string", FALSE, Nil)],
     GenerateResponse |->
        ("status" :> Dcl("strnum", FALSE, VInt(200)) @@ "body" :> Dcl("string", FALSE, VStr(t_OK))
         @@ "Content-Type" :> Dcl("string", FALSE, VStr(t_text_plain))),
     MockProcessor |->
        [arg1 |-> Dcl("number", FALSE, VInt(1)), arg2 |-> Dcl("string", FALSE, VStr(t_mock))],
     DataSanitation |->
        [blocklisted_entities |-> Dcl("list_of_strings", FALSE, VSList(<<t_CreditCard, t_Email, t_Phone>>)),
         ignored_entities |-> Dcl("list_of_strings", FALSE, VSList(<<>>))],
     UserDefinedMetrics |->
        [metric_name |-> Dcl("string", TRUE, Nil), metric_type |-> Dcl("string", FALSE, Nil),
         metric_value |-> Dcl("string", FALSE, Nil), custom_metric_labels |-> Dcl("map_of_strings", FALSE, Nil),
         labels |-> Dcl("list_of_strings", FALSE, VSList(<<>>)), buckets |-> Dcl("list_of_numbers", FALSE, VNList(<<>>))],
     UserDefinedTraces |->
        [trace_exporter_id |-> Dcl("string", TRUE, Nil), custom_trace_attributes |-> Dcl("map_of_strings", FALSE, Nil)],
     CustomScript |->
        [script_text |-> Dcl("string", TRUE, Nil)]]

Kinds == DOMAIN Registry
Decl(kind) == Registry[kind]

Given(par) == DOMAIN par
Unknown(kind, par) == Given(par) \ DOMAIN Decl(kind)
WrongType(kind, par) == {p \in Given(par) \cap DOMAIN Decl(kind) : ~TypeOK(Decl(kind)[p].ty, par[p])}
MissingReq(kind, par) == {p \in DOMAIN Decl(kind) : Decl(kind)[p].req /\ p \notin Given(par)}

\* L1 / L5
GenericMustReject(kind, par) == kind \notin Kinds \/ MissingReq(kind, par) # {}
\* L4: may be refused; loads only through a deviation
GenericFaulty(kind, par) == Unknown(kind, par) # {} \/ WrongType(kind, par) # {}
GenericMayLoad(kind, par, Dev) ==
    /\ ~GenericMustReject(kind, par)
    /\ (Unknown(kind, par) = {} \/ "unknown_param_ignored" \in Dev)
    /\ (WrongType(kind, par) = {} \/ "type_error_silent" \in Dev)

\* L2 / L3: the value a declared parameter has in a loaded flow
Val(kind, par, p) == IF p \in Given(par) THEN par[p] ELSE Decl(kind)[p].def

\* reading a value as a type: a value of another type reads as the zero value (only reachable through type_error_silent)
AsStr(val) == IF val.t = "str" THEN val.s ELSE <<>>
AsInt(val) == IF val.t = "int" THEN val.n ELSE 0
AsSList(val) == IF val.t = "slist" THEN val.l ELSE <<>>
AsNList(val) == IF val.t = "nlist" THEN val.nl ELSE <<>>
AsSMap(val) == IF val.t = "smap" THEN val.m ELSE <<>>
AsJs(val) == IF val.t = "js" THEN val.js ELSE <<>>

-----------------------------------------------------------------------------
\* decimal digits
DigitVal(c) == CASE c = "0" -> 0 [] c = "1" -> 1 [] c = "2" -> 2 [] c = "3" -> 3 [] c = "4" -> 4 [] c = "5" -> 5
                 [] c = "6" -> 6 [] c = "7" -> 7 [] c = "8" -> 8 [] c = "9" -> 9 [] OTHER -> 0 - 1
IsNumber(s) == Len(s) > 0 /\ Len(s) <= 6 /\ \A i \in 1..Len(s) : DigitVal(s[i]) >= 0
RECURSIVE NumVal(_)
NumVal(s) == IF s = <<>> THEN 0 ELSE NumVal(Take(s, Len(s) - 1)) * 10 + DigitVal(s[Len(s)])
=============================================================================
