CONSTANTS
  Bug = "none"
  Tier = "quick"
  Dev <- AllDev
SPECIFICATION Spec
INVARIANT WitMiss
CHECK_DEADLOCK FALSE
