CONSTANTS
  Bug = "none"
  Tier = "quick"
  Dev <- No_status_string_zero
SPECIFICATION Spec
INVARIANT Conf
CHECK_DEADLOCK FALSE
