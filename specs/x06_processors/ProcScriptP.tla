---------------------------- MODULE ProcScriptP ----------------------------
(* X06 - CustomScript: what a flow author relies on.                                        *)
(* registry/custom_script_processor.yaml: "allows users to extract specific values from api *)
(* calls and to customize them using Javascript"; script_text "Defines the javascript       *)
(* callback that will be invoked once an API call will be reach this processor" (required); *)
(* outputs success, failure; custom_script_processor.go: "Run the script - needed to be run *)
(* in order to validate the script", "Extract the modified maps back",                      *)
(* storeRequestChanges "stores the changes made by Goja VM to the stream";                  *)
(* custom_script_processor_test.go (headers deleted, body fields set, btoa).                *)
(*  C1  a script that is not valid Javascript is refused at load;                           *)
(*  C2  for every call that reaches the processor the script is run with `request` (and on  *)
(*      the response side `response`) holding headers and body of the call: output `success`*)
(*      when it runs to its end, `failure` when it throws;                                  *)
(*  C3  after `success` the following processors of the flow see the call as the script     *)
(*      left it (headers set / deleted, body fields set);                                   *)
(*  C4  ("customize them") the customized call is what goes on to the provider / client.    *)
(* DEVIATION (named): script_changes_not_forwarded - the processor hands back no action:    *)
(*      the provider receives the request as it came, the changes are seen by later          *)
(*      processors of the same flow only.                                                   *)
(* A script is a sequence of statements  [op, a, b]:  sethdr (request.headers[a] = b),      *)
(* delhdr (delete request.headers[a]), setbody (request.body.a = b), resphdr                *)
(* (response.headers[a] = b), throw, deref (assignment below a missing property: TypeError),*)
(* syntax (not Javascript).                                                                 *)
EXTENDS ProcParamsP

ScriptDevs == {"script_changes_not_forwarded"}

ScriptConfigs(par, Dev) == {[script |-> AsJs(Val("CustomScript", par, "script_text"))]}
HasOp(sc, op) == \E i \in 1..Len(sc) : sc[i].op = op
ScriptMustReject(par, Dev) ==
    \/ GenericMustReject("CustomScript", par)
    \/ \A c \in ScriptConfigs(par, Dev) : HasOp(c.script, "syntax")                            \* C1
ScriptMayReject(par, Dev) == ScriptMustReject(par, Dev) \/ GenericFaulty("CustomScript", par)
ScriptMayLoad(par, Dev) == ~ScriptMustReject(par, Dev) /\ GenericMayLoad("CustomScript", par, Dev)

Throws(sc) == HasOp(sc, "throw") \/ HasOp(sc, "deref")

(* x: [dir, reach, h: set of <<name, value>>, body: set of <<field, value text>> (a JSON object of texts)]           *)
RECURSIVE RunScript(_, _, _, _)
\* the call [h, body] after statements sc[i..] on side dir
RunScript(sc, i, dir, d) ==
    IF i > Len(sc) THEN d
    ELSE LET s == sc[i]
             d2 == CASE s.op = "sethdr" /\ dir = "request" -> [d EXCEPT !.h = {p \in d.h : p[1] # s.a} \cup {<<s.a, s.b>>}]
                     [] s.op = "resphdr" /\ dir = "response" -> [d EXCEPT !.h = {p \in d.h : p[1] # s.a} \cup {<<s.a, s.b>>}]
                     [] s.op = "delhdr" /\ dir = "request" -> [d EXCEPT !.h = {p \in d.h : p[1] # s.a}]
                     [] s.op = "setbody" /\ dir = "request" -> [d EXCEPT !.body = {p \in d.body : p[1] # s.a} \cup {<<s.a, s.b>>}]
                     [] OTHER -> d
         IN RunScript(sc, i + 1, dir, d2)
\* statements that read or write the other side's object are outside this specification (nothing required)
Foreign(sc, dir) == \E i \in 1..Len(sc) : (dir = "request" /\ sc[i].op = "resphdr") \/ (dir = "response" /\ sc[i].op \in {"sethdr", "delhdr", "setbody"})

(* o: [next: "success" | "failure" | "none" (which connection was followed), h, body: the call as the following        *)
(*     processors see it, fwd: "modified" (what goes on is the call as the script left it) | "same" (as it came) | "other"] *)
ScriptObsOK(c, x, o, Dev) ==
    IF ~x.reach THEN o.next = "none" /\ o.fwd \in {"same", "modified"}
    ELSE IF Foreign(c.script, x.dir) THEN o.next \in {"success", "failure"}
    ELSE IF Throws(c.script) THEN o.next = "failure"                                           \* C2
    ELSE LET d == RunScript(c.script, 1, x.dir, [h |-> x.h, body |-> x.body]) IN
         /\ o.next = "success"                                                                 \* C2
         /\ o.h = d.h /\ o.body = d.body                                                       \* C3
         /\ \/ o.fwd = "modified"                                                              \* C4
            \/ (o.fwd = "same" /\ (d = [h |-> x.h, body |-> x.body] \/ "script_changes_not_forwarded" \in Dev))
=============================================================================
