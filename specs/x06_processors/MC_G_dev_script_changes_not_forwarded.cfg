CONSTANTS
  Bug = "none"
  Tier = "quick"
  Dev <- No_script_changes_not_forwarded
SPECIFICATION Spec
INVARIANT Conf
CHECK_DEADLOCK FALSE
