CONSTANTS
  Bug = "none"
  Tier = "quick"
  Dev <- AllDev
SPECIFICATION Spec
INVARIANT WitEither
CHECK_DEADLOCK FALSE
