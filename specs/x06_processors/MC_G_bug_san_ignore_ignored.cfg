CONSTANTS
  Bug = "san_ignore_ignored"
  Tier = "quick"
  Dev <- AllDev
SPECIFICATION Spec
INVARIANT Conf
CHECK_DEADLOCK FALSE
