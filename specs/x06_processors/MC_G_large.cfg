CONSTANTS
  Bug = "none"
  Tier = "large"
  Dev <- AllDev
SPECIFICATION Spec
INVARIANT Conf
CHECK_DEADLOCK FALSE
