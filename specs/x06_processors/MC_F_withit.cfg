CONSTANTS
  Bug = "none"
  Tier = "quick"
  Dev <- AllDev
SPECIFICATION Spec
INVARIANT WitHit
CHECK_DEADLOCK FALSE
