------------------------------ MODULE ProcBug ------------------------------
(* X06 - the one constant shared by the implementation-shaped models: Bug names a          *)
(* deliberately wrong variant of a model ("none" = the engine as it is); used only to show  *)
(* that the conformance checks are not vacuous.                                             *)
CONSTANT Bug
=============================================================================
