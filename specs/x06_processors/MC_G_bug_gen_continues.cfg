CONSTANTS
  Bug = "gen_continues"
  Tier = "quick"
  Dev <- AllDev
SPECIFICATION Spec
INVARIANT Conf
CHECK_DEADLOCK FALSE
