------------------------------ MODULE ProcTrace ------------------------------
(* X06 - trace validation of executions of the REAL processors inside a real engine built   *)
(* from flow YAML.  trace.ndjson:                                                            *)
(*   {"ev":"config","dev":[names of the deviations accepted]}                                *)
(*   {"ev":"load","kind":..,"par":{name:{"t":..,..}},"env":{"gwid":[..]},"refused":bool}     *)
(*        a flow holding one processor of that kind with these parameters was given to the   *)
(*        loader (streams.NewValidationStream + Initialize): refused or loaded               *)
(*   {"ev":"side","x":{..},"o":{..}}   one side of one transaction sent through the loaded   *)
(*        engine and what was observed (which processor ran next, the answer, the request    *)
(*        that goes on, ... - per kind, see the P modules)                                   *)
(*   {"ev":"shown","samples":[{"labels":[[name,text]..],"v":..,"count":..,"sum":..}]}        *)
(*        the metric family of the loaded UserDefinedMetrics as GET /metrics shows it         *)
(* The specification keeps, per loaded flow, the set of effective configurations (and metric *)
(* accumulators) still consistent with everything observed; an event that leaves none is     *)
(* printed as <<"REJECT", line, what>> and validation goes on with the set unchanged.        *)
(* <<"DEV", line, names>>: accepted only because these deviations are listed in the config.  *)
(* <<"DRIFT", line>>: permitted by the contracts but not what the engine model computes.     *)
EXTENDS ProcEngineI, TraceLib

VARIABLES l, kind, par, env, live, ieng, iacc

Cfg == TraceLog[1]
DevSet == {Cfg.dev[i] : i \in 1..Len(Cfg.dev)}
Ev == TraceLog[l + 1]

ToSet(s) == {s[i] : i \in 1..Len(s)}
XOf(k, x) ==
    CASE k \in {"Filter"} -> [x EXCEPT !.h = ToSet(x.h)]
      [] k \in {"UserDefinedMetrics", "CustomScript"} -> [x EXCEPT !.h = ToSet(x.h), !.body = ToSet(x.body)]
      [] OTHER -> x
OOf(k, o) == IF k = "CustomScript" THEN [o EXCEPT !.h = ToSet(o.h), !.body = ToSet(o.body)] ELSE o
SamplesOf(s) == {[labels |-> ToSet(s[i].labels), v |-> s[i].v, count |-> s[i].count, sum |-> s[i].sum] : i \in 1..Len(s)}

StepLive(k, lv, x, o, D) ==
    IF k = "UserDefinedMetrics"
    THEN UNION {{[c |-> e.c, acc |-> a] : a \in MetricsStep(e.c, e.acc, x, o, D)} : e \in lv}
    ELSE {e \in lv : ObsOK(k, e.c, x, o, D)}

\* the deviations without which the step from lv would not be accepted
Needed(k, p, lv, x, o) ==
    {d \in DevSet : StepLive(k, {e \in lv : e.c \in Configs(k, p, DevSet \ {d})}, x, o, DevSet \ {d}) = {}}

TInit == /\ l = 1 /\ kind = "" /\ par = <<>> /\ env = <<>> /\ live = {} /\ ieng = [ok |-> FALSE] /\ iacc = <<>>

TLoad ==
    /\ l < TraceLen /\ Ev.ev = "load"
    /\ LET k == Ev.kind  p == Ev.par  e == Ev.env
           ok == IF Ev.refused THEN MayReject(k, p, e, DevSet) ELSE MayLoad(k, p, e, DevSet)
           strict == IF Ev.refused THEN MayReject(k, p, e, {}) ELSE MayLoad(k, p, e, {})
           ie == EngLoad(k, p, e)
       IN /\ IF ok THEN TRUE ELSE PrintT(<<"REJECT", l + 1, IF Ev.refused THEN "refused" ELSE "loaded">>)
          /\ IF ok /\ ~strict
             THEN PrintT(<<"DEV", l + 1, {d \in DevSet : ~(IF Ev.refused THEN MayReject(k, p, e, DevSet \ {d}) ELSE MayLoad(k, p, e, DevSet \ {d}))}>>)
             ELSE TRUE
          /\ IF ie.ok = Ev.refused THEN PrintT(<<"DRIFT", l + 1>>) ELSE TRUE
          /\ kind' = k /\ par' = p /\ env' = e /\ ieng' = ie /\ iacc' = <<>>
          /\ live' = IF Ev.refused THEN {} ELSE {[c |-> cf, acc |-> <<>>] : cf \in Configs(k, p, DevSet)}
    /\ l' = l + 1

TSide ==
    /\ l < TraceLen /\ Ev.ev = "side"
    /\ LET x == XOf(kind, Ev.x)  o == OOf(kind, Ev.o)
           nxt == StepLive(kind, live, x, o, DevSet)
           ist == IF kind = "UserDefinedMetrics" /\ ieng.ok THEN MetricsEngStep(ieng.c, iacc, x) ELSE [acc |-> iacc, o |-> <<>>]
           iobs == IF ~ieng.ok THEN <<>> ELSE IF kind = "UserDefinedMetrics" THEN ist.o ELSE EngObs(kind, ieng.c, x)
       IN /\ IF nxt # {} THEN TRUE ELSE PrintT(<<"REJECT", l + 1, "side">>)
          /\ IF nxt # {} /\ DevSet # {} /\ StepLive(kind, {e \in live : e.c \in Configs(kind, par, {})}, x, o, {}) = {}
             THEN PrintT(<<"DEV", l + 1, Needed(kind, par, live, x, o)>>) ELSE TRUE
          /\ IF nxt # {} /\ ieng.ok /\ iobs # o THEN PrintT(<<"DRIFT", l + 1>>) ELSE TRUE
          /\ live' = IF nxt # {} THEN nxt ELSE live
          /\ iacc' = ist.acc
    /\ l' = l + 1 /\ UNCHANGED <<kind, par, env, ieng>>

TShown ==
    /\ l < TraceLen /\ Ev.ev = "shown"
    /\ LET S == SamplesOf(Ev.samples)
           good == {e \in live : MetricsShown(e.c, e.acc, S)}
       IN /\ IF good # {} THEN TRUE ELSE PrintT(<<"REJECT", l + 1, "shown">>)
          /\ IF good # {} /\ ieng.ok /\ MetricsEngSamples(ieng.c, iacc) # S THEN PrintT(<<"DRIFT", l + 1>>) ELSE TRUE
          /\ live' = IF good # {} THEN good ELSE live
    /\ l' = l + 1 /\ UNCHANGED <<kind, par, env, ieng, iacc>>

TNext == TLoad \/ TSide \/ TShown
vars == <<l, kind, par, env, live, ieng, iacc>>
TraceSpec == TInit /\ [][TNext]_vars
HWM == Mark(l)
Post == Report
=============================================================================
