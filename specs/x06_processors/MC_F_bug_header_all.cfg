CONSTANTS
  Bug = "header_all"
  Tier = "quick"
  Dev <- AllDev
SPECIFICATION Spec
INVARIANT Conf
CHECK_DEADLOCK FALSE
