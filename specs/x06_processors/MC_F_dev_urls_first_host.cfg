CONSTANTS
  Bug = "none"
  Tier = "large"
  Dev <- No_urls_first_host
SPECIFICATION Spec
INVARIANT Conf
CHECK_DEADLOCK FALSE
