---------------------------- MODULE ProcSimpleI ----------------------------
(* X06 - GenerateResponse, MockProcessor, UserDefinedTraces as the engine computes them:   *)
(* transcriptions of generate_response_processor.go, mock_processor.go,                     *)
(* user_defined_traces_processor.go (init, onRequest, Execute), of the short-circuit part   *)
(* of stream.ExecuteFlow / Stream.executeReq, and of extractProcessorParameters.            *)
EXTENDS ProcSimpleP, ProcBug


\* extractProcessorParameters: a declared parameter is the written value or the declared default; a required one must be written
IVal(kind, par, p) == IF p \in Given(par) THEN par[p] ELSE Decl(kind)[p].def
IRequiredOK(kind, par) == \A p \in DOMAIN Decl(kind) : Decl(kind)[p].req => p \in Given(par)

\* ---- GenerateResponse: ExtractIntParam(status), ExtractStrParam(body), every other declared parameter is a header
GenEngLoad(par) ==
    [ok |-> IRequiredOK("GenerateResponse", par),
     c |-> [status |-> IF Bug = "gen_status_default" THEN 200 ELSE AsInt(IVal("GenerateResponse", par, "status")),
            body |-> AsStr(IVal("GenerateResponse", par, "body")),
            ct |-> AsStr(IVal("GenerateResponse", par, "Content-Type"))]]

\* x.reach: the flow routes this side of the transaction to the processor
GenEngObs(c, x) ==
    IF x.reach /\ x.dir = "request"
    THEN [ran |-> TRUE, early |-> TRUE, st |-> c.status, body |-> c.body, ct |-> c.ct, xh |-> 0,
          after |-> IF Bug = "gen_continues" THEN <<"next">> ELSE <<>>,       \* procIO.Type = Response on a request: the walk stops
          respok |-> Bug # "gen_no_response_walk"]                              \* executeRes(.., ShortCircuit) from its response node
    ELSE [ran |-> FALSE, early |-> FALSE, st |-> 0, body |-> <<>>, ct |-> <<>>, xh |-> 0, after |-> <<>>, respok |-> TRUE]

\* ---- MockProcessor: ProcessorIO{Type: Any, Name: ""} - no action, no condition
MockEngLoad(par) == [ok |-> IRequiredOK("MockProcessor", par), c |-> [mock |-> TRUE]]
MockEngObs(c, x) == [ran |-> x.reach, acts |-> 0, same |-> TRUE]

\* ---- UserDefinedTraces
TracesEngLoad(par, env) ==
    LET id == AsStr(IVal("UserDefinedTraces", par, "trace_exporter_id"))
    IN [ok |-> IRequiredOK("UserDefinedTraces", par) /\ id = env.gwid /\ env.gwid # <<>>, c |-> [id |-> id]]
TracesEngObs(c, x) ==
    [ran |-> x.reach, kept |-> TRUE, same |-> TRUE,
     tp |-> IF x.reach /\ x.dir = "request"
            THEN (IF x.tp = "valid" /\ Bug # "traces_always_root" THEN "child" ELSE "new") ELSE "none"]
=============================================================================
