---------------------------- MODULE ProcMetricsI ----------------------------
(* X06 - UserDefinedMetrics as the engine computes it: user_defined_metrics_processor.go     *)
(* (setupParameters, initializeMetric, Execute, getMetricValue, convertToFloat64,            *)
(* getCustomLabelValue, addOrUpdateGaugeValue) and stream.ExecuteFlow's handling of a         *)
(* processor error (the walk of the whole flow returns the error).                            *)
EXTENDS ProcMetricsP, ProcBug

MetricsEngLoad(par) ==
    LET c == CHOOSE cc \in MetricsConfigs(par, {}) : TRUE
    IN [ok |-> "metric_name" \in Given(par) /\ c.type \in MetricTypes, c |-> c]

\* getMetricValue: [ok, v]
MetricsEngValue(c, x) ==
    CASE c.value.src = "count" -> [ok |-> TRUE, v |-> 1]
      [] c.value.src = "size" -> [ok |-> TRUE, v |-> IF Bug = "metrics_size_is_one" THEN 1 ELSE x.size]
      [] c.value.src = "opaque" -> [ok |-> FALSE, v |-> 0]
      [] OTHER -> LET F == IF c.value.side = x.dir THEN Field(x, c.value.sec, c.value.field) ELSE {}
                      nums == {v \in F : v.t = "n"} \cup {v \in F : v.t = "s" /\ IsNumber(v.s)}
                  IN IF nums = {} THEN [ok |-> FALSE, v |-> 0]
                     ELSE LET w == CHOOSE v \in nums : TRUE IN [ok |-> TRUE, v |-> IF w.t = "n" THEN w.n ELSE NumVal(w.s)]

\* [acc, o]: the accumulator and the observation after one transaction side
MetricsEngStep(c, acc, x) ==
    LET r == MetricsEngValue(c, x)
        key == SeriesOf(c, x)
    IN IF ~x.reach THEN [acc |-> acc, o |-> [cont |-> FALSE, err |-> FALSE, same |-> TRUE]]
       ELSE IF ~r.ok THEN [acc |-> acc, o |-> [cont |-> Bug = "metrics_error_swallowed", err |-> Bug # "metrics_error_swallowed", same |-> TRUE]]
       ELSE [acc |-> [k \in DOMAIN acc \cup {key} |-> IF k = key THEN (IF k \in DOMAIN acc THEN acc[k] ELSE <<>>) \o <<r.v>> ELSE acc[k]],
             o |-> [cont |-> TRUE, err |-> FALSE, same |-> TRUE]]

\* what the Prometheus exposition shows for the family (v: the value of a counter / gauge series, the sum of a histogram's;
\* count / sum: of a histogram series only)
MetricsEngSamples(c, acc) ==
    {[labels |-> k,
      v |-> IF c.type = "gauge" /\ Bug # "metrics_gauge_adds" THEN acc[k][Len(acc[k])] ELSE Sum(acc[k]),
      count |-> IF c.type = "histogram" THEN Len(acc[k]) ELSE 0,
      sum |-> IF c.type = "histogram" THEN Sum(acc[k]) ELSE 0] : k \in {kk \in DOMAIN acc : acc[kk] # <<>> /\ ~Silent(c, acc[kk])}}
=============================================================================
