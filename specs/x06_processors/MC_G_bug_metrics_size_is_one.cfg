CONSTANTS
  Bug = "metrics_size_is_one"
  Tier = "quick"
  Dev <- AllDev
SPECIFICATION Spec
INVARIANT Conf
CHECK_DEADLOCK FALSE
