CONSTANTS
  Bug = "none"
  Tier = "large"
  Dev <- No_range_unchecked
SPECIFICATION Spec
INVARIANT Conf
CHECK_DEADLOCK FALSE
