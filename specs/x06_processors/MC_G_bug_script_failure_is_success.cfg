CONSTANTS
  Bug = "script_failure_is_success"
  Tier = "quick"
  Dev <- AllDev
SPECIFICATION Spec
INVARIANT Conf
CHECK_DEADLOCK FALSE
