CONSTANTS
  Bug = "none"
  Tier = "large"
  Dev <- AllDev
INIT GenInit
NEXT Next
CHECK_DEADLOCK FALSE
