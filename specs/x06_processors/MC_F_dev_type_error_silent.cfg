CONSTANTS
  Bug = "none"
  Tier = "large"
  Dev <- No_type_error_silent
SPECIFICATION Spec
INVARIANT Conf
CHECK_DEADLOCK FALSE
