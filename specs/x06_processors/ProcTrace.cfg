CONSTANTS
  Bug = "none"
SPECIFICATION TraceSpec
CONSTRAINT HWM
POSTCONDITION Post
CHECK_DEADLOCK FALSE
