CONSTANTS
  Bug = "none"
  Tier = "large"
  Dev <- No_header_malformed
SPECIFICATION Spec
INVARIANT Conf
CHECK_DEADLOCK FALSE
