---------------------------- MODULE ProcFilterP ----------------------------
(* X06 - the Filter processor ("Processor for if-else conditions in the flow").            *)
(*                                                                                          *)
(* STATEMENT (what a flow author relies on), derived from the repository's own texts:       *)
(*  registry/filter_processor.yaml   - parameters url / urls ("filtering by url(s)"),       *)
(*      endpoint / endpoints ("filtering by endpoint" - "*, or specific path"), method /    *)
(*      methods, header / headers, status_code_range ("e.g. 100-599"); outputs hit, miss    *)
(*  filter_processor_test.go (the authors' table of expectations) and the sample flows      *)
(*      flow-samples/allow-block-list-sample.yaml, README.md:                               *)
(*  F1  every configured criterion must be satisfied for `hit`; one unsatisfied criterion   *)
(*      gives `miss` ("expected 'miss' when any filter criterion fails"); the condition     *)
(*      taken decides which connection of the flow is followed.                             *)
(*  F2  url: exact URL (letter case ignored, a leading www. ignored); a domain alone        *)
(*      stands for every path of it; `*` stands for any run of characters in the domain or  *)
(*      the path ("example.com/*", "*.example.com", "example.com/*/resource"); a pattern    *)
(*      written with ^ $ [ ] ( ) { } | \ is a regular expression; another host, or a        *)
(*      pattern path facing a URL without that path, is a miss; a scheme written in front   *)
(*      of the pattern ("https://acmecorp.com/*" in the sample flow) does not stop it from  *)
(*      matching the traffic of that host; a list (urls) is satisfied by any of its items.  *)
(*  F3  method(s): the request method is one of the listed ones.                            *)
(*  F4  endpoint(s): `*` or the path of the call.                                           *)
(*  F5  header ("name=value") / headers (map): "at least one header filter matches".        *)
(*  F6  status_code_range "from-to": on the response side the status lies in the range      *)
(*      (bounds included); a request has no status: the criterion is not consulted.         *)
(*  F7  a Filter without any usable criterion is refused at load ("no filter criteria       *)
(*      defined"), so is a malformed range ("invalid status code range").                   *)
(* The specification is as permissive as these texts: where they are silent (letter case of *)
(* paths, methods and header values) both outcomes are permitted.                           *)
(*                                                                                          *)
(* DEVIATIONS of the engine from these texts are NAMED; a named deviation listed in Dev     *)
(* widens what is permitted (P accepts both readings), each run counts what is accepted     *)
(* only through a deviation:                                                                *)
(*   url_unanchored      the pattern is searched anywhere in the URL and `.` stands for any *)
(*                       character: "a.t" also hits "xa.t/p", "a.tx/p", "b.t/a.t"           *)
(*   url_scheme_literal  a pattern with a scheme and without `*` never hits (the gateway's  *)
(*                       URL has no scheme)                                                 *)
(*   urls_first_host     in a list, the first item whose host matches decides: a later item *)
(*                       with the right path is never consulted                             *)
(*   endpoint_whole_url  the endpoint is compared with host+path, `*` is taken literally    *)
(*   header_malformed    "name=value" with no or two `=` is dropped silently                *)
(*   headers_shadowed    with `header` given, `headers` is not consulted                    *)
(*   range_unchecked     from > to or outside 100-599 is only logged, then compared as is   *)
EXTENDS ProcParamsP

FilterDevs == {"url_unanchored", "url_scheme_literal", "urls_first_host", "endpoint_whole_url",
               "header_malformed", "headers_shadowed", "range_unchecked"}

RegexMarks == {"^", "$", "[", "]", "(", ")", "{", "}", "|", "\\"}
IsRegexText(f) == Chars(f) \cap RegexMarks # {}
HasStar(f) == "*" \in Chars(f)

-----------------------------------------------------------------------------
(* F2 - one pattern f against the URL u (host+path as the gateway hands it over).          *)
(* Result: "hit" / "miss" = required by the texts; "fold" = pattern and URL differ only in   *)
(* the letter case of the URL or in a www. written in the pattern (the texts speak of the    *)
(* case of the pattern and of a www. of the URL only: either); "any" = a regular expression  *)
(* outside the sub-language of ProcText (either); "loose" = a miss by the texts that the     *)
(* loosest reading of the pattern (searched anywhere, `.` any character) would call a hit.   *)
UrlDoc(f, u) ==
    LET ff == StripScheme(f)
    IN IF IsRegexText(ff)
       THEN IF Chars(ff) \cap Unsupported # {} THEN "any"
            ELSE IF Find(Toks(LowerS(ff), 1), u) THEN "hit"
            ELSE IF Find(Toks(LowerS(ff), 1), LowerS(u)) THEN "fold" ELSE "miss"
       ELSE LET pf == SplitRaw(ff)
                pu == Split(u)
                hostOK == Full(GlobToks(LowerS(pf.host)), pu.host)
                pathOK == pf.path = <<>> \/ Full(GlobToks(LowerS(pf.path)), pu.path)
                hostFold == Full(GlobToks(LowerS(pf.host)), LowerS(pu.host))
                pathFold == pf.path = <<>> \/ Full(GlobToks(LowerS(pf.path)), LowerS(pu.path))
                loose == \/ Find(LooseToks(LowerS(ff)), LowerS(u))
                         \/ /\ \/ Find(LooseToks(LowerS(pf.host)), LowerS(pu.host))
                               \/ Find(LooseToks(LowerS(StripWww(pf.host))), LowerS(pu.host))
                            /\ (pf.path = <<>> \/ Find(LooseToks(LowerS(pf.path)), LowerS(pu.path)))
            IN IF hostOK /\ pathOK THEN "hit"
               ELSE IF hostFold /\ pathFold THEN "fold"
               ELSE IF Full(GlobToks(LowerS(StripWww(pf.host))), LowerS(pu.host)) /\ pathFold THEN "fold"
               ELSE IF loose THEN "loose" ELSE "miss"

\* an item that can stop the engine's walk over the list: host found, path not
HostOnly(f, u) ==
    LET ff == StripScheme(f) pf == Split(ff) pu == Split(u)
    IN ~IsRegexText(ff) /\ pf.path # <<>> /\ UrlDoc(f, u) # "hit"
       /\ Find(LooseToks(LowerS(pf.host)), LowerS(pu.host))

\* permitted outcomes of the url criterion (fs: sequence of patterns, non-empty)
UrlPermitted(fs, u, Dev) ==
    LET V == [i \in 1..Len(fs) |-> UrlDoc(fs[i], u)]
        hits == {i \in 1..Len(fs) : V[i] = "hit"}
    IN IF hits # {}
       THEN {"hit"}
            \cup (IF "url_scheme_literal" \in Dev /\ \A i \in hits : HasScheme(fs[i]) /\ ~HasStar(fs[i]) THEN {"miss"} ELSE {})
            \cup (IF "urls_first_host" \in Dev /\ \E i \in 1..Len(fs) : HostOnly(fs[i], u) THEN {"miss"} ELSE {})
       ELSE {"miss"}
            \cup (IF \E i \in 1..Len(fs) : V[i] \in {"fold", "any"} THEN {"hit"} ELSE {})
            \cup (IF "url_unanchored" \in Dev /\ \E i \in 1..Len(fs) : V[i] = "loose" THEN {"hit"} ELSE {})

-----------------------------------------------------------------------------
(* F3 / F4 / F5 / F6                                                                        *)
ListPermitted(xs, x) ==       \* x is one of xs; equal up to letter case: either
    IF \E i \in 1..Len(xs) : xs[i] = x THEN {"hit"}
    ELSE IF \E i \in 1..Len(xs) : EqFold(xs[i], x) THEN {"hit", "miss"} ELSE {"miss"}

EndpointPermitted(es, u, Dev) ==
    LET path == Split(u).path
        doc == IF \E i \in 1..Len(es) : es[i] = <<"*">> THEN {"hit"}
               ELSE IF path = <<>> THEN {"hit", "miss"}        \* (a call without any path: the texts do not say)
               ELSE ListPermitted(es, path)
    IN doc \cup (IF "endpoint_whole_url" \in Dev
                 THEN {"miss"} \cup (IF \E i \in 1..Len(es) : EqFold(es[i], u) THEN {"hit"} ELSE {})
                 ELSE {})

\* hs: configured <<name, value>> pairs, H: the headers of the transaction side (set of <<name, value>>, names lower-case)
HeaderPermitted(hs, H) ==
    LET one(p) == IF \E q \in H : EqFold(q[1], p[1]) /\ q[2] = p[2] THEN "hit"
                  ELSE IF \E q \in H : EqFold(q[1], p[1]) /\ EqFold(q[2], p[2]) THEN "fold" ELSE "miss"
        V == {one(hs[i]) : i \in 1..Len(hs)}
    IN IF "hit" \in V THEN {"hit"} ELSE IF "fold" \in V THEN {"hit", "miss"} ELSE {"miss"}

StatusPermitted(rng, st) == IF rng[1] <= st /\ st <= rng[2] THEN {"hit"} ELSE {"miss"}
RangeValid(rng) == 100 <= rng[1] /\ rng[1] <= rng[2] /\ rng[2] <= 599

-----------------------------------------------------------------------------
(* The effective configuration of a Filter:                                                 *)
(*   [urls, eps, methods: sequences of texts, hdrs: sequence of <<name, value>>,            *)
(*    rng: <<from, to>> or <<0, 0>> = no range]                                             *)
(* A transaction side: [dir: "request"|"response", m, url: texts, h: set of pairs, st]      *)
Criteria(c, x, Dev) ==
    (IF Len(c.urls) > 0 /\ x.url # <<>> THEN {UrlPermitted(c.urls, x.url, Dev)} ELSE {})
    \cup (IF Len(c.eps) > 0 /\ x.url # <<>> THEN {EndpointPermitted(c.eps, x.url, Dev)} ELSE {})
    \cup (IF Len(c.methods) > 0 /\ x.m # <<>> THEN {ListPermitted(c.methods, x.m)} ELSE {})
    \cup (IF Len(c.hdrs) > 0 THEN {HeaderPermitted(c.hdrs, x.h)} ELSE {})
    \cup (IF c.rng # <<0, 0>> /\ x.dir = "response" THEN {StatusPermitted(c.rng, x.st)} ELSE {})

\* F1: hit iff every consulted criterion is satisfied
FilterPermitted(c, x, Dev) ==
    LET Cs == Criteria(c, x, Dev)
    IN (IF \A S \in Cs : "hit" \in S THEN {"hit"} ELSE {})
       \cup (IF \E S \in Cs : "miss" \in S THEN {"miss"} ELSE {})

HasCriteria(c) == Len(c.urls) > 0 \/ Len(c.eps) > 0 \/ Len(c.methods) > 0 \/ Len(c.hdrs) > 0 \/ c.rng # <<0, 0>>
-----------------------------------------------------------------------------
(* From the written parameters to the effective configurations (L1-L4 of ProcParamsP, F7). *)
Single(s) == IF s = <<>> THEN <<>> ELSE <<s>>
\* "name=value": exactly one "=", both sides non-empty
HeaderTextOK(s) == Count(s, "=") = 1 /\ IndexOf(s, "=") > 1 /\ IndexOf(s, "=") < Len(s)
HeaderPair(s) == <<Take(s, IndexOf(s, "=") - 1), Drop(s, IndexOf(s, "="))>>
\* "from-to": two numbers
RangeTextOK(s) == /\ Count(s, "-") = 1 /\ IndexOf(s, "-") > 1 /\ IndexOf(s, "-") < Len(s)
                  /\ IsNumber(Take(s, IndexOf(s, "-") - 1)) /\ IsNumber(Drop(s, IndexOf(s, "-")))
RangeOf(s) == <<NumVal(Take(s, IndexOf(s, "-") - 1)), NumVal(Drop(s, IndexOf(s, "-")))>>

FV(par, p) == Val("Filter", par, p)
\* `url` wins over `urls` when both are written (the texts do not say; spaces of this check write one of them)
ListOf(par, one, many) == IF AsStr(FV(par, one)) # <<>> THEN <<AsStr(FV(par, one))>> ELSE AsSList(FV(par, many))

FilterHeaderText(par) == AsStr(FV(par, "header"))
FilterRangeText(par) == AsStr(FV(par, "status_code_range"))

FilterConfigs(par, Dev) ==
    LET ht == FilterHeaderText(par)
        one == IF ht # <<>> /\ HeaderTextOK(ht) THEN <<HeaderPair(ht)>> ELSE <<>>
        many == AsSMap(FV(par, "headers"))
        hdrsets == IF ht = <<>> THEN {many}
                   ELSE {one \o many} \cup (IF "headers_shadowed" \in Dev \/ many = <<>> THEN {one} ELSE {})
        rt == FilterRangeText(par)
        rng == IF rt # <<>> /\ RangeTextOK(rt) THEN RangeOf(rt) ELSE <<0, 0>>
    IN {[urls |-> ListOf(par, "url", "urls"), eps |-> ListOf(par, "endpoint", "endpoints"),
         methods |-> ListOf(par, "method", "methods"), hdrs |-> h, rng |-> rng] : h \in hdrsets}

\* F7 (+ L1): must be refused
FilterMustReject(par, Dev) ==
    \/ GenericMustReject("Filter", par)
    \/ (FilterRangeText(par) # <<>> /\ ~RangeTextOK(FilterRangeText(par)))
    \/ \A c \in FilterConfigs(par, Dev) : ~HasCriteria(c) \/ (c.rng # <<0, 0>> /\ ~RangeValid(c.rng) /\ ~HasCriteria([c EXCEPT !.rng = <<0, 0>>]))
\* may be refused (L4; a malformed header text; an impossible range)
FilterMayReject(par, Dev) ==
    \/ FilterMustReject(par, Dev) \/ GenericFaulty("Filter", par)
    \/ (FilterHeaderText(par) # <<>> /\ ~HeaderTextOK(FilterHeaderText(par)))
    \/ \E c \in FilterConfigs(par, Dev) : c.rng # <<0, 0>> /\ ~RangeValid(c.rng)
FilterMayLoad(par, Dev) ==
    /\ ~FilterMustReject(par, Dev) /\ GenericMayLoad("Filter", par, Dev)
    /\ (FilterHeaderText(par) = <<>> \/ HeaderTextOK(FilterHeaderText(par)) \/ "header_malformed" \in Dev)
    /\ \A c \in FilterConfigs(par, Dev) : c.rng = <<0, 0>> \/ RangeValid(c.rng) \/ "range_unchecked" \in Dev
=============================================================================
