---------------------------- MODULE ProcFilterI ----------------------------
(* X06 - the Filter processor as the engine computes it: a transcription of                *)
(* filter-processor/filter_processor.go (init, Execute, checkURLCondition, isFieldMatched), *)
(* processors/utils (ContainsRegexPattern, ExtractDomainAndPath, ExtractKeyValuePair) and   *)
(* the parameter plumbing of processor_util.go / public-types/stream.go.                    *)
(* Bug names a deliberately wrong variant (non-vacuity of the conformance check).           *)
EXTENDS ProcFilterP, ProcBug


\* ---- parameters: every declared parameter is present (written value or declared default); a value of another type reads as zero
IFV(par, p) == IF p \in Given(par) THEN par[p] ELSE Decl("Filter")[p].def
IList(par, one, many) == IF AsStr(IFV(par, one)) # <<>> THEN <<AsStr(IFV(par, one))>> ELSE AsSList(IFV(par, many))

\* strings.Split(s, "=") must give two parts; both non-empty to be kept
IHeader(par) ==
    LET s == AsStr(IFV(par, "header"))
    IN IF s # <<>>
       THEN IF Count(s, "=") = 1 /\ IndexOf(s, "=") > 1 /\ IndexOf(s, "=") < Len(s) THEN <<HeaderPair(s)>> ELSE <<>>
       ELSE AsSMap(IFV(par, "headers"))

IRangeText(par) == AsStr(IFV(par, "status_code_range"))
\* strings.Split(s, "-") into two parts, strconv.Atoi of each
IRangeOK(s) == /\ Count(s, "-") = 1
               /\ IsNumber(Take(s, IndexOf(s, "-") - 1)) /\ IsNumber(Drop(s, IndexOf(s, "-")))

IConfig(par) ==
    [urls |-> IList(par, "url", "urls"), eps |-> IList(par, "endpoint", "endpoints"),
     methods |-> IList(par, "method", "methods"), hdrs |-> IHeader(par),
     rng |-> IF IRangeText(par) # <<>> /\ IRangeOK(IRangeText(par)) THEN RangeOf(IRangeText(par)) ELSE <<0, 0>>]

\* isValidStatusCode
IRangeValid(rng) == rng[1] <= rng[2] /\ 100 <= rng[1] /\ rng[2] <= 599

\* [ok: the flow loads, c: the configuration the processor runs with] (extractProcessorParameters never refuses a
\* Filter: nothing is required; undeclared parameters are not looked at)
FilterEngLoad(par) ==
    LET c == IConfig(par)
    IN [ok |-> /\ ~(IRangeText(par) # <<>> /\ ~IRangeOK(IRangeText(par)))
               /\ ~(Len(c.urls) = 0 /\ Len(c.eps) = 0 /\ Len(c.methods) = 0 /\ Len(c.hdrs) = 0 /\ ~IRangeValid(c.rng)),
        c |-> c]

\* ---- Execute
IRegexSpecials == {"\\", ".", "+", "*", "?", "(", ")", "|", "[", "]", "{", "}", "^", "$"}
\* utils.ContainsRegexPattern
IContainsRegex(s) ==
    IF "*" \in Chars(s) /\ Chars(s) \cap {"^", "$", "[", "]", "(", ")", "{", "}", "|", "\\"} = {} THEN FALSE
    ELSE Chars(s) \cap IRegexSpecials # {}

\* regexp.MatchString(pattern, input); a pattern that does not compile matches nothing
IRegexMatch(p, s) == IF Chars(p) \cap Unsupported # {} THEN FALSE ELSE Find(Toks(p, 1), s)

\* isFieldMatched
IFieldMatched(f, x) ==
    \/ EqFold(f, x)
    \/ IF "*" \in Chars(f) /\ ~IContainsRegex(f) THEN Find(GlobToks(f), x) ELSE IRegexMatch(f, x)

\* utils.ExtractDomainAndPath on the sub-language of this specification: [scheme://]host[/path]
ISplit(s) == Split(s)

RECURSIVE IUrlLoop(_, _, _)
IUrlLoop(fs, i, u) ==
    IF i > Len(fs) THEN "miss"
    ELSE LET f == LowerS(fs[i]) IN
         IF IFieldMatched(f, u) THEN "hit"
         ELSE IF ~IContainsRegex(f)
              THEN LET pf == ISplit(f) pu == ISplit(u) IN
                   IF IFieldMatched(pf.host, pu.host)
                   THEN IF pf.path # <<>> /\ ~IFieldMatched(pf.path, pu.path)
                        THEN (IF Bug = "url_list_any" THEN IUrlLoop(fs, i + 1, u) ELSE "miss")
                        ELSE "hit"
                   ELSE IUrlLoop(fs, i + 1, u)
              ELSE IUrlLoop(fs, i + 1, u)

IStrArray(xs, x) == IF \E i \in 1..Len(xs) : EqFold(xs[i], x) THEN "hit" ELSE "miss"

\* DoesHeaderValueMatch: the name is looked up in lower case, values compared without regard to case
IHeaders(hs, H) ==
    LET ok(p) == \E q \in H : q[1] = LowerS(p[1]) /\ EqFold(q[2], p[2])
    IN IF Bug = "header_all"
       THEN (IF \A i \in 1..Len(hs) : ok(hs[i]) THEN "hit" ELSE "miss")
       ELSE (IF \E i \in 1..Len(hs) : ok(hs[i]) THEN "hit" ELSE "miss")

IStatus(rng, st) ==
    IF Bug = "status_exclusive" THEN (IF rng[1] < st /\ st < rng[2] THEN "hit" ELSE "miss")
    ELSE (IF rng[1] <= st /\ st <= rng[2] THEN "hit" ELSE "miss")

\* getEndpoint: url.Parse(host+path).Path - without a scheme the whole text is the path
IEndpoint(u) == u

FilterEng(c, x) ==
    LET conds ==
          (IF Len(c.methods) > 0 /\ x.m # <<>> THEN {IStrArray(c.methods, x.m)} ELSE {})
          \cup (IF Len(c.eps) > 0 /\ IEndpoint(x.url) # <<>> THEN {IStrArray(c.eps, IEndpoint(x.url))} ELSE {})
          \cup (IF Len(c.urls) > 0 /\ x.url # <<>> THEN {IUrlLoop(c.urls, 1, x.url)} ELSE {})
          \cup (IF Len(c.hdrs) > 0 THEN {IHeaders(c.hdrs, x.h)} ELSE {})
          \cup (IF x.dir = "response" /\ c.rng # <<0, 0>> THEN {IStatus(c.rng, x.st)} ELSE {})
    IN IF Bug = "any_criterion" THEN (IF "hit" \in conds \/ conds = {} THEN "hit" ELSE "miss")
       ELSE IF "miss" \in conds THEN "miss" ELSE "hit"
=============================================================================
