CONSTANTS
  Bug = "none"
  Tier = "large"
  Dev <- No_url_scheme_literal
SPECIFICATION Spec
INVARIANT Conf
CHECK_DEADLOCK FALSE
