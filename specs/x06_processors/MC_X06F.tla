------------------------------ MODULE MC_X06F ------------------------------
(* X06 - Filter processor: bounded input space, one TLC state per case [par, x]            *)
(*   par  the parameters as written in the flow file,  x  one side of a transaction.       *)
(* Conf: what the engine model (ProcFilterI) does - refuse the flow, or load it and take    *)
(* hit / miss - is permitted by the property (ProcFilterP) with the deviations Dev.         *)
(* The same module writes the case set, with the model's prediction, for the replay on the  *)
(* real processor (GenInit).                                                                *)
EXTENDS ProcFilterI, Json, SequencesExt

CONSTANTS Dev,        \* deviations accepted by the property in this run
          Tier        \* "quick" | "large": size of the URL family

AllDev == FilterDevs \cup ParamDevs

NoDev == {}
No_url_unanchored == AllDev \ {"url_unanchored"}
No_url_scheme_literal == AllDev \ {"url_scheme_literal"}
No_urls_first_host == AllDev \ {"urls_first_host"}
No_endpoint_whole_url == AllDev \ {"endpoint_whole_url"}
No_header_malformed == AllDev \ {"header_malformed"}
No_headers_shadowed == AllDev \ {"headers_shadowed"}
No_range_unchecked == AllDev \ {"range_unchecked"}
No_type_error_silent == AllDev \ {"type_error_silent"}
No_unknown_param_ignored == AllDev \ {"unknown_param_ignored"}

\* ---- texts
at == <<"a", ".", "t">>
xat == <<"x", "a", ".", "t">>
atx == <<"a", ".", "t", "x">>
bt == <<"b", ".", "t">>
sat == <<"s", ".", "a", ".", "t">>
wat == <<"w", "w", "w", ".", "a", ".", "t">>
AT == <<"A", ".", "T">>
axt == <<"a", "x", "t">>
P_p == <<"/", "p">>
P_pq == <<"/", "p", "q">>
P_p_q == <<"/", "p", "/", "q">>
P_q == <<"/", "q">>
P_q_p == <<"/", "q", "/", "p">>
P_P == <<"/", "P">>
P_at == <<"/", "a", ".", "t">>
P_star == <<"/", "*">>
https == <<"h", "t", "t", "p", "s", ":", "/", "/">>
http == <<"h", "t", "t", "p", ":", "/", "/">>

Hosts(t) == {at, xat, bt, sat} \cup (IF t = "large" THEN {atx, wat, AT, axt} ELSE {wat, atx})
Paths(t) == {<<>>, P_p, P_pq, P_p_q, P_q, P_q_p} \cup (IF t = "large" THEN {P_P, P_at} ELSE {P_at})
Urls(t) == {h \o p : h \in Hosts(t), p \in Paths(t)}

Pats(t) ==
    {at, at \o P_p, at \o P_star, at \o P_p \o P_star, <<"*", ".">> \o at, <<"*", ".", "t">> \o P_p,
     at \o <<"/", "*">> \o P_q, https \o at \o P_star, https \o at \o P_p,
     <<"^", "a", "\\", ".", "t", "/", "p", "$">>, <<"[">> \o at, https \o wat \o P_star}
    \cup (IF t = "large"
          THEN {AT \o P_P, http \o at \o P_p, wat \o P_p, <<"*">>, <<"^", "a", "\\", ".", "t", "/", ".", "*", "$">>,
                <<"a", "\\", ".", "t">> \o P_p, bt, at \o P_q \o P_star, <<"^">> \o at \o <<"$">>}
          ELSE {})
PatLists(t) ==
    {<<p>> : p \in Pats(t)}
    \cup {<<at \o P_p \o P_star, at \o P_q \o P_star>>, <<bt \o P_star, at \o P_q \o P_star>>, <<at \o P_q, bt>>}
    \cup (IF t = "large" THEN {<<at \o P_q \o P_star, at \o P_p \o P_star>>, <<https \o at \o P_p, at \o P_p>>, <<xat, at \o P_p>>} ELSE {})

GET == <<"G", "E", "T">>
get == <<"g", "e", "t">>
POST == <<"P", "O", "S", "T">>
PUT == <<"P", "U", "T">>
xa == <<"x", "-", "a">>
XA == <<"X", "-", "A">>
xb == <<"x", "-", "b">>
one == <<"1">>
two == <<"2">>
One == <<"O", "n", "e">>
lone == <<"o", "n", "e">>
eq == <<"=">>

Req(m, u, H) == [dir |-> "request", reach |-> TRUE, m |-> m, url |-> u, h |-> H, st |-> 0]
Resp(m, u, H, st) == [dir |-> "response", reach |-> TRUE, m |-> m, url |-> u, h |-> H, st |-> st]

\* ---- families of cases
P1(k, v) == k :> v
UrlFamily(t) ==
    {[par |-> (IF Len(fs) = 1 THEN P1("url", VStr(fs[1])) ELSE P1("urls", VSList(fs))), x |-> Req(GET, u, {})] :
        fs \in PatLists(t), u \in Urls(t)}

MethodFamily ==
    {[par |-> p, x |-> Req(m, at \o P_p, {})] :
        p \in {P1("method", VStr(GET)), P1("method", VStr(get)), P1("methods", VSList(<<GET, POST>>)), P1("methods", VSList(<<>>)),
               P1("method", VSList(<<GET>>)), P1("methods", VStr(GET)), P1("method", VInt(5))},
        m \in {GET, get, POST, PUT}}

EndpointFamily ==
    {[par |-> p, x |-> Req(GET, u, {})] :
        p \in {P1("endpoint", VStr(P_p)), P1("endpoint", VStr(<<"*">>)), P1("endpoint", VStr(at \o P_p)),
               P1("endpoints", VSList(<<P_p, P_q>>)), P1("endpoint", VStr(P_P))},
        u \in {at \o P_p, at \o P_q, bt \o P_p, at \o P_p_q, at}}

HdrSets == {{}, {<<xa, one>>}, {<<xa, two>>}, {<<xb, two>>}, {<<xa, lone>>}, {<<xa, one>>, <<xb, one>>}, {<<xa, two>>, <<xb, two>>}}
HeaderFamily ==
    {[par |-> p, x |-> Req(GET, at \o P_p, H)] :
        p \in {P1("header", VStr(xa \o eq \o one)), P1("header", VStr(XA \o eq \o One)), P1("header", VStr(xa)),
               P1("header", VStr(xa \o eq \o one \o eq \o two)), P1("header", VStr(eq \o one)),
               P1("headers", VSMap(<<<<xa, one>>, <<xb, two>>>>)), P1("headers", VSMap(<<>>)),
               P1("header", VStr(xa \o eq \o one)) @@ P1("headers", VSMap(<<<<xb, two>>>>)),
               P1("headers", VStr(xa \o eq \o one)), P1("header", VSMap(<<<<xa, one>>>>)),
               P1("header", VStr(xa)) @@ P1("method", VStr(GET)),
               P1("header", VStr(xa \o eq \o one)) @@ P1("body", VStr(one)), P1("body", VStr(one))},
        H \in HdrSets}

r200_299 == <<"2", "0", "0", "-", "2", "9", "9">>
r404 == <<"4", "0", "4", "-", "4", "0", "4">>
r299_200 == <<"2", "9", "9", "-", "2", "0", "0">>
r600_700 == <<"6", "0", "0", "-", "7", "0", "0">>
r200 == <<"2", "0", "0">>
r2xx == <<"2", "x", "x", "-", "3", "0", "0">>
StatusFamily ==
    {[par |-> p, x |-> x] :
        p \in {P1("status_code_range", VStr(r200_299)), P1("status_code_range", VStr(r404)), P1("status_code_range", VStr(r299_200)),
               P1("status_code_range", VStr(r600_700)), P1("status_code_range", VStr(r200)), P1("status_code_range", VStr(r2xx)),
               P1("status_code_range", VInt(200)),
               P1("status_code_range", VStr(r299_200)) @@ P1("method", VStr(GET)),
               P1("status_code_range", VStr(r600_700)) @@ P1("method", VStr(GET)),
               P1("status_code_range", VInt(200)) @@ P1("method", VStr(GET)),
               P1("status_code_range", VStr(r200_299)) @@ P1("method", VStr(GET))},
        x \in {Req(GET, at \o P_p, {})} \cup {Resp(m, at \o P_p, {}, st) : m \in {GET, PUT}, st \in {199, 200, 250, 299, 300, 404, 650}}}

\* F1: several criteria at once
ComboFamily ==
    {[par |-> p, x |-> x] :
        p \in {P1("method", VStr(GET)) @@ P1("url", VStr(at \o P_star)),
               P1("url", VStr(at \o P_star)) @@ P1("header", VStr(xa \o eq \o one)),
               P1("methods", VSList(<<GET, POST>>)) @@ P1("headers", VSMap(<<<<xa, one>>, <<xb, two>>>>)) @@ P1("urls", VSList(<<at \o P_p, bt>>)),
               P1("endpoint", VStr(at \o P_p)) @@ P1("method", VStr(GET))},
        x \in {Req(m, u, H) : m \in {GET, PUT}, u \in {at \o P_p, bt \o P_p, xat \o P_q}, H \in {{}, {<<xa, one>>}}}}

Cases(t) == UNION {UrlFamily(t), MethodFamily, EndpointFamily, HeaderFamily, StatusFamily, ComboFamily}

-----------------------------------------------------------------------------
VARIABLE cs
Init == cs \in Cases(Tier)
Next == UNCHANGED cs
Spec == Init /\ [][Next]_cs

Load(x) == FilterEngLoad(x.par)
Out(x) == FilterEng(Load(x).c, x.x)

ConfOf(x, DD) ==
    IF ~Load(x).ok THEN FilterMayReject(x.par, DD)
    ELSE /\ FilterMayLoad(x.par, DD)
         /\ \E cf \in FilterConfigs(x.par, DD) : Out(x) \in FilterPermitted(cf, x.x, DD)
Conf == ConfOf(cs, Dev)

\* reachability witnesses: the space holds hits, misses, refused flows and sides the texts leave open (checked at start-up of
\* every run of the model as it is; a missing witness makes the run fail)
WitAll == /\ \E x \in Cases(Tier) : Load(x).ok /\ Out(x) = "hit"
          /\ \E x \in Cases(Tier) : Load(x).ok /\ Out(x) = "miss"
          /\ \E x \in Cases(Tier) : ~Load(x).ok
          /\ \E x \in Cases(Tier) : Load(x).ok /\ \E cf \in FilterConfigs(x.par, AllDev) : FilterPermitted(cf, x.x, AllDev) = {"hit", "miss"}
          /\ \E x \in Cases(Tier) : Load(x).ok /\ x.x.dir = "response" /\ Out(x) = "hit"
ASSUME Bug = "none" => WitAll

-----------------------------------------------------------------------------
\* spec -> code: the case set as JSON (sets as arrays) with the model's prediction
RECURSIVE SetSeq(_)
SetSeq(X) == IF X = {} THEN <<>> ELSE LET y == CHOOSE z \in X : TRUE IN <<y>> \o SetSeq(X \ {y})

GenCase(x) == [par |-> x.par, x |-> [x.x EXCEPT !.h = SetSeq(x.x.h)],
               load |-> IF Load(x).ok THEN "ok" ELSE "reject",
               out |-> IF Load(x).ok THEN Out(x) ELSE "none"]
GenInit == /\ cs = [par |-> <<>>, x |-> <<>>]
           /\ LET sq == SetToSeq(Cases(Tier)) IN JsonSerialize("gen_cases_filter.json", [cases |-> [i \in 1..Len(sq) |-> GenCase(sq[i])]])
           /\ PrintT(<<"GEN-CASES", Cardinality(Cases(Tier))>>)
=============================================================================
