CONSTANTS
  Bug = "none"
  Tier = "quick"
  Dev <- AllDev
INIT GenInit
NEXT Next
CHECK_DEADLOCK FALSE
