CONSTANTS
  Bug = "none"
  Tier = "quick"
  Dev <- No_unknown_param_ignored
SPECIFICATION Spec
INVARIANT Conf
CHECK_DEADLOCK FALSE
