---------------------------- MODULE ProcMetricsP ----------------------------
(* X06 - UserDefinedMetrics: what a flow author relies on.                                  *)
(* registry/user_defined_metrics_processor.yaml: "A processor that calculates and exposes   *)
(* user-defined metrics according to the provided configuration"; metric_name "The name for *)
(* the metric which will be exposed" (required); metric_type "either 'counter',             *)
(* 'up_down_counter', 'gauge' or 'histogram'. If not provided - will be simple counter";    *)
(* metric_value "The value to be calculated for the metric. This can be a custom JSON path  *)
(* to extract a value from the call's body or headers (e.g. `$.request.body.errors.count`). *)
(* If not provided, will be simple counter"; custom_metric_labels "Map of custom label      *)
(* name/value pairs ... Value can be taken from headers"; labels "http_method, url,         *)
(* status_code, consumer_tag, or host"; buckets "List of bucket values for the histogram";  *)
(* user_defined_metrics_processor.go: metricPrefix "lunar_", api_call_count, api_call_size; *)
(* flows_traffic_metrics.feature.                                                           *)
(*  U1  the processor never alters the transaction: it hands back no action and the walk     *)
(*      goes on to the next processor;                                                      *)
(*  U2  every transaction side that passes it moves the exposed metric lunar_<metric_name>  *)
(*      of the series named by the configured labels by the configured value: 1 without     *)
(*      metric_value (or api_call_count), the size of the call for api_call_size, the       *)
(*      number found at the JSON path; counter / up_down_counter add it, gauge shows the    *)
(*      last one, histogram counts it into its buckets;                                     *)
(*  U3  nothing else moves the metric; an unknown metric_type is refused at load.           *)
(* The texts do not say what happens when the path is absent or holds no number: no change  *)
(* of the metric is required then; a text holding a number may or may not be counted.       *)
(* DEVIATION (named): metric_error_aborts_flow - when the value cannot be read the whole     *)
(*      flow execution fails: no later processor of the transaction runs (U1 broken).        *)
EXTENDS ProcParamsP

MetricsDevs == {"metric_error_aborts_flow"}

MV(par, p) == Val("UserDefinedMetrics", par, p)

PfxReqBody == <<"$", ".", "r", "e", "q", "u", "e", "s", "t", ".", "b", "o", "d", "y", ".">>
PfxRespBody == <<"$", ".", "r", "e", "s", "p", "o", "n", "s", "e", ".", "b", "o", "d", "y", ".">>
PfxReqHdr == <<"$", ".", "r", "e", "q", "u", "e", "s", "t", ".", "h", "e", "a", "d", "e", "r", "s", ".">>
SimpleName(s) == s # <<>> /\ Chars(s) \cap {".", "[", "]", "$", "*", "-"} = {}

\* a JSON path of the family this specification reads; anything else is opaque (nothing is required of it)
PathOf(s) ==
    IF HasPrefix(s, PfxReqBody) /\ SimpleName(Drop(s, Len(PfxReqBody))) THEN [src |-> "path", side |-> "request", sec |-> "body", field |-> Drop(s, Len(PfxReqBody))]
    ELSE IF HasPrefix(s, PfxRespBody) /\ SimpleName(Drop(s, Len(PfxRespBody))) THEN [src |-> "path", side |-> "response", sec |-> "body", field |-> Drop(s, Len(PfxRespBody))]
    ELSE IF HasPrefix(s, PfxReqHdr) /\ SimpleName(Drop(s, Len(PfxReqHdr))) THEN [src |-> "path", side |-> "request", sec |-> "headers", field |-> Drop(s, Len(PfxReqHdr))]
    ELSE [src |-> "opaque", side |-> "", sec |-> "", field |-> <<>>]

ValueOf(s) == LET n == Join(LowerS(s)) IN
              IF s = <<>> \/ n = "api_call_count" THEN [src |-> "count", side |-> "", sec |-> "", field |-> <<>>]
              ELSE IF n = "api_call_size" THEN [src |-> "size", side |-> "", sec |-> "", field |-> <<>>]
              ELSE PathOf(s)

MetricTypes == {"counter", "gauge", "up_down_counter", "histogram"}
TypeOfText(s) == IF s = <<>> THEN "counter" ELSE Join(s)

MetricsConfigs(par, Dev) ==
    LET m == AsSMap(MV(par, "custom_metric_labels")) IN
    {[name |-> AsStr(MV(par, "metric_name")), type |-> TypeOfText(AsStr(MV(par, "metric_type"))),
      value |-> ValueOf(AsStr(MV(par, "metric_value"))),
      labels |-> {Join(AsSList(MV(par, "labels"))[i]) : i \in 1..Len(AsSList(MV(par, "labels")))},
      clabels |-> {<<Join(m[i][1]), PathOf(m[i][2])>> : i \in 1..Len(m)},
      buckets |-> AsNList(MV(par, "buckets"))]}

MetricsMustReject(par, Dev) ==
    \/ GenericMustReject("UserDefinedMetrics", par)
    \/ \A c \in MetricsConfigs(par, Dev) : c.type \notin MetricTypes                          \* U3
MetricsMayReject(par, Dev) == MetricsMustReject(par, Dev) \/ GenericFaulty("UserDefinedMetrics", par)
MetricsMayLoad(par, Dev) == ~MetricsMustReject(par, Dev) /\ GenericMayLoad("UserDefinedMetrics", par, Dev)

-----------------------------------------------------------------------------
(* x: [dir, reach, m, url: texts, st, size: numbers, body: set of <<field text, value>> with value [t: "n", n] (a        *)
(*     number) | [t: "s", s] (a text) | [t: "b"] (a boolean), h: set of <<name, value>>]                                 *)
Field(x, sec, f) == IF sec = "body" THEN {p[2] : p \in {q \in x.body : q[1] = f}}
                    ELSE {[t |-> "s", s |-> p[2]] : p \in {q \in x.h : q[1] = f}}

\* [must: the value has to be counted, vals: the values that may be counted]
Reading(c, x) ==
    CASE c.value.src = "count" -> [must |-> TRUE, vals |-> {1}]
      [] c.value.src = "size" -> [must |-> TRUE, vals |-> {x.size}]
      [] c.value.src = "opaque" -> [must |-> FALSE, vals |-> {}]
      [] OTHER -> IF c.value.side # x.dir THEN [must |-> FALSE, vals |-> {}]
                  ELSE LET F == Field(x, c.value.sec, c.value.field) IN
                       IF \E v \in F : v.t = "n" THEN [must |-> TRUE, vals |-> {v.n : v \in {w \in F : w.t = "n"}}]
                       ELSE [must |-> FALSE, vals |-> {NumVal(v.s) : v \in {w \in F : w.t = "s" /\ IsNumber(w.s)}}]

RECURSIVE Digits(_)
Digits(n) == IF n < 10 THEN <<CASE n = 0 -> "0" [] n = 1 -> "1" [] n = 2 -> "2" [] n = 3 -> "3" [] n = 4 -> "4"
                                   [] n = 5 -> "5" [] n = 6 -> "6" [] n = 7 -> "7" [] n = 8 -> "8" [] OTHER -> "9">>
             ELSE Digits(n \div 10) \o Digits(n % 10)

\* the series a transaction side belongs to: a label is present when it has a value
SeriesOf(c, x) ==
    {<<"http_method", x.m>> : l \in c.labels \cap {"http_method"}}
    \cup {<<"url", x.url>> : l \in c.labels \cap {"url"}}
    \cup {<<"status_code", Digits(x.st)>> : l \in {k \in c.labels \cap {"status_code"} : x.dir = "response"}}
    \cup UNION {{<<cl[1], v.s>> : v \in {w \in Field(x, cl[2].sec, cl[2].field) : w.t = "s" /\ cl[2].side = x.dir}} : cl \in c.clabels}

(* observation of one side:  [cont (the next processor ran), err (the flow execution failed), same (no action, the     *)
(* transaction goes on as it came)];  acc: series -> sequence of the values counted so far                             *)
MetricsStep(c, acc, x, o, Dev) ==       \* the set of accumulators after this side (empty = not permitted)
    LET r == Reading(c, x)
        key == SeriesOf(c, x)
        add(v) == [k \in DOMAIN acc \cup {key} |-> IF k = key THEN (IF k \in DOMAIN acc THEN acc[k] ELSE <<>>) \o <<v>> ELSE acc[k]]
    IN IF ~x.reach THEN (IF o.same /\ ~o.err THEN {acc} ELSE {})
       ELSE IF ~o.same THEN {}                                                                  \* U1
       ELSE IF o.err THEN (IF ~r.must /\ "metric_error_aborts_flow" \in Dev THEN {acc} ELSE {})
       ELSE IF ~o.cont THEN {}                                                                  \* U1
       ELSE {add(v) : v \in r.vals} \cup (IF r.must THEN {} ELSE {acc})                         \* U2

\* samples: set of [labels: set of <<name, value text>>, v, count, sum] of the family lunar_<name>
RECURSIVE Sum(_)
Sum(s) == IF s = <<>> THEN 0 ELSE s[Len(s)] + Sum(Take(s, Len(s) - 1))
\* (the exposition is read as the difference to what the process-wide registry held before the engine was built: a counter
\*  series that only ever counted 0 cannot be told from an absent one and need not be shown)
Silent(c, s) == c.type \in {"counter", "up_down_counter"} /\ Sum(s) = 0
MetricsShown(c, acc, samples) ==
    /\ \A k \in DOMAIN acc : (acc[k] # <<>> /\ ~Silent(c, acc[k])) =>
         \E s \in samples : /\ s.labels = k
                            /\ CASE c.type \in {"counter", "up_down_counter"} -> s.v = Sum(acc[k])
                                 [] c.type = "gauge" -> s.v = acc[k][Len(acc[k])]
                                 [] OTHER -> s.count = Len(acc[k]) /\ s.sum = Sum(acc[k])
    /\ \A s \in samples : s.labels \in DOMAIN acc /\ acc[s.labels] # <<>>                       \* U3
=============================================================================
