CONSTANTS
  Bug = "none"
  Tier = "quick"
  Dev <- No_scrub_stops_after_overlap
SPECIFICATION Spec
INVARIANT Conf
CHECK_DEADLOCK FALSE
