---------------------------- MODULE ProcSanitI ----------------------------
(* X06 - DataSanitation as the engine computes it: data_sanitation_processor.go (init,      *)
(* convertToEntities, Execute) over github.com/aavaz-ai/pii-scrubber ScrubTexts, at the      *)
(* level of tokens: every occurrence used by this check is found by the pattern of its own   *)
(* entity; the Phone pattern also finds two pieces inside a credit-card number written with  *)
(* separators and the whole of an IP address / SSN.  ScrubTexts: (1) all matches of the       *)
(* blocklisted entities, sorted by start (longer first); (2) "make intervals non             *)
(* overlapping" compares each interval with its predecessor IN THE SORTED LIST, also when     *)
(* that predecessor was dropped: the second phone piece inside a card number survives next   *)
(* to the card interval; (3) intervals touching a match of an ignored entity are removed;     *)
(* (4) the text is rewritten left to right, an interval is applied only when the cursor       *)
(* stands exactly on its start: the surviving inner piece is never reached and blocks every   *)
(* later interval.                                                                            *)
EXTENDS ProcSanitP, ProcBug

SanIVal(par, p) == IF p \in Given(par) THEN par[p] ELSE Decl("DataSanitation")[p].def
SanEngLoad(par) ==
    [ok |-> TRUE,
     c |-> [block |-> KindsOf(AsSList(SanIVal(par, "blocklisted_entities"))) \cap SanKinds,
            ign |-> IF Bug = "san_ignore_ignored" THEN {} ELSE KindsOf(AsSList(SanIVal(par, "ignored_entities"))) \cap SanKinds]]

PhoneAlso == {"creditcard", "ip", "ssn"}

RECURSIVE SanWalk(_, _, _, _)
\* toks[i..] with the rewrite cursor blocked or not
SanWalk(c, toks, i, stuck) ==
    IF i > Len(toks) THEN <<>>
    ELSE LET k == toks[i]
             own == k \in c.block
             ph == "phone" \in c.block /\ k \in PhoneAlso
             ignored == k \in c.ign \/ ("phone" \in c.ign /\ k \in PhoneAlso)
             res == IF k = "plain" \/ stuck \/ ignored THEN "kept"
                    ELSE IF own THEN "masked"
                    ELSE IF ph THEN (IF k = "creditcard" THEN "other" ELSE "masked")
                    ELSE "kept"
             blocks == ~stuck /\ ~ignored /\ k = "creditcard" /\ own /\ ph /\ Bug # "san_no_stall"
         IN <<res>> \o SanWalk(c, toks, i + 1, stuck \/ blocks)

SanEngObs(c, x) ==
    [ran |-> x.reach,
     toks |-> IF x.reach THEN SanWalk(c, x.toks, 1, FALSE) ELSE [i \in 1..Len(x.toks) |-> "kept"],
     frame |-> TRUE, after |-> x.reach]
=============================================================================
