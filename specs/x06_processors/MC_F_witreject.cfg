CONSTANTS
  Bug = "none"
  Tier = "quick"
  Dev <- AllDev
SPECIFICATION Spec
INVARIANT WitReject
CHECK_DEADLOCK FALSE
