CONSTANTS
  Bug = "san_no_stall"
  Tier = "quick"
  Dev <- AllDev
SPECIFICATION Spec
INVARIANT Conf
CHECK_DEADLOCK FALSE
