CONSTANTS
  Bug = "none"
  Tier = "quick"
  Dev <- NoDev
SPECIFICATION Spec
INVARIANT Conf
CHECK_DEADLOCK FALSE
