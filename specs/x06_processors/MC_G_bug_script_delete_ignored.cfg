CONSTANTS
  Bug = "script_delete_ignored"
  Tier = "quick"
  Dev <- AllDev
SPECIFICATION Spec
INVARIANT Conf
CHECK_DEADLOCK FALSE
