CONSTANTS
  Bug = "none"
  Tier = "quick"
  Dev <- No_ignored_unmasks_overlap
SPECIFICATION Spec
INVARIANT Conf
CHECK_DEADLOCK FALSE
