-------------------------------- MODULE PinP --------------------------------
(* C11 - a transaction sees one policy version from request to response: property spec (P).    *)
(*                                                                                             *)
(* Observable events:                                                                          *)
(*   lookup(x, r, c)      the policies of transaction x were asked for (at request time, at     *)
(*                        response time, by the diagnosis worker: the same call) and version r  *)
(*                        with content c was returned                                          *)
(*   update(op, L, ...)   apply / reload / fail-safe revert installed a new current version     *)
(*   advance(d)           time passes                                                           *)
(* plus the observed set of versions the gateway still holds (`retained`).                     *)
(*                                                                                             *)
(*   Pinned    a lookup of x not later than TTL after x was first seen returns the version that *)
(*             was current when x was first seen                                                *)
(*   Fresh     a transaction that is not known gets the current version (so transactions that   *)
(*             start after a reload use the new one), whose content is what was installed      *)
(*   Retained  a version is held as long as a transaction pinned to it is within its TTL       *)
(* After the TTL the statement demands nothing for x any more: the gateway may still answer    *)
(* with the pinned version, or with the current one - having forgotten x (then x counts as     *)
(* first seen again) or not.  P keeps, per transaction, the set of hypotheses <<version, first  *)
(* seen at>> that explain the answers so far; an answer is allowed iff one of them explains it. *)
EXTENDS Integers, Sequences, FiniteSets

CONSTANTS TTL

VARIABLES
    now,        \* seconds
    cur,        \* current version id
    content,    \* [version id -> <<label, diagnosis-free>>]  every version ever installed
    loaded,     \* labels the configuration last loaded from the policies file may have (what the reverts restore);
                \* one label, or two after a reload that failed after reading the file
    retained,   \* version ids the gateway holds (observed)
    hyp,        \* [transaction -> set of hypotheses]; NoneH = not known to the gateway
    last

pvars == <<now, cur, content, loaded, retained, hyp, last>>

NoneH == <<0, 0>>
HypOf(x) == IF x \in DOMAIN hyp THEN hyp[x] ELSE {NoneH}

\* hypotheses after transaction x, explained by h so far, got version r; CS = the versions that were current at
\* some instant of the lookup ({cur} when lookups and updates do not overlap)
Explain(h, r, CS) ==
    IF h = NoneH THEN (IF r \in CS THEN {<<r, now>>} ELSE {})                          \* Fresh
    ELSE IF now - h[2] <= TTL THEN (IF r = h[1] THEN {h} ELSE {})                     \* Pinned
    ELSE (IF r = h[1] THEN {h} ELSE {}) \cup (IF r \in CS THEN {h, <<r, now>>} ELSE {})

AfterLookup(x, r, CS) == UNION {Explain(h, r, CS) : h \in HypOf(x)}

ObserveLookup(x, r, c, CS) ==
    /\ hyp' = [y \in DOMAIN hyp \cup {x} |-> IF y = x THEN AfterLookup(x, r, CS) ELSE hyp[y]]
    /\ last' = [ev |-> "lookup", txn |-> x, ver |-> r, c |-> c,
                ok |-> (r \in DOMAIN content /\ content[r] = c /\ AfterLookup(x, r, CS) # {})]
    /\ UNCHANGED <<now, cur, content, loaded>>

LookupCS(x, r, c, CS) ==
    /\ r \in DOMAIN content /\ content[r] = c
    /\ AfterLookup(x, r, CS) # {}
    /\ ObserveLookup(x, r, c, CS)

Lookup(x, r, c) == LookupCS(x, r, c, {cur})

\* content a successful update installs
ExpectedOK(op, L, c) ==
    CASE op = "apply"  -> c = <<L, FALSE>>
      [] op = "reload" -> c = <<L, FALSE>>
      [] op = "revdf"  -> c[2] = TRUE /\ c[1] \in loaded
      [] op = "revll"  -> c[2] = FALSE /\ c[1] \in loaded

\* a successful update installs a new current version with the expected content; a failed one (the proxy refused the
\* new endpoints) leaves the versions alone - a failed reload may or may not have replaced the loaded configuration
Update(op, L, ok, newcur, c) ==
    /\ IF ok
       THEN /\ newcur \notin DOMAIN content /\ newcur > cur
            /\ ExpectedOK(op, L, c)
            /\ cur' = newcur
            /\ content' = [v \in DOMAIN content \cup {newcur} |-> IF v = newcur THEN c ELSE content[v]]
            /\ loaded' = IF op = "reload" THEN {L} ELSE loaded
       ELSE /\ newcur = cur /\ UNCHANGED <<cur, content>>
            /\ loaded' = IF op = "reload" THEN loaded \cup {L} ELSE loaded
    /\ last' = [ev |-> "update", op |-> op, ok |-> TRUE]
    /\ UNCHANGED <<now, hyp>>

Advance(d) ==
    /\ now' = now + d
    /\ last' = [ev |-> "adv", d |-> d, ok |-> TRUE]
    /\ UNCHANGED <<cur, content, loaded, hyp>>

-------------------------------------------------------------------------------
\* every answer was allowed
Accepted == last.ok

\* observable form of Retained: whenever the hypotheses of x leave no doubt, the pinned version is held
Retained == \A x \in DOMAIN hyp : \A h \in hyp[x] :
                (hyp[x] = {h} /\ h # NoneH /\ now - h[2] <= TTL) => h[1] \in retained

CurrentHeld == cur \in retained
================================================================================
