-------------------------------- MODULE PinI --------------------------------
(* C11 - implementation-shaped specification of config/policies_accessor.go with               *)
(* toolkit-core/vacuum/map_vacuum.go, composed with the property monitor of PinP.              *)
(*                                                                                             *)
(*   L1(x)  getTxnPoliciesVersion: pin found, or (under the lock) pin := current version       *)
(*   L2(x)  ... then, outside the lock, txnVersionsVacuum.VacuumKey(x): entry <<x, now + TTL>>  *)
(*   L3(x)  policiesVersions[pin] under the read lock; not found -> the current version        *)
(*   U1     setNextVersion under the lock: current version++, map entry (update event)         *)
(*   U2     ... then, outside the lock, policiesVersionsVacuum.VacuumKey(previous version)     *)
(*   Adv(d) time passes; each vacuum passes every Tick seconds from its first key on and        *)
(*          removes the longest prefix of its FIFO entries with vacuumAt < pass instant        *)
(* Lookups take no time (Adv only between lookups) and at most one lookup per transaction id   *)
(* is in flight; lookups of different transactions and the two halves of an update interleave  *)
(* arbitrarily, time may pass between U1 and U2.                                               *)
(*                                                                                             *)
(* Bug # "none": deliberately broken variants for the non-vacuity runs                         *)
(*   "repin"     every lookup pins the transaction to the current version                      *)
(*   "dropprev"  the superseded version is removed at once                                     *)
(*   "pinttl3"   transaction pins are vacuumed after 3 s                                       *)
(*   "le"        a pass removes entries with vacuumAt <= pass instant                          *)
EXTENDS PinP, TLC

CONSTANTS Txns, Ops, Labels, Steps, Tick, MaxLen, MaxUpd, Bug

VARIABLES
    pins,              \* [transaction -> version] (partial)
    txnQ, verQ,        \* FIFO entries <<key, vacuumAt>> of the two vacuums
    txnNext, verNext,  \* instant of the next pass, -1 = vacuum not started
    lk,                \* in-flight lookups: [transaction -> [st, v]], st \in {"idle", "vac", "read"}
    up,                \* in-flight update: [st, prev], st \in {"idle", "gap"}
    len, nupd

ivars == <<pins, txnQ, verQ, txnNext, verNext, lk, up, len, nupd>>
vars == <<pvars, ivars>>

PinTTL == IF Bug = "pinttl3" THEN 3 ELSE TTL
Before(at, T) == IF Bug = "le" THEN at <= T ELSE at < T

IInit ==
    /\ now = 0 /\ cur = 1 /\ content = (1 :> <<CHOOSE l \in Labels : TRUE, FALSE>>)
    /\ loaded = {CHOOSE l \in Labels : TRUE}
    /\ retained = {1} /\ hyp = <<>> /\ last = [ev |-> "init", ok |-> TRUE]
    /\ pins = <<>> /\ txnQ = <<>> /\ verQ = <<>> /\ txnNext = -1 /\ verNext = -1
    /\ lk = [x \in Txns |-> [st |-> "idle", v |-> 0, cs |-> {}]]
    /\ up = [st |-> "idle", prev |-> 0]
    /\ len = 0 /\ nupd = 0

\* content the implementation installs (no failed reloads in the model: one loaded label)
IContent(op, L) ==
    CASE op \in {"apply", "reload"} -> <<L, FALSE>>
      [] op = "revdf" -> <<CHOOSE l \in loaded : TRUE, TRUE>>
      [] op = "revll" -> <<CHOOSE l \in loaded : TRUE, FALSE>>

L1(x) ==
    /\ lk[x].st = "idle"
    /\ IF x \in DOMAIN pins /\ Bug # "repin"
       THEN /\ lk' = [lk EXCEPT ![x] = [st |-> "read", v |-> pins[x], cs |-> {cur}]]
            /\ UNCHANGED pins
       ELSE /\ pins' = [y \in DOMAIN pins \cup {x} |-> IF y = x THEN cur ELSE pins[y]]
            /\ lk' = [lk EXCEPT ![x] = [st |-> "vac", v |-> cur, cs |-> {cur}]]
    /\ len' = len + 1
    /\ UNCHANGED <<pvars, txnQ, verQ, txnNext, verNext, up, nupd>>

L2(x) ==
    /\ lk[x].st = "vac"
    /\ txnQ' = Append(txnQ, <<x, now + PinTTL>>)
    /\ txnNext' = IF txnNext = -1 THEN now + Tick ELSE txnNext      \* the first pass (at once) finds nothing due
    /\ lk' = [lk EXCEPT ![x].st = "read"]
    /\ UNCHANGED <<pvars, pins, verQ, verNext, up, len, nupd>>

L3(x) ==
    /\ lk[x].st = "read"
    /\ LET r == IF lk[x].v \in retained THEN lk[x].v ELSE cur IN
       ObserveLookup(x, r, content[r], lk[x].cs)
    /\ lk' = [lk EXCEPT ![x] = [st |-> "idle", v |-> 0, cs |-> {}]]
    /\ UNCHANGED <<retained, pins, txnQ, verQ, txnNext, verNext, up, len, nupd>>

U1(op, L) ==
    /\ up.st = "idle" /\ nupd < MaxUpd
    /\ Update(op, L, TRUE, cur + 1, IContent(op, L))
    /\ retained' = IF Bug = "dropprev" THEN (retained \cup {cur + 1}) \ {cur} ELSE retained \cup {cur + 1}
    /\ up' = [st |-> "gap", prev |-> cur]
    /\ len' = len + 1 /\ nupd' = nupd + 1
    /\ lk' = [x \in Txns |-> IF lk[x].st = "idle" THEN lk[x] ELSE [lk[x] EXCEPT !.cs = @ \cup {cur + 1}]]   \* overlapping lookups
    /\ UNCHANGED <<pins, txnQ, verQ, txnNext, verNext>>

U2 ==
    /\ up.st = "gap"
    /\ verQ' = Append(verQ, <<up.prev, now + TTL>>)
    /\ verNext' = IF verNext = -1 THEN now + Tick ELSE verNext
    /\ up' = [st |-> "idle", prev |-> 0]
    /\ UNCHANGED <<pvars, pins, txnQ, txnNext, lk, len, nupd>>

\* passes of one vacuum up to instant T: the last pass instant (or -1) and the instant of the pass after it
LastPass(next, T) == IF next = -1 \/ next > T THEN -1 ELSE next + Tick * ((T - next) \div Tick)
NextAfter(next, T) == IF LastPass(next, T) = -1 THEN next ELSE LastPass(next, T) + Tick
RECURSIVE PrefixLen(_, _, _)
PrefixLen(q, i, P) == IF i <= Len(q) /\ Before(q[i][2], P) THEN PrefixLen(q, i + 1, P) ELSE i - 1
Removed(q, P) == IF P = -1 THEN 0 ELSE PrefixLen(q, 1, P)

Adv(d) ==
    LET T == now + d
        kt == Removed(txnQ, LastPass(txnNext, T))
        kv == Removed(verQ, LastPass(verNext, T))
        gonePins == {txnQ[i][1] : i \in 1..kt}
        goneVers == {verQ[i][1] : i \in 1..kv}
    IN
    /\ \A x \in Txns : lk[x].st = "idle"
    /\ Advance(d)
    /\ pins' = [y \in DOMAIN pins \ gonePins |-> pins[y]]
    /\ retained' = retained \ goneVers
    /\ txnQ' = SubSeq(txnQ, kt + 1, Len(txnQ)) /\ verQ' = SubSeq(verQ, kv + 1, Len(verQ))
    /\ txnNext' = NextAfter(txnNext, T) /\ verNext' = NextAfter(verNext, T)
    /\ len' = len + 1
    /\ UNCHANGED <<up, lk, nupd>>

INext ==
    \/ len < MaxLen /\ (\/ \E x \in Txns : L1(x)
                       \/ \E op \in Ops, L \in Labels : U1(op, L)
                       \/ \E d \in Steps : Adv(d))
    \/ \E x \in Txns : L2(x) \/ L3(x)
    \/ U2

ISpec == IInit /\ [][INext]_vars

\* implementation-level form of Retained: a pinned version is held while its pin is
PinsHeld == \A x \in DOMAIN pins : pins[x] \in retained \/ \E i \in 1..Len(txnQ) : txnQ[i][1] = x /\ txnQ[i][2] < now
================================================================================
