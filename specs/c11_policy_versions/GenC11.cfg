CONSTANTS
  TTL = 30
  Tick = 5
  Txns = {"t1", "t2", "t3"}
  Ops = {"apply", "reload", "revdf", "revll"}
  Labels = {"A", "B", "C"}
  Steps = {1, 5, 29, 30, 31}
  MaxLen = 14
  MaxUpd = 5
  Bug = "none"
SPECIFICATION GSpec
INVARIANT Emit
CHECK_DEADLOCK FALSE
