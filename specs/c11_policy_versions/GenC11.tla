------------------------------- MODULE GenC11 -------------------------------
(* Behaviour generation (spec -> code): random walks of PinI (tlc -simulate); the operations   *)
(* in the order they start (lookup, update, advance) are carried in `hist` and printed as one  *)
(* JSON line when the walk has MaxLen operations and nothing is in flight.  The harness runs   *)
(* them one after the other on the real accessor; the recording is judged by PinP and compared *)
(* with the model by PinITrace.                                                                *)
EXTENDS PinI, Json
VARIABLE hist
GInit == IInit /\ hist = <<[ev |-> "reset", label |-> CHOOSE l \in loaded : TRUE]>>
GNext ==
    \/ /\ len < MaxLen
       /\ \/ \E x \in Txns : (L1(x) /\ hist' = Append(hist, [ev |-> "lookup", txn |-> x]))
          \/ \E op \in Ops, L \in Labels : (U1(op, L) /\ hist' = Append(hist, [ev |-> "update", op |-> op, label |-> L]))
          \/ \E d \in Steps : (Adv(d) /\ hist' = Append(hist, [ev |-> "adv", d |-> d]))
    \/ /\ \E x \in Txns : (L2(x) \/ L3(x))
       /\ UNCHANGED hist
    \/ /\ U2
       /\ UNCHANGED hist
GSpec == GInit /\ [][GNext]_<<vars, hist>>
Emit == (len = MaxLen /\ up.st = "idle" /\ \A x \in Txns : lk[x].st = "idle") => PrintT(<<"VH", ToJson(hist)>>)
=============================================================================
