\* exhaustive: I => P
CONSTANTS
  TTL = 30
  Tick = 5
  Txns = {"a", "b"}
  Ops = {"apply", "revdf"}
  Labels = {"A"}
  Steps = {1, 5, 29, 30, 31}
  MaxLen = 5
  MaxUpd = 2
  Bug = "none"
SPECIFICATION ISpec
INVARIANTS Accepted Retained CurrentHeld
CHECK_DEADLOCK FALSE
