CONSTANTS
  TTL = 30
SPECIFICATION TraceSpec
INVARIANTS Retained CurrentHeld
CONSTRAINT HWM
POSTCONDITION Post
CHECK_DEADLOCK FALSE
