CONSTANTS
  TTL = 30
  Tick = 5
  Txns = {"t1", "t2", "t3", "t4", "t5", "t6", "t7", "t8", "t9", "t10", "t11", "t12"}
  Ops = {}
  Labels = {}
  Steps = {}
  MaxLen = 1000000
  MaxUpd = 1000000
  Bug = "none"
SPECIFICATION TraceSpec
CONSTRAINT HWM
POSTCONDITION Post
CHECK_DEADLOCK FALSE
