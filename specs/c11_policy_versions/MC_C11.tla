------------------------------- MODULE MC_C11 -------------------------------
EXTENDS PinI
\* witnesses (expected to be VIOLATED in side cfgs)
NoFallback == ~(\E x \in Txns : lk[x].st = "read" /\ lk[x].v \notin retained)
NoRepinAfterExpiry == ~(last.ev = "lookup" /\ \E x \in DOMAIN hyp : Cardinality(hyp[x]) > 1)
=============================================================================
