------------------------------ MODULE PinTrace ------------------------------
(* C11 - trace validation of recorded executions of the real config.TxnPoliciesAccessor        *)
(* (mock clock, background vacuum passes awaited through the vacuum.pass hook) against PinP.   *)
(* trace.ndjson: line 1 = {"ev":"config"}, then histories                                      *)
(*   {"ev":"reset","label":L,"clabel":..,"cdf":..}                       fresh accessor        *)
(*   {"ev":"lookup","txn":x,"ver":r,"label":..,"df":..}                  GetTxnPoliciesData    *)
(*   {"ev":"update","op":..,"label":L,"ok":..,"clabel":..,"cdf":..}      apply / reload / revert *)
(*   {"ev":"adv","d":..}                                                 time passed           *)
(* a lookup that was held at a yield point while updates ran carries "cs" = the versions that  *)
(* were current at some instant of it; an update with "ok": false failed (admin call refused). *)
(* every event carries the observed state: cur, vers (retained versions), pins, t.             *)
EXTENDS TraceLib, PinP

VARIABLE l
tvars == <<pvars, l>>

Ev == TraceLog[l + 1]
Consume(name) == l < TraceLen /\ Ev.ev = name /\ l' = l + 1
SetOf(s) == {s[i] : i \in 1..Len(s)}

TInit ==
    /\ l = 1
    /\ now = 0 /\ cur = 1 /\ content = (1 :> <<"", FALSE>>) /\ loaded = {""}
    /\ retained = {1} /\ hyp = <<>> /\ last = [ev |-> "init", ok |-> TRUE]

TReset ==
    /\ Consume("reset")
    /\ now' = 0 /\ cur' = Ev.cur /\ content' = (Ev.cur :> <<Ev.clabel, Ev.cdf>>) /\ loaded' = {Ev.label}
    /\ Ev.clabel = Ev.label /\ Ev.cdf = FALSE
    /\ retained' = SetOf(Ev.vers) /\ hyp' = <<>> /\ last' = [ev |-> "reset", ok |-> TRUE]

TLookup ==
    /\ Consume("lookup")
    /\ LookupCS(Ev.txn, Ev.ver, <<Ev.label, Ev.df>>, IF "cs" \in DOMAIN Ev THEN SetOf(Ev.cs) ELSE {cur})
    /\ retained' = SetOf(Ev.vers)

TUpdate ==
    /\ Consume("update")
    /\ Update(Ev.op, Ev.label, Ev.ok, Ev.cur, <<Ev.clabel, Ev.cdf>>)
    /\ retained' = SetOf(Ev.vers)

TAdv ==
    /\ Consume("adv")
    /\ Advance(Ev.d) /\ now' = Ev.t
    /\ retained' = SetOf(Ev.vers)

\* many other transactions were first seen now (their answers are not part of this history)
TBurst == Consume("burst") /\ retained' = SetOf(Ev.vers) /\ UNCHANGED <<now, cur, content, loaded, hyp, last>>

TNext == TReset \/ TLookup \/ TUpdate \/ TAdv \/ TBurst

TraceSpec == TInit /\ [][TNext]_tvars

HWM == Mark(l)
Post == Report
================================================================================
