------------------------------ MODULE PinITrace ------------------------------
(* C11 - conformance of the implementation-shaped model PinI: the same recordings; the model's *)
(* micro-steps (L1 L2 L3, U1 U2) run between the lines, the line is consumed by the last one,  *)
(* and the model's state must equal the recorded snapshot (cur, vers, pins) after every line.  *)
(* A rejection here with acceptance by PinP is MODEL-DRIFT, not a violation.                   *)
EXTENDS TraceLib, PinI

VARIABLE l
tvars == <<vars, l>>

Ev == TraceLog[l + 1]
SetOf(s) == {s[i] : i \in 1..Len(s)}
PinFun(s) == [x \in {s[i][1] : i \in 1..Len(s)} |-> s[CHOOSE i \in 1..Len(s) : s[i][1] = x][2]]
Idle == up.st = "idle" /\ \A x \in Txns : lk[x].st = "idle"
SnapOK == cur' = Ev.cur /\ retained' = SetOf(Ev.vers) /\ pins' = PinFun(Ev.pins)

TInit ==
    /\ l = 1
    /\ now = 0 /\ cur = 1 /\ content = (1 :> <<"", FALSE>>) /\ loaded = {""}
    /\ retained = {1} /\ hyp = <<>> /\ last = [ev |-> "init", ok |-> TRUE]
    /\ pins = <<>> /\ txnQ = <<>> /\ verQ = <<>> /\ txnNext = -1 /\ verNext = -1
    /\ lk = [x \in Txns |-> [st |-> "idle", v |-> 0, cs |-> {}]]
    /\ up = [st |-> "idle", prev |-> 0]
    /\ len = 0 /\ nupd = 0

TReset ==
    /\ l < TraceLen /\ Ev.ev = "reset" /\ l' = l + 1 /\ Idle
    /\ now' = 0 /\ cur' = Ev.cur /\ content' = (Ev.cur :> <<Ev.clabel, Ev.cdf>>) /\ loaded' = {Ev.label}
    /\ retained' = SetOf(Ev.vers) /\ hyp' = <<>> /\ last' = [ev |-> "reset", ok |-> TRUE]
    /\ pins' = <<>> /\ txnQ' = <<>> /\ verQ' = <<>> /\ txnNext' = -1 /\ verNext' = -1
    /\ UNCHANGED <<lk, up, len, nupd>>

TL1 == l < TraceLen /\ Ev.ev = "lookup" /\ Idle /\ L1(Ev.txn) /\ UNCHANGED l
TL2 == l < TraceLen /\ Ev.ev = "lookup" /\ L2(Ev.txn) /\ UNCHANGED l
TL3 == /\ l < TraceLen /\ Ev.ev = "lookup" /\ L3(Ev.txn) /\ l' = l + 1
       /\ last'.ver = Ev.ver /\ last'.c = <<Ev.label, Ev.df>>
       /\ cur = Ev.cur /\ retained = SetOf(Ev.vers) /\ pins = PinFun(Ev.pins)

TU1 == /\ l < TraceLen /\ Ev.ev = "update" /\ Ev.ok /\ Idle /\ U1(Ev.op, Ev.label) /\ UNCHANGED l
       /\ content'[cur'] = <<Ev.clabel, Ev.cdf>>
TU2 == /\ l < TraceLen /\ Ev.ev = "update" /\ U2 /\ l' = l + 1
       /\ cur = Ev.cur /\ retained = SetOf(Ev.vers) /\ pins = PinFun(Ev.pins)
TUFail == /\ l < TraceLen /\ Ev.ev = "update" /\ ~Ev.ok /\ Idle /\ l' = l + 1
          /\ Update(Ev.op, Ev.label, FALSE, Ev.cur, <<>>)
          /\ retained = SetOf(Ev.vers) /\ pins = PinFun(Ev.pins)
          /\ UNCHANGED <<retained, ivars>>

TAdv == /\ l < TraceLen /\ Ev.ev = "adv" /\ Idle /\ Adv(Ev.d) /\ l' = l + 1
        /\ now' = Ev.t /\ SnapOK

TNext == TReset \/ TL1 \/ TL2 \/ TL3 \/ TU1 \/ TU2 \/ TUFail \/ TAdv

TraceSpec == TInit /\ [][TNext]_tvars

HWM == Mark(l)
Post == Report
================================================================================
