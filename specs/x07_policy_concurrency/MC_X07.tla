------------------------------- MODULE MC_X07 -------------------------------
EXTENDS PolConcI
Sym == Permutations(Txn) \cup Permutations(Picker)
\* chains / limits of the bounded instances
OneKey == <<"e">>
TwoKeys == <<"e", "g">>
Max1 == [k \in {"e", "g"} |-> 1]
Max12 == ("e" :> 1) @@ ("g" :> 2)
Max2 == [k \in {"e", "g"} |-> 2]
=============================================================================
