------------------------------- MODULE PolConcP -------------------------------
(* X07 - policy-mode concurrency: what the stateful policy-mode remedies answer *)
(* when transactions are handled ONE AT A TIME.  Concurrent histories of the    *)
(* real plugins are compared to this machine by a linearizability search        *)
(* (PolConcTrace): every call must take effect at one instant between its       *)
(* invocation and its return, with the answer this machine gives there.         *)
(*                                                                             *)
(* STATEMENT (derived from the repository's own documentation; source in        *)
(* brackets).  What a user of the two remedies relies on:                       *)
(*                                                                             *)
(* concurrency_based_throttling  {max_concurrent_requests: N,                   *)
(*                                response_status_code: S} on an endpoint       *)
(*  T1 Bound.  At most N transactions of that endpoint are in flight (let       *)
(*     through, not yet answered by the provider) at any instant.               *)
(*     [integration-tests/features/remedy_concurrency_based_throttling.feature: *)
(*      "3 concurrent requests .. 2 responses have status 200, 1 has 429";      *)
(*      utils/limit/concurrency/limiter_test.go ItAllowsTakingSlotsUntil..]     *)
(*  T2 Exactness, also among simultaneous requests.  A request is refused only  *)
(*     when N transactions hold a slot: of n simultaneous requests exactly      *)
(*     min(n, free slots) are let through.  [same scenario: exactly 2 x 200     *)
(*     and 1 x 429 of group A, then 2 x 200 of group B]                         *)
(*  T3 The refusal is status S, body "Too many requests", content-type          *)
(*     text/plain; a let-through request is not touched.                        *)
(*     [services/remedies/common.go plainTextTooManyRequestsAction; plugin      *)
(*      unit tests earlyResponseAction]                                         *)
(*  T4 Release.  The response of a let-through transaction gives its slot back, *)
(*     once: a repeated response, the response of a refused or unknown          *)
(*     transaction frees nothing of anybody else.  [plugin unit test            *)
(*     ..AllowsNewRequestAfterRelease; limiter_test ItDoesntReleaseTwice..,     *)
(*      log "detected no release required"]                                     *)
(*  T5 Lost responses.  The slot of a transaction whose response never arrives  *)
(*     is given back on its own after the proxy timeout (LUNAR_SERVER_TIMEOUT + *)
(*     LUNAR_CONNECT_TIMEOUT: by then the proxy has answered the client 504),   *)
(*     not earlier - the transaction may still be at the provider - and soon    *)
(*     after: within Gc (the limiter's vacuum period "merely a sensible         *)
(*     default" of 500 ms; P allows twice that).  [limiter_test                 *)
(*     ItAutomaticallyReleasesSlotAfterTimeout; plugin test ..WithNoRelease-    *)
(*     AfterTimeout (skipped upstream as flaky); main.go getProxyTimeout]       *)
(*  T6 The limit in force is the one of the configuration the request is        *)
(*     handled with: raising it lets more through at once, lowering it evicts   *)
(*     nobody.  [plugin unit tests ItAllowsConfigToIncrease/Decrease..]         *)
(*  T7 Isolation.  The count is per declared endpoint (method + URL pattern):   *)
(*     traffic of other endpoints or methods neither uses nor frees its slots.  *)
(*     ["remedy for GET httpbinmock /delay/1 requests"]  The documentation is   *)
(*     silent on a GLOBAL concurrency remedy; the engine counts it per HTTP     *)
(*     method over all URLs, and that is what Key() models (engine as it is).   *)
(*                                                                             *)
(* account_orchestration {round_robin: [a1..ak]}                                *)
(*  A1 Requests use the listed accounts in turn, starting with the first:       *)
(*     1st and 3rd request account 1, 2nd and 4th account 2.                    *)
(*     [features/remedy_account_orchestration.feature, chain_remedies.feature,  *)
(*      account_orchestration_plugin_test.go ..ShouldSwitchBetweenAccounts..]   *)
(*  A2 Under concurrent requests the turns are handed out one at a time (the    *)
(*     plugin's mutex): any n simultaneous requests get n consecutive turns, so *)
(*     every account is used floor(n/k) or ceil(n/k) times.                     *)
(*  (One rotation per plugin instance, as the engine is - X01 reports that two  *)
(*   account_orchestration remedies share it; the histories here use one list.) *)
(*                                                                             *)
(* Named deviation of the engine from T4 (Dev): a transaction that holds slots  *)
(* of TWO concurrency remedies (one on its endpoint and a global one) gets only *)
(* the slot it took LAST back on its response; the other one stays held until   *)
(* the proxy timeout (transactionsInProgress remembers one endpoint per         *)
(* transaction).  Dev = "doc": all slots of the transaction are freed (T4 as    *)
(* documented); "engine": only the last one; "both": P accepts either.          *)
EXTENDS Integers, Sequences, FiniteSets

CONSTANTS Ttl,   \* ticks after which a held slot may be reclaimed (the proxy timeout)
          Gc,    \* ... and at most this much later it must have been
          Dev    \* "doc" | "engine" | "both"

VARIABLES now,   \* instant (ticks)
          slots, \* set of [k |-> key, t |-> transaction, dl |-> instant from which the slot may be reclaimed]
          tip,   \* [transaction -> key of the slot it took last]   (history variable, only used by Dev)
          idx    \* the rotation: number of turns handed out, modulo the list length

pvars == <<now, slots, tip, idx>>

\* the limiter a concurrency remedy counts in: per method and declared URL; a global remedy: per method
Key(scope, m, url) == IF scope = "g" THEN <<m, "">> ELSE <<m, url>>

Empty == [x \in {} |-> 0]
Put(f, x, v) == [y \in DOMAIN f \cup {x} |-> IF y = x THEN v ELSE f[y]]
Drop(f, x) == [y \in DOMAIN f \ {x} |-> f[y]]

PInit == now = 0 /\ slots = {} /\ tip = Empty /\ idx = 0

Held(key) == {s \in slots : s.k = key}
Of(t) == {s \in slots : s.t = t}

-------------------------------------------------------------------------------
\* concurrency_based_throttling, request side (T1, T2, T6, T7)
TakeOK(t, key, max, out) ==
    /\ out \in {"admit", "refuse"}
    /\ \A s \in Held(key) : s.t # t             \* (environment) transaction ids are unique
    /\ out = IF Cardinality(Held(key)) < max THEN "admit" ELSE "refuse"

TakeEff(t, key, out) ==
    /\ IF out = "admit"
       THEN slots' = slots \cup {[k |-> key, t |-> t, dl |-> now + Ttl]} /\ tip' = Put(tip, t, key)
       ELSE UNCHANGED <<slots, tip>>
    /\ UNCHANGED <<now, idx>>

Take(t, key, max, out) == TakeOK(t, key, max, out) /\ TakeEff(t, key, out)

\* response side (T4): S = the slots given back
LastOf(t) == IF t \in DOMAIN tip THEN {s \in Of(t) : s.k = tip[t]} ELSE {}

ReleaseOK(t, S) ==
    /\ LastOf(t) \subseteq S /\ S \subseteq Of(t)
    /\ (Dev = "doc") => S = Of(t)
    /\ (Dev = "engine") => S = LastOf(t)

ReleaseEff(t, S) == slots' = slots \ S /\ tip' = Drop(tip, t) /\ UNCHANGED <<now, idx>>

Release(t) == \E S \in SUBSET Of(t) : ReleaseOK(t, S) /\ ReleaseEff(t, S)

\* T5: reclaiming the slot of a transaction whose response did not arrive (not observable)
ExpireOK(s) == s \in slots /\ now >= s.dl
Expire(s) == ExpireOK(s) /\ slots' = slots \ {s} /\ UNCHANGED <<now, tip, idx>>

AdvanceOK(d) == d > 0 /\ \A s \in slots : now + d <= s.dl + Gc
Advance(d) == AdvanceOK(d) /\ now' = now + d /\ UNCHANGED <<slots, tip, idx>>

\* n simultaneous requests of the fresh transactions ts on one limiter, those in adm let through (T2):
\* permitted iff some order of the n verdicts is
TakeBatch(ts, key, max, adm) ==
    /\ adm \subseteq ts
    /\ \A s \in Held(key) : s.t \notin ts
    /\ (adm # {}) => Cardinality(Held(key)) + Cardinality(adm) <= max       \* (a lowered limit evicts nobody: T6)
    /\ (adm # ts) => Cardinality(Held(key)) + Cardinality(adm) >= max
    /\ slots' = slots \cup {[k |-> key, t |-> t, dl |-> now + Ttl] : t \in adm}
    /\ tip' = [t \in DOMAIN tip \cup adm |-> IF t \in adm THEN key ELSE tip[t]]
    /\ UNCHANGED <<now, idx>>

\* the responses of the transactions ts, one after the other (compact form of |ts| Release steps)
ReleaseBatch(ts) ==
    \E S \in SUBSET UNION {Of(t) : t \in ts} :
        /\ \A t \in ts : ReleaseOK(t, S \cap Of(t))
        /\ slots' = slots \ S
        /\ tip' = [t \in DOMAIN tip \ ts |-> tip[t]]
        /\ UNCHANGED <<now, idx>>

-------------------------------------------------------------------------------
\* account_orchestration (A1, A2): out = position (0-based) in the round_robin list of length k
PickOK(k, out) == k > 0 /\ out = idx % k
PickEff(k) == idx' = (idx + 1) % k /\ UNCHANGED <<now, slots, tip>>
Pick(k, out) == PickOK(k, out) /\ PickEff(k)

\* n simultaneous requests; cnt[j+1] = how many of them got position j: n consecutive turns
PickBatch(k, n, cnt) ==
    /\ k > 0 /\ Len(cnt) = k
    /\ \A j \in 0..(k - 1) : cnt[j + 1] = Cardinality({i \in 0..(n - 1) : (idx + i) % k = j})
    /\ idx' = (idx + n) % k
    /\ UNCHANGED <<now, slots, tip>>

-------------------------------------------------------------------------------
\* what the statement says, over P's own variables (checked on the implementation-shaped model through the product)
\* T5: no slot outlives the proxy timeout by more than the collection slack
ExpiryBound == \A s \in slots : now <= s.dl + Gc
\* a transaction holds at most one slot per limiter
OnePerKey == \A s1, s2 \in slots : (s1.k = s2.k /\ s1.t = s2.t) => s1 = s2
================================================================================
