\* one limiter with limit 2, 4 transactions (thorough tier): counts above one, two lost slots expiring at different instants
CONSTANTS
  Txn = {t1, t2, t3, t4}
  Picker = {p1}
  Keys <- OneKey
  Max <- Max2
  K = 3
  MaxResp = 1
  Ttl = 2
  VTick = 1
  Gc = 2
  MaxNow = 6
  Dev = "both"
  Variant = "none"
SPECIFICATION Spec
INVARIANTS Conforms Agree ExpiryBound OnePerKey
SYMMETRY Sym
CHECK_DEADLOCK FALSE
