----------------------------- MODULE PolConcTrace -----------------------------
(* X07 - linearizability check of recorded histories of the REAL policy-mode    *)
(* plugins (harness/cmd/x07) against the sequential specification PolConcP.     *)
(* Every call is logged at invocation ("begin", carrying what the call later    *)
(* returned) and at return ("end").  A call is a short PROGRAM of steps of the  *)
(* sequential machine (one step per remedy of the chain the transaction runs    *)
(* through); TLC places each step anywhere between begin and end, in program    *)
(* order.  A history for which no placement exists is one whose answers no      *)
(* one-at-a-time order of the remedies explains.                                *)
(*                                                                             *)
(* line 1: {"ev":"config","level":..,"ttl":t,"gc":g,"dev":"doc"|"engine"|"both", *)
(*          "endpoints":[{"m":..,"url":..,"rems":[remedy..]}],"globals":[remedy..],*)
(*          "tokens":[header value of account 1, ..]}                            *)
(*   remedy: {"k":"conc","on":b,"max":n,"st":s} | {"k":"acct","on":b,"n":k}      *)
(* {"ev":"reset","now":t}   fresh plugins / fresh engine                         *)
(* {"ev":"adv","d":d}       clock moved by d ticks, every vacuum pass due has run*)
(* plugin level calls:                                                           *)
(* {"ev":"begin","id":i,"op":"take","t":txn,"m":..,"url":..,"scope":"e"|"g",     *)
(*                "max":n,"st":s,"act":action}    ConcurrencyBasedThrottlingPlugin.OnRequest *)
(* {"ev":"begin","id":i,"op":"rel","t":txn,"act":action}              ..OnResponse *)
(* {"ev":"begin","id":i,"op":"pick","k":k,"out":j,"act":action}   AccountOrchestrationPlugin.OnRequest *)
(* handler level calls (SPOE messages through routing.Handler):                   *)
(* {"ev":"begin","id":i,"op":"hreq","t":txn,"m":..,"url":..,"acts":[action per remedy],*)
(*                "racts":[response-side actions run in the same call],"ans":{..}} *)
(* {"ev":"begin","id":i,"op":"hres","t":txn,"m":..,"url":..,"acts":[],"racts":[..],"ans":{..}} *)
(* {"ev":"end","id":i}                                                           *)
(* storms in compact form:                                                       *)
(* {"ev":"tbatch","m":..,"url":..,"scope":..,"max":n,"st":s,"ts":[ids],"adm":[ids],"bad":0} *)
(* {"ev":"rbatch","ts":[ids],"bad":0}      their responses, one after the other   *)
(* {"ev":"pbatch","k":k,"n":n,"cnt":[..],"bad":0}                                *)
(* {"ev":"stats",..}        bookkeeping of the executor, not judged              *)
(* action: {"k":"noop"|"early"|"modreq"|..,"st":n,"b":body,"h":[[name,value],..]} *)
EXTENDS TraceLib, Integers, FiniteSets

Cfg == TraceLog[1]
Ttl == Cfg.ttl
Gc == Cfg.gc
Dev == Cfg.dev

VARIABLES now, slots, tip, idx, l, pend

P == INSTANCE PolConcP

tvars == <<now, slots, tip, idx, l, pend>>

Ev == TraceLog[l + 1]
Consume(name) == l < TraceLen /\ Ev.ev = name /\ l' = l + 1
SeqSet(s) == {s[i] : i \in 1..Len(s)}

-------------------------------------------------------------------------------
\* projection of a recorded action onto the verdict the specification talks about (T3)
Refusal(st) == [k |-> "early", st |-> st, b |-> "Too many requests", h |-> <<<<"content-type", "text/plain">>>>]
OutOf(act, st) == IF act.k = "noop" THEN "admit"
                  ELSE IF act = Refusal(st) THEN "refuse" ELSE "bad"

\* the account whose token an account_orchestration action set (handler level): position in the list, -1 = none
TokIndex(act) ==
    IF act.k = "modreq" /\ Len(act.h) = 1 /\ act.h[1][1] = "x-acct"
       /\ \E j \in 1..Len(Cfg.tokens) : Cfg.tokens[j] = act.h[1][2]
    THEN (CHOOSE j \in 1..Len(Cfg.tokens) : Cfg.tokens[j] = act.h[1][2]) - 1
    ELSE -1

Bad == <<[k |-> "bad"]>>
AllNoop(as) == \A i \in 1..Len(as) : as[i].k = "noop"

\* the chain of a transaction (S1 of X01, for literal endpoint URLs): enabled remedies of the endpoint declared for its
\* method and URL, then the enabled global remedies
RECURSIVE Enabled(_, _)
Enabled(rs, scope) == IF rs = <<>> THEN <<>>
                      ELSE (IF rs[1].on THEN <<[scope |-> scope, r |-> rs[1]]>> ELSE <<>>) \o Enabled(Tail(rs), scope)
EndpointRems(m, url) ==
    LET hit == {i \in 1..Len(Cfg.endpoints) : Cfg.endpoints[i].m = m /\ Cfg.endpoints[i].url = url}
    IN IF hit = {} THEN <<>> ELSE Cfg.endpoints[CHOOSE i \in hit : TRUE].rems
Chain(m, url) == Enabled(EndpointRems(m, url), "e") \o Enabled(Cfg.globals, "g")
HasConc(ch) == \E i \in 1..Len(ch) : ch[i].r.k = "conc"

StepOf(c, e, a) ==
    IF c.r.k = "conc"
    THEN [k |-> "take", t |-> e.t, key |-> P!Key(c.scope, e.m, e.url), max |-> c.r.max, out |-> OutOf(a, c.r.st)]
    ELSE [k |-> "pick", n |-> c.r.n, out |-> TokIndex(a)]

\* the program of a request message: one step per remedy of the chain, in order (all of them run, also after a refusal);
\* a refused request passes the response side of the same chain within the same call (S4 of X01): its slots go back
ReqProg(e) ==
    LET ch == Chain(e.m, e.url) IN
    IF Len(e.acts) # Len(ch) THEN Bad
    ELSE LET steps == [i \in 1..Len(ch) |-> StepOf(ch[i], e, e.acts[i])]
             refs == {i \in 1..Len(ch) : steps[i].k = "take" /\ steps[i].out = "refuse"}
             first == CHOOSE i \in refs : \A j \in refs : i <= j
         IN IF refs = {}
            THEN IF e.racts = <<>> /\ e.ans.answered /\ ~e.ans.early THEN steps ELSE Bad
            ELSE IF /\ Len(e.racts) = Len(ch) /\ AllNoop(e.racts)
                    /\ e.ans.answered /\ e.ans.early /\ e.ans.st = ch[first].r.st /\ e.ans.body = "Too many requests"
                 THEN steps \o <<[k |-> "rel", t |-> e.t]>>
                 ELSE Bad

ResProg(e) ==
    LET ch == Chain(e.m, e.url) IN
    IF e.acts = <<>> /\ Len(e.racts) = Len(ch) /\ AllNoop(e.racts) /\ e.ans.answered /\ ~e.ans.early
    THEN (IF HasConc(ch) THEN <<[k |-> "rel", t |-> e.t]>> ELSE <<>>)
    ELSE Bad

Prog(e) ==
    CASE e.op = "take" -> <<[k |-> "take", t |-> e.t, key |-> P!Key(e.scope, e.m, e.url), max |-> e.max, out |-> OutOf(e.act, e.st)]>>
      [] e.op = "rel"  -> IF e.act.k = "noop" THEN <<[k |-> "rel", t |-> e.t]>> ELSE Bad
      [] e.op = "pick" -> <<[k |-> "pick", n |-> e.k, out |-> e.out]>>
      [] e.op = "hreq" -> ReqProg(e)
      [] e.op = "hres" -> ResProg(e)
      [] OTHER -> Bad

-------------------------------------------------------------------------------
TInit == P!PInit /\ l = 1 /\ pend = {}

TReset ==
    /\ Consume("reset") /\ pend = {}
    /\ now' = Ev.now /\ slots' = {} /\ tip' = P!Empty /\ idx' = 0
    /\ UNCHANGED pend

TAdv == Consume("adv") /\ pend = {} /\ P!Advance(Ev.d) /\ UNCHANGED pend

TStats == Consume("stats") /\ UNCHANGED <<now, slots, tip, idx, pend>>

\* reclaiming the slot of a lost response is not observable: TLC places it wherever the specification allows
TExpire == \E s \in slots : P!Expire(s) /\ UNCHANGED <<l, pend>>

TBegin ==
    /\ Consume("begin")
    /\ pend' = pend \cup {[id |-> Ev.id, prog |-> Prog(Ev), pc |-> 1]}
    /\ UNCHANGED <<now, slots, tip, idx>>

\* the next step of a pending call takes effect
TStep == \E p \in pend :
    /\ p.pc <= Len(p.prog)
    /\ LET s == p.prog[p.pc] IN
       CASE s.k = "take" -> P!Take(s.t, s.key, s.max, s.out)
         [] s.k = "rel"  -> P!Release(s.t)
         [] s.k = "pick" -> P!Pick(s.n, s.out)
         [] OTHER -> FALSE
    /\ pend' = (pend \ {p}) \cup {[p EXCEPT !.pc = @ + 1]}
    /\ UNCHANGED l

TEnd ==
    /\ Consume("end")
    /\ \E p \in pend : p.id = Ev.id /\ p.pc > Len(p.prog) /\ pend' = pend \ {p}
    /\ UNCHANGED <<now, slots, tip, idx>>

TTakeBatch ==
    /\ Consume("tbatch") /\ pend = {} /\ Ev.bad = 0
    /\ P!TakeBatch(SeqSet(Ev.ts), P!Key(Ev.scope, Ev.m, Ev.url), Ev.max, SeqSet(Ev.adm))
    /\ UNCHANGED pend

TRelBatch ==
    /\ Consume("rbatch") /\ pend = {} /\ Ev.bad = 0
    /\ P!ReleaseBatch(SeqSet(Ev.ts))
    /\ UNCHANGED pend

TPickBatch ==
    /\ Consume("pbatch") /\ pend = {} /\ Ev.bad = 0
    /\ P!PickBatch(Ev.k, Ev.n, Ev.cnt)
    /\ UNCHANGED pend

TNext == TReset \/ TAdv \/ TStats \/ TExpire \/ TBegin \/ TStep \/ TEnd \/ TTakeBatch \/ TRelBatch \/ TPickBatch

TraceSpec == TInit /\ [][TNext]_tvars

ExpiryBound == P!ExpiryBound
OnePerKey == P!OnePerKey
HWM == Mark(l)
Post == Report
================================================================================
