CONSTANTS
  Ttl = 8
  Gc = 4
  Dev = "engine"
  GenDepth = 30
  NTxn = 12
  GK = 3
  GV = 2
SPECIFICATION GSpec
INVARIANT Emit
CHECK_DEADLOCK FALSE
