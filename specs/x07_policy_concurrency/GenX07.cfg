CONSTANTS
  Ttl = 4
  Gc = 4
  Dev = "engine"
  GenDepth = 30
  NTxn = 12
  GK = 3
SPECIFICATION GSpec
INVARIANT Emit
CHECK_DEADLOCK FALSE
