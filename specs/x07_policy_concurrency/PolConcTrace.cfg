SPECIFICATION TraceSpec
INVARIANTS ExpiryBound OnePerKey
CONSTRAINT HWM
POSTCONDITION Post
CHECK_DEADLOCK FALSE
