------------------------------- MODULE GenX07 -------------------------------
(* X07 - behaviour generation for replay (spec -> code): random walks           *)
(* (tlc -simulate) of the sequential machine PolConcP with Dev = "engine" over  *)
(* a small universe - two endpoint limiters, one global limiter, limits that    *)
(* change between requests, transactions holding one or two slots, repeated /   *)
(* unknown / late responses, clock steps through the expiry of lost slots,      *)
(* rotation requests.  The events of a walk are carried in `hist`; a walk that   *)
(* reaches GenDepth events is printed as one JSON line.  Expire steps are part  *)
(* of the walk but not of the script (the real vacuum decides on its own).      *)
EXTENDS PolConcP, TLC, Json

CONSTANTS GenDepth, NTxn, GK,
          GV    \* the walk reclaims a lost slot GV ticks after the proxy timeout (the engine's vacuum period), so that replays seldom branch off

VARIABLES hist, used, n

Lims == {[m |-> "GET", url |-> "a.test/x", scope |-> "e"], [m |-> "POST", url |-> "a.test/x", scope |-> "e"],
         [m |-> "GET", url |-> "a.test/y", scope |-> "g"]}
TxnName(i) == "w" \o ToString(i)

GInit == PInit /\ hist = <<>> /\ used = {} /\ n = 0

\* a request of a NEW transaction, or of a known one on a limiter it has not asked yet (the second remedy of a chain)
GTake ==
    \E lm \in Lims, max \in 0..2, out \in {"admit", "refuse"}, i \in 1..NTxn :
        LET t == TxnName(i)  key == Key(lm.scope, lm.m, lm.url) IN
        /\ i <= n + 1
        /\ <<t, key>> \notin used
        /\ Take(t, key, max, out)
        /\ used' = used \cup {<<t, key>>}
        /\ n' = IF i = n + 1 THEN n + 1 ELSE n
        /\ hist' = Append(hist, [op |-> "take", t |-> t, m |-> lm.m, url |-> lm.url, scope |-> lm.scope, max |-> max, st |-> 429, out |-> out])

GRel == \E i \in 1..NTxn :
    /\ i <= n + 1
    /\ Release(TxnName(i))
    /\ hist' = Append(hist, [op |-> "rel", t |-> TxnName(i)])
    /\ UNCHANGED <<used, n>>

GPick == \E out \in 0..(GK - 1) :
    /\ Pick(GK, out)
    /\ hist' = Append(hist, [op |-> "pick", k |-> GK, out |-> out])
    /\ UNCHANGED <<used, n>>

GAdv == \E d \in {1, 2, 4} :
    /\ Advance(d) /\ \A s \in slots : now + d <= s.dl + GV
    /\ hist' = Append(hist, [op |-> "adv", d |-> d])
    /\ UNCHANGED <<used, n>>

Due == {s \in slots : now >= s.dl + GV}
GExpire == \E s \in Due : Expire(s) /\ UNCHANGED <<hist, used, n>>

\* a reclaim that is due comes first; every third event is a clock step, so that walks reach the expiry of lost slots
GNext == IF Due # {} THEN GExpire ELSE IF Len(hist) % 3 = 2 THEN GAdv ELSE (GTake \/ GRel \/ GPick)

GSpec == GInit /\ [][GNext]_<<pvars, hist, used, n>>
Emit == (Len(hist) = GenDepth) => PrintT(<<"VH", ToJson(hist)>>)
=============================================================================
