\* chain of two limiters (endpoint limit 1, global limit 2): the transaction that holds two slots
CONSTANTS
  Txn = {t1, t2}
  Picker = {p1}
  Keys <- TwoKeys
  Max <- Max12
  K = 2
  MaxResp = 1
  Ttl = 2
  VTick = 1
  Gc = 2
  MaxNow = 5
  Dev = "both"
  Variant = "none"
SPECIFICATION Spec
INVARIANTS Conforms Agree ExpiryBound OnePerKey
SYMMETRY Sym
CHECK_DEADLOCK FALSE
