------------------------------- MODULE PolConcI -------------------------------
(* X07 - implementation-shaped model of the two policy-mode plugins under       *)
(* concurrent transactions, in lock step with the property specification        *)
(* PolConcP (product I x P): every step of the code that answers a transaction  *)
(* or changes who holds a slot is checked against P's guard in P's state        *)
(* before it (ok), and P's state follows the step.                              *)
(*                                                                             *)
(* One action per critical section of the real code:                            *)
(* ConcurrencyBasedThrottlingPlugin.OnRequest (for each limiter of the chain):  *)
(*   Lookup   limiters.Lookup(endpoint)                 (map read lock)         *)
(*   Create   concurrency.NewLimiter + limiters.LookupOrAssign   (map lock)     *)
(*   Try      Limiter.TryTakeSlot: len(slots) >= limit ? refuse : add + vacuum  *)
(*            entry                                     (limiter mutex)         *)
(*   Assign   transactionsInProgress.Assign(id, endpoint)        (map lock)     *)
(*   a refused request passes the response side at once (dispatcher)            *)
(* ..OnResponse:                                                                *)
(*   RLookup  transactionsInProgress.Lookup(id)   RDelete  ..Delete(id)         *)
(*   RRelease limiters.Lookup(endpoint) + Limiter.ReleaseSlot(id)               *)
(* MapVacuum (as built: one goroutine per admitted transaction, waking every    *)
(*   VTick from the admission on): Vacuum removes the entry at the first wake   *)
(*   strictly after admission + Ttl                                             *)
(* AccountOrchestrationPlugin.OnRequest: Pick (read + advance under its mutex)  *)
(*                                                                             *)
(* Variant: "none" = the code as it is (the response frees only the slot taken  *)
(* last); the other values are deliberately broken or repaired designs:         *)
(*   "release_all"     the response frees every slot of the transaction (T4)    *)
(*   "gt"              len(slots) > limit                                       *)
(*   "check_then_act"  TryTakeSlot reads the count and adds in two sections     *)
(*   "assign_race"     first use: Assign instead of LookupOrAssign              *)
(*   "no_release"      OnResponse forgets ReleaseSlot                           *)
(*   "no_vacuum"       slots of lost responses are never reclaimed              *)
(*   "early_vacuum"    the vacuum entry ignores the proxy timeout               *)
(*   "pick_split"      the rotation is read and advanced in two sections        *)
EXTENDS Integers, Sequences, FiniteSets, TLC

CONSTANTS Txn, Picker,
          Keys,       \* the chain: sequence of limiter keys a transaction asks, in order
          Max,        \* [key -> limit]
          K,          \* length of the round_robin list
          MaxResp,    \* responses a let-through transaction may get (2: a repeated response)
          Ttl, VTick, Gc, MaxNow, Dev, Variant

VARIABLES now,
          lim,      \* limiters map: [key -> object id, 0 = absent]
          okey,     \* [object id -> key]  (sequence: objects created so far)
          oslots,   \* [object id -> set of [t, dl, rm]]  slots map of the object with its vacuum entries (rm: removal instant)
          itip,     \* transactionsInProgress: [txn -> key or "-"]
          pc, ci, loc, seen, refused, rkey, nr,
          acct, ppc, pread,
          slots, tip, idx,     \* P's state
          ok                   \* every observed step so far was permitted by P

ivars == <<now, lim, okey, oslots, itip, pc, ci, loc, seen, refused, rkey, nr, acct, ppc, pread>>
allvars == <<ivars, slots, tip, idx, ok>>

P == INSTANCE PolConcP

KeySet == {Keys[i] : i \in 1..Len(Keys)}

Init ==
    /\ now = 0 /\ lim = [k \in KeySet |-> 0] /\ okey = <<>> /\ oslots = <<>>
    /\ itip = [t \in Txn |-> "-"]
    /\ pc = [t \in Txn |-> "lookup"] /\ ci = [t \in Txn |-> 1] /\ loc = [t \in Txn |-> 0]
    /\ seen = [t \in Txn |-> FALSE] /\ refused = [t \in Txn |-> FALSE] /\ rkey = [t \in Txn |-> "-"] /\ nr = [t \in Txn |-> 0]
    /\ acct = 0 /\ ppc = [p \in Picker |-> "pick"] /\ pread = [p \in Picker |-> 0]
    /\ slots = {} /\ tip = P!Empty /\ idx = 0
    /\ ok = TRUE

\* observation of a step: guard evaluated in P's state before the step, P's state follows when permitted
Obs(guard, eff) == /\ ok' = (ok /\ guard)
                   /\ IF guard THEN eff ELSE UNCHANGED <<slots, tip, idx>>
Quiet == UNCHANGED <<slots, tip, idx, ok>>

CurKey(t) == Keys[ci[t]]

\* where a transaction goes after the limiter ci[t]: the next limiter of the chain; after the last one a refused
\* request passes the response side at once, a let-through one waits for its response
Cont(t, ref) ==
    IF ci[t] < Len(Keys) THEN /\ ci' = [ci EXCEPT ![t] = @ + 1] /\ pc' = [pc EXCEPT ![t] = "lookup"]
    ELSE /\ ci' = ci /\ pc' = [pc EXCEPT ![t] = IF ref THEN "rlookup" ELSE "wait"]

Lookup(t) ==
    /\ pc[t] = "lookup"
    /\ IF lim[CurKey(t)] # 0
       THEN loc' = [loc EXCEPT ![t] = lim[CurKey(t)]] /\ pc' = [pc EXCEPT ![t] = "try"]
       ELSE loc' = loc /\ pc' = [pc EXCEPT ![t] = "create"]
    /\ UNCHANGED <<now, lim, okey, oslots, itip, ci, seen, refused, rkey, nr, acct, ppc, pread>> /\ Quiet

Create(t) ==
    /\ pc[t] = "create"
    /\ IF lim[CurKey(t)] # 0 /\ Variant # "assign_race"
       THEN loc' = [loc EXCEPT ![t] = lim[CurKey(t)]] /\ UNCHANGED <<lim, okey, oslots>>
       ELSE /\ okey' = Append(okey, CurKey(t)) /\ oslots' = Append(oslots, {})
            /\ lim' = [lim EXCEPT ![CurKey(t)] = Len(okey) + 1]
            /\ loc' = [loc EXCEPT ![t] = Len(okey) + 1]
    /\ pc' = [pc EXCEPT ![t] = "try"]
    /\ UNCHANGED <<now, itip, ci, seen, refused, rkey, nr, acct, ppc, pread>> /\ Quiet

RmAt == IF Variant = "early_vacuum" THEN now + VTick ELSE now + ((Ttl \div VTick) + 1) * VTick

Full(t) == LET n == Cardinality(oslots[loc[t]]) IN
           IF Variant = "gt" THEN n > Max[CurKey(t)] ELSE n >= Max[CurKey(t)]

\* the verdict takes effect: out = "admit" | "refuse"
Verdict(t, full) ==
    LET out == IF full THEN "refuse" ELSE "admit" IN
    /\ Obs(P!TakeOK(t, CurKey(t), Max[CurKey(t)], out), P!TakeEff(t, CurKey(t), out))
    /\ IF full
       THEN /\ refused' = [refused EXCEPT ![t] = TRUE] /\ Cont(t, TRUE) /\ UNCHANGED oslots
       ELSE /\ oslots' = [oslots EXCEPT ![loc[t]] = @ \cup {[t |-> t, dl |-> now + Ttl, rm |-> RmAt]}]
            /\ pc' = [pc EXCEPT ![t] = "assign"] /\ UNCHANGED <<ci, refused>>

Try(t) ==
    /\ pc[t] = "try"
    /\ IF Variant = "check_then_act"
       THEN /\ seen' = [seen EXCEPT ![t] = Full(t)] /\ pc' = [pc EXCEPT ![t] = "add"]
            /\ UNCHANGED <<oslots, ci, refused>> /\ Quiet
       ELSE Verdict(t, Full(t)) /\ UNCHANGED seen
    /\ UNCHANGED <<now, lim, okey, itip, loc, rkey, nr, acct, ppc, pread>>

Add(t) ==
    /\ pc[t] = "add"
    /\ Verdict(t, seen[t])
    /\ UNCHANGED <<now, lim, okey, itip, loc, seen, rkey, nr, acct, ppc, pread>>

Assign(t) ==
    /\ pc[t] = "assign"
    /\ itip' = [itip EXCEPT ![t] = CurKey(t)]
    /\ Cont(t, refused[t])
    /\ UNCHANGED <<now, lim, okey, oslots, loc, seen, refused, rkey, nr, acct, ppc, pread>> /\ Quiet

\* the provider's response arrives (or never does: the transaction stays in "wait")
Respond(t) ==
    /\ pc[t] \in {"wait", "done"} /\ ~refused[t] /\ nr[t] < MaxResp
    /\ nr' = [nr EXCEPT ![t] = @ + 1]
    /\ pc' = [pc EXCEPT ![t] = "rlookup"]
    /\ UNCHANGED <<now, lim, okey, oslots, itip, ci, loc, seen, refused, rkey, acct, ppc, pread>> /\ Quiet

RLookup(t) ==
    /\ pc[t] = "rlookup"
    /\ IF itip[t] = "-"
       THEN /\ Obs(P!ReleaseOK(t, {}), P!ReleaseEff(t, {}))
            /\ pc' = [pc EXCEPT ![t] = "done"] /\ UNCHANGED rkey
       ELSE /\ rkey' = [rkey EXCEPT ![t] = itip[t]] /\ pc' = [pc EXCEPT ![t] = "rdelete"] /\ Quiet
    /\ UNCHANGED <<now, lim, okey, oslots, itip, ci, loc, seen, refused, nr, acct, ppc, pread>>

RDelete(t) ==
    /\ pc[t] = "rdelete"
    /\ itip' = [itip EXCEPT ![t] = "-"]
    /\ pc' = [pc EXCEPT ![t] = "rrelease"]
    /\ UNCHANGED <<now, lim, okey, oslots, ci, loc, seen, refused, rkey, nr, acct, ppc, pread>> /\ Quiet

Abs(o, e) == [k |-> okey[o], t |-> e.t, dl |-> e.dl]

RRelease(t) ==
    /\ pc[t] = "rrelease"
    /\ LET objs == IF Variant = "no_release" THEN {}
                   ELSE IF Variant = "release_all" THEN 1..Len(okey)
                   ELSE {lim[rkey[t]]}
           S == {Abs(o, e) : o \in objs, e \in {x \in UNION {oslots[oo] : oo \in objs} : x.t = t}} \cap
                UNION {{Abs(o, e) : e \in oslots[o]} : o \in objs}
       IN /\ oslots' = [o \in 1..Len(oslots) |-> IF o \in objs THEN {e \in oslots[o] : e.t # t} ELSE oslots[o]]
          /\ Obs(P!ReleaseOK(t, S), P!ReleaseEff(t, S))
    /\ pc' = [pc EXCEPT ![t] = "done"]
    /\ UNCHANGED <<now, lim, okey, itip, ci, loc, seen, refused, rkey, nr, acct, ppc, pread>>

\* a vacuum goroutine wakes and removes its entry
Vacuum ==
    /\ Variant # "no_vacuum"
    /\ \E o \in 1..Len(oslots) : \E e \in oslots[o] :
        /\ now >= e.rm
        /\ oslots' = [oslots EXCEPT ![o] = @ \ {e}]
        /\ Obs(P!ExpireOK(Abs(o, e)), slots' = slots \ {Abs(o, e)} /\ UNCHANGED <<tip, idx>>)
    /\ UNCHANGED <<now, lim, okey, itip, pc, ci, loc, seen, refused, rkey, nr, acct, ppc, pread>>

\* time passes once every vacuum pass that is due has run
Tick ==
    /\ now < MaxNow
    /\ Variant # "no_vacuum" => \A o \in 1..Len(oslots) : \A e \in oslots[o] : now < e.rm
    /\ now' = now + 1
    /\ Obs(P!AdvanceOK(1), UNCHANGED <<slots, tip, idx>>)
    /\ UNCHANGED <<lim, okey, oslots, itip, pc, ci, loc, seen, refused, rkey, nr, acct, ppc, pread>>

Pick(p) ==
    /\ ppc[p] = "pick"
    /\ IF Variant = "pick_split"
       THEN /\ pread' = [pread EXCEPT ![p] = acct] /\ ppc' = [ppc EXCEPT ![p] = "write"] /\ acct' = acct
       ELSE /\ acct' = (acct + 1) % K /\ ppc' = [ppc EXCEPT ![p] = "done"] /\ pread' = pread
    /\ Obs(P!PickOK(K, acct % K), P!PickEff(K))
    /\ UNCHANGED <<now, lim, okey, oslots, itip, pc, ci, loc, seen, refused, rkey, nr>>

PickWrite(p) ==
    /\ ppc[p] = "write"
    /\ acct' = (pread[p] + 1) % K /\ ppc' = [ppc EXCEPT ![p] = "done"]
    /\ UNCHANGED <<now, lim, okey, oslots, itip, pc, ci, loc, seen, refused, rkey, nr, pread>> /\ Quiet

Next ==
    \/ \E t \in Txn : Lookup(t) \/ Create(t) \/ Try(t) \/ Add(t) \/ Assign(t) \/ Respond(t) \/ RLookup(t) \/ RDelete(t) \/ RRelease(t)
    \/ \E p \in Picker : Pick(p) \/ PickWrite(p)
    \/ Vacuum \/ Tick

Spec == Init /\ [][Next]_allvars

-------------------------------------------------------------------------------
\* I => P: every answer and every change of who holds a slot was permitted by the property specification
Conforms == ok
\* ... and P's picture of who holds a slot is the code's (refinement mapping)
Agree == ok => slots = UNION {{Abs(o, e) : e \in oslots[o]} : o \in 1..Len(oslots)}
ExpiryBound == ok => P!ExpiryBound
OnePerKey == ok => P!OnePerKey

\* witnesses: situations the bounded instance must reach (each of these "invariants" must be VIOLATED)
NoRefusal == \A t \in Txn : ~refused[t]
NoVacuumed == ~(\E t \in Txn : pc[t] = "wait" /\ \A o \in 1..Len(oslots) : \A e \in oslots[o] : e.t # t)
NoLateResponse == ~(\E t \in Txn : pc[t] = "rrelease" /\ \A e \in oslots[lim[rkey[t]]] : e.t # t)
NoTwoHeld == ~(\E t \in Txn : Cardinality({s \in slots : s.t = t}) = 2)
NoLeftBehind == ~(\E t \in Txn : pc[t] = "done" /\ nr[t] > 0 /\ \E s \in slots : s.t = t)
================================================================================
