\* one limiter (limit 1), 3 transactions incl. lost and repeated responses, 2 rotation requests, clock through expiry
CONSTANTS
  Txn = {t1, t2, t3}
  Picker = {p1, p2}
  Keys <- OneKey
  Max <- Max1
  K = 2
  MaxResp = 2
  Ttl = 2
  VTick = 1
  Gc = 2
  MaxNow = 5
  Dev = "both"
  Variant = "none"
SPECIFICATION Spec
INVARIANTS Conforms Agree ExpiryBound OnePerKey
SYMMETRY Sym
CHECK_DEADLOCK FALSE
