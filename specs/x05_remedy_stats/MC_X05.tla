-------------------------------- MODULE MC_X05 --------------------------------
(* X05 - exhaustive check  I => P  on a bounded instance.                                                               *)
(*                                                                                                                     *)
(* The state machine is the plugin as main.go / tree_update.go assemble it (Mode = "plugin") or remedy.Run alone on a   *)
(* fixed tree (Mode = "direct"):                                                                                        *)
(*   Begin(b)   FLBPluginFlushCtx reads the context (its tree) - the chunk b is any sequence of <= MaxBatch lines       *)
(*   Finish     DecodeRecords . discovery.Run (inserts the URLs into that tree, counts) . remedy.Run . persist          *)
(*   Restart    FLBPluginInit: discovery state read back, remedy state initialised, tree built from the file            *)
(*   Tick       the plugin clock advances one second                                                                    *)
(*   Write(v)   the engine rewrites the known-endpoints file (v = the file can be loaded)                               *)
(*   R1 R2 R3   periodicallyUpdateTree: modification time moved? . read + build . install the new context (the state     *)
(*              objects are shared by the copy of the context)                                                          *)
(* The P side (hist, dexp, tf, tl, usedGen) is advanced next to it and `verdict` names the first law of RemedyStatsP    *)
(* the state file breaks; Accept demands "ok" in every reachable state, i.e. for every chunking of every word of lines, *)
(* every restart point, every interleaving of the refresher.                                                            *)
EXTENDS RemedyStatsI

CONSTANTS Mode, Flows, MaxLines, MaxBatch, MaxTicks, MaxRestarts, MaxWrites

VARIABLES lines, hist, agg, file, dtotal, dexp, now, tf, tl, ctx, ntrees, ins, fgen, fvalid,
          rpc, rseen, rgen, rnew, fpc, ftree, fbatch, restarts, writes, usedGen, verdict
vars == <<lines, hist, agg, file, dtotal, dexp, now, tf, tl, ctx, ntrees, ins, fgen, fvalid,
          rpc, rseen, rgen, rnew, fpc, ftree, fbatch, restarts, writes, usedGen, verdict>>

Line(k, m, u, h, s, ra, pa, internal) == [k |-> k, m |-> m, u |-> u, h |-> h, s |-> s, ra |-> ra, pa |-> pa, internal |-> internal]
It(r, x) == [r |-> r, x |-> x]

L1 == Line("ok", "GET", "h.com/d/1", "h.com", 429, <<It("fixed_response", <<"obtained_response">>)>>, <<>>, FALSE)
L2 == Line("ok", "GET", "h.com/d/2", "h.com", 200, <<It("fixed_response", <<"obtained_response", "obtained_response">>)>>, <<>>, FALSE)
L3 == Line("ok", "POST", "api.io/v1/x", "api.io", 200, <<It("authentication", <<"modified_headers">>), It("fixed_response", <<"no_op">>)>>,
           <<It("caching", <<"modified_response">>), It("retry", <<"retry_request">>)>>, FALSE)
L4 == Line("ok", "GET", "h.com/d/1", "h.com", 200, <<>>, <<>>, FALSE)
L5 == Line("ok", "GET", "h.com/d/1", "h.com", 200, <<It("fixed_response", <<"obtained_response">>)>>, <<>>, TRUE)
L6 == Line("raw", "", "", "", 0, <<>>, <<>>, FALSE)
L7 == Line("ok", "POST", "api.io/v1/x", "api.io", 200, <<It("authentication", <<"generate_request">>)>>, <<>>, FALSE)
L8 == Line("ok", "GET", "h.com/d/1", "h.com", 200, <<It("quota_magic", <<"no_op">>)>>, <<>>, FALSE)

Letters == IF Mode = "direct" THEN {L1, L2, L3, L4, L5} ELSE {L1, L2, L3, L4, L5, L6, L7}
Batches == UNION {[1..n -> Letters] : n \in 0..MaxBatch}

\* the known-endpoints file of generation g and what the tree built from it matches
KnownOf(g) == IF g = 1 THEN {"h.com/d/{id}"} ELSE {}
Matches(p, u) == p = "h.com/d/{id}" /\ u \in {"h.com/d/1", "h.com/d/2"}
LookupI(t, u, I) ==
    IF \E p \in KnownOf(t.gen) : Matches(p, u) THEN [u |-> u, match |-> TRUE, n |-> CHOOSE p \in KnownOf(t.gen) : Matches(p, u)]
    ELSE IF <<t.id, u>> \in I THEN [u |-> u, match |-> TRUE, n |-> u]
    ELSE [u |-> u, match |-> FALSE, n |-> ""]

NoFile == [exists |-> FALSE, ok |-> FALSE]
Tree(id, g) == [id |-> id, gen |-> g]

Init ==
    /\ lines = 0 /\ hist = <<>> /\ agg = ZeroAgg /\ dtotal = 0 /\ dexp = 0 /\ now = 1 /\ tf = None /\ tl = None
    /\ file = IF Flows THEN NoFile ELSE PersistView(ZeroAgg, 0)
    /\ ctx = Tree(1, IF Mode = "direct" THEN 1 ELSE 0) /\ ntrees = 1 /\ ins = {}
    /\ fgen = 0 /\ fvalid = TRUE /\ rpc = "idle" /\ rseen = 0 /\ rgen = 0 /\ rnew = Tree(0, 0)
    /\ fpc = "idle" /\ ftree = Tree(0, 0) /\ fbatch = <<>> /\ restarts = 0 /\ writes = 0 /\ usedGen = 0 /\ verdict = "ok"

Begin(b) ==
    /\ fpc = "idle" /\ lines + Len(b) <= MaxLines
    /\ fpc' = "got" /\ ftree' = ctx /\ fbatch' = b /\ lines' = lines + Len(b)
    /\ UNCHANGED <<hist, agg, file, dtotal, dexp, now, tf, tl, ctx, ntrees, ins, fgen, fvalid, rpc, rseen, rgen, rnew, restarts, writes, usedGen, verdict>>

Finish ==
    /\ fpc = "got"
    /\ LET dec   == IF Mode = "plugin" THEN Decode(fbatch) ELSE fbatch
           live  == SelectSeq(dec, LAMBDA r : ~r.internal)
           ins2  == IF Mode = "plugin" /\ Len(dec) > 0 THEN ins \cup {<<ftree.id, live[i].u>> : i \in DOMAIN live} ELSE ins
           be    == [i \in DOMAIN dec |-> [rec |-> dec[i], e |-> EndpointOf(dec[i], LookupI(ftree, dec[i].u, IF Bug = "benign_remedy_first" THEN ins ELSE ins2))]]
           agg2  == IF Flows THEN agg ELSE Run(agg, be, now)
           file2 == IF Flows \/ Len(dec) = 0 THEN file
                    ELSE PersistView(agg2, IF Bug = "batch_total" THEN Len(Live(be)) ELSE agg2.total)
           dt2   == IF Mode = "plugin" /\ Len(dec) > 0 THEN dtotal + Len(live) ELSE dtotal
           \* ------------------------------------------------------------------------------------------ P side
           attr  == {LookupI(ftree, fbatch[i].u, ins2) : i \in {i \in DOMAIN fbatch : fbatch[i].k = "ok"}}
           attr0 == {LookupI(ftree, fbatch[i].u, ins) : i \in {i \in DOMAIN fbatch : fbatch[i].k = "ok"}}
           disc  == [total |-> dt2]
           dlaw(k) == IF Mode = "plugin" THEN DiscLaw(dexp, fbatch, k, disc) ELSE "ok"
           good  == IF OpenChoices(fbatch) = {{}} /\ attr = attr0 THEN {}
                    ELSE {c \in OpenChoices(fbatch) \X {attr, attr0} :
                            dlaw(c[1]) = "ok" /\ (Flows \/ OutLaw(Extend(hist, fbatch, c[2], c[1]), file2) = "ok")}
           pick  == IF good = {} THEN <<{}, attr>> ELSE CHOOSE c \in good : TRUE
           keep  == pick[1]
           h2    == IF Flows THEN hist ELSE Extend(hist, fbatch, pick[2], keep)
           nc    == NCounted(fbatch, keep)
           tl2   == IF nc > 0 /\ ~Flows THEN [lo |-> now, hi |-> now] ELSE tl
           tf2   == IF nc > 0 /\ ~Flows /\ tf = None THEN [lo |-> now, hi |-> now] ELSE tf
           olaw  == OutLaw(h2, file2)
           tlaw  == TimesLaw(tf2, tl2, file2)
       IN  /\ agg' = agg2 /\ file' = file2 /\ dtotal' = dt2 /\ ins' = ins2
           /\ hist' = h2 /\ dexp' = dexp + (IF Mode = "plugin" THEN nc ELSE 0) /\ tf' = tf2 /\ tl' = tl2
           /\ usedGen' = ftree.gen
           /\ verdict' = IF dlaw(keep) # "ok" THEN dlaw(keep)
                         ELSE IF Flows THEN FlowsLaw(file2)
                         ELSE IF olaw # "ok" THEN olaw
                         ELSE IF tlaw # "ok" THEN tlaw
                         ELSE IF ftree.gen < usedGen THEN "Tree-Stale"
                         ELSE "ok"
    /\ fpc' = "idle" /\ fbatch' = <<>>
    /\ UNCHANGED <<lines, now, ctx, ntrees, fgen, fvalid, rpc, rseen, rgen, rnew, ftree, restarts, writes>>

\* FLBPluginInit (a plugin whose known-endpoints file cannot be loaded does not start: not modelled)
Restart ==
    /\ fpc = "idle" /\ restarts < MaxRestarts /\ fvalid
    /\ restarts' = restarts + 1
    /\ agg' = IF Bug = "restart_keeps" THEN agg ELSE ZeroAgg
    /\ file' = IF Flows THEN file ELSE PersistView(agg', agg'.total)
    /\ hist' = <<>> /\ tf' = None /\ tl' = None
    /\ ntrees' = ntrees + 1 /\ ctx' = Tree(ntrees + 1, IF Mode = "direct" THEN 1 ELSE fgen)
    /\ rpc' = "idle" /\ rseen' = fgen /\ usedGen' = 0
    /\ verdict' = IF Flows THEN "ok" ELSE CleanLaw(file')
    /\ UNCHANGED <<lines, dtotal, dexp, now, ins, fgen, fvalid, rgen, rnew, fpc, ftree, fbatch, writes>>

Tick ==
    /\ now < 1 + MaxTicks /\ now' = now + 1
    /\ UNCHANGED <<lines, hist, agg, file, dtotal, dexp, tf, tl, ctx, ntrees, ins, fgen, fvalid, rpc, rseen, rgen, rnew, fpc, ftree, fbatch, restarts, writes, usedGen, verdict>>

Write(v) ==
    /\ Mode = "plugin" /\ writes < MaxWrites
    /\ writes' = writes + 1 /\ fgen' = fgen + 1 /\ fvalid' = v
    /\ UNCHANGED <<lines, hist, agg, file, dtotal, dexp, now, tf, tl, ctx, ntrees, ins, rpc, rseen, rgen, rnew, fpc, ftree, fbatch, restarts, usedGen, verdict>>

\* the ticker fired: the file's modification time is compared with the one of the last successful reload
R1 == /\ Mode = "plugin" /\ rpc = "idle" /\ fgen > rseen
      /\ rpc' = "build" /\ rgen' = fgen
      /\ UNCHANGED <<lines, hist, agg, file, dtotal, dexp, now, tf, tl, ctx, ntrees, ins, fgen, fvalid, rseen, rnew, fpc, ftree, fbatch, restarts, writes, usedGen, verdict>>
\* ReadKnownEndpoints + BuildTree read the file as it is NOW; a file that cannot be loaded keeps the existing tree
R2 == /\ rpc = "build"
      /\ IF fvalid THEN /\ ntrees' = ntrees + 1 /\ rnew' = Tree(ntrees + 1, fgen) /\ rpc' = "swap"
                   ELSE /\ rpc' = "idle" /\ UNCHANGED <<ntrees, rnew>>
      /\ UNCHANGED <<lines, hist, agg, file, dtotal, dexp, now, tf, tl, ctx, ins, fgen, fvalid, rseen, rgen, fpc, ftree, fbatch, restarts, writes, usedGen, verdict>>
\* updateTreeF: a copy of the context with the new tree - the state objects are the same
R3 == /\ rpc = "swap"
      /\ ctx' = rnew /\ rseen' = rgen /\ rpc' = "idle"
      /\ agg' = IF Bug = "fresh_state" THEN ZeroAgg ELSE agg
      /\ UNCHANGED <<lines, hist, file, dtotal, dexp, now, tf, tl, ntrees, ins, fgen, fvalid, rgen, rnew, fpc, ftree, fbatch, restarts, writes, usedGen, verdict>>

Next == (\E b \in Batches : Begin(b)) \/ Finish \/ Restart \/ Tick \/ (\E v \in BOOLEAN : Write(v)) \/ R1 \/ R2 \/ R3
Spec == Init /\ [][Next]_vars

\* ------------------------------------------------------------------------------------------------- properties
Accept == verdict = "ok"
\* R10: once the refresher has caught up with a loadable file, flushes get the tree of that file
RefreshTakesEffect == (rpc = "idle" /\ rseen = fgen /\ fvalid) => ctx.gen = fgen
\* a tree is only ever built from a loadable file
NeverInvalidTree == ctx.gen <= fgen

\* reachability witnesses (each is EXPECTED to be violated)
W_TwoEndpoints == ~(file.ok /\ \E x \in SeqSet(file.rs) : Len(x.eps) >= 2)
W_SwapDuringFlush == ~(fpc = "got" /\ ftree # ctx)
W_CountsSurviveRefresh == ~(ctx.gen = 1 /\ ctx.id > 1 /\ Len(hist) >= 2 /\ usedGen = 1 /\ \E i \in DOMAIN hist : hist[i].e = "h.com/d/1")
================================================================================
