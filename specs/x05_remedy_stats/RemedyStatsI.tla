------------------------------ MODULE RemedyStatsI ------------------------------
(* X05 - implementation-shaped model (I) of the remedy half of the aggregation output plugin.                          *)
(*                                                                                                                     *)
(*   remedy/aggregation.go          ExtractSingle (one singleton aggregation per access log: map *assignment* per run  *)
(*                                  result, so a (remedy, action) / an action is entered once), ExtractBatch (left      *)
(*                                  fold with Combine from the zero aggregation)                                        *)
(*   remedy/aggregation_combine.go  the semigroup: Int = +, maps = key-wise Combine (toolkit-core/utils/combine.go),    *)
(*                                  min over the non-zero epochs, max                                                   *)
(*   remedy/runner.go               Run: nothing at all for an empty batch; internal records filtered out; combine      *)
(*                                  with the state's aggregation; persist                                               *)
(*   remedy/persistence_utils.go    PersistView: ratios from the aggregation's TotalCount (float32 -> rounded here)      *)
(*   remedy/state.go                Initialize: the zero aggregation, written to the file                               *)
(*   discovery/decoding.go          Decode: a line that is not an access-log object / uses a name the shared model's    *)
(*                                  parsers refuse is skipped (generate_request IS refused: ParseRemedyReqRunResult      *)
(*                                  has no case for it although String() and remedy_with_action.go know it)             *)
(* Bug = "none" is the code as it is; every other value is a deliberately broken variant used for non-vacuity.          *)
EXTENDS RemedyStatsP, SequencesExt

CONSTANT Bug

MaxOf(a, b) == IF a >= b THEN a ELSE b
MinNonZero(a, b) == IF a = 0 THEN b ELSE IF b = 0 THEN a ELSE IF a <= b THEN a ELSE b

\* utils.Map.Combine
MapCombine(f, g, C(_, _)) ==
    [k \in DOMAIN f \cup DOMAIN g |->
        IF k \in DOMAIN f /\ k \in DOMAIN g THEN (IF Bug = "overwrite" THEN g[k] ELSE C(f[k], g[k]))
        ELSE IF k \in DOMAIN f THEN f[k] ELSE g[k]]

IntC(a, b) == a + b
CounterC(a, b) == [n |-> a.n + b.n, st |-> MapCombine(a.st, b.st, IntC)]
StatsC(a, b) == [n |-> a.n + b.n, eps |-> MapCombine(a.eps, b.eps, CounterC)]
AggC(a, b) == [rs |-> MapCombine(a.rs, b.rs, StatsC), as |-> MapCombine(a.as, b.as, CounterC),
               total |-> a.total + b.total, min |-> MinNonZero(a.min, b.min), max |-> MaxOf(a.max, b.max)]

ZeroAgg == [rs |-> <<>>, as |-> <<>>, total |-> 0, min |-> 0, max |-> 0]

\* number of run results of the record that stand for the pair p (used only by the broken variant "per_result")
OccSide(list, p, F(_)) == Cardinality(UNION {{<<i, j>> : j \in {j \in DOMAIN list[i].x : list[i].r = p[1] /\ F(list[i].x[j]) = p[2]}} : i \in DOMAIN list})
Occ(rec, p) == OccSide(rec.ra, p, ReqAction) + OccSide(rec.pa, p, RespAction)

AllPairs(rec) == ReqPairs(rec) \cup RespPairs(rec)

\* extractAggFromSingle: e = the endpoint URL (accessLogToEndpoint), now = clock.Now()
ExtractSingle(rec, e, now) ==
    LET code == ToString(rec.s)
        P == IF Bug = "noop" THEN AllPairs(rec) ELSE Acts(rec)
        c(p) == IF Bug = "per_result" THEN Occ(rec, p) ELSE 1
    IN  [rs |-> [p \in P |-> [n |-> c(p), eps |-> (<<rec.m, e>> :> [n |-> c(p), st |-> (code :> c(p))])]],
         as |-> [a \in {p[2] : p \in P} |-> [n |-> 1, st |-> (code :> 1)]],
         total |-> 1, min |-> now, max |-> now]

\* ExtractAggFromBatch over a sequence of [rec, e]
ExtractBatch(b, now) ==
    LET f[i \in 0..Len(b)] == IF i = 0 THEN ZeroAgg ELSE AggC(f[i - 1], ExtractSingle(b[i].rec, b[i].e, now))
    IN  f[Len(b)]

Live(b) == SelectSeq(b, LAMBDA x : Bug = "internal_counted" \/ ~x.rec.internal)

\* remedy.Run (the caller persists when Len(b) > 0)
Run(agg, b, now) == IF Len(b) = 0 THEN agg ELSE AggC(agg, ExtractBatch(Live(b), now))

\* float32(n) / float32(total), scaled and rounded the way the executor reports it
Ratio(n, total) == IF total = 0 THEN 0 ELSE (2 * n * Scale + total) \div (2 * total)

CounterView(st) == SetToSeq({[code |-> c, n |-> st[c]] : c \in DOMAIN st})

\* ConvertToPersisted as the executor projects the file; T = the total the ratios are taken from
PersistView(agg, T) ==
    [ok |-> TRUE,
     rs |-> SetToSeq({[r |-> p[1], a |-> p[2], n |-> agg.rs[p].n, ratio |-> Ratio(agg.rs[p].n, T),
                       eps |-> SetToSeq({[m |-> k[1], u |-> k[2], n |-> agg.rs[p].eps[k].n, st |-> CounterView(agg.rs[p].eps[k].st)]
                                         : k \in DOMAIN agg.rs[p].eps})] : p \in DOMAIN agg.rs}),
     as |-> SetToSeq({[a |-> a, n |-> agg.as[a].n, ratio |-> Ratio(agg.as[a].n, T),
                       st |-> SetToSeq({[code |-> c, ratio |-> Ratio(agg.as[a].st[c], T)] : c \in DOMAIN agg.as[a].st})]
                      : a \in DOMAIN agg.as}),
     min |-> agg.min, max |-> agg.max, minz |-> agg.min = 0, maxz |-> agg.max = 0]

\* discovery.DecodeRecords at the level of lines: which lines become access logs
Decodable(rec) == Surely(rec)
Decode(lines) ==
    IF Bug = "stop_at_garbage"
    THEN LET bad == {i \in DOMAIN lines : ~Decodable(lines[i])} IN
         IF bad = {} THEN lines ELSE SubSeq(lines, 1, (CHOOSE i \in bad : \A j \in bad : i <= j) - 1)
    ELSE SelectSeq(lines, Decodable)
================================================================================
