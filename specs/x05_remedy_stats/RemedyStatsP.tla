------------------------------ MODULE RemedyStatsP ------------------------------
(* X05 (growth) - remedy statistics of the aggregation output plugin: property specification (P).                      *)
(*                                                                                                                     *)
(* STATEMENT, derived from the repository's own documentation (what a user of `remedy_stats` /                         *)
(* GET /remedy_stats relies on).  Sources in brackets.                                                                  *)
(*                                                                                                                     *)
(*  R1 Vocabulary.  Every transaction's access-log line carries, per remedy type, the run results of the remedies     *)
(*     of that type on its chain, request side and response side [haproxy.cfg log-format; runner/plugin_dispatcher.go  *)
(*     "request_active_remedies" / "response_active_remedies"].  A run result stands for an *action*: obtained_        *)
(*     response and generate_request = "generated", modified_request / modified_headers / modified_response =          *)
(*     "modified", everything else (no_op, retry_request) = "no_op" [remedy/remedy_with_action.go - the only place     *)
(*     that defines the words "generated" and "modified"; persistence.model.go json tags].                            *)
(*  R2 Counting unit = the transaction.  For every (remedy, action) with action # no_op, `affected_count` is the       *)
(*     number of transactions on which a remedy of that type took that action - a transaction counts once however      *)
(*     many remedies of the type did so [aggregation.go: "assumes that for a single accessLog, a specific              *)
(*     RemedyWithAction may only appear once"; remedy_stats.feature: 2 early responses out of 4 transactions =         *)
(*     affected_count 2].  Pairs that never happened are not listed; no_op is never listed.                            *)
(*  R3 Ratios.  `affected_ratio` = affected_count / total, `ratio` = count / total, `ratio_by_status_code[s]` =        *)
(*     (transactions with that action and status s) / total, where total = all transactions seen, affected or not      *)
(*     [persistence_utils.go; persistence_utils_test.go "AddRequiredRatiosFromTotalCount"; feature: "affected_ratio    *)
(*     is 0.5", "ratio_by_status_code json is {"400": 0.5}"; steps/remedy_stats.py: count / ratio == total_count].     *)
(*     The values are float32: a ratio is accepted within one unit of 1/Scale.                                         *)
(*  R4 Break-down.  Under each (remedy, action) the affected transactions are partitioned by endpoint = (method,       *)
(*     normalised URL when the known-endpoints tree matches the URL, otherwise the host) with per-status counts        *)
(*     [runner_test.go: twitter.com/users/{id} vs api.com; feature: endpoint_stat count / count_by_status_code].       *)
(*     Which URLs the tree matches is an *input* (the tree answers it); the partition is by the answer at the time     *)
(*     the transaction was processed - counts are never moved or dropped when the tree changes later.  The plugin      *)
(*     hands each chunk to discovery first, which inserts the chunk's URLs into the tree, so that in the assembled     *)
(*     plugin an unknown URL is its own endpoint and the host fall-back of the unit test never applies; whether the    *)
(*     lookup happens before or after that insertion is not stated anywhere: both answers are accepted (per chunk).    *)
(*  R5 `remedy_action_stats[action]` counts the transactions on which any remedy took that action (once each).         *)
(*  R6 Batching is immaterial.  The figures are a function of the set of transactions seen since the plugin            *)
(*     started, not of how fluent-bit chunked them [utils/combine.go "Semigroup pattern"; runner_test.go adding to     *)
(*     an existing aggregation].  All laws below are stated on the history only, so R6 is built in.                    *)
(*  R7 min_time / max_time = when the first / the latest counted chunk was processed (plugin clock, whole seconds);   *)
(*     the epoch while nothing was counted [aggregation.go: clock.Now(); state.go Initialize].                        *)
(*  R8 Start.  A (re)start of the plugin begins with clean statistics [remedy_stats.feature, Background: "The next 2   *)
(*     steps are mandatory in order to clean Remedy Stats state"; state.go Initialize]; the discovery statistics       *)
(*     survive it (C15).  In flows mode no remedy statistics are kept [main.go: !IsFlowsEnabled(); feature @legacy].   *)
(*  R9 Dispatch.  Of a flushed chunk exactly the lines that are access-log objects with known remedy / run-result      *)
(*     names, a URL, and not gateway-internal are counted - once by the discovery statistics and once by the remedy    *)
(*     statistics; any other line is skipped and the others are not lost [decoding.go "Could not decode record",       *)
(*     "We only want to parse Json objects"; runner.go filterOutInternalRecords]; a flush reports FLB_OK.              *)
(*     Whether a line carrying generate_request counts is left open (R1 maps it, the decoder refuses it: see I).       *)
(* R10 Known endpoints.  The plugin builds the tree from the engine's file at start and re-reads it every              *)
(*     LUNAR_AGGREGATION_TREE_REFRESH_SECS when its modification time moved forward; an unreadable file leaves the     *)
(*     current tree in place [tree_update.go: "will use existing tree", "Successfully reloaded endpoints tree"].      *)
(*     A refresh changes the attribution of later transactions only; no count is lost (same state objects).           *)
(*                                                                                                                     *)
(* P is defined on the *history* h of counted transactions since the last start - sequence of                          *)
(*   [m, e, s, acts]   method, endpoint URL (by R4), status, set of <<remedy, action>> with action # no_op (by R1/R2)  *)
(* and on `out`, the projection of the state file as a user reads it:                                                  *)
(*   [ok, rs : Seq [r, a, n, ratio, eps : Seq [m, u, n, st : Seq [code, n]]], as : Seq [a, n, ratio, st : Seq          *)
(*    [code, ratio]], min, max, minz, maxz]        ratios scaled by Scale and rounded, times in whole seconds.        *)
(* Every law operator returns "ok" or the name of the first law broken.                                                *)
EXTENDS Integers, Sequences, FiniteSets, TLC

Scale == 100000

SeqSet(s) == {s[i] : i \in DOMAIN s}
Abs(x) == IF x < 0 THEN -x ELSE x
First(S) == IF S \ {"ok"} = {} THEN "ok" ELSE CHOOSE x \in S \ {"ok"} : TRUE

\* ------------------------------------------------------------------------------------------------- R1 vocabulary
RemedyNames == {"undefined", "caching", "response_based_throttling", "strategy_based_throttling",
                "concurrency_based_throttling", "strategy_based_queue", "account_orchestration", "fixed_response",
                "retry", "authentication"}
ReqResults  == {"no_op", "obtained_response", "modified_request", "modified_headers"}
RespResults == {"no_op", "modified_response", "retry_request"}
OpenResult  == "generate_request"          \* R9: named by the model, refused by the decoder - either reading is accepted

ReqAction(x) == IF x \in {"obtained_response", "generate_request"} THEN "generated"
                ELSE IF x \in {"modified_request", "modified_headers"} THEN "modified" ELSE "no_op"
RespAction(x) == IF x = "modified_response" THEN "modified" ELSE "no_op"

\* a delivered line: [k, m, u, h, s, ra : Seq [r, x : Seq result], pa, internal]; k = "ok" for an access-log object,
\* anything else for a line that is not one ("raw": free text / broken JSON, "nomsg": no message field at all)
NamesKnown(rec) == \A it \in SeqSet(rec.ra) \cup SeqSet(rec.pa) : it.r \in RemedyNames
Surely(rec) == /\ rec.k = "ok" /\ rec.u # "-" /\ NamesKnown(rec)
               /\ \A it \in SeqSet(rec.ra) : \A x \in SeqSet(it.x) : x \in ReqResults
               /\ \A it \in SeqSet(rec.pa) : \A x \in SeqSet(it.x) : x \in RespResults
Possibly(rec) == /\ rec.k = "ok" /\ rec.u # "-" /\ NamesKnown(rec)
                 /\ \A it \in SeqSet(rec.ra) : \A x \in SeqSet(it.x) : x \in ReqResults \cup {OpenResult}
                 /\ \A it \in SeqSet(rec.pa) : \A x \in SeqSet(it.x) : x \in RespResults
Open(rec) == Possibly(rec) /\ ~Surely(rec)

ReqPairs(rec)  == UNION {{<<it.r, ReqAction(x)>> : x \in SeqSet(it.x)} : it \in SeqSet(rec.ra)}
RespPairs(rec) == UNION {{<<it.r, RespAction(x)>> : x \in SeqSet(it.x)} : it \in SeqSet(rec.pa)}
Acts(rec) == {p \in ReqPairs(rec) \cup RespPairs(rec) : p[2] # "no_op"}          \* a set: once per transaction (R2)

\* R4: the endpoint of a transaction from what the tree answered for its URL (lk = [u, match, n])
EndpointOf(rec, lk) == IF lk.match THEN lk.n ELSE rec.h
Lookup(attr, u) == CHOOSE a \in attr : a.u = u
HistEntry(rec, attr) == [m |-> rec.m, e |-> EndpointOf(rec, Lookup(attr, rec.u)), s |-> rec.s, acts |-> Acts(rec)]

\* ------------------------------------------------------------------------------------------------- the laws
Pairs(h) == UNION {h[i].acts : i \in DOMAIN h}
Idx(h, p) == {i \in DOMAIN h : p \in h[i].acts}
AIdx(h, a) == {i \in DOMAIN h : \E p \in h[i].acts : p[2] = a}
Code(h, i) == ToString(h[i].s)

RatioOK(ratio, n, total) == total > 0 /\ Abs(ratio * total - n * Scale) <= total

\* per-status counts of one endpoint entry against the index set I
StatusOK(h, I, st) ==
    /\ Cardinality({p.code : p \in SeqSet(st)}) = Len(st)
    /\ {p.code : p \in SeqSet(st)} = {Code(h, i) : i \in I}
    /\ \A p \in SeqSet(st) : p.n = Cardinality({i \in I : Code(h, i) = p.code})

EndpointsLaw(h, I, eps) ==
    IF Cardinality({<<e.m, e.u>> : e \in SeqSet(eps)}) # Len(eps) THEN "DuplicateEndpoint"
    ELSE IF {<<e.m, e.u>> : e \in SeqSet(eps)} # {<<h[i].m, h[i].e>> : i \in I} THEN "Partition-Keys"
    ELSE IF \E e \in SeqSet(eps) : e.n # Cardinality({i \in I : h[i].m = e.m /\ h[i].e = e.u}) THEN "Partition"
    ELSE IF \E e \in SeqSet(eps) : ~StatusOK(h, {i \in I : h[i].m = e.m /\ h[i].e = e.u}, e.st) THEN "StatusSum"
    ELSE "ok"

EntryLaw(h, x) ==
    LET I == Idx(h, <<x.r, x.a>>) IN
    IF x.n # Cardinality(I) THEN "Conserve"
    ELSE IF ~RatioOK(x.ratio, x.n, Len(h)) THEN "Ratio"
    ELSE EndpointsLaw(h, I, x.eps)

ActionStatusOK(h, I, st) ==
    /\ Cardinality({p.code : p \in SeqSet(st)}) = Len(st)
    /\ {p.code : p \in SeqSet(st)} = {Code(h, i) : i \in I}
    /\ \A p \in SeqSet(st) : RatioOK(p.ratio, Cardinality({i \in I : Code(h, i) = p.code}), Len(h))

ActionLaw(h, x) ==
    LET I == AIdx(h, x.a) IN
    IF x.n # Cardinality(I) THEN "Action-Conserve"
    ELSE IF ~RatioOK(x.ratio, x.n, Len(h)) THEN "Action-Ratio"
    ELSE IF ~ActionStatusOK(h, I, x.st) THEN "Action-StatusRatio"
    ELSE "ok"

OutLaw(h, out) ==
    IF ~out.ok THEN "Unreadable"
    ELSE LET K == {<<x.r, x.a>> : x \in SeqSet(out.rs)}
             A == {x.a : x \in SeqSet(out.as)} IN
    IF Cardinality(K) # Len(out.rs) THEN "DuplicateEntry"
    ELSE IF \E p \in K : p[2] = "no_op" THEN "NoOpListed"
    ELSE IF Pairs(h) \ K # {} THEN "Conserve-Lost"
    ELSE IF K \ Pairs(h) # {} THEN "Conserve-Invented"
    ELSE LET r1 == First({EntryLaw(h, x) : x \in SeqSet(out.rs)}) IN
    IF r1 # "ok" THEN r1
    ELSE IF Cardinality(A) # Len(out.as) THEN "Action-Duplicate"
    ELSE IF A # {p[2] : p \in Pairs(h)} THEN "Action-Keys"
    ELSE First({ActionLaw(h, x) : x \in SeqSet(out.as)})

\* ------------------------------------------------------------------------------------------------- one flush (R9)
\* keep = the indices of the open lines (generate_request) that are read as counted; every other line is decided
CountedAt(batch, i, keep) == ~batch[i].internal /\ (Surely(batch[i]) \/ (Open(batch[i]) /\ i \in keep))
OpenChoices(batch) == SUBSET {i \in DOMAIN batch : Open(batch[i]) /\ ~batch[i].internal}
NCounted(batch, keep) == Cardinality({i \in DOMAIN batch : CountedAt(batch, i, keep)})
Extend(h, batch, attr, keep) ==
    LET f[i \in 0..Len(batch)] ==
            IF i = 0 THEN h
            ELSE IF CountedAt(batch, i, keep) THEN Append(f[i - 1], HistEntry(batch[i], attr)) ELSE f[i - 1]
    IN  f[Len(batch)]

\* the discovery statistics account for the same transactions (C15 states what they say about them)
DiscLaw(dbefore, batch, keep, disc) ==
    IF disc.total # dbefore + NCounted(batch, keep) THEN "Dispatch-Discovery" ELSE "ok"

\* R7: tf / tl = [lo, hi] second bounds of the first / latest counting flush since the start ([lo |-> -1] = none yet)
None == [lo |-> -1, hi |-> -1]
TimesLaw(tf, tl, out) ==
    IF tf = None THEN (IF out.minz /\ out.maxz THEN "ok" ELSE "Times-NotEpoch")
    ELSE IF out.minz \/ out.maxz THEN "Times-Epoch"
    ELSE IF ~(tf.lo <= out.min /\ out.min <= tf.hi) THEN "Times-Min"
    ELSE IF ~(tl.lo <= out.max /\ out.max <= tl.hi) THEN "Times-Max"
    ELSE "ok"

\* R8
CleanLaw(out) == IF ~out.ok THEN "Unreadable"
                 ELSE IF out.rs # <<>> \/ out.as # <<>> \/ ~out.minz \/ ~out.maxz THEN "Restart-NotClean" ELSE "ok"
\* R8, flows mode: no remedy statistics - the file is absent or stays clean
FlowsLaw(out) == IF ~out.exists THEN "ok" ELSE IF CleanLaw(out) # "ok" THEN "Flows-Touched" ELSE "ok"
================================================================================
