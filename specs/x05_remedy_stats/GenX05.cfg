CONSTANTS
  GenMaxLen = 4
  Mode = "plugin"
  Flows = FALSE
  MaxLines = 1
  MaxBatch = 1
  MaxTicks = 0
  MaxRestarts = 0
  MaxWrites = 0
  Bug = "none"
SPECIFICATION GenSpec
CHECK_DEADLOCK FALSE
