SPECIFICATION Spec
CONSTANTS
  Mode = "direct"
  Flows = FALSE
  MaxLines = 5
  MaxBatch = 3
  MaxTicks = 1
  MaxRestarts = 1
  MaxWrites = 0
  Bug = "none"
INVARIANTS Accept
CHECK_DEADLOCK FALSE
