SPECIFICATION Spec
CONSTANTS
  Mode = "plugin"
  Flows = FALSE
  MaxLines = 3
  MaxBatch = 2
  MaxTicks = 0
  MaxRestarts = 0
  MaxWrites = 1
  Bug = "benign_remedy_first"
INVARIANTS Accept
CHECK_DEADLOCK FALSE
