------------------------------- MODULE GenX05 -------------------------------
(* X05 - case generation (spec -> code): every word of at most GenMaxLen lines over the alphabet of MC_X05 (plus a line  *)
(* with an unknown remedy name), every composition of a word into chunks and every restart point (after any one chunk,  *)
(* or none), written with JsonSerialize.  The driver pairs words with the runs of their length, executes them on the     *)
(* real code at both levels and has RemedyStatsTrace judge them (its `drift` = the prediction of the model I).           *)
EXTENDS MC_X05, Json
CONSTANT GenMaxLen

GenLetters == <<L1, L2, L3, L4, L5, L6, L7, L8>>
DirectLetters == {1, 2, 3, 4, 5}          \* the lines that exist at the level of remedy.Run (decoded access logs)

Comp[n \in 0..GenMaxLen] == IF n = 0 THEN {<<>>} ELSE UNION {{<<k>> \o c : c \in Comp[n - k]} : k \in 1..n}
RunsOf(n) == UNION {{[split |-> c, restart |-> r] : r \in {<<>>} \cup {<<b>> : b \in 1..Len(c)}} : c \in Comp[n]}
Words == UNION {[1..n -> 1..Len(GenLetters)] : n \in 1..GenMaxLen}

ASSUME PrintT(<<"GEN-X05", Cardinality(Words), [n \in 1..GenMaxLen |-> Cardinality(RunsOf(n))]>>)
ASSUME JsonSerialize("x05_space.json",
          [letters |-> GenLetters, direct |-> SetToSeq(DirectLetters), known |-> SetToSeq(KnownOf(1)),
           words |-> SetToSeq(Words), runs |-> [n \in 1..GenMaxLen |-> SetToSeq(RunsOf(n))]])
\* nothing to explore: the module only evaluates the ASSUMEs above
GenSpec == Init /\ [][FALSE]_vars
=============================================================================
