SPECIFICATION Spec
CONSTANTS
  Mode = "direct"
  Flows = FALSE
  MaxLines = 3
  MaxBatch = 2
  MaxTicks = 1
  MaxRestarts = 1
  MaxWrites = 0
  Bug = "internal_counted"
INVARIANTS Accept
CHECK_DEADLOCK FALSE
