SPECIFICATION Spec
CONSTANTS
  Mode = "plugin"
  Flows = FALSE
  MaxLines = 3
  MaxBatch = 2
  MaxTicks = 0
  MaxRestarts = 0
  MaxWrites = 1
  Bug = "none"
INVARIANTS W_TwoEndpoints
CHECK_DEADLOCK FALSE
