SPECIFICATION Spec
CONSTANTS
  Mode = "plugin"
  Flows = FALSE
  MaxLines = 2
  MaxBatch = 2
  MaxTicks = 1
  MaxRestarts = 1
  MaxWrites = 1
  Bug = "none"
INVARIANTS Accept RefreshTakesEffect NeverInvalidTree
CHECK_DEADLOCK FALSE
