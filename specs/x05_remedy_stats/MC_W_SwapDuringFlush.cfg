SPECIFICATION Spec
CONSTANTS
  Mode = "plugin"
  Flows = FALSE
  MaxLines = 2
  MaxBatch = 2
  MaxTicks = 0
  MaxRestarts = 0
  MaxWrites = 1
  Bug = "none"
INVARIANTS W_SwapDuringFlush
CHECK_DEADLOCK FALSE
