--------------------------- MODULE RemedyStatsTrace ---------------------------
(* X05 - validation of recorded executions of the real plugin code (harness/cmd/x05) against RemedyStatsP, and - in the *)
(* same pass - comparison with the implementation-shaped model RemedyStatsI (`drift`).                                  *)
(*                                                                                                                     *)
(* trace.ndjson: {"ev":"config","refresh_ms":..,"slack_ms":..} then per stream                                          *)
(*   {"ev":"stream","mode":"direct|plugin","flows":b,"recs":[line..]}   the lines that will be delivered                *)
(*   and per run (one way of chunking / restarting / refreshing):                                                       *)
(*   {"ev":"reset"}                                  state files removed                                                *)
(*   {"ev":"start","out","disc","rc","gens","t0","t1"}   the plugin (re)started; out = the remedy state file as a user *)
(*                                                   reads it, disc = totals of the discovery state file                *)
(*   {"ev":"batch","from","n","rc","out","disc","attr0","attr","gens","t0","t1","swapped","since_write_ms"[,"err"]}    *)
(*                                                   lines from+1..from+n were flushed as one chunk; attr0 / attr =     *)
(*                                                   what the tree handed to that flush answers for their URLs before  *)
(*                                                   / after the flush; gens = the generations of the known-endpoints   *)
(*                                                   file whose marker it matches                                       *)
(*   {"ev":"write","gen","valid"}                    the known-endpoints file was rewritten (generation gen)            *)
(*   {"ev":"await","gen","seen","since_write_ms"}    the harness waited for the refresher to install generation gen     *)
(*   {"ev":"final"}                                                                                                     *)
(* Every step is always enabled; `verdict` = the first law of P the observation breaks ("ok" otherwise), `drift` = how  *)
(* the observation differs from what the model I computes; Accept demands verdict = "ok".                               *)
EXTENDS RemedyStatsI, TraceLib

VARIABLES l, fam, mode, flows, pos, hist, dexp, tf, tl, latest, latestValid, validGens, minGen, blind,
          iagg, verdict, drift
tvars == <<l, fam, mode, flows, pos, hist, dexp, tf, tl, latest, latestValid, validGens, minGen, blind, iagg, verdict, drift>>

Ev == TraceLog[l + 1]
Consume(name) == l < TraceLen /\ Ev.ev = name /\ l' = l + 1

RefreshMs == TraceLog[1].refresh_ms
SlackMs == TraceLog[1].slack_ms

Plugin == mode = "plugin"

TInit ==
    /\ l = 1 /\ fam = <<>> /\ mode = "direct" /\ flows = FALSE /\ pos = 0 /\ hist = <<>> /\ dexp = 0 /\ tf = None /\ tl = None
    /\ latest = 0 /\ latestValid = TRUE /\ validGens = {0} /\ minGen = 0 /\ blind = FALSE /\ iagg = ZeroAgg
    /\ verdict = "ok" /\ drift = "ok"

TStream ==
    /\ Consume("stream")
    /\ fam' = Ev.recs /\ mode' = Ev.mode /\ flows' = Ev.flows
    /\ pos' = 0 /\ hist' = <<>> /\ dexp' = 0 /\ tf' = None /\ tl' = None
    /\ latest' = 0 /\ latestValid' = TRUE /\ validGens' = {0} /\ minGen' = 0 /\ blind' = FALSE /\ iagg' = ZeroAgg
    /\ verdict' = "ok" /\ drift' = "ok"

TReset ==
    /\ Consume("reset")
    /\ pos' = 0 /\ hist' = <<>> /\ dexp' = 0 /\ tf' = None /\ tl' = None
    /\ latest' = 0 /\ latestValid' = TRUE /\ validGens' = {0} /\ minGen' = 0 /\ blind' = FALSE /\ iagg' = ZeroAgg
    /\ verdict' = "ok" /\ drift' = "ok"
    /\ UNCHANGED <<fam, mode, flows>>

\* R10: which generation of the file the tree of a flush / of a start stems from
GenLaw(gens, mustBeLatest) ==
    IF ~Plugin THEN "ok"
    ELSE IF Len(gens) # 1 THEN "Tree-Unknown"
    ELSE IF gens[1] \notin validGens THEN "Tree-InvalidLoaded"
    ELSE IF gens[1] < minGen THEN "Tree-Stale"
    ELSE IF mustBeLatest /\ latestValid /\ gens[1] # latest THEN "Tree-NotRefreshed"
    ELSE "ok"

TStart ==
    /\ Consume("start")
    /\ hist' = <<>> /\ tf' = None /\ tl' = None /\ iagg' = ZeroAgg /\ blind' = FALSE
    /\ minGen' = IF Plugin /\ Len(Ev.gens) = 1 THEN Ev.gens[1] ELSE minGen
    /\ verdict' = IF "err" \in DOMAIN Ev THEN "Error"
                  ELSE IF Plugin /\ Ev.rc # 1 THEN "InitFailed"
                  ELSE IF flows THEN FlowsLaw(Ev.out)
                  ELSE IF CleanLaw(Ev.out) # "ok" THEN CleanLaw(Ev.out)
                  ELSE IF Plugin /\ Ev.disc.total # dexp THEN "Restart-DiscoveryLost"
                  ELSE GenLaw(Ev.gens, TRUE)
    /\ drift' = "ok"
    /\ UNCHANGED <<fam, mode, flows, pos, dexp, latest, latestValid, validGens>>

\* what the model I makes of the same chunk: the decoded lines with the endpoint the real tree gave them
IBatch(recs, attr) ==
    LET dec == IF Plugin THEN Decode(recs) ELSE recs IN
    [i \in DOMAIN dec |-> [rec |-> dec[i], e |-> EndpointOf(dec[i], Lookup(attr, dec[i].u))]]

StripE(e) == [m |-> e.m, u |-> e.u, n |-> e.n, st |-> SeqSet(e.st)]
StripRS(x) == [r |-> x.r, a |-> x.a, n |-> x.n, eps |-> {StripE(e) : e \in SeqSet(x.eps)}]
StripAS(x) == [a |-> x.a, n |-> x.n, codes |-> {p.code : p \in SeqSet(x.st)}]
DriftOf(view, out) ==
    IF {StripRS(x) : x \in SeqSet(view.rs)} # {StripRS(x) : x \in SeqSet(out.rs)} THEN "remedy_stats differ from the model"
    ELSE IF {StripAS(x) : x \in SeqSet(view.as)} # {StripAS(x) : x \in SeqSet(out.as)} THEN "remedy_action_stats differ from the model"
    ELSE IF \E a \in SeqSet(view.rs), b \in SeqSet(out.rs) : a.r = b.r /\ a.a = b.a /\ Abs(a.ratio - b.ratio) > 1 THEN "affected_ratio differs from the model"
    ELSE IF \E a \in SeqSet(view.as), b \in SeqSet(out.as) : a.a = b.a /\ Abs(a.ratio - b.ratio) > 1 THEN "ratio differs from the model"
    ELSE IF view.minz # out.minz \/ view.maxz # out.maxz THEN "epoch times differ from the model"
    ELSE "ok"

TBatch ==
    /\ Consume("batch")
    /\ LET n     == Ev.n
           recs  == SubSeq(fam, pos + 1, pos + n)
           attr  == SeqSet(Ev.attr)
           out   == Ev.out
           dlaw(k) == IF Plugin THEN DiscLaw(dexp, recs, k, Ev.disc) ELSE "ok"
           judged == ~flows /\ ~blind /\ ~(Plugin /\ Ev.swapped) /\ out.ok
           \* the open points of the statement: which open lines count (R9) and whether a URL is looked up before or after
           \* discovery has inserted the chunk's URLs into the tree (R4) - the reading under which the observation
           \* satisfies the laws, if there is one
           opens == OpenChoices(recs)
           reads == {attr, SeqSet(Ev.attr0)}
           good  == IF opens = {{}} /\ Cardinality(reads) = 1 THEN {}
                    ELSE {c \in opens \X reads : dlaw(c[1]) = "ok" /\ (~judged \/ OutLaw(Extend(hist, recs, c[2], c[1]), out) = "ok")}
           pick  == IF good = {} THEN <<{}, attr>> ELSE CHOOSE c \in good : TRUE
           keep  == pick[1]
           view  == pick[2]
           h2    == IF flows THEN hist ELSE Extend(hist, recs, view, keep)
           nc    == NCounted(recs, keep)
           tl2   == IF nc > 0 /\ ~flows THEN [lo |-> Ev.t0, hi |-> Ev.t1] ELSE tl
           tf2   == IF nc > 0 /\ ~flows /\ tf = None THEN [lo |-> Ev.t0, hi |-> Ev.t1] ELSE tf
           ia2   == IF flows THEN iagg ELSE Run(iagg, IBatch(recs, attr), 1 + Ev.t1)          \* the code as it is: after
           since == IF Plugin THEN Ev.since_write_ms ELSE -1
           olaw  == IF judged THEN OutLaw(h2, out) ELSE "ok"
           tlaw  == TimesLaw(tf2, tl2, out)
       IN  /\ hist' = h2 /\ pos' = pos + n /\ tf' = tf2 /\ tl' = tl2 /\ iagg' = ia2
           /\ dexp' = dexp + (IF Plugin THEN nc ELSE 0)
           /\ blind' = (blind \/ (Plugin /\ Ev.swapped))
           /\ minGen' = IF Plugin /\ Len(Ev.gens) = 1 THEN Ev.gens[1] ELSE minGen
           /\ verdict' = IF Ev.from # pos \/ pos + n > Len(fam) THEN "Incomplete"
                         ELSE IF "err" \in DOMAIN Ev THEN "Error"
                         ELSE IF Ev.rc # 1 THEN "FlushFailed"
                         ELSE IF dlaw(keep) # "ok" THEN dlaw(keep)
                         ELSE IF flows THEN FlowsLaw(out)
                         ELSE IF ~out.ok THEN "Unreadable"
                         ELSE IF olaw # "ok" THEN olaw
                         ELSE IF tlaw # "ok" THEN tlaw
                         ELSE GenLaw(Ev.gens, since >= RefreshMs + SlackMs)
           /\ drift' = IF flows \/ ~judged THEN "ok" ELSE DriftOf(PersistView(ia2, ia2.total), out)
    /\ UNCHANGED <<fam, mode, flows, latest, latestValid, validGens>>

TWrite ==
    /\ Consume("write")
    /\ latest' = Ev.gen /\ latestValid' = Ev.valid
    /\ validGens' = IF Ev.valid THEN validGens \cup {Ev.gen} ELSE validGens
    /\ verdict' = "ok" /\ drift' = "ok"
    /\ UNCHANGED <<fam, mode, flows, pos, hist, dexp, tf, tl, minGen, blind, iagg>>

TAwait ==
    /\ Consume("await")
    /\ verdict' = IF Ev.seen /\ Ev.gen \notin validGens THEN "Tree-InvalidLoaded"
                  ELSE IF ~Ev.seen /\ Ev.gen \in validGens /\ Ev.gen = latest /\ Ev.since_write_ms >= RefreshMs + SlackMs THEN "Tree-NotRefreshed"
                  ELSE "ok"
    /\ drift' = "ok"
    /\ UNCHANGED <<fam, mode, flows, pos, hist, dexp, tf, tl, latest, latestValid, validGens, minGen, blind, iagg>>

TFinal ==
    /\ Consume("final")
    /\ verdict' = "ok" /\ drift' = "ok"
    /\ UNCHANGED <<fam, mode, flows, pos, hist, dexp, tf, tl, latest, latestValid, validGens, minGen, blind, iagg>>

TNext == TStream \/ TReset \/ TStart \/ TBatch \/ TWrite \/ TAwait \/ TFinal
TraceSpec == TInit /\ [][TNext]_tvars

Accept == verdict = "ok"
\* the first difference from the model is remembered (register 2) and printed at the end; it does not stop the validation
DriftMark == IF drift # "ok" /\ TLCGetOrDefault(2, "ok") = "ok" THEN TLCSet(2, "line " \o ToString(l) \o ": " \o drift) ELSE TRUE
HWM == Mark(l) /\ DriftMark
Post == Report /\ PrintT("TRACE-DRIFT " \o TLCGetOrDefault(2, "ok"))
================================================================================
