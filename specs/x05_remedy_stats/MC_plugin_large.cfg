SPECIFICATION Spec
CONSTANTS
  Mode = "plugin"
  Flows = FALSE
  MaxLines = 3
  MaxBatch = 2
  MaxTicks = 0
  MaxRestarts = 1
  MaxWrites = 2
  Bug = "none"
INVARIANTS Accept RefreshTakesEffect NeverInvalidTree
CHECK_DEADLOCK FALSE
