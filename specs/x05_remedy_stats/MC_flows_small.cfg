SPECIFICATION Spec
CONSTANTS
  Mode = "plugin"
  Flows = TRUE
  MaxLines = 2
  MaxBatch = 2
  MaxTicks = 0
  MaxRestarts = 1
  MaxWrites = 1
  Bug = "none"
INVARIANTS Accept RefreshTakesEffect
CHECK_DEADLOCK FALSE
