SPECIFICATION TraceSpec
CONSTANT Bug = "none"
INVARIANT Accept
CONSTRAINT HWM
POSTCONDITION Post
CHECK_DEADLOCK FALSE
