CONSTANTS
  JBlockInverted = FALSE
  JNo172 = FALSE
  JAllowFallsThrough = FALSE
  TBlockInverted = FALSE
  TNo172 = FALSE
  Devs = {}
  Tier = "quick"
  Impl = "ts"
SPECIFICATION Spec
CHECK_DEADLOCK FALSE
