CONSTANTS
  Ns = {1, 2, 3}
  Cs = {1, 2}
  MaxNow = 5
  Steps = {1, 2}
  StrictCool = FALSE
  NoReset = FALSE
  NoFallback = FALSE
  IgnoreState = FALSE
  CountOnce = FALSE
  ResetOnRecover = FALSE
  Devs = {"exception-in-gateway-leg-counts-as-gateway-failure", "gateway-error-response-counts-twice"}
SPECIFICATION MCSpec
INVARIANT Refines
CONSTRAINT Bound
VIEW View
CHECK_DEADLOCK FALSE
