-------------------------- MODULE TrafficFilterJavaI --------------------------
(* X04 - transcription of dev/lunar/interceptor/TrafficFilter.java (+ InetRange.java):    *)
(*   parseList (String.split(",") - trailing empty strings dropped - into a HashSet),      *)
(*   the private constructor -> isAccessListValid -> validateAllow (removes unsupported    *)
(*   items from the set it iterates) / validateBlock (both lists => block list ignored;     *)
(*   an unsupported item disables the filter), isAllowed, checkAllowed, checkBlocked,       *)
(*   isExternal / isExternalIp / isExternalDomain / isIpInPrivateRange (table of four IPv4   *)
(*   ranges keyed by the first two characters of InetAddress.getHostAddress()).              *)
(* One case -> the SET of possible results (the HashSet iteration order decides whether the  *)
(* removal inside the loop throws ConcurrentModificationException).                          *)
(* Flags (breaking variants, must be refuted): JBlockInverted, JNo172 (range 172.16/12        *)
(* missing from the table), JAllowFallsThrough (a destination outside the allow list is        *)
(* judged by the external test instead of being refused).                                     *)
EXTENDS TrafficFilterV

CONSTANTS JBlockInverted, JNo172, JAllowFallsThrough

\* String.split(","): trailing empty strings are removed
RECURSIVE DropTrailingEmpty(_)
DropTrailingEmpty(l) == IF l # <<>> /\ l[Len(l)].raw = "" THEN DropTrailingEmpty(SubSeq(l, 1, Len(l) - 1)) ELSE l

Private4J(o) ==
    \/ o[1] = 10
    \/ o[1] = 127
    \/ (~JNo172 /\ o[1] = 172 /\ o[2] >= 16 /\ o[2] <= 31)
    \/ (o[1] = 192 /\ o[2] = 168)

\* isExternal: "yes" | "no"
ExternalJ(c) ==
    CASE c.ip6 # <<>> /\ Mapped(c.ip6) -> IF Private4J(Embedded4(c.ip6)) THEN "no" ELSE "yes"   \* getByName unwraps IPv4-mapped literals
      [] c.ip6 # <<>> -> "yes"                                            \* "0:", "fe", "fc", "fd" ... are not keys of the table
      [] c.ip # <<>> /\ c.rsv \in {"literal", "ok"} -> IF Private4J(c.ip) THEN "no" ELSE "yes"
      [] OTHER -> "no"                                                    \* UnknownHostException

ResultsJ(c) ==
    LET allowPresent == Given(c.allow) \/ c.envform = "allow-empty"       \* the variable is set ("".split(",") = [""]: one unsupported item)
        blockPresent0 == Given(c.block)
        itemsA == SeqSet(DropTrailingEmpty(c.allow))
        itemsB == SeqSet(DropTrailingEmpty(c.block))
        unsupA == {x \in itemsA : ~x.sup.java}
        mayRaise == allowPresent /\ unsupA # {} /\ Cardinality(itemsA) >= 2
        allowFinal == {x.raw : x \in itemsA \ unsupA}
        blockPresent == blockPresent0 /\ ~allowPresent                     \* "Found LUNAR_ALLOW_LIST ignoring the LUNAR_BLOCK_LIST"
        stateOk == ~blockPresent \/ \A x \in itemsB : x.sup.java
        inBlock == c.host \in {x.raw : x \in itemsB}
        normal ==
            IF ~stateOk THEN "no"
            ELSE IF c.header # "absent" THEN (IF c.header = "true" THEN "yes" ELSE "no")
            ELSE IF allowPresent /\ ~(JAllowFallsThrough /\ c.host \notin allowFinal)
                 THEN (IF c.host \in allowFinal THEN "yes" ELSE "no")
            ELSE IF blockPresent /\ (IF JBlockInverted THEN ~inBlock ELSE inBlock) THEN "no"
            ELSE ExternalJ(c)
    IN  IF mayRaise THEN {"raise", normal} ELSE {normal}

\* a case with one of its possible results filled in
WithRes(c, r) == [c EXCEPT !.res = r, !.stage = IF r = "raise" THEN "construct" ELSE ""]
================================================================================
