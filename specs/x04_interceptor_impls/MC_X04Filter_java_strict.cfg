CONSTANTS
  JBlockInverted = FALSE
  JNo172 = FALSE
  JAllowFallsThrough = FALSE
  Devs = {}
  Tier = "quick"
SPECIFICATION Spec
CHECK_DEADLOCK FALSE
