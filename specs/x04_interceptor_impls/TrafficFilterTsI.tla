--------------------------- MODULE TrafficFilterTsI ---------------------------
(* X04 - transcription of interceptors/lunar-ts-interceptor/src/trafficFilter.ts:          *)
(*   the private constructor (parseList = split(","), isAccessListValid -> validateAllow /   *)
(*   validateBlock; validateHost(x) = "not an IPv4 address", so every item is supported),    *)
(*   isAllowed (the destination is cut at its first ':'; the per-request header must be      *)
(*   "true" when present AND the lists / the external test must agree), checkAllowed,        *)
(*   checkBlocked, isExternalIP (names are never resolved: "If it's not an IP, we currently   *)
(*   assume it's external"; private = 10/8, 172.16/12, 192.168/16, 169.254/16, 127/8).        *)
(* The destination is handed over as URL.host ("host:port", "[v6]:port").                     *)
(* Flags (breaking variants, must be refuted): TBlockInverted, TNo172.                         *)
EXTENDS TrafficFilterV

CONSTANTS TBlockInverted, TNo172

Private4T(o) ==
    \/ o[1] = 10
    \/ o[1] = 127
    \/ (~TNo172 /\ o[1] = 172 /\ o[2] >= 16 /\ o[2] <= 31)
    \/ (o[1] = 192 /\ o[2] = 168)
    \/ (o[1] = 169 /\ o[2] = 254)

\* what is left of the destination after `hostOrIp.split(":")[0]`
CutHost(c) == IF c.kind = "ip6" THEN "[" ELSE c.host

ExternalT(c) == IF c.kind = "ip4" /\ Private4T(c.ip) THEN "no" ELSE "yes"      \* IP_PATTERN matches dotted quads only; all else is "external"

ResultsT(c) ==
    LET allowPresent == Given(c.allow)
        blockPresent == Given(c.block) /\ ~allowPresent                   \* "Found AllowList skipping the BlockList"
        allowRaw == {x.raw : x \in SeqSet(c.allow)}
        blockRaw == {x.raw : x \in SeqSet(c.block)}
        inBlock == CutHost(c) \in blockRaw
        byHeader == c.header = "absent" \/ c.header = "true"
        byLists == IF allowPresent THEN CutHost(c) \in allowRaw
                   ELSE (~(blockPresent /\ (IF TBlockInverted THEN ~inBlock ELSE inBlock))) /\ ExternalT(c) = "yes"
    IN  IF c.envform = "allow-empty" THEN {"no"}        \* "".split(",") = [""]: an allow list whose only item matches no destination
        ELSE {IF byHeader /\ byLists THEN "yes" ELSE "no"}
================================================================================
