------------------------------ MODULE FailSafeTsI ------------------------------
(* X04 - implementation-shaped specification of the TypeScript interceptor's fail-safe:   *)
(*   src/failSafe.ts  (FailSafe: _stateOk / _errorCounter / _cooldownStartedAt,            *)
(*   ensureEnterFailSafe, ensureExitFailSafe, onError, onSuccess, stateOk)                  *)
(* used the way the fetch hook uses it (src/interceptor.ts fetchHookFunc / fetchHandler):   *)
(*     if (failSafe.stateOk() && trafficFilter.isAllowed(url.host, headers)) fetchHandler() *)
(*     fetchHandler: if (!gotError && failSafe.stateOk()) try { response = originalFetch(modified)        *)
(*         if (response has x-lunar-error) { onError(); onError(); return fetchHandler(.., gotError=true) } *)
(*         else { onSuccess(); return response } } catch (error) { onError(error) }                          *)
(*     return originalFetch(original)                                                       *)
(* Variant flags: StrictCool, NoReset, NoFallback, IgnoreState (must be refuted);            *)
(*   CountOnce (an error response counted once - the repaired behaviour, must refine P        *)
(*   without the deviation), ResetOnRecover (benign).                                         *)
EXTENDS FailSafeRelV

CONSTANTS Ns, Cs, MaxNow, Steps, StrictCool, NoReset, NoFallback, IgnoreState, CountOnce, ResetOnRecover

VARIABLES cfgN, cfgC, okflag, cnt, started, now, last
ivars == <<cfgN, cfgC, okflag, cnt, started, now, last>>

GwKinds == {"conn", "proxy/X-Lunar-Error/2"}
AppKinds == {"runtime", "io+"}
KindsOf(out) == CASE out = "gwerr" -> GwKinds [] out = "appexc" -> AppKinds [] OTHER -> {""}

Init ==
    /\ cfgN \in Ns /\ cfgC \in Cs
    /\ okflag = TRUE /\ cnt = 0 /\ started = 0 /\ now = 0
    /\ last = EvX("init", 0, FALSE, "", "", TRUE, "none", "")

\* stateOk() = ensureExitFailSafe; <<_stateOk, _errorCounter>> afterwards
Elapsed == IF StrictCool THEN now - started > cfgC ELSE now - started >= cfgC
StateOk == IF ~okflag /\ Elapsed THEN <<TRUE, IF ResetOnRecover THEN 0 ELSE cnt>> ELSE <<okflag, cnt>>

\* onError: counter + 1, ensureEnterFailSafe;  x = <<_stateOk, _errorCounter, _cooldownStartedAt>>
OnError(x) == IF cfgN > x[2] + 1 THEN <<x[1], x[2] + 1, x[3]>> ELSE <<FALSE, x[2] + 1, now>>

IsResp(kind) == kind \notin {"", "conn", "timeout", "unknownhost"}
Again(kind) == kind \in {"runtime+", "io+"}

\* the rest of fetchHandler once the gateway leg ended: <<_stateOk, _errorCounter, _cooldownStartedAt, raised, via>>
AfterLeg(out, kind, x) ==
    CASE out = "ok" -> <<x[1], IF NoReset THEN x[2] ELSE 0, x[3], "none", "gateway">>
      [] out = "gwerr" -> LET y == IF IsResp(kind) /\ ~CountOnce THEN OnError(OnError(x)) ELSE OnError(x) IN
                          IF NoFallback THEN <<y[1], y[2], y[3], "other", "">> ELSE <<y[1], y[2], y[3], "none", "direct">>
      [] out = "appexc" -> LET y == OnError(x) IN
                           IF Again(kind) THEN <<y[1], y[2], y[3], "same", "">> ELSE <<y[1], y[2], y[3], "none", "direct">>

Apply(ok, c, st, e) ==
    /\ okflag' = ok /\ cnt' = c /\ started' = st /\ last' = e
    /\ UNCHANGED <<cfgN, cfgC, now>>

Advance(d) ==
    /\ now + d <= MaxNow
    /\ now' = now + d
    /\ last' = EvX("adv", d, FALSE, "", "", TRUE, "none", "")
    /\ UNCHANGED <<cfgN, cfgC, okflag, cnt, started>>

Ask == LET r == StateOk IN Apply(r[1], r[2], started, EvX("ask", 0, FALSE, "", "", r[1], "none", ""))

Call(out, kind) ==
    LET r == StateOk
        go == r[1] \/ IgnoreState
    IN  IF ~go \/ out = "skip"
        THEN Apply(r[1], r[2], started, EvX("call", 0, TRUE, out, kind, go, "none", "direct"))
        ELSE LET x == AfterLeg(out, kind, <<r[1], r[2], started>>)
             IN  Apply(x[1], x[2], x[3], EvX("call", 0, TRUE, out, kind, TRUE, x[4], x[5]))

Late(out, kind) ==
    LET x == AfterLeg(out, kind, <<okflag, cnt, started>>)
    IN  Apply(x[1], x[2], x[3], EvX("call", 0, FALSE, out, kind, TRUE, x[4], x[5]))

Next ==
    \/ \E d \in Steps : Advance(d)
    \/ Ask
    \/ \E out \in Outs : \E kind \in KindsOf(out) : Call(out, kind)
    \/ \E out \in Outs \ {"skip"} : \E kind \in KindsOf(out) : Late(out, kind)

ISpec == Init /\ [][Next]_ivars
================================================================================
