----------------------------- MODULE FailSafeJavaI -----------------------------
(* X04 - implementation-shaped specification of the Java interceptor's fail-safe:        *)
(*   dev/lunar/interceptor/FailSafe.java  (ErrorCounter: countError / resetCounter /      *)
(*   isStateOk;  CooldownControl: startCooldown / isCooldownEnded with the 0 sentinel;    *)
(*   stateOk / onError / onSuccess / ensureEnterFailSafe)                                 *)
(* used the way the injected code uses it (resources/okhttp3/realcall.lunarGetResponse):  *)
(*     if (gotError || !failSafe.stateOk() || !trafficFilter.isAllowed(..)) return originalGetResponse();   *)
(*     try { res = originalGetResponse(); ... isError = failSafe.isErrorHeader(headers); }                  *)
(*     catch (java.lang.Exception e) { isError = true; }                                                    *)
(*     if (isError) { failSafe.onError(id); return newRealCall(...).execute(.., isError); }   // direct       *)
(*     failSafe.onSuccess(id); return res;                                                                  *)
(* One action per observable event (events of FailSafeRelV); FailSafe has no lock, a call is *)
(* one atomic step of one thread, legs already in flight are the read = FALSE calls.        *)
(*                                                                                       *)
(* Variant flags:  StrictCool (`>` for `>=`), NoReset (onSuccess keeps the counter),        *)
(*   NoFallback (a gateway failure reaches the caller), CatchThrowable (java.lang.Error is   *)
(*   swallowed and counted too), IgnoreState (stateOk not consulted) - must all be refuted;  *)
(*   ResetOnRecover (counter cleared when the cool-down ends) - benign, must refine.         *)
EXTENDS FailSafeRelV

CONSTANTS Ns, Cs, MaxNow, Steps, StrictCool, NoReset, NoFallback, CatchThrowable, IgnoreState, ResetOnRecover

VARIABLES cfgN, cfgC,      \* ErrorCounter.maxErrorsAllowed, CooldownControl.cooldownTimeMs (in ticks)
          cnt,             \* ErrorCounter.errorsCounter
          started,         \* CooldownControl.cooldownStartedAtMs (0 = no cool-down running)
          now,             \* clock.currentTimeMillis() (in ticks; the epoch clock is never 0)
          last             \* the observable event just produced
ivars == <<cfgN, cfgC, cnt, started, now, last>>

GwKinds == {"conn", "proxy/X-Lunar-Error/2"}
AppKinds == {"runtime", "io+", "error"}
KindsOf(out) == CASE out = "gwerr" -> GwKinds [] out = "appexc" -> AppKinds [] OTHER -> {""}

Init ==
    /\ cfgN \in Ns /\ cfgC \in Cs
    /\ cnt = 0 /\ started = 0 /\ now = 1
    /\ last = EvX("init", 0, FALSE, "", "", TRUE, "none", "")

\* CooldownControl.isCooldownEnded: <<answer, cooldownStartedAtMs afterwards, errorsCounter afterwards>>
Elapsed == IF StrictCool THEN now - started > cfgC ELSE now - started >= cfgC
StateOk == IF started = 0 THEN <<TRUE, 0, cnt>>
           ELSE IF Elapsed THEN <<TRUE, 0, IF ResetOnRecover THEN 0 ELSE cnt>>
           ELSE <<FALSE, started, cnt>>

\* onError: countError, ensureEnterFailSafe
OnError(c, st) == IF c + 1 < cfgN THEN <<c + 1, st>> ELSE <<c + 1, now>>

Caught(kind) == kind \in LegExceptionKinds \/ (CatchThrowable /\ kind \in {"error", "error+"})
Again(kind) == kind \in {"runtime+", "io+", "error+"}

\* the rest of the injected method once the gateway leg ended: <<errorsCounter, cooldownStartedAtMs, raised, via>>
AfterLeg(out, kind, c, st) ==
    CASE out = "ok" -> <<IF NoReset THEN c ELSE 0, st, "none", "gateway">>
      [] out = "gwerr" -> LET x == OnError(c, st) IN
                          IF NoFallback THEN <<x[1], x[2], "other", "">> ELSE <<x[1], x[2], "none", "direct">>
      [] out = "appexc" /\ Caught(kind) ->
                          LET x == OnError(c, st) IN
                          IF Again(kind) THEN <<x[1], x[2], "same", "">> ELSE <<x[1], x[2], "none", "direct">>
      [] out = "appexc" /\ ~Caught(kind) -> <<c, st, "same", "">>

Apply(c, st, e) ==
    /\ cnt' = c /\ started' = st /\ last' = e
    /\ UNCHANGED <<cfgN, cfgC, now>>

Advance(d) ==
    /\ now + d <= MaxNow
    /\ now' = now + d
    /\ last' = EvX("adv", d, FALSE, "", "", TRUE, "none", "")
    /\ UNCHANGED <<cfgN, cfgC, cnt, started>>

Ask == LET r == StateOk IN Apply(r[3], r[2], EvX("ask", 0, FALSE, "", "", r[1], "none", ""))

Call(out, kind) ==
    LET r == StateOk
        go == r[1] \/ IgnoreState
    IN  IF ~go \/ out = "skip"
        THEN Apply(r[3], r[2], EvX("call", 0, TRUE, out, kind, go, "none", "direct"))
        ELSE LET x == AfterLeg(out, kind, r[3], r[2])
             IN  Apply(x[1], x[2], EvX("call", 0, TRUE, out, kind, TRUE, x[3], x[4]))

Late(out, kind) ==
    LET x == AfterLeg(out, kind, cnt, started)
    IN  Apply(x[1], x[2], EvX("call", 0, FALSE, out, kind, TRUE, x[3], x[4]))

Next ==
    \/ \E d \in Steps : Advance(d)
    \/ Ask
    \/ \E out \in Outs : \E kind \in KindsOf(out) : Call(out, kind)
    \/ \E out \in Outs \ {"skip"} : \E kind \in KindsOf(out) : Late(out, kind)

ISpec == Init /\ [][Next]_ivars
================================================================================
