CONSTANTS
  Ns = {1, 2, 3, 4, 5}
  Cs = {1, 2, 3, 5, 10}
  MaxNow = 100000
  Steps = {1, 2, 3, 5, 10}
  StrictCool = FALSE
  NoReset = FALSE
  NoFallback = FALSE
  IgnoreState = FALSE
  CountOnce = FALSE
  ResetOnRecover = FALSE
  GenDepth = 40
SPECIFICATION GSpec
INVARIANT Emit
CHECK_DEADLOCK FALSE
