------------------------------ MODULE GenX04FSTs ------------------------------
(* Behaviour generation from the model of the TypeScript fail-safe (see GenX04FS). *)
EXTENDS FailSafeTsI, TLC, Json
CONSTANT GenDepth
VARIABLE hist
GInit == Init /\ hist = <<[ev |-> "reset", N |-> cfgN, C |-> cfgC]>>
GNext == Next /\ hist' = Append(hist, last')
GSpec == GInit /\ [][GNext]_<<ivars, hist>>
Emit == (Len(hist) = GenDepth) => PrintT(<<"VH", ToJson(hist)>>)
=============================================================================
