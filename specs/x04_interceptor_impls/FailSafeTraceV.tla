---------------------------- MODULE FailSafeTraceV ----------------------------
(* X04 - recorded executions of an interceptor implementation (tree of observed events,  *)
(* format of specs/c19_interceptor/FailSafeTrace) judged by FailSafeRelV, twice in one     *)
(* walk:  S = P-states compatible with the observations under the statement alone         *)
(* (strict), V = under the statement + the deviations pinned for the implementation named  *)
(* in the reset node.  S \subseteq V.                                                     *)
(*   <<"OBS", node>>  the strict judgement rejects the observation at node (first on its   *)
(*                    path)                -> reported as OBSERVATION                      *)
(*   <<"REJ", node>>  the pinned judgement rejects it: not explored further -> VIOLATION   *)
EXTENDS FailSafeRelV, TraceLib

VARIABLES node, S, V, devs, mark
tvars == <<node, S, V, devs, mark>>

Kids(n) == LET ks == TraceLog[n].k IN {ks[i] : i \in DOMAIN ks}

TInit == node = 1 /\ S = {} /\ V = {} /\ devs = {} /\ mark = ""
TNext == /\ (node = 1 \/ V # {})
         /\ \E c \in Kids(node) :
              LET e == TraceLog[c] IN
              /\ node' = c
              /\ IF e.ev = "reset"
                 THEN /\ S' = {PInit(e.N, e.C)} /\ V' = {PInit(e.N, e.C)} /\ devs' = FailSafeDevs(e.impl) /\ mark' = ""
                 ELSE /\ S' = SuccSetV(S, e, {})
                      /\ V' = SuccSetV(V, e, devs)
                      /\ devs' = devs
                      /\ mark' = IF V' = {} THEN "rej" ELSE IF S # {} /\ S' = {} THEN "obs" ELSE ""
TraceSpec == TInit /\ [][TNext]_tvars

Report1 == /\ (mark = "rej" => PrintT(<<"REJ", node>>))
           /\ (mark = "obs" => PrintT(<<"OBS", node>>))
Post == PrintT(<<"TREE", TLCGet("stats").distinct, TraceLen>>)
================================================================================
