------------------------------ MODULE MC_X04FSTs ------------------------------
(* I => P by subset construction for the TypeScript fail-safe (see MC_X04FS). *)
EXTENDS FailSafeTsI, TLC

CONSTANT Devs
VARIABLE S
mcvars == <<ivars, S>>

MCInit == Init /\ S = {PInit(cfgN, cfgC)}
MCNext == Next /\ S' = SuccSetV(S, last', Devs)
MCSpec == MCInit /\ [][MCNext]_mcvars

Refines == S # {}
View == <<cfgN, cfgC, okflag, cnt, started, now, S>>
Bound == cnt <= cfgN + 3

W_NeverOpen == okflag
W_NeverEarlyTrip == ~(last.ev = "call" /\ ~okflag /\ started = now /\ cnt > cfgN)     \* the double count overshoots N
=============================================================================
