CONSTANTS
  JBlockInverted = FALSE
  JNo172 = FALSE
  JAllowFallsThrough = FALSE
  TBlockInverted = FALSE
  TNo172 = FALSE
  Devs = {"ipv6-internal-destination-routed", "list-items-compared-as-typed", "unsupported-allow-item-raises"}
  Tier = "quick"
  Impl = "java"
SPECIFICATION Spec
CHECK_DEADLOCK FALSE
