------------------------------- MODULE GenX04FS -------------------------------
(* Behaviour generation (spec -> code): random walks of the implementation-shaped model   *)
(* of the Java fail-safe (tlc -simulate) with larger thresholds / cool-downs and longer    *)
(* histories than the exhaustive trees; each walk is printed with the model's predicted     *)
(* observations.  The events are replayed into the real Java classes; the real             *)
(* observations are judged by FailSafeTraceV, a difference to the prediction is model drift. *)
EXTENDS FailSafeJavaI, TLC, Json
CONSTANT GenDepth
VARIABLE hist
GInit == Init /\ hist = <<[ev |-> "reset", N |-> cfgN, C |-> cfgC]>>
GNext == Next /\ hist' = Append(hist, last')
GSpec == GInit /\ [][GNext]_<<ivars, hist>>
Emit == (Len(hist) = GenDepth) => PrintT(<<"VH", ToJson(hist)>>)
=============================================================================
