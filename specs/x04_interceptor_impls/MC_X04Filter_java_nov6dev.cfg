CONSTANTS
  JBlockInverted = FALSE
  JNo172 = FALSE
  JAllowFallsThrough = FALSE
  Devs = {"list-items-compared-as-typed", "unsupported-allow-item-raises"}
  Tier = "quick"
SPECIFICATION Spec
CHECK_DEADLOCK FALSE
