---------------------------- MODULE TrafficFilterV ----------------------------
(* X04 - the traffic-filter statement for all implementations:                          *)
(*   TrafficFilterP (specs/c19_interceptor, reused unchanged: T1-T4, one direction:      *)
(*   "must not route")  +  T5 Forward (the other direction, where the README is          *)
(*   unambiguous)  +  the named deviations of InterceptorImpls, each widening the        *)
(*   judgement by exactly the reading of the case it names.                              *)
(*                                                                                     *)
(* A case is a case of TrafficFilterP with, in addition:                                 *)
(*   list items  [raw, low, canon, wf, sup]:  wf = the item as typed is a host name or a   *)
(*               dotted IPv4 address (the shapes of the README's examples                  *)
(*               "use.com,use2.com,192.168.1.1");  sup = [java |-> .., ts |-> ..]          *)
(*               whether that implementation's own validation accepts the item as typed   *)
(*   impl        the implementation that produced res                                     *)
(*   envform     "normal" (a list variable is set iff its list is non-empty) |             *)
(*               "allow-empty" (LUNAR_ALLOW_LIST is SET to the empty string; allow = <<>>) *)
(*   stage       "" | "construct" | "decide": where an exception was raised               *)
EXTENDS TrafficFilterP, InterceptorImpls

ItemsOf(c) == SeqSet(c.allow) \cup SeqSet(c.block)
\* the lists are typed the way the README types them: well-formed items, no blanks, canonical letter case
ListsPlain(c) == \A x \in ItemsOf(c) : x.wf /\ x.raw = x.canon

\* an IPv4 address that is public beyond doubt (first octets holding special-purpose blocks are left out, except the two
\* whose private part the README's statement is about: 172.16/12 and 192.168/16 - their neighbours are public)
Public4(o) ==
    /\ o[1] \in ((1..223) \ {10, 100, 127, 169, 198, 203})
    /\ (o[1] = 172 => (o[2] < 16 \/ o[2] > 31))
    /\ (o[1] = 192 => o[2] \notin {0, 88, 168})
SurelyOutbound(c) ==
    /\ c.ip # <<>> /\ c.ip6 = <<>> /\ Public4(c.ip)
    /\ \/ (c.kind = "ip4" /\ c.rsv = "literal")
       \/ (c.kind = "name" /\ c.rsv = "ok")

\* T5 Forward: no per-request header, lists typed plainly, and either the destination is in the allow list as typed
\* (T2: "will only forward requests to domains which are in the Allow List") or there is no allow list, the block list
\* does not name it and it is an outbound destination ("forward 3rd party API's HTTP/S requests to Lunar Proxy")
MustRoute(c) ==
    /\ c.header \in {"absent", "empty"}
    /\ ListsPlain(c)
    /\ IF AllowGiven(c) THEN c.host \in {x.raw : x \in SeqSet(c.allow)}
       ELSE c.hcanon \notin Denoted(c.block) /\ SurelyOutbound(c)

\* the statement alone
PermittedStrict(c) == Permitted(c) /\ (MustRoute(c) => c.res = "yes")

(* ---- the reading of a case under a named deviation ---- *)
Global6 == <<9734, 18176, 0, 0, 0, 0, 0, 4369>>          \* 2606:4700::1111
PublicIp == <<93, 184, 216, 34>>
AsTyped(l) == [i \in DOMAIN l |-> [l[i] EXCEPT !.canon = l[i].raw]]

Widen(c, d) ==
    CASE d = DevV6InternalRouted /\ c.ip6 # <<>> /\ ~Mapped(c.ip6) -> [c EXCEPT !.ip6 = Global6]         \* every IPv6 address counts as external
      [] d = DevItemsAsTyped -> [c EXCEPT !.allow = AsTyped(c.allow), !.block = AsTyped(c.block), !.hcanon = c.host]
      [] d = DevNamesNotResolved /\ c.kind \in {"name", "junk"} -> [c EXCEPT !.ip = PublicIp, !.ip6 = <<>>, !.rsv = "ok"]
      [] OTHER -> c

WidenAll(c, devs) ==
    LET w1 == IF DevV6InternalRouted \in devs THEN Widen(c, DevV6InternalRouted) ELSE c
        w2 == IF DevItemsAsTyped \in devs THEN Widen(w1, DevItemsAsTyped) ELSE w1
        w3 == IF DevNamesNotResolved \in devs THEN Widen(w2, DevNamesNotResolved) ELSE w2
    IN  w3

\* behaviour a deviation adds outright
Outright(c, d) ==
    \/ /\ d = DevAllowItemRaises /\ c.res = "raise" /\ c.stage = "construct"
       /\ Len(c.allow) >= 2 /\ \E x \in SeqSet(c.allow) : ~x.sup[c.impl]
    \/ /\ d = DevV6CutAtColon /\ c.kind = "ip6" /\ c.res \in {"yes", "no"}
    \/ /\ d = DevEmptyAllowValue /\ c.envform = "allow-empty" /\ c.res = "no"

Accepts(c, d) == Outright(c, d) \/ (Widen(c, d) # c /\ PermittedStrict(Widen(c, d)))

PermittedV(c, devs) ==
    \/ PermittedStrict(c)
    \/ \E d \in devs : Accepts(c, d)
    \/ PermittedStrict(WidenAll(c, devs))
================================================================================
