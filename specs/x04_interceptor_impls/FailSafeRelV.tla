----------------------------- MODULE FailSafeRelV -----------------------------
(* X04 - the fail-safe statement for all implementations:                             *)
(*   FailSafeRel (specs/c19_interceptor, reused unchanged: F1-F5 as a successor        *)
(*   relation on P-states)  +  F7 Fallback / "How it works" (who serves the caller)    *)
(*   +  the named deviations of InterceptorImpls, each widening the relation by        *)
(*   exactly the behaviour it names.                                                   *)
(*                                                                                   *)
(* Events are the events of FailSafeRel with two more fields:                          *)
(*   kind  how the outcome came about ("conn", "timeout", "proxy/<header>/<code>",      *)
(*         application exceptions "runtime" | "io" | "error", "+" = thrown again on     *)
(*         the direct leg)                                                              *)
(*   via   who produced the response the caller got: "gateway" | "direct" | "" (none:   *)
(*         an exception left the call)                                                  *)
EXTENDS FailSafeRel, InterceptorImpls

EvX(ev, d, read, out, kind, ans, raised, via) ==
    [ev |-> ev, d |-> d, read |-> read, out |-> out, kind |-> kind, ans |-> ans, raised |-> raised, via |-> via]

\* the gateway leg of the call ran
LegRan(e) == e.ev = "call" /\ (e.ans \/ ~e.read)

\* F7 + "Lunar Interceptor returns the response to the application": who serves the caller
Served(e) ==
    e.ev = "call" =>
        /\ (LegRan(e) /\ e.out = "gwerr") => (e.raised = "none" /\ e.via = "direct")      \* F7 Fallback
        /\ (LegRan(e) /\ e.out = "ok" /\ e.raised = "none") => e.via = "gateway"
        /\ (~LegRan(e) \/ e.out = "skip") => (e.raised = "none" => e.via = "direct")       \* bypassed / kept off the gateway

IsErrorResponse(e) == e.ev = "call" /\ e.out = "gwerr" /\ e.kind \notin {"", "conn", "timeout", "unknownhost", "gai"}

\* the successors the named deviations add
DevSucc(s, e, devs) ==
    (IF DevLegExceptionCounts \in devs /\ LegRan(e) /\ e.out = "appexc" /\ e.kind \in LegExceptionKinds
     THEN Succ(s, [e EXCEPT !.out = "gwerr"])                      \* counted like a gateway failure, whatever reaches the caller
     ELSE {})
    \cup
    (IF DevErrorResponseCountsTwice \in devs /\ LegRan(e) /\ IsErrorResponse(e)
     THEN UNION {GwFail(t) : t \in Succ(s, e)}                     \* the same failure reported a second time
     ELSE {})

SuccV(s, e, devs) == IF Served(e) THEN Succ(s, e) \cup DevSucc(s, e, devs) ELSE {}

SuccSetV(S, e, devs) == UNION {SuccV(s, e, devs) : s \in S}
================================================================================
