CONSTANTS
  Ns = {1, 2}
  Cs = {1, 2}
  MaxNow = 5
  Steps = {1, 2}
  StrictCool = FALSE
  NoReset = FALSE
  NoFallback = FALSE
  CatchThrowable = FALSE
  IgnoreState = FALSE
  ResetOnRecover = FALSE
  Devs = {"exception-in-gateway-leg-counts-as-gateway-failure"}
SPECIFICATION MCSpec
INVARIANT W_NeverRecovered
CONSTRAINT Bound
VIEW View
CHECK_DEADLOCK FALSE
