CONSTANTS
  JBlockInverted = FALSE
  JNo172 = FALSE
  JAllowFallsThrough = FALSE
SPECIFICATION Spec
CHECK_DEADLOCK FALSE
