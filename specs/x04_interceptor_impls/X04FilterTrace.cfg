CONSTANTS
  JBlockInverted = FALSE
  JNo172 = FALSE
  JAllowFallsThrough = FALSE
  TBlockInverted = FALSE
  TNo172 = FALSE
SPECIFICATION Spec
CHECK_DEADLOCK FALSE
