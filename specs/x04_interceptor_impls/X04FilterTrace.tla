--------------------------- MODULE X04FilterTrace ---------------------------
(* X04 - the recorded decisions of a real TrafficFilter judged by TrafficFilterV.        *)
(* trace.ndjson: line 1 = {"ev":"config",...}, then one line per case (the input of the    *)
(* case + res = what the implementation really answered + impl).  The decisions are        *)
(* independent: the judgement is one constant-level evaluation.  Printed:                  *)
(*   Obs   lines the statement alone rejects            -> OBSERVATION (per deviation that  *)
(*         accepts them: how many, and the first one)                                       *)
(*   Bad   lines the statement + the deviations pinned for line.impl rejects -> VIOLATION    *)
(*   Drift lines whose result the transcription of that implementation does not predict     *)
EXTENDS TrafficFilterJavaI, TrafficFilterTsI, TraceLib

L(i) == TraceLog[i]
Cases == 2..TraceLen

Obs == {i \in Cases : ~PermittedStrict(L(i))}
Bad == {i \in Obs : ~PermittedV(L(i), FilterDevs(L(i).impl))}
Drift == {i \in Cases : \/ (L(i).impl = "java" /\ L(i).res \notin ResultsJ(L(i)))
                         \/ (L(i).impl = "ts" /\ L(i).res \notin ResultsT(L(i)))}
ByDev(d) == {i \in Obs : d \in FilterDevs(L(i).impl) /\ Accepts(L(i), d)}
Single == UNION {ByDev(d) : d \in AllFilterDevs}
Min(S) == IF S = {} THEN 0 ELSE CHOOSE x \in S : \A y \in S : x <= y

ASSUME PrintT(<<"FILTER-JUDGED", TraceLen - 1, Cardinality({i \in Cases : MustNotRoute(L(i))}), Cardinality({i \in Cases : MustRoute(L(i))}),
                Cardinality(Obs), Cardinality(Bad), Cardinality(Drift)>>)
ASSUME PrintT(<<"FILTER-BAD", Bad>>)
ASSUME PrintT(<<"FILTER-DRIFT", Min(Drift)>>)
ASSUME \A d \in AllFilterDevs : PrintT(<<"FILTER-OBS", d, Cardinality(ByDev(d)), Min(ByDev(d))>>)
ASSUME PrintT(<<"FILTER-OBS", "several-deviations-at-once", Cardinality((Obs \ Bad) \ Single), Min((Obs \ Bad) \ Single)>>)

VARIABLE x
Spec == x = 0 /\ [][UNCHANGED x]_x
=============================================================================
