---------------------------- MODULE MC_X04Filter ----------------------------
(* The enumerated input space of the traffic filter for the Java / TypeScript interceptor  *)
(* (constant Impl), used three ways (as specs/c19_interceptor/MC_C19Filter):               *)
(*  (1) I => P over every case: every possible result of the transcription of Impl            *)
(*      (TrafficFilterJavaI / TrafficFilterTsI)                                               *)
(*      is permitted by the statement widened with the deviations Devs (constant-level      *)
(*      ASSUME);  with Devs = {} the ASSUME must FAIL (the pinned deviations are real),       *)
(*      with a flag of TrafficFilterJavaI set it must fail too (non-vacuity);                 *)
(*  (2) written out with JsonSerialize as the cases replayed into the real TrafficFilter;     *)
(*  (3) counted: cases with a routing prohibition / a routing obligation.                     *)
(*                                                                                       *)
(* Destinations are given in the form the instrumented client hands them over             *)
(* (okhttp3.HttpUrl.host(): lower case, IPv6 literals canonical and without brackets); the   *)
(* facts kind / ip / ip6 / rsv are how the Java platform resolver sees them (the executor's   *)
(* `probe` command checks every one of them against InetAddress).                            *)
EXTENDS TrafficFilterJavaI, TrafficFilterTsI, TLC, Json, SequencesExt

CONSTANTS Devs, Tier, Impl

Results(c) == IF Impl = "java" THEN ResultsJ(c) ELSE ResultsT(c)

D(h, kind, ip, rsv) == [h |-> h, hlow |-> h, hcanon |-> h, kind |-> kind, ip |-> ip, ip6 |-> <<>>, rsv |-> rsv]
D6(h, g) == [h |-> h, hlow |-> h, hcanon |-> h, kind |-> "ip6", ip |-> <<>>, ip6 |-> g, rsv |-> "literal"]
N6(h, g) == [h |-> h, hlow |-> h, hcanon |-> h, kind |-> "name", ip |-> <<>>, ip6 |-> g, rsv |-> "ok"]    \* a name with an AAAA record only

Hosts == <<
    D("api.pub.com",   "name", <<93, 184, 216, 34>>, "ok"),
    D("db.corp",       "name", <<10, 1, 2, 3>>, "ok"),
    D("lo.corp",       "name", <<127, 0, 0, 5>>, "ok"),
    D("k8s.corp",      "name", <<172, 16, 5, 4>>, "ok"),
    D("edge.corp",     "name", <<172, 31, 255, 255>>, "ok"),
    D("out.corp",      "name", <<172, 32, 0, 1>>, "ok"),
    D("lan.corp",      "name", <<192, 168, 1, 9>>, "ok"),
    D("near.corp",     "name", <<192, 169, 0, 1>>, "ok"),
    D("hundred.corp",  "name", <<100, 1, 1, 1>>, "ok"),
    D("onetwenty.corp","name", <<120, 0, 0, 1>>, "ok"),
    D("localhost",     "name", <<127, 0, 0, 1>>, "ok"),
    D("nx.invalid",    "name", <<>>, "fail"),
    D("a..b",          "junk", <<>>, "fail"),
    D("not a host!",   "junk", <<>>, "fail"),
    D("256.1.1.1",     "junk", <<>>, "fail"),
    D("8.8.8.8",       "ip4",  <<8, 8, 8, 8>>, "literal"),
    D("10.0.0.7",      "ip4",  <<10, 0, 0, 7>>, "literal"),
    D("11.0.0.1",      "ip4",  <<11, 0, 0, 1>>, "literal"),
    D("127.0.0.1",     "ip4",  <<127, 0, 0, 1>>, "literal"),
    D("172.20.1.1",    "ip4",  <<172, 20, 1, 1>>, "literal"),
    D("172.15.1.1",    "ip4",  <<172, 15, 1, 1>>, "literal"),
    D("192.168.0.1",   "ip4",  <<192, 168, 0, 1>>, "literal"),
    D("193.168.0.1",   "ip4",  <<193, 168, 0, 1>>, "literal"),
    D("172.16.0.1",    "ip4",  <<172, 16, 0, 1>>, "literal"),              \* first / last addresses of the private blocks
    D("172.31.255.254","ip4",  <<172, 31, 255, 254>>, "literal"),
    D("10.255.255.255","ip4",  <<10, 255, 255, 255>>, "literal"),
    D("192.168.255.255","ip4", <<192, 168, 255, 255>>, "literal"),
    D("172.32.0.1",    "ip4",  <<172, 32, 0, 1>>, "literal"),
    D("127.1",         "name", <<127, 0, 0, 1>>, "ok"),                  \* inet_aton spelling: InetAddress reads it as 127.0.0.1
    D6("::1",                <<0, 0, 0, 0, 0, 0, 0, 1>>),
    D6("fe80::1",            <<65152, 0, 0, 0, 0, 0, 0, 1>>),
    D6("febf::1",            <<65215, 0, 0, 0, 0, 0, 0, 1>>),
    D6("fc00::1",            <<64512, 0, 0, 0, 0, 0, 0, 1>>),
    D6("fd12:3456:789a::1",  <<64786, 13398, 30874, 0, 0, 0, 0, 1>>),
    D6("::ffff:127.0.0.1",   <<0, 0, 0, 0, 0, 65535, 32512, 1>>),
    D6("::ffff:10.1.2.3",    <<0, 0, 0, 0, 0, 65535, 2561, 515>>),
    D6("::ffff:172.32.0.9",  <<0, 0, 0, 0, 0, 65535, 44064, 9>>),
    D6("::ffff:8.8.8.8",     <<0, 0, 0, 0, 0, 65535, 2056, 2056>>),
    D6("::10.0.0.7",         <<0, 0, 0, 0, 0, 0, 2560, 7>>),
    D6("::",                 <<0, 0, 0, 0, 0, 0, 0, 0>>),
    D6("2606:4700::1111",    <<9734, 18176, 0, 0, 0, 0, 0, 4369>>),
    N6("v6.corp",            <<64768, 0, 0, 0, 0, 0, 0, 5>>),             \* fd00::5
    N6("v6pub.corp",         <<9734, 18176, 0, 0, 0, 0, 0, 4369>>)
>>

\* list items as typed: raw, lower case, the destination denoted ("" = none), well-formed host / IP as typed,
\* accepted as typed by the validation of the Java / the TypeScript implementation
E(raw, low, canon, wf, sj, st) == [raw |-> raw, low |-> low, canon |-> canon, wf |-> wf, sup |-> [java |-> sj, ts |-> st]]
Items == <<
    E("api.pub.com",  "api.pub.com",  "api.pub.com", TRUE,  TRUE,  TRUE),
    E("db.corp",      "db.corp",      "db.corp",     TRUE,  TRUE,  TRUE),
    E("localhost",    "localhost",    "localhost",   TRUE,  TRUE,  TRUE),
    E("8.8.8.8",      "8.8.8.8",      "8.8.8.8",     TRUE,  TRUE,  TRUE),
    E("10.0.0.7",     "10.0.0.7",     "10.0.0.7",    TRUE,  TRUE,  TRUE),
    \* IPv6 items: the README's examples show names and dotted IPv4 only - whether an IPv6 item is supported is left open
    \* (wf = FALSE: no routing obligation hangs on such a list); Java's HOST_PATTERN / IP_PATTERN know no ':'
    E("::1",          "::1",          "::1",         FALSE, FALSE, TRUE),
    E("fe80::1",      "fe80::1",      "fe80::1",     FALSE, FALSE, TRUE),
    E("not a host!",  "not a host!",  "not a host!", FALSE, FALSE, TRUE),
    E(" 8.8.8.8",     " 8.8.8.8",     "8.8.8.8",     FALSE, FALSE, TRUE),
    E("api.pub.com ", "api.pub.com ", "api.pub.com", FALSE, FALSE, TRUE),
    E("API.Pub.com",  "api.pub.com",  "api.pub.com", TRUE,  TRUE,  TRUE),
    E(" ",            " ",            "",            FALSE, FALSE, TRUE),
    E("",             "",             "",            FALSE, FALSE, TRUE)
>>
NI == Len(Items)

Headers == <<"absent", "true", "false", "TRUE", "blank">>        \* blank = the header is present with an empty value

\* lists of at most two items: in pool order (an empty item after another one = trailing comma) and the empty item first (leading comma)
Lists1 == {<<>>} \cup {<<Items[i]>> : i \in 1..NI}
Lists2 == Lists1 \cup {<<Items[p[1]], Items[p[2]]>> : p \in {q \in (1..NI) \X (1..NI) : q[1] < q[2]}}
                 \cup {<<Items[NI], Items[i]>> : i \in 1..(NI - 1)}

\* the (allow, block) configurations of a tier: thorough = all pairs of lists; mid = one list has at most one item;
\* quick = one list alone, or two lists of at most one item
Configs(tier) == CASE tier = "thorough" -> Lists2 \X Lists2
                   [] tier = "mid" -> UNION {Lists2 \X Lists1, Lists1 \X Lists2}
                   [] OTHER -> UNION {Lists2 \X {<<>>}, {<<>>} \X Lists2, Lists1 \X Lists1}

Input(d, a, b, hd) ==
    [allow |-> a, block |-> b, host |-> d.h, hlow |-> d.hlow, hcanon |-> d.hcanon, kind |-> d.kind, ip |-> d.ip, ip6 |-> d.ip6,
     rsv |-> d.rsv, header |-> hd, res |-> "", impl |-> Impl, stage |-> "", envform |-> "normal"]
\* LUNAR_ALLOW_LIST set to the empty string
InputEmptyAllow(d, b, hd) == [Input(d, <<>>, b, hd) EXCEPT !.envform = "allow-empty"]

\* (1) every possible result of the transcription is permitted
Refines ==
    \A ab \in Configs(Tier), i \in DOMAIN Hosts, k \in DOMAIN Headers :
        LET c == Input(Hosts[i], ab[1], ab[2], Headers[k]) IN \A r \in Results(c) : PermittedV(WithRes(c, r), Devs)

RefinesEmptyAllow ==
    \A b \in Lists1, i \in DOMAIN Hosts, k \in DOMAIN Headers :
        LET c == InputEmptyAllow(Hosts[i], b, Headers[k]) IN \A r \in Results(c) : PermittedV(WithRes(c, r), Devs)

NCases == Cardinality(Configs(Tier)) * Len(Hosts) * Len(Headers)

\* (3) counted per configuration (TLC builds the counted sets explicitly)
Count(P(_)) == LET CS == SetToSeq(Configs(Tier))
                   N[k \in 0..Len(CS)] ==
                       IF k = 0 THEN 0
                       ELSE N[k - 1] + Cardinality({<<i, h>> \in (DOMAIN Hosts) \X (DOMAIN Headers) :
                                                      P(Input(Hosts[i], CS[k][1], CS[k][2], Headers[h]))})
               IN  N[Len(CS)]

ASSUME Refines
ASSUME RefinesEmptyAllow
ASSUME PrintT(<<"FILTER-CASES", NCases, Count(MustNotRoute), Count(MustRoute)>>)

\* (2) the input space, for replay
ASSUME JsonSerialize("filter_space.json", [hosts |-> Hosts, headers |-> Headers, lists |-> SetToSeq(Lists2)])

VARIABLE x
Spec == x = 0 /\ [][UNCHANGED x]_x
=============================================================================
