------------------------------- MODULE MC_X04FS -------------------------------
(* I => P by subset construction (as specs/c19_interceptor/MC_C19): alongside the          *)
(* implementation-shaped model of the Java fail-safe the set S of all P-states of          *)
(* FailSafeRelV compatible with the events so far is tracked; I refines the statement       *)
(* (widened by the deviations Devs) iff S never becomes empty.                              *)
EXTENDS FailSafeJavaI, TLC

CONSTANT Devs
VARIABLE S
mcvars == <<ivars, S>>

MCInit == Init /\ S = {PInit(cfgN, cfgC)}
MCNext == Next /\ S' = SuccSetV(S, last', Devs)
MCSpec == MCInit /\ [][MCNext]_mcvars

Refines == S # {}
View == <<cfgN, cfgC, cnt, started, now, S>>
Bound == cnt <= cfgN + 2

\* witnesses (expected to be VIOLATED: the interesting situations are reached)
W_NeverOpen == started = 0
W_NeverRecovered == ~(last.ev = "ask" /\ last.ans /\ cnt >= cfgN)
W_NeverLateWhileOpen == ~(last.ev = "call" /\ ~last.read /\ last.out = "gwerr" /\ cnt > cfgN)
W_NeverErrorPropagated == ~(last.ev = "call" /\ last.kind = "error" /\ last.raised = "same")
W_NeverAppExcOpens == ~(last.ev = "call" /\ last.out = "appexc" /\ started = now /\ cnt >= cfgN)
=============================================================================
