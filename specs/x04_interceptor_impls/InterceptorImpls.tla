-------------------------- MODULE InterceptorImpls --------------------------
(* X04 - ONE specification of the interceptor for ALL its implementations.              *)
(*                                                                                     *)
(* The repository ships three interceptors with the same README (the three files        *)
(* interceptors/lunar-{py,java,ts}-interceptor/README.md differ only in installation    *)
(* notes).  What a user of any of them relies on (derived statement; README sections    *)
(* "Overview", "How it works?", "Failsafe Mechanism", "Failsafe", "Allow/Block Domains  *)
(* List"; Java: FailSafe.java / TrafficFilter.java javadoc, InjectData + the injected    *)
(* method resources/okhttp3/realcall.lunarGetResponse; TypeScript: failSafe.ts,         *)
(* trafficFilter.ts, interceptor.ts):                                                   *)
(*                                                                                     *)
(*  F1 Trip      "After LUNAR_ENTER_COOLDOWN_AFTER_ATTEMPTS successive failed connection *)
(*               attempts the Failsafe Mechanism activates": the bypass starts when N    *)
(*               gateway failures in a row were seen, never on fewer.                    *)
(*  F2 Cool      "a cooldown period will be initiated during which all the traffic will  *)
(*               be directed to the original Provider": for LUNAR_EXIT_COOLDOWN_AFTER_SEC *)
(*               seconds no request goes through the gateway; afterwards the gateway is   *)
(*               tried again.                                                            *)
(*  F3 Again     "If a connection still can not be restored after the cooldown period     *)
(*               ended ... another cooldown period after a single connectivity error"     *)
(*               (permitted, not required - a breaker that counts afresh conforms too).   *)
(*  F4 Reset     "successive": a request that succeeded through the gateway ends the run. *)
(*  F5 Origin    "Fail-Safe - recover from failures ORIGINATED IN LUNAR PROXY": what does  *)
(*               not come from the gateway neither counts nor is hidden from the caller.  *)
(*  F6 Defaults  5 attempts / 10 seconds when the variables are unset (all three READMEs). *)
(*  F7 Fallback  "In case of an error while using Lunar Proxy, the Interceptor will use    *)
(*               the original destination instead": the caller of a request whose gateway  *)
(*               leg failed gets the provider's direct answer, not the gateway's error.    *)
(*  T1 Outbound  "Only outbound traffic will be redirected to Lunar Proxy": loopback /     *)
(*               private-range destinations (or names resolving there, or not resolving)   *)
(*               are not routed unless explicitly allowed.                                 *)
(*  T2 Allow     "If the value is not empty, then the Interceptor will only forward        *)
(*               requests to domains which are in the Allow List"; both lists => only the   *)
(*               allow list counts.                                                        *)
(*  T3 Block     a destination in the Block List "will be sent directly to the provider".   *)
(*  T4 Total     a routing decision is a decision, never an exception in the application.   *)
(*  T5 Forward   "Redirection - forward 3rd party API's HTTP/S requests to Lunar Proxy":     *)
(*               an outbound destination that no list excludes IS routed.                   *)
(*                                                                                     *)
(* F1-F6 and T1-T4 are property C19, specified in specs/c19_interceptor (FailSafeRel,    *)
(* TrafficFilterP) and REUSED here unchanged; F7 and T5 are added by X04 (FailSafeRelV,   *)
(* TrafficFilterV) and hold for every implementation.  F6: the documented defaults are    *)
(* the same for all implementations (DocDefault).                                         *)
(*                                                                                     *)
(* Where the code of an implementation disagrees with this statement the disagreement is  *)
(* NOT specified away: it is a NAMED DEVIATION below.  Every recording is judged twice -   *)
(* by the statement alone ("strict": what it rejects is printed as OBSERVATION) and by the  *)
(* statement widened with exactly the deviations pinned for that implementation            *)
(* ("pinned": what that rejects is a VIOLATION).                                          *)
EXTENDS Integers

Impls == {"python", "java", "ts"}

\* F6 - the same for every implementation
DocDefault == [N |-> 5, C |-> 10]

(* ------------------------------- named deviations: fail-safe ------------------------------- *)
\* java: the injected code wraps the whole gateway leg in `catch (java.lang.Exception e)`: ANY exception raised while the
\*   request travels the chain - also one thrown by the application's own OkHttp interceptors, or the IOException "Canceled"
\*   of a call the application cancelled - is counted as a gateway failure and hidden from the caller (the request is
\*   re-executed directly).  Against F5.  java.lang.Error is not caught.
\* ts (fetch hook): fetchHandler wraps the gateway leg in `catch (error)`: the AbortError of a request the application
\*   aborted, or any other rejection, is counted and hidden the same way.
DevLegExceptionCounts == "exception-in-gateway-leg-counts-as-gateway-failure"
\* ts (fetch hook): an error RESPONSE of the gateway (header x-lunar-error) calls FailSafe.onError twice
\*   (interceptor.ts fetchHandler): the bypass starts after ceil(N/2) such responses.  Against F1.
DevErrorResponseCountsTwice == "gateway-error-response-counts-twice"

FailSafeDevs(impl) ==
    CASE impl = "java" -> {DevLegExceptionCounts}
      [] impl = "ts"   -> {DevLegExceptionCounts, DevErrorResponseCountsTwice}
      [] OTHER         -> {}

\* kinds of application exceptions (field `kind` of an "appexc" event) that an implementation's catch clause covers
LegExceptionKinds == {"runtime", "runtime+", "io", "io+"}

(* ------------------------------- named deviations: traffic filter ------------------------------- *)
\* java: private ranges are looked up in an IPv4-only table keyed by the first two characters of the textual address;
\*   an IPv6 loopback / unique-local / link-local literal (http://[::1]:8080/) is routed through the gateway.  Against T1.
DevV6InternalRouted == "ipv6-internal-destination-routed"
\* java, ts: list items are compared as typed (String.equals / Array.includes): an item typed with upper-case letters
\*   never matches the (lower-cased) destination, so a block-listed destination is routed.  Against T3.
DevItemsAsTyped == "list-items-compared-as-typed"
\* java: TrafficFilter.validateAllow removes an unsupported item from the HashSet it is iterating: unless that item happens
\*   to be the last one iterated the constructor throws ConcurrentModificationException - from the field initializer of
\*   every instrumented RealCall, i.e. every HTTP call of the application fails.  Against T4.
DevAllowItemRaises == "unsupported-allow-item-raises"
\* ts: names are never resolved ("If it's not an IP, we currently assume it's external"): localhost and names resolving to
\*   private addresses are routed.  Against T1.
DevNamesNotResolved == "names-never-resolved"
\* ts: the destination (URL.host: "host:port", "[v6]:port") is cut at the first ':' to strip the port: an IPv6 literal
\*   becomes "[" and is judged as an external name, whatever the lists say about it.  Against T1 / T3.
DevV6CutAtColon == "ipv6-literal-cut-at-colon"

\* java, ts: LUNAR_ALLOW_LIST set to the empty string is an allow list with one (unsupported / never matching) item: nothing
\*   is routed any more.  Against the README ("If the value is not empty, then the Interceptor will only forward requests to
\*   domains which are in the Allow List ... If the value is empty, the Interceptor will check ... the LUNAR_BLOCK_LIST") and T5.
DevEmptyAllowValue == "empty-allow-list-value-routes-nothing"

FilterDevs(impl) ==
    CASE impl = "java" -> {DevV6InternalRouted, DevItemsAsTyped, DevAllowItemRaises, DevEmptyAllowValue}
      [] impl = "ts"   -> {DevNamesNotResolved, DevV6CutAtColon, DevItemsAsTyped, DevEmptyAllowValue}
      [] OTHER         -> {}

AllFailSafeDevs == {DevLegExceptionCounts, DevErrorResponseCountsTwice}
AllFilterDevs == {DevV6InternalRouted, DevItemsAsTyped, DevAllowItemRaises, DevNamesNotResolved, DevV6CutAtColon, DevEmptyAllowValue}
=============================================================================
