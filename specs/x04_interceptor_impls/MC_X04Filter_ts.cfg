CONSTANTS
  JBlockInverted = FALSE
  JNo172 = FALSE
  JAllowFallsThrough = FALSE
  TBlockInverted = FALSE
  TNo172 = FALSE
  Devs = {"names-never-resolved", "ipv6-literal-cut-at-colon", "list-items-compared-as-typed", "empty-allow-list-value-routes-nothing"}
  Tier = "quick"
  Impl = "ts"
SPECIFICATION Spec
CHECK_DEADLOCK FALSE
