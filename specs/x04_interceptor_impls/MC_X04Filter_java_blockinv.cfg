CONSTANTS
  JBlockInverted = TRUE
  JNo172 = FALSE
  JAllowFallsThrough = FALSE
  Devs = {"ipv6-internal-destination-routed", "list-items-compared-as-typed", "unsupported-allow-item-raises"}
  Tier = "quick"
SPECIFICATION Spec
CHECK_DEADLOCK FALSE
