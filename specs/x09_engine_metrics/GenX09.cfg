SPECIFICATION GSpec
CONSTANTS
  Params = {"{id}", "{x}"}
  Bug = "none"
  MaxTxn = 12
  MaxFlush = 3
  MaxReload = 3
  MaxRestart = 2
  MaxScrape = 0
  GenDepth = 22
INVARIANTS Emit Accept
CHECK_DEADLOCK FALSE
