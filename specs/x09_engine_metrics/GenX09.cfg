SPECIFICATION GSpec
CONSTANTS
  Params = {"{id}", "{x}"}
  Bug = "none"
  MaxTxn = 12
  MaxFlush = 3
  MaxReload = 3
  MaxRestart = 2
  MaxScrape = 0
  MaxTick = 2
  FileSel = {1, 2, 3}
  FlowSel = {1, 2, 3, 4, 5, 6}
  MaxCollect = 6
  GenDepth = 22
INVARIANTS Emit Accept
CHECK_DEADLOCK FALSE
