SPECIFICATION Spec
CONSTANTS
  Params = {"{id}", "{x}"}
  Bug = "none"
  MaxTxn = 2
  MaxFlush = 2
  MaxReload = 1
  MaxRestart = 0
  MaxScrape = 1
  MaxCollect = 0
  MaxTick = 0
  FileSel = {1, 2, 3}
  FlowSel = {1, 4}
INVARIANTS Accept
CHECK_DEADLOCK FALSE
