SPECIFICATION Spec
CONSTANTS
  Params = {"{id}", "{x}"}
  Bug = "none"
  MaxTxn = 2
  MaxFlush = 2
  MaxReload = 1
  MaxRestart = 1
  MaxScrape = 1
INVARIANTS Accept
CHECK_DEADLOCK FALSE
