------------------------------- MODULE MetricsI -------------------------------
(* X09 - implementation-shaped model (I) of the bookkeeping behind the gateway's metrics, one operator per step of the  *)
(* real code:                                                                                                          *)
(*   discovery state file   aggregation-output-plugin discovery.Run / State.UpdateAggregation: per consumer tag, per   *)
(*                          endpoint (method, normalised URL), per status code a count; rewritten by every flush       *)
(*   discoveryStateParser   metrics/discovery_state_parser.go: the file is parsed again only when its modification     *)
(*                          time differs from the one of the cached parse                                              *)
(*   apiCallCountMetricManager.collectMetrics   one Observe per (consumer, endpoint, status code) with the attributes   *)
(*                          of LabelManager.GetAttributesFromDiscoveryEndpoint; the SDK's precomputed sum adds the     *)
(*                          observations of one collection that carry the same attribute set                           *)
(*   LabelManager / LabeledEndpointManager      the label list and the labeled-endpoint patterns in force              *)
(*   MetricManager.ReloadMetricsConfig          compares the new file with m.config, which is never replaced after     *)
(*                          NewMetricManager (Bug = "reload-as-documented": compares with the last file loaded and     *)
(*                          rebuilds the lists from it)                                                                *)
(*   metricsProviderData.UpdateAPICallData      incremental mean of provider.GetSize() over the response messages      *)
(*   streams.flowMetricsData                    per Stream object: activeFlows, flowInvocationsCounter,                *)
(*                          requestsThroughFlowsCounter, the two averages; a reload builds a new Stream                *)
(*   processors' counters   sync counters on the process meter (filter hit / miss, generated response)                 *)
(* The state g is a record; IScrape(g) is what the Prometheus registry shows.  Bug # "none" selects a broken or a       *)
(* benign variant (MC_X09: the broken ones must be refuted, the benign ones accepted).                                 *)
EXTENDS MetricsP, X09Bug, SequencesExt

SetToSeqX(S) == SetToSeq(S)

AllG == <<"api_call_count", "api_call_size", "transaction_duration", "provider_transaction_duration">>
AllS == <<"active_flows", "flow_invocations", "requests_through_flows", "avg_flow_execution_time", "avg_processor_execution_time">>

\* ------------------------------------------------------------------------------------ discovery state + parser
\* the file: a sequence of counted records [tag, m, nu, st] (the per-key counts are its bag), with a modification stamp
Key(r) == [tag |-> r.tag, m |-> r.m, nu |-> r.nu, st |-> r.st]

\* discovery.Run: the records are counted under the endpoint the URL tree gives their URL at that moment
IFlush(g, n, attr) ==
    LET k == IF n > Len(g.pend) THEN Len(g.pend) ELSE n
        add == [i \in 1..k |-> [tag |-> g.pend[i].tag, m |-> g.pend[i].m, nu |-> AttrOf(attr, g.pend[i].us), st |-> g.pend[i].st,
                                d |-> g.pend[i].d, td |-> g.pend[i].td]]
    IN  [g EXCEPT !.file = g.file \o add, !.fver = g.fver + 1, !.pend = SubSeq(g.pend, k + 1, Len(g.pend))]

\* ReadAndParseDiscovery: what a collection sees, and the cache afterwards
Parsed(g) == IF g.cached /\ (g.cver = g.fver \/ Bug = "stale-cache") THEN g.cache ELSE g.file
IAfterScrape(g) == [g EXCEPT !.cache = Parsed(g), !.cver = g.fver, !.cached = TRUE]

\* GetAttributesFromDiscoveryEndpoint
EndpointAttrs(g, k) ==
    LET labels == SeqSet(g.labels)
        lepI == {i \in DOMAIN g.lep : Match(g.lep[i], k.nu)}
        path == IF Bug = "path-always" THEN {<<"path", PathOf(k.nu)>>}
                ELSE IF lepI = {} \/ PathOf(k.nu) = "" THEN {}
                ELSE IF Bug = "doc-path" THEN {<<"path", PathOf(g.lep[CHOOSE i \in lepI : \A j \in lepI : i <= j])>>}
                ELSE {<<"path", PathOf(k.nu)>>}
    IN  (IF "http_method" \in labels THEN {<<"http_method", k.m>>} ELSE {})
        \cup (IF "url" \in labels THEN {<<"url", UrlOf(k.nu)>>} ELSE {})
        \cup (IF "host" \in labels THEN {<<"host", HostOf(k.nu)>>} ELSE {})
        \cup (IF "status_code" \in labels /\ k.st # 0 /\ Bug # "status-dropped" THEN {<<"status_code", ToString(k.st)>>} ELSE {})
        \cup (IF "consumer_tag" \in labels /\ (k.tag # "-" \/ Bug = "tag-dash-kept") THEN {<<"consumer_tag", k.tag>>} ELSE {})
        \cup path
        \cup (IF g.gw = "" \/ Bug = "gw-missing" THEN {} ELSE {<<"gateway_id", g.gw>>})

CallCountSamples(g) ==
    LET data == Parsed(g)
        keys == {Key(data[i]) : i \in DOMAIN data}
        cnt(k) == Cardinality({i \in DOMAIN data : Key(data[i]) = k})
        sets == {EndpointAttrs(g, k) : k \in keys}
        \* one Observe per key; observations with one attribute set are added up by the SDK
        RECURSIVE sum(_)
        sum(K) == IF K = {} THEN 0 ELSE LET k == CHOOSE x \in K : TRUE IN cnt(k) + sum(K \ {k})
        last(K) == cnt(CHOOSE x \in K : TRUE)
        val(L) == LET K == {k \in keys : EndpointAttrs(g, k) = L} IN IF Bug = "last-wins" THEN last(K) ELSE sum(K)
    IN  {[n |-> "api_call_count_total", l |-> L, v |-> 1000 * val(L), p |-> 1, sum |-> 0] : L \in sets}

\* --------------------------------------------------------------------------------------------- api_call_size
\* the incremental mean as an exact fraction num / den
RECURSIVE Gcd(_, _)
Gcd(a, b) == IF b = 0 THEN a ELSE Gcd(b, a % b)
Reduce(n, d) == LET c == Gcd(IF n < 0 THEN -n ELSE n, d) IN IF c = 0 THEN <<0, 1>> ELSE <<n \div c, d \div c>>

ISize(g, size) ==
    LET n == g.calls + 1
        div == IF Bug = "size-divisor" /\ n > 1 THEN n - 1 ELSE n
        \* ((avg * (n - 1)) + size) / n
        f == Reduce(g.avg[1] * (n - 1) + size * g.avg[2], g.avg[2] * div)
    IN  [g EXCEPT !.calls = n, !.avg = f]

SizeSamples(g) ==
    LET v == (1000 * g.avg[1]) \div g.avg[2]
        r == IF 2 * ((1000 * g.avg[1]) % g.avg[2]) >= g.avg[2] THEN v + 1 ELSE v
    IN  {[n |-> "api_call_size", l |-> Gw(g), v |-> r, p |-> IF g.avg[1] > 0 THEN 1 ELSE 0, sum |-> 0]}

\* ----------------------------------------------------------------------------------------- flows / processors
\* which flows the engine runs for a request, in order: the flows whose pattern matches, until one answers
Selected(g, us) == SelectSeq(g.flows, LAMBDA f : Match(f.pat, us))

\* the quota objects of the engine: [open, start, cnt] = the window counter that is enforced (AtomicIncWindow), stored = the
\* copy the gauge reads (overwritten with the result of every charge: the new count, or 0 when the charge was refused),
\* has = the group exists (created by the first charge)
QObjFresh == [open |-> FALSE, start |-> 0, cnt |-> 0, stored |-> 0, has |-> FALSE]
QObjCharge(q, o, now) ==
    LET over == ~o.open \/ now - o.start >= q.w
        cnt0 == IF over THEN 0 ELSE o.cnt
        ok == cnt0 + 1 <= q.max
    IN  [open |-> (IF over THEN ok ELSE TRUE), start |-> (IF over /\ ok THEN now ELSE o.start), cnt |-> (IF ok THEN cnt0 + 1 ELSE cnt0),
         stored |-> (IF ok \/ Bug = "quota-used-counts-refused" THEN (IF over THEN 0 ELSE o.stored) + 1 ELSE IF Bug = "quota-used-kept-on-refusal" THEN cnt0 ELSE 0),
         has |-> TRUE]
QRefuses(q, o, now) == LET over == ~o.open \/ now - o.start >= q.w IN (IF over THEN 0 ELSE o.cnt) + 1 > q.max

\* the processor executions of a transaction t = [m, us, tag, hx, st, blen, clen, d, td] and the answer: the system flows of
\* the quotas whose filter matches charge first, then the user flows run
QuotaProcs(g, t) ==
    LET I == {i \in DOMAIN g.quotas : Match(g.quotas[i].pat, t.us)}
        RECURSIVE sq(_)
        sq(i) == IF i > Len(g.quotas) THEN <<>>
                 ELSE (IF i \in I THEN <<<<"SystemFlow_" \o g.quotas[i].id, g.quotas[i].inc, "req", "">>>> ELSE <<>>) \o sq(i + 1)
    IN  sq(1)

RECURSIVE ReqWalk(_, _, _, _)
ReqWalk(g, fs, t, i) ==
    IF i > Len(fs) THEN [procs |-> <<>>, early |-> FALSE, st |-> -1, ran |-> <<>>]
    ELSE LET f == fs[i]
             qi == CHOOSE k \in DOMAIN g.quotas : g.quotas[k].id = f.lq
             opens == IF f.lim THEN QRefuses(g.quotas[qi], g.qobj[qi], g.now) ELSE t.hx = "1"
             out == IF f.lim THEN (IF opens THEN "above_limit" ELSE "below_limit") ELSE (IF opens THEN "hit" ELSE "miss")
             p1 == <<f.name, f.fk, "req", out>>
         IN  IF opens /\ f.gate
             THEN [procs |-> <<p1, <<f.name, f.gk, "req", "">>>>, early |-> TRUE, st |-> f.st, ran |-> <<f.name>>]
             ELSE LET rest == ReqWalk(g, fs, t, i + 1)
                  IN  [procs |-> <<p1>> \o rest.procs, early |-> rest.early, st |-> rest.st, ran |-> <<f.name>> \o rest.ran]

\* the response side: the flows selected for the response, last first; an early answer walks them too (there is no
\* provider status then: the status filter of R misses)
RECURSIVE RespWalk(_, _, _, _)
RespWalk(fs, t, i, early) ==
    IF i < 1 THEN <<>>
    ELSE LET f == fs[i]
             out == IF ~early /\ t.st >= 500 /\ t.st <= 599 THEN "hit" ELSE "miss"
         IN  (IF f.rf THEN <<<<f.name, f.rk, "resp", out>>>> ELSE <<>>) \o RespWalk(fs, t, i - 1, early)

Walk(g, t) ==
    LET fs == Selected(g, t.us)
        rq == ReqWalk(g, fs, t, 1)
        rs == RespWalk(fs, t, Len(fs), rq.early)
    IN  [procs |-> QuotaProcs(g, t) \o rq.procs \o rs, early |-> rq.early, st |-> rq.st, ran |-> rq.ran, sel |-> [i \in DOMAIN fs |-> fs[i].name]]

\* the transaction as the trace shows it (what MetricsP reads)
EventOf(g, t) ==
    LET w == Walk(g, t)
        logged == [m |-> t.m, st |-> IF w.early THEN w.st ELSE t.st, tag |-> t.tag, d |-> t.d, td |-> t.td]
    IN  [m |-> t.m, us |-> t.us, tag |-> t.tag, hx |-> t.hx, st |-> t.st, blen |-> t.blen, clen |-> t.clen,
         procs |-> w.procs, ans |-> [answered |-> TRUE, early |-> w.early, st |-> w.st], rans |-> [answered |-> TRUE],
         logged |-> logged]

Bump(cnt, f) == IF f \in DOMAIN cnt THEN [cnt EXCEPT ![f] = cnt[f] + 1] ELSE cnt @@ (f :> 1)
RECURSIVE BumpAll(_, _)
BumpAll(cnt, fsq) == IF Len(fsq) = 0 THEN cnt ELSE BumpAll(Bump(cnt, fsq[1]), Tail(fsq))

\* processRequest / processResponse for one transaction whose observable event is e (procs as the engine ran them)
ITxn(g, e) ==
    LET reqFlows == [i \in 1..Len(SelectSeq(e.procs, LAMBDA p : p[3] = "req" /\ \E f \in SeqSet(g.flows) : f.name = p[1] /\ f.fk = p[2])) |->
                       SelectSeq(e.procs, LAMBDA p : p[3] = "req" /\ \E f \in SeqSet(g.flows) : f.name = p[1] /\ f.fk = p[2])[i][1]]
        sel == IF Bug = "inv-after-cut" THEN [i \in 1..Len(Selected(g, e.us)) |-> Selected(g, e.us)[i].name] ELSE reqFlows
        through == Len(SelectSeq(e.procs, LAMBDA p : p[3] = "req")) > 0
        g1 == [g EXCEPT !.inv = BumpAll(g.inv, sel),
                        !.rtf = g.rtf + (IF ~through THEN 0 ELSE IF Bug = "rtf-per-flow" THEN Len(reqFlows) ELSE 1),
                        !.flowRan = g.flowRan \/ Len(e.procs) > 0,
                        !.procRan = g.procRan \/ Len(e.procs) > 0,
                        !.pcount = g.pcount \o (IF Bug = "proc-count-disabled" THEN PExecOf([flows |-> [i \in DOMAIN g.flows |-> [g.flows[i] EXCEPT !.fm = TRUE, !.gm = TRUE, !.rm = TRUE]], gw |-> g.gw], e)
                                                ELSE PExecOf([flows |-> g.flows, gw |-> g.gw], e)),
                        !.pend = Append(g.pend, [m |-> e.logged.m, us |-> e.us, st |-> e.logged.st, tag |-> e.logged.tag, d |-> e.logged.d, td |-> e.logged.td]),
                        !.qobj = [i \in DOMAIN g.quotas |-> IF Charges(g.flows, g.quotas[i], e.procs)
                                                             THEN QObjCharge(g.quotas[i], g.qobj[i], g.now) ELSE g.qobj[i]]]
    IN  \* UpdateMetricsForAPICall counts response messages only: a request the gateway answered itself has none
        IF e.ans.early THEN g1
        ELSE ISize(g1, IF Bug = "doc-size" /\ e.clen >= 0 THEN e.clen ELSE e.blen)

\* ------------------------------------------------------------------------------- access-log based histograms
\* transactionMetricsManager.collectMetrics (its own parser: `hfile` = the parse of the previous collection, None before the
\* first): for every consumer x endpoint whose two averages moved, the averages once per status code of that endpoint, under
\* the attributes of the labels in force now.  An average is the exact fraction <<sum, count>>.
EKey(r) == [tag |-> r.tag, m |-> r.m, nu |-> r.nu]
AvgOf(data, k, Dur(_)) == LET I == {i \in DOMAIN data : EKey(data[i]) = k} IN <<SumSeq([j \in 1..Len(data) |-> IF j \in I THEN Dur(data[j]) ELSE 0]), Cardinality(I)>>
SameAvg(a, b) == a[1] * b[2] = b[1] * a[2]

IHistCollect(g) ==
    IF ~g.hists THEN g
    ELSE IF g.hcached /\ g.hver = g.fver THEN g           \* the file has not moved: the cached parse is compared with itself
    ELSE
    LET new == g.file
        old == g.hfile
        keys == {EKey(new[i]) : i \in DOMAIN new}
        had(k) == g.hcached /\ \E i \in DOMAIN old : EKey(old[i]) = k
        moved(k) == ~had(k) \/ ~SameAvg(AvgOf(new, k, LAMBDA r : r.d), AvgOf(old, k, LAMBDA r : r.d))
                            \/ ~SameAvg(AvgOf(new, k, LAMBDA r : r.td), AvgOf(old, k, LAMBDA r : r.td))
        sts(k) == {new[i].st : i \in {j \in DOMAIN new : EKey(new[j]) = k}}
        all == UNION {{[l |-> EndpointAttrs(g, [tag |-> k.tag, m |-> k.m, nu |-> k.nu, st |-> st]), k |-> k, st |-> st,
                        d |-> AvgOf(new, k, LAMBDA r : IF Bug = "hist-swapped" THEN r.td ELSE r.d),
                        td |-> AvgOf(new, k, LAMBDA r : IF Bug = "hist-swapped" THEN r.d ELSE r.td)] : st \in sts(k)} : k \in {x \in keys : moved(x)}}
    IN  [g EXCEPT !.hobs = g.hobs \o SetToSeqX(all), !.hfile = new, !.hver = g.fver, !.hcached = TRUE]

\* LegacyMetricManager.collectMetrics (its own parser): per endpoint and status code, as many observations of the endpoint's
\* average provider time (whole ms) as the count grew since the previous collection - for an endpoint that collection knew
ILegacyCollect(g) ==
    IF ~g.legacy THEN g
    ELSE IF g.lcached /\ g.lver = g.fver THEN g
    ELSE
    LET new == g.file
        old == g.lfile
        E(r) == [m |-> r.m, nu |-> r.nu]
        cnt(data, e, st) == Cardinality({i \in DOMAIN data : E(data[i]) = e /\ data[i].st = st})
        known(e) == (g.lcached /\ \E i \in DOMAIN old : E(old[i]) = e) \/ Bug = "legacy-counts-first-sight"
        pairs == {<<E(new[i]), new[i].st>> : i \in DOMAIN new}
        avg(e) == LET I == {i \in DOMAIN new : E(new[i]) = e} IN SumSeq([j \in 1..Len(new) |-> IF j \in I THEN new[j].d ELSE 0]) \div Cardinality(I)
        grown == {p \in pairs : known(p[1]) /\ cnt(new, p[1], p[2]) > (IF g.lcached THEN cnt(old, p[1], p[2]) ELSE 0)}
        add == {[l |-> {<<"method", p[1].m>>, <<"normalized_url", HostOf(p[1].nu)>>, <<"status_code", ToString(p[2])>>}, e |-> p[1], st |-> p[2],
                 n |-> IF Bug = "legacy-total" THEN cnt(new, p[1], p[2]) ELSE cnt(new, p[1], p[2]) - (IF g.lcached THEN cnt(old, p[1], p[2]) ELSE 0),
                 val |-> avg(p[1])] : p \in grown}
    IN  [g EXCEPT !.lobs = g.lobs \o SetToSeqX(add), !.lfile = new, !.lver = g.fver, !.lcached = TRUE]

ICollect(g) == ILegacyCollect(IHistCollect(g))

\* what the registry shows of them: observations x 1000, sum x 1000 (an average rounded to 1/1000)
Milli(f) == LET q == (1000 * f[1]) \div f[2] IN IF 2 * ((1000 * f[1]) % f[2]) >= f[2] THEN q + 1 ELSE q
HistSamples(g) ==
    LET Ls == {g.hobs[i].l : i \in DOMAIN g.hobs}
        one(fam, ObsVal(_)) == {[n |-> fam, l |-> L, p |-> 1,
                              v |-> 1000 * Cardinality({i \in DOMAIN g.hobs : g.hobs[i].l = L}),
                              sum |-> SumSeq([i \in DOMAIN g.hobs |-> IF g.hobs[i].l = L THEN Milli(ObsVal(g.hobs[i])) ELSE 0])] : L \in Ls}
    IN  (IF "transaction_duration" \in g.hnames THEN one("lunar_transaction_duration", LAMBDA o : o.td) ELSE {})
        \cup (IF "provider_transaction_duration" \in g.hnames THEN one("lunar_provider_transaction_duration", LAMBDA o : o.d) ELSE {})
LegacySamples(g) ==
    LET Ls == {g.lobs[i].l : i \in DOMAIN g.lobs}
    IN  {[n |-> "lunar_transaction", l |-> L, p |-> 1,
          v |-> 1000 * SumSeq([i \in DOMAIN g.lobs |-> IF g.lobs[i].l = L THEN g.lobs[i].n ELSE 0]),
          sum |-> 1000 * SumSeq([i \in DOMAIN g.lobs |-> IF g.lobs[i].l = L THEN g.lobs[i].n * g.lobs[i].val ELSE 0])] : L \in Ls}

\* --------------------------------------------------------------------------------------------- start / reload
\* a new Stream: new flow counters, new quota resources - the gauges' callbacks of the previous quota resources stay registered
NewStream(g, e) == [g EXCEPT !.flows = e.flows, !.inv = <<>>, !.rtf = 0, !.flowRan = FALSE, !.procRan = FALSE,
                              !.active = IF Bug = "active-stale" /\ g.up THEN g.active ELSE Len(e.flows),
                              !.quotas = e.quotas, !.qobj = [i \in DOMAIN e.quotas |-> QObjFresh],
                              !.qoldobj = IF Bug = "quota-callbacks-unregistered" THEN <<>>
                                          ELSE g.qoldobj \o [i \in DOMAIN g.quotas |-> [q |-> g.quotas[i], o |-> g.qobj[i]]]]

\* a process start: Setup (Stream, NewMetricManager); the discovery file stays
IStart(g, e) ==
    LET f == File(e)
        g1 == [g EXCEPT !.gw = e.gw, !.cfg0 = f, !.cfgLast = f, !.labels = f.labels, !.lep = f.lep, !.gmReg = f.gm, !.smReg = f.sm,
                        !.calls = 0, !.avg = <<0, 1>>, !.pcount = <<>>, !.pend = <<>>, !.cached = FALSE, !.cache = <<>>, !.cver = 0, !.up = FALSE,
                        !.hnames = SeqSet(f.gm) \cap {"transaction_duration", "provider_transaction_duration"},
                        !.hists = (SeqSet(f.gm) \cap {"transaction_duration", "provider_transaction_duration"} # {}),
                        !.hobs = <<>>, !.hfile = <<>>, !.hver = 0, !.hcached = FALSE,
                        !.legacy = ("legacy" \in DOMAIN e /\ e.legacy), !.lobs = <<>>, !.lfile = <<>>, !.lver = 0, !.lcached = FALSE,
                        !.quotas = <<>>, !.qobj = <<>>, !.qoldobj = <<>>, !.now = 0]
    IN  [NewStream(g1, e) EXCEPT !.up = TRUE]

\* reloadFlows: a new Stream, ReloadMetricsConfig, UpdateMetricsForFlow(new stream)
IReload(g, e) ==
    LET f == File(e)
        ref == IF Bug = "reload-as-documented" THEN g.cfgLast ELSE g.cfg0
        g1 == [g EXCEPT !.labels = IF f.labels # ref.labels THEN f.labels ELSE g.labels,
                        !.lep    = IF f.lep # ref.lep THEN f.lep ELSE g.lep,
                        !.gmReg  = IF Bug = "reload-as-documented" THEN f.gm ELSE g.gmReg,
                        !.smReg  = IF Bug = "reload-as-documented" THEN f.sm ELSE g.smReg,
                        !.cfgLast = f]
        g2 == IF Bug = "size-since-reload" THEN [g1 EXCEPT !.calls = 0, !.avg = <<0, 1>>] ELSE g1
    IN  IF Bug = "counters-cumulative" THEN [NewStream(g2, e) EXCEPT !.inv = g2.inv, !.rtf = g2.rtf, !.flowRan = g2.flowRan, !.procRan = g2.procRan]
        ELSE NewStream(g2, e)

ITick(g, d) == [g EXCEPT !.now = g.now + d]

IReset(known) ==
    [known |-> known, gw |-> "", cfg0 |-> File([labels |-> <<>>, lepp |-> <<>>, gm |-> <<>>, sm |-> <<>>]),
     cfgLast |-> File([labels |-> <<>>, lepp |-> <<>>, gm |-> <<>>, sm |-> <<>>]),
     labels |-> <<>>, lep |-> <<>>, gmReg |-> <<>>, smReg |-> <<>>, file |-> <<>>, fver |-> 0, cver |-> 0, cached |-> FALSE, cache |-> <<>>,
     pend |-> <<>>, calls |-> 0, avg |-> <<0, 1>>, flows |-> <<>>, inv |-> <<>>, rtf |-> 0, active |-> 0, flowRan |-> FALSE, procRan |-> FALSE,
     pcount |-> <<>>, up |-> FALSE, hnames |-> {}, hists |-> FALSE, hobs |-> <<>>, hfile |-> <<>>, hver |-> 0, hcached |-> FALSE,
     legacy |-> FALSE, lobs |-> <<>>, lfile |-> <<>>, lver |-> 0, lcached |-> FALSE, quotas |-> <<>>, qobj |-> <<>>, qoldobj |-> <<>>, now |-> 0]

\* ---------------------------------------------------------------------------------------------- the registry
SystemSamples(g) ==
    LET reg == SeqSet(g.smReg)
        one(name, fam, v, p) == IF name \in reg THEN {[n |-> fam, l |-> Gw(g), v |-> v, p |-> p, sum |-> 0]} ELSE {}
    IN  one("active_flows", "active_flows", 1000 * g.active, IF g.active > 0 THEN 1 ELSE 0)
        \cup one("requests_through_flows", "requests_through_flows_total", 1000 * g.rtf, IF g.rtf > 0 THEN 1 ELSE 0)
        \cup one("avg_flow_execution_time", "avg_flow_execution_time", IF g.flowRan THEN 1 ELSE 0, IF g.flowRan THEN 1 ELSE 0)
        \cup one("avg_processor_execution_time", "avg_processor_execution_time", IF g.procRan THEN 1 ELSE 0, IF g.procRan THEN 1 ELSE 0)
        \cup (IF "flow_invocations" \in reg
              THEN {[n |-> "flow_invocations_total", l |-> {<<"flow_name", f>>} \cup Gw(g), v |-> 1000 * g.inv[f], p |-> 1, sum |-> 0] : f \in DOMAIN g.inv}
              ELSE {})

ProcSamples(g) ==
    UNION {LET T(x) == x.fam = fam
               L(x) == x.l
           IN  {[n |-> fam, l |-> s.l, v |-> s.v, p |-> 1, sum |-> 0] : s \in CountBy(SelectSeq(g.pcount, T), L)} : fam \in ProcFams}

\* the quota resources' gauges: the callbacks of every quota resource ever built in this process, oldest first (a later
\* observation of the same series replaces an earlier one)
QuotaSamples(g) ==
    LET objs == [i \in DOMAIN g.qoldobj |-> g.qoldobj[i]] \o [i \in DOMAIN g.quotas |-> [q |-> g.quotas[i], o |-> g.qobj[i]]]
        LimL(q) == {<<"quota_id", q.id>>} \cup Gw(g)
        UsedL(q) == {<<"quota_id", q.id>>, <<"group_id", q.grp>>} \cup Gw(g)
        lastOf(P(_)) == LET I == {i \in DOMAIN objs : P(objs[i])} IN objs[CHOOSE i \in I : \A j \in I : j <= i]
    IN  {[n |-> "lunar_resources_quota_resource_quota_limit", l |-> L, p |-> 1, sum |-> 0,
          v |-> 1000 * lastOf(LAMBDA x : LimL(x.q) = L).q.max] : L \in {LimL(objs[i].q) : i \in DOMAIN objs}}
        \cup {[n |-> "lunar_resources_quota_resource_quota_used", l |-> L, sum |-> 0,
                v |-> 1000 * lastOf(LAMBDA x : x.o.has /\ UsedL(x.q) = L).o.stored,
                p |-> IF lastOf(LAMBDA x : x.o.has /\ UsedL(x.q) = L).o.stored > 0 THEN 1 ELSE 0] : L \in {UsedL(objs[i].q) : i \in {j \in DOMAIN objs : objs[j].o.has}}}

\* the registry refuses the scrape when one series comes from two instruments (same name, descriptions by processor key)
IGatherError(g) == Collide(g.pcount) /\ Bug # "one-instrument-per-kind"

IScrape(g) ==
    CallCountSamples(g)
    \cup (IF "api_call_size" \in SeqSet(g.gmReg) THEN SizeSamples(g) ELSE {})
    \cup SystemSamples(g) \cup ProcSamples(g) \cup HistSamples(g) \cup LegacySamples(g) \cup QuotaSamples(g)
================================================================================
