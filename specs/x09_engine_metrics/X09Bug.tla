-------------------------------- MODULE X09Bug --------------------------------
(* the variant of the implementation-shaped model (MetricsI): "none" = the engine as it is *)
CONSTANT Bug
================================================================================
