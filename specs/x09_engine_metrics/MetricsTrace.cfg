SPECIFICATION TraceSpec
CONSTANTS
  Params = {"{id}", "{x}"}
  Bug = "none"
INVARIANT Accept
CONSTRAINT HWM
POSTCONDITION Post
CHECK_DEADLOCK FALSE
