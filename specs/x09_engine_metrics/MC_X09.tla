-------------------------------- MODULE MC_X09 --------------------------------
(* X09 - exhaustive check  I => P  on a bounded instance.                                                              *)
(* The state machine is one installation of the gateway: the engine process (MetricsI: Start / Txn / Reload / Scrape)  *)
(* next to the discovery aggregation (Flush).  Every word of <= MaxTxn transactions over the letters below, flushed in  *)
(* any chunks, with <= MaxReload reloads (any file, any flow set) and <= MaxRestart restarts at any point, and a scrape *)
(* at any point (a scrape changes the parser cache).  The P side (h) is advanced next to it; `verdict` names the first  *)
(* law of MetricsP broken by what the model exports; Accept demands "ok" in every reachable state.                     *)
EXTENDS MetricsI

CONSTANTS MaxTxn, MaxFlush, MaxReload, MaxRestart, MaxScrape, MaxCollect, MaxTick,
          FileSel, FlowSel        \* which of the files / flow sets below the instance draws from

VARIABLES g, h, ntxn, nreload, nrestart, nscrape, ncollect, ntick, verdict, devs
vars == <<g, h, ntxn, nreload, nrestart, nscrape, ncollect, ntick, verdict, devs>>

Known == << <<"a.t", "v", "{id}">> >>

Flow(name, pat, fm, fl, gate, st, gm, gl, rf, rm, rl) ==
    [name |-> name, pat |-> pat, lim |-> FALSE, lq |-> "-", fk |-> "F_" \o name, fm |-> fm, fl |-> fl, gate |-> gate, st |-> st, gk |-> "G_" \o name,
     gm |-> gm, gl |-> gl, rf |-> rf, rk |-> "R_" \o name, rm |-> rm, rl |-> rl]
\* a limiter flow on quota q
LimFlow(name, pat, q, fm, fl) ==
    [name |-> name, pat |-> pat, lim |-> TRUE, lq |-> q, fk |-> "F_" \o name, fm |-> fm, fl |-> fl, gate |-> TRUE, st |-> 429, gk |-> "G_" \o name,
     gm |-> FALSE, gl |-> <<>>, rf |-> FALSE, rk |-> "R_" \o name, rm |-> FALSE, rl |-> <<>>]
Quota(id, pat, max, w) == [id |-> id, pat |-> pat, max |-> max, w |-> w, inc |-> id \o "_QuotaProcessorInc", grp |-> id \o "_default"]

F1 == Flow("f1", <<"a.t", "*">>, TRUE, <<"flow_name", "http_method", "consumer_tag">>, TRUE, 418, TRUE, <<"flow_name", "processor_key", "url">>, FALSE, FALSE, <<>>)
F2 == Flow("f2", <<"a.t", "v", "{id}">>, TRUE, <<"flow_name", "status_code">>, FALSE, 0, FALSE, <<>>, TRUE, TRUE, <<"status_code", "consumer_tag", "host">>)
F3 == Flow("f3", <<"a.t", "w">>, FALSE, <<"flow_name">>, TRUE, 429, FALSE, <<"flow_name">>, TRUE, FALSE, <<"flow_name">>)
\* two filters of different keys that count under one label set: the registry meets one series twice
F4 == Flow("f4", <<"a.t", "*">>, TRUE, <<"http_method">>, FALSE, 0, FALSE, <<>>, FALSE, FALSE, <<>>)
F5 == Flow("f5", <<"a.t", "v", "{id}">>, TRUE, <<"http_method">>, FALSE, 0, FALSE, <<>>, FALSE, FALSE, <<>>)
F6 == LimFlow("f6", <<"a.t", "*">>, "q1", TRUE, <<"flow_name", "http_method">>)
F7 == LimFlow("f7", <<"a.t", "v", "{id}">>, "q2", FALSE, <<>>)
FlowSetList == << <<F1, F2>>, <<F3>>, <<F4, F5>>, <<>>, <<F6>>, <<F7>> >>
\* the quotas a flow set needs (quota ids are not reused between the configurations of one lifetime)
QuotasOf(fs) == IF fs = <<F6>> THEN <<Quota("q1", <<"a.t", "*">>, 1, 10)>> ELSE IF fs = <<F7>> THEN <<Quota("q2", <<"a.t", "v", "{id}">>, 2, 10)>> ELSE <<>>
FlowSets == {FlowSetList[i] : i \in FlowSel}

FileOf(labels, lep, gm, sm, gw) == [labels |-> labels, lepp |-> lep, gm |-> gm, sm |-> sm, gw |-> gw]
C0 == FileOf(<<"http_method", "status_code", "host", "consumer_tag">>, << <<"a.t", "v", "{id}">> >>, AllG, AllS, "gw1")
C1 == FileOf(<<"url">>, <<>>, AllG, AllS, "gw1")
C2 == FileOf(<<"host", "flow_name">>, << <<"a.t", "v", "{x}">> >>, <<"transaction_duration">>, <<"active_flows", "requests_through_flows">>, "")
FileList == <<C0, C1, C2>>
Files == {FileList[i] : i \in FileSel}

T(m, us, tag, hx, st, blen, clen, d, td) == [m |-> m, us |-> us, tag |-> tag, hx |-> hx, st |-> st, blen |-> blen, clen |-> clen, d |-> d, td |-> td]
Letters == { T("GET", <<"a.t", "v", "1">>, "A", "", 200, 10, -1, 10, 100),
             T("GET", <<"a.t", "v", "2">>, "-", "1", 200, 10, -1, 20, 110),
             T("POST", <<"a.t", "v", "1">>, "A", "", 500, 0, 30, 30, 95),
             T("GET", <<"b.t", "x">>, "B", "", 200, 4, -1, 40, 90),
             T("GET", <<"a.t", "w">>, "-", "1", 201, 7, 7, 15, 105) }

\* the plugin's URL tree of the instance: the known endpoint folds its URLs
MCAttr == LET us == << <<"a.t", "v", "1">>, <<"a.t", "v", "2">>, <<"b.t", "x">>, <<"a.t", "w">> >> IN [i \in DOMAIN us |-> <<us[i], Norm(Known, us[i])>>]

StartEv(c, fs) == [labels |-> c.labels, lepp |-> c.lepp, gm |-> c.gm, sm |-> c.sm, gw |-> c.gw, flows |-> fs, legacy |-> TRUE, quotas |-> QuotasOf(fs)]

Judge(hh, gg) == ScrapeLaw(hh, IScrape(gg), IGatherError(gg))

Init ==
    /\ \E c \in Files, fs \in FlowSets :
         /\ g = IStart(IReset(Known), StartEv(c, fs))
         /\ h = PStart(PReset(Known), StartEv(c, fs))
    /\ ntxn = 0 /\ nreload = 0 /\ nrestart = 0 /\ nscrape = 0 /\ ncollect = 0 /\ ntick = 0 /\ verdict = "ok" /\ devs = {}

Txn(t) ==
    /\ ntxn < MaxTxn
    /\ LET e == EventOf(g, t)
           tl == TxnLaw(h, e)
           h2 == PTxn(h, e)
           g2 == ITxn(g, e)
       IN  /\ g' = g2 /\ h' = h2
           /\ verdict' = IF tl # "ok" THEN tl ELSE Judge(h2, g2)
           /\ devs' = devs \cup ScrapeDevs(h2, IScrape(g2), IGatherError(g2))
    /\ ntxn' = ntxn + 1
    /\ UNCHANGED <<nreload, nrestart, nscrape, ncollect, ntick>>

Flush(n) ==
    /\ Len(g.pend) > 0 /\ n <= Len(g.pend)
    /\ g' = IFlush(g, n, MCAttr) /\ h' = PFlush(h, n, MCAttr)
    /\ verdict' = Judge(h', g')
    /\ devs' = devs \cup ScrapeDevs(h', IScrape(g'), IGatherError(g'))
    /\ UNCHANGED <<ntxn, nreload, nrestart, nscrape, ncollect, ntick>>

\* a scrape moves the parser cache; worth a step only when the cache is behind the file
Scrape ==
    /\ nscrape < MaxScrape /\ (~g.cached \/ g.cver # g.fver)
    /\ g' = IAfterScrape(g) /\ nscrape' = nscrape + 1
    /\ verdict' = Judge(h, g')
    /\ UNCHANGED <<h, ntxn, nreload, nrestart, devs, ncollect, ntick>>

Reload(c, fs) ==
    /\ nreload < MaxReload /\ c.gw = g.gw
    /\ \A q \in SeqSet(QuotasOf(fs)) : ~\E o \in SeqSet(g.quotas) \cup {x.q : x \in SeqSet(g.qoldobj)} : o.id = q.id
    /\ g' = IReload(g, StartEv(c, fs)) /\ h' = PReload(h, StartEv(c, fs))
    /\ verdict' = Judge(h', g')
    /\ devs' = devs \cup ScrapeDevs(h', IScrape(g'), IGatherError(g'))
    /\ nreload' = nreload + 1
    /\ UNCHANGED <<ntxn, nrestart, nscrape, ncollect, ntick>>

\* the access log of the transactions not flushed yet is flushed before the container goes down
Restart(c, fs) ==
    /\ nrestart < MaxRestart /\ Len(g.pend) = 0
    /\ g' = IStart(g, StartEv(c, fs)) /\ h' = PStart(h, StartEv(c, fs))
    /\ verdict' = Judge(h', g')
    /\ devs' = devs \cup ScrapeDevs(h', IScrape(g'), IGatherError(g'))
    /\ nrestart' = nrestart + 1
    /\ UNCHANGED <<ntxn, nreload, nscrape, ncollect, ntick>>

\* a collection tick of the histogram managers; worth a step only when the file moved since their last one
Collect ==
    /\ ncollect < MaxCollect /\ (~g.hcached \/ g.hver # g.fver \/ ~g.lcached \/ g.lver # g.fver)
    /\ g' = ICollect(g) /\ h' = PCollect(h)
    /\ verdict' = Judge(h', g')
    /\ devs' = devs \cup ScrapeDevs(h', IScrape(g'), IGatherError(g'))
    /\ ncollect' = ncollect + 1
    /\ UNCHANGED <<ntxn, nreload, nrestart, nscrape, ntick>>

\* the clock moves beyond every window
Tick ==
    /\ ntick < MaxTick
    /\ g' = ITick(g, 11) /\ h' = PTick(h, 11)
    /\ verdict' = Judge(h', g')
    /\ devs' = devs \cup ScrapeDevs(h', IScrape(g'), IGatherError(g'))
    /\ ntick' = ntick + 1
    /\ UNCHANGED <<ntxn, nreload, nrestart, nscrape, ncollect>>

Next ==
    \/ Collect
    \/ Tick
    \/ \E t \in Letters : Txn(t)
    \/ \E n \in 1..MaxFlush : Flush(n)
    \/ Scrape
    \/ \E c \in Files, fs \in FlowSets : Reload(c, fs)
    \/ \E c \in Files, fs \in FlowSets : Restart(c, fs)

Spec == Init /\ [][Next]_vars

Accept == verdict = "ok"

\* witnesses (each must be VIOLATED: the situation is reachable)
W_NoEarly      == ~\E i \in DOMAIN h.reqs : Len(h.resps) < Len(h.reqs)
W_NoPathDev    == "path-of-endpoint" \notin devs
W_NoSizeDev    == "size-body-only" \notin devs
W_NoReloadDev  == "reload-compares-with-startup" \notin devs
W_NoAlwaysDev  == "count-always" \notin devs
W_NoCoarse     == ~\E s \in IScrape(g) : s.n = "api_call_count_total" /\ s.v >= 2000
W_NoDupDev     == "duplicate-series" \notin devs
W_NoLegacyDev  == "legacy-first-sight" \notin devs
W_NoLegacy     == ~\E s \in IScrape(g) : s.n = "lunar_transaction"
W_NoHist2      == ~\E s \in IScrape(g) : s.n = "lunar_transaction_duration" /\ s.v >= 2000
W_NoQuotaZero  == "quota-used-zero-after-refusal" \notin devs
W_NoQuotaStale == "quota-series-survive-reload" \notin devs
W_NoUsed2      == ~\E s \in IScrape(g) : s.n = "lunar_resources_quota_resource_quota_used" /\ s.v >= 2000
W_NoCut        == ~\E i \in DOMAIN h.reqs : h.reqs[i].flows = {"f1"}
================================================================================
