------------------------------- MODULE GenX09 -------------------------------
(* X09 - behaviour generation (spec -> code): random walks (tlc -simulate) of the machine of MC_X09 with the inputs of    *)
(* every step carried in `hist`; every walk that reaches GenDepth steps is printed as one JSON line.  The driver renders  *)
(* the files, runs the walk on the real gateway and has MetricsTrace judge the recording (its `drift` = what the model    *)
(* exported in the walk).  A scrape is always possible here (not only when the parser cache is behind).                  *)
EXTENDS MC_X09, Json
CONSTANT GenDepth
VARIABLE hist

GInit ==
    /\ ntxn = 0 /\ nreload = 0 /\ nrestart = 0 /\ nscrape = 0 /\ ncollect = 0 /\ ntick = 0 /\ verdict = "ok" /\ devs = {}
    /\ \E c \in Files, fs \in FlowSets :
         /\ g = IStart(IReset(Known), StartEv(c, fs))
         /\ h = PStart(PReset(Known), StartEv(c, fs))
         /\ hist = <<[ev |-> "start", c |-> c, fs |-> fs, qs |-> QuotasOf(fs)]>>

AnyScrape ==
    /\ hist[Len(hist)].ev # "scrape"
    /\ g' = IAfterScrape(g)
    /\ verdict' = Judge(h, g')
    /\ UNCHANGED <<h, ntxn, nreload, nrestart, nscrape, ncollect, ntick, devs>>

GNext ==
    \/ \E t \in Letters : Txn(t) /\ hist' = Append(hist, [ev |-> "txn", t |-> t])
    \/ \E n \in 1..MaxFlush : Flush(n) /\ hist' = Append(hist, [ev |-> "flush", n |-> n])
    \/ AnyScrape /\ hist' = Append(hist, [ev |-> "scrape"])
    \/ Collect /\ hist' = Append(hist, [ev |-> "collect"])
    \/ Tick /\ hist' = Append(hist, [ev |-> "tick", d |-> 11])
    \/ \E c \in Files, fs \in FlowSets : Reload(c, fs) /\ hist' = Append(hist, [ev |-> "reload", c |-> c, fs |-> fs, qs |-> QuotasOf(fs)])
    \/ \E c \in Files, fs \in FlowSets : Restart(c, fs) /\ hist' = Append(hist, [ev |-> "start", c |-> c, fs |-> fs, qs |-> QuotasOf(fs)])

GSpec == GInit /\ [][GNext]_<<vars, hist>>
Emit == (Len(hist) = GenDepth) => PrintT(<<"VH", ToJson(hist)>>)
=============================================================================
