------------------------------ MODULE MetricsTrace ------------------------------
(* X09 - validation of recorded gateway lifetimes (harness/cmd/x09) against MetricsP and, in the same pass, comparison   *)
(* with the implementation-shaped model MetricsI (`drift`).                                                             *)
(*                                                                                                                     *)
(* trace.ndjson: {"ev":"config","params":[..]} then per script                                                          *)
(*   {"ev":"reset","knownp":[[seg..]..]}           a fresh installation (no discovery state), the plugin's known endpoints *)
(*   {"ev":"start","labels","lepp","gm","sm","gw","flows":[flow..]}   the gateway process (re)starts                     *)
(*   {"ev":"txn","m","us","tag","hx","st","blen","clen","ans","rans","procs","logged"}   one transaction               *)
(*   {"ev":"flush","n","attr":[[url segs, endpoint segs]..]}   attr = what the plugin's URL tree answers, right after the     *)
(*                       flush, for the URLs of the flushed records                                                      *)
(*   {"ev":"scrape","samples":[{n,l,v,p}..]}  {"ev":"reload",...,"code"}  {"ev":"final"}             *)
(*   {"ev":"tick","d"}   the (mock) clock moves on by d seconds                                                          *)
(*   {"ev":"collect"}    one collection tick of the access-log based histogram managers                                  *)
(*   {"ev":"crash"}      the engine process died                                                                        *)
(* Every step is always enabled; `verdict` = the first law of P the observation breaks ("ok" otherwise), `drift` = the  *)
(* first difference from what the model I exports; Accept demands verdict = "ok".                                       *)
EXTENDS MetricsI, TraceLib

VARIABLES l, h, g, verdict, drift, devs
tvars == <<l, h, g, verdict, drift, devs>>

Ev == TraceLog[l + 1]
Consume(name) == l < TraceLen /\ Ev.ev = name /\ l' = l + 1

\* (a label with an empty value is no label to Prometheus)
SampleSet(ev) == {[n |-> s.n, l |-> {kv \in SeqSet(s.l) : kv[2] # ""}, v |-> s.v, p |-> s.p, sum |-> s.sum] : s \in SeqSet(ev.samples)}

AvgFams == {"avg_flow_execution_time", "avg_processor_execution_time"}
\* the model has no clock (an average time is just positive or not) and computes the mean size exactly (the engine in float64)
Strip(s) == [n |-> s.n, l |-> s.l, v |-> IF s.n \in AvgFams THEN s.p ELSE IF s.n = "api_call_size" THEN 0 ELSE s.v]
SizesAgree(S, M) == \A s \in S, m \in M : s.n = "api_call_size" /\ m.n = "api_call_size" => Abs(s.v - m.v) <= 1
\* histogram sums: float32 averages against exact fractions, one unit per observation
SumsAgree(S, M) == \A s \in S, m \in M : s.n = m.n /\ s.l = m.l /\ s.n \in HistFams => Abs(s.sum - m.sum) * 1000 <= s.v + 1000
DriftOf(S, M) ==
    LET a == {Strip(s) : s \in {x \in S : x.n \in KnownFams}}
        b == {Strip(s) : s \in M}
    IN  IF a = b THEN (IF ~SumsAgree(S, M) THEN "a histogram sum differs from the model's"
                       ELSE IF ~SizesAgree(S, M) THEN "api_call_size differs from the model's" ELSE "ok")
        ELSE IF a \ b # {} THEN "exported but not by the model: " \o (CHOOSE s \in a \ b : TRUE).n
        ELSE "missing, the model exports: " \o (CHOOSE s \in b \ a : TRUE).n

TInit == l = 1 /\ h = PReset(<<>>) /\ g = IReset(<<>>) /\ verdict = "ok" /\ drift = "ok" /\ devs = {}

TReset ==
    /\ Consume("reset")
    /\ h' = PReset(Ev.knownp) /\ g' = IReset(Ev.knownp)
    /\ verdict' = "ok" /\ drift' = "ok" /\ devs' = {}

TStart ==
    /\ Consume("start")
    /\ h' = PStart(h, Ev) /\ g' = IStart(g, Ev)
    /\ verdict' = IF "refused" \in DOMAIN Ev THEN "Start-Refused" ELSE "ok"
    /\ drift' = "ok" /\ devs' = {}

TTxn ==
    /\ Consume("txn")
    /\ h' = PTxn(h, Ev) /\ g' = ITxn(g, Ev)
    /\ verdict' = TxnLaw(h, Ev)
    /\ drift' = "ok" /\ devs' = {}

TFlush ==
    /\ Consume("flush")
    /\ h' = PFlush(h, Ev.n, Ev.attr) /\ g' = IFlush(g, Ev.n, Ev.attr)
    /\ verdict' = IF "err" \in DOMAIN Ev THEN "Flush-Error" ELSE "ok"
    /\ drift' = "ok" /\ devs' = {}

TScrape ==
    /\ Consume("scrape")
    /\ LET S == SampleSet(Ev)
           gerr == "gerr" \in DOMAIN Ev IN
       /\ verdict' = ScrapeLaw(h, S, gerr)
       /\ drift' = IF gerr # IGatherError(g) THEN (IF gerr THEN "the scrape failed, the model's does not" ELSE "the scrape succeeded, the model's fails")
                   ELSE IF gerr THEN "ok" ELSE DriftOf(S, IScrape(g))
       /\ devs' = ScrapeDevs(h, S, gerr)
    /\ g' = IAfterScrape(g)
    /\ UNCHANGED h

TCollect ==
    /\ Consume("collect")
    /\ h' = PCollect(h) /\ g' = ICollect(g)
    /\ verdict' = "ok" /\ drift' = "ok" /\ devs' = {}

TTick ==
    /\ Consume("tick")
    /\ h' = PTick(h, Ev.d) /\ g' = ITick(g, Ev.d)
    /\ verdict' = "ok" /\ drift' = "ok" /\ devs' = {}

TReload ==
    /\ Consume("reload")
    /\ h' = PReload(h, Ev) /\ g' = IReload(g, Ev)
    /\ verdict' = IF Ev.code # 200 THEN "Reload-Refused" ELSE "ok"
    /\ drift' = "ok" /\ devs' = {}

TCrash ==
    /\ Consume("crash")
    /\ verdict' = "Crash" /\ drift' = "ok" /\ devs' = {}
    /\ UNCHANGED <<h, g>>

TFinal ==
    /\ Consume("final")
    /\ verdict' = "ok" /\ drift' = "ok" /\ devs' = {}
    /\ UNCHANGED <<h, g>>

TNext == TReset \/ TStart \/ TTxn \/ TFlush \/ TScrape \/ TCollect \/ TTick \/ TReload \/ TCrash \/ TFinal
TraceSpec == TInit /\ [][TNext]_tvars

Accept == verdict = "ok"
\* the first difference from the model (register 2) and the deviations met, with how often (register 3: a bag as a
\* function), are printed at the end; they do not stop the validation
DriftMark == IF drift # "ok" /\ TLCGetOrDefault(2, "ok") = "ok" THEN TLCSet(2, "line " \o ToString(l) \o ": " \o drift) ELSE TRUE
RECURSIVE AddAll(_, _)
AddAll(bag, D) == IF D = {} THEN bag ELSE LET d == CHOOSE x \in D : TRUE IN AddAll(Bump(bag, d), D \ {d})
DevMark == IF devs # {} THEN TLCSet(3, AddAll(TLCGetOrDefault(3, <<>>), devs)) ELSE TRUE
HWM == Mark(l) /\ DriftMark /\ DevMark
Post == Report /\ PrintT("TRACE-DRIFT " \o TLCGetOrDefault(2, "ok")) /\ PrintT(<<"TRACE-DEVS", TLCGetOrDefault(3, <<>>)>>)
================================================================================
