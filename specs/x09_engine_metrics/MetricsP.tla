------------------------------- MODULE MetricsP -------------------------------
(* X09 (growth) - the gateway's own metrics agree with the traffic it processed: property specification (P).           *)
(*                                                                                                                     *)
(* STATEMENT, derived from the repository's own documentation (what somebody who points a dashboard at the gateway's   *)
(* Prometheus endpoint relies on).  Sources in brackets.                                                                *)
(*                                                                                                                     *)
(*  M1 api_call_count = "Number of API calls" [proxy/metrics.yaml].  Every transaction that went through the gateway   *)
(*     is counted exactly once, under its own labels: at every scrape, for every label set L, the sample               *)
(*     api_call_count{L} equals the number of transactions the discovery aggregation has taken in whose labels are L;  *)
(*     nothing is dropped, nothing is counted twice, no label set is invented [flows_traffic_metrics.feature: 3 + 1     *)
(*     requests -> "a counter named api_call_count with the value 4"; api_call_metric.go: one Observe per consumer,    *)
(*     endpoint and status code of the discovery state; discovered_endpoint_metrics.feature: counts per endpoint,      *)
(*     status and consumer tag].  The labels are the ones listed under general_metrics.label_value among               *)
(*     http_method, url, host, status_code, consumer_tag [metrics.yaml; labels_manager.go]: url = the endpoint as      *)
(*     discovery knows it (normalised by the known endpoints), host = its host, consumer_tag = the value of            *)
(*     x-lunar-consumer-tag, absent for a transaction without one; an unsupported label name adds nothing.  The count  *)
(*     is a property of the discovery state: it survives a reload of the flows and a restart of the gateway, and it    *)
(*     lags the traffic by the access-log flush only (a transaction not yet flushed is not yet counted).               *)
(*  M2 labeled_endpoints [metrics.yaml, comment]: "defining endpoints sets the metrics to be exposed with a path label *)
(*     for the specified host, for example "httpbin.org/get/{param1}" will expose metric api_call_count as             *)
(*     api_call_count{<other labels>, host="httpbin.org", path="/get/{param1}"} 3".  A transaction whose endpoint      *)
(*     matches a labeled endpoint ({x} = one non-empty segment, whole URL [labeled_endpoint_manager_test.go]) carries  *)
(*     a path label; the others carry none.  The example shows the path of the *pattern*; the code takes the path of   *)
(*     the endpoint as discovery knows it (equal when the endpoint is known with the same parameters).  Both readings  *)
(*     are accepted (per scrape); the run counts what only the engine's reading explains (DEV path-of-endpoint).       *)
(*  M3 api_call_size = "Average size of API calls" [metrics.yaml]: the mean size of the API calls whose response the   *)
(*     gateway has processed since it started - the size of a response is its Content-Length when it states one, else  *)
(*     the length of the body it carries [response.util.go GetSize].  The engine looks the header up as                *)
(*     "Content-Length" in a map whose keys were lower-cased, so it always falls back to the captured body (0 when the  *)
(*     body was not captured): both are accepted (DEV size-body-only).  Nothing says whether the mean restarts at a    *)
(*     reload of the flows: both are accepted.  No call yet: 0.                                                        *)
(*  M4 system metrics [metrics.yaml; flows_basic_rate_limit_metrics.feature: one flow, 4 requests -> active_flows 1,   *)
(*     flow_invocations 4, requests_through_flows 4, avg_flow_execution_time > 0, avg_processor_execution_time > 0]:   *)
(*     active_flows = "Number of active flows" = the user flows of the configuration in force;                         *)
(*     flow_invocations{flow_name=f} = "Number of flow invocations" = the requests on which flow f was run             *)
(*     (selected by its filter - C03 - and reached - C04: a flow after one that answered the request is not run);      *)
(*     requests_through_flows = "Number of requests through flows" = the requests on which at least one flow ran;      *)
(*     avg_flow_execution_time / avg_processor_execution_time = averages in ms, positive once a flow / processor ran,  *)
(*     0 before.  What "ran" means is observed independently of the counters (processor executions reported by the     *)
(*     engine's execution hook).  A counter is a Prometheus counter: it may restart from zero when the flows are       *)
(*     reloaded (a new engine is built) - nothing documents either choice, so the value since the start and the value  *)
(*     since the last reload are both accepted; any other value is not.                                                *)
(*  M5 processor metrics [registry/*.yaml: "metrics: enabled, labels: [] # flow_name, processor_key, http_method, url,  *)
(*     status_code, consumer_tag"; filter / limiter / generate_response processors]: a processor with metrics enabled  *)
(*     counts each of its executions once, in the counter of its outcome (filter hit / miss, generated response),      *)
(*     under the listed labels of that transaction: flow_name, processor_key, http_method, url and host of the         *)
(*     request, status_code (a response has one), consumer_tag (a request header).  A processor with metrics disabled  *)
(*     counts nothing.  The counters belong to the process: they only grow, whatever is reloaded.                      *)
(*  M6 gateway_id: every sample of the gateway carries gateway_id = GATEWAY_INSTANCE_ID when that is set               *)
(*     [labels_manager.go appendGatewayIDAttribute; metric_manager.go observeMetric], none otherwise.                  *)
(*  M7 the metric lists of metrics.yaml say what is exposed: a listed general / system metric is there (flow           *)
(*     invocations once there is something to report), an unlisted one is not [metrics.yaml; metric_manager.go          *)
(*     initializeMetrics].  api_call_count is registered whatever the file says ("special treatment"): accepted (DEV   *)
(*     count-always).                                                                                                  *)
(*  M8 reload [handling_data_manager.go reloadFlows; metric_manager.go ReloadMetricsConfig "Reloading labels",         *)
(*     "Reloading labeled endpoints", "Reloading general metrics"]: POST /load_flows re-reads metrics.yaml; from then   *)
(*     on the labels / labeled endpoints / metric lists of the new file apply.  The engine compares the new file with  *)
(*     the file it *started* with and never remembers a newer one: a reload back to the start-up file changes nothing  *)
(*     and the metric lists are re-built from the start-up file.  Accepted next to the documented reading (DEV         *)
(*     reload-compares-with-startup): after a reload the labels / labeled endpoints in force are those of the new file *)
(*     or, when the new file equals the start-up file (in that part), those that were in force before; the metric      *)
(*     lists in force are those of the new file or of the start-up file.                                               *)
(*  M9 metrics never alter the transaction: what the gateway answers is a function of the flows and the transaction   *)
(*     (here: a flow's filter hits exactly when the request carries x-a: 1, a gate flow whose filter hit answers with  *)
(*     its status, nothing else answers), whatever metrics.yaml and the processors' metric settings say.               *)
(*                                                                                                                     *)
(* M11 transaction_duration = "Transaction total duration (gateway time + provider time), ms", provider_transaction_       *)
(*     duration = "Provider time (the round trip time from gateway to provider), ms" [metrics.yaml], histograms with the  *)
(*     configured buckets, fed every LUNAR_ACCESS_LOG_METRICS_COLLECTION_TIME_INTERVAL_SEC from the discovery state       *)
(*     [transaction_metrics.go].  The engine does not observe transactions: at a collection it records, for every         *)
(*     consumer x endpoint whose running averages moved since the previous collection, the *average* once per status code *)
(*     of that endpoint.  What both this and a per-transaction histogram guarantee, and what is demanded here: a series    *)
(*     exists only under the labels (M1, M2) of some counted transaction; the mean of its observations lies between the    *)
(*     smallest and the largest duration of the counted transactions that carry these labels up to the status code; the    *)
(*     two histograms are not mixed up; a listed histogram shows something once a collection has met a counted             *)
(*     transaction; an unlisted one shows nothing.  (That `_count` is not the number of transactions is reported, not      *)
(*     judged.)                                                                                                            *)
(* M12 lunar_transaction = "Histogram (& derived counter) of transactions runtime. Global by host, Endpoint by normalized  *)
(*     URL" [legacy_metrics.go; the manager of policy mode, run here on its own against the same discovery state], labels *)
(*     normalized_url = the host, method, status_code.  The derived counter never exceeds the transactions counted with   *)
(*     these labels up to the last collection and loses none that was counted after its endpoint became known to the      *)
(*     manager (the engine skips what an endpoint brought when it was first seen - also everything discovered before the   *)
(*     process started: DEV legacy-first-sight when that shows); the mean lies between the provider times (whole ms) of     *)
(*     the counted transactions of that host and method.                                                                  *)
(* M13 quota metrics [flows_basic_rate_limit_metrics.feature: a fixed-window quota of 5, 4 requests -> "a counter named    *)
(*     lunar_resources_quota_resource_quota_limit with the value 5", "... quota_used with the value 4"; quota_resource.go    *)
(*     "Used quota for quota resource", "Limits for quota resource"]: quota_limit{quota_id} = the configured maximum of     *)
(*     every quota of the configuration in force; quota_used{quota_id, group_id} = what the quota's current window has     *)
(*     admitted (0 once that window is over), present once the quota has been charged.  The engine keeps a copy of the      *)
(*     window counter for this gauge and overwrites it with the result of every charge - which is 0 for a refused one -     *)
(*     so the gauge reads 0 from a refusal until the next admission (DEV quota-used-zero-after-refusal), and it keeps the    *)
(*     last value when the window runs out; the gauges of the quotas of an earlier configuration are never unregistered     *)
(*     and keep showing their last values until the process ends (DEV quota-series-survive-reload).  All accepted.          *)
(*     The limiter's own counters (below / above limit) are processor metrics (M5).  The window (C01): opened by the        *)
(*     first charge, `interval` seconds long, at most `max` admissions; a quota is charged when the limiter that refers to  *)
(*     it runs (a request answered by an earlier flow does not reach it).                                                  *)
(* M10 a scrape succeeds (see Collide below for the one situation in which the engine's does not).                       *)
(*                                                                                                                     *)
(* P is defined on the history record h (advanced by PStart / PTxn / PFlush / PReload below) and on the set S of       *)
(* samples of a scrape:  [n : family name, l : set of <<label, value>>, v : value in 1/1000 (histogram: observations x   *)
(* 1000), p : 1 when v > 0, sum : histogram sum in 1/1000].                                                             *)
(* Every law operator returns "ok" or the name of the first law broken.                                                *)
EXTENDS Integers, Sequences, FiniteSets, TLC

CONSTANT Params           \* the strings that stand for a path parameter in a pattern, e.g. {"{id}", "{x}"}

SeqSet(s) == {s[i] : i \in DOMAIN s}
Abs(x) == IF x < 0 THEN -x ELSE x
First(q) == IF \A i \in DOMAIN q : q[i] = "ok" THEN "ok" ELSE q[CHOOSE i \in DOMAIN q : q[i] # "ok" /\ \A j \in 1..(i - 1) : q[j] = "ok"]

RECURSIVE Join(_, _)
Join(segs, sep) == IF Len(segs) = 0 THEN "" ELSE IF Len(segs) = 1 THEN segs[1] ELSE segs[1] \o sep \o Join(Tail(segs), sep)
RECURSIVE SumSeq(_)
SumSeq(q) == IF Len(q) = 0 THEN 0 ELSE q[1] + SumSeq(Tail(q))

UrlOf(us)  == Join(us, "/")
HostOf(us) == us[1]
PathOf(us) == IF Len(us) < 2 THEN "" ELSE "/" \o Join(Tail(us), "/")

\* a pattern against a URL, both as segment sequences: {x} stands for exactly one segment; "*" (last) for one or more
Match(pat, us) ==
    IF Len(pat) > 0 /\ pat[Len(pat)] = "*"
    THEN Len(us) >= Len(pat) /\ \A i \in 1..(Len(pat) - 1) : pat[i] = us[i] \/ pat[i] \in Params
    ELSE Len(pat) = Len(us) /\ \A i \in DOMAIN pat : pat[i] = us[i] \/ pat[i] \in Params

\* the endpoint as discovery knows it in the bounded model (MC_X09): the known endpoint that matches, else the URL itself
Norm(known, us) == IF \E p \in SeqSet(known) : Match(p, us) THEN known[CHOOSE i \in DOMAIN known : Match(known[i], us) /\ \A j \in 1..(i - 1) : ~Match(known[j], us)] ELSE us

AttrOf(attr, us) == LET I == {i \in DOMAIN attr : attr[i][1] = us} IN IF I = {} THEN us ELSE attr[CHOOSE i \in I : TRUE][2]

SupportedLabels == {"http_method", "url", "host", "status_code", "consumer_tag"}

Gw(h) == IF h.gw = "" THEN {} ELSE {<<"gateway_id", h.gw>>}

\* ------------------------------------------------------------------------------------------------ M1 / M2
\* labels of a counted transaction r = [m, us, nus, st, tag]; nus = the endpoint discovery counted it under.  Which URLs the
\* plugin's URL tree folds into which endpoint is an *input* of this property, as in C15: every flush carries the tree's answer
\* for the URLs of its records, a sequence of <<URL, endpoint>> (a URL it does not list is its own endpoint).  Labels under the label list `labels`, the labeled endpoints `lep` and the
\* reading rd of M2 ("doc" = path of the pattern, "eng" = path of the endpoint as discovery knows it)
LepHit(lep, nu) == {i \in DOMAIN lep : Match(lep[i], nu)}
PathLabel(lep, nu, rd) ==
    LET I == LepHit(lep, nu) IN
    IF I = {} THEN {}
    ELSE LET i == CHOOSE k \in I : \A j \in I : k <= j
             p == IF rd = "doc" THEN PathOf(lep[i]) ELSE PathOf(nu)
         IN  IF p = "" THEN {} ELSE {<<"path", p>>}

CallLabels(h, r, labels, lep, rd) ==
    LET nu == r.nus IN
    (IF "http_method" \in labels THEN {<<"http_method", r.m>>} ELSE {})
    \cup (IF "url" \in labels THEN {<<"url", UrlOf(nu)>>} ELSE {})
    \cup (IF "host" \in labels THEN {<<"host", HostOf(nu)>>} ELSE {})
    \cup (IF "status_code" \in labels THEN {<<"status_code", ToString(r.st)>>} ELSE {})
    \cup (IF "consumer_tag" \in labels /\ r.tag # "-" THEN {<<"consumer_tag", r.tag>>} ELSE {})
    \cup PathLabel(lep, nu, rd) \cup Gw(h)

\* the bag of label sets of a sequence of items, as the set of samples that shows it
CountBy(items, LabOf(_)) ==
    LET Ls == {LabOf(items[i]) : i \in DOMAIN items}
    IN  {[l |-> L, v |-> 1000 * Cardinality({i \in DOMAIN items : LabOf(items[i]) = L})] : L \in Ls}

Fam(S, name) == {[l |-> s.l, v |-> s.v] : s \in {x \in S : x.n = name}}
NoDup(S, name) == Cardinality(Fam(S, name)) = Cardinality({s.l : s \in Fam(S, name)})

CountExpected(h, c, rd) == LET L(r) == CallLabels(h, r, SeqSet(c.labels), c.lep, rd) IN CountBy(h.flushed, L)

\* which reading explains the observation: "doc", "eng", or "none"
CountReading(h, S) ==
    LET obs == Fam(S, "api_call_count_total") IN
    IF \E c \in h.cands : obs = CountExpected(h, c, "doc") THEN "doc"
    ELSE IF \E c \in h.cands : obs = CountExpected(h, c, "eng") THEN "eng"
    ELSE "none"

CountLaw(h, S) ==
    IF ~NoDup(S, "api_call_count_total") THEN "M1-DuplicateSeries"
    ELSE IF CountReading(h, S) # "none" THEN "ok"
    ELSE "M1-Count"

\* ------------------------------------------------------------------------------------------------------ M3
\* h.resps: the responses processed since the start, [clen, blen, ep]
SizeOf(r, rd) == IF rd = "doc" /\ r.clen >= 0 THEN r.clen ELSE r.blen
MeanOK(v, q, rd) ==
    LET n == Len(q) IN
    IF n = 0 THEN v = 0 ELSE Abs(v * n - 1000 * SumSeq([i \in 1..n |-> SizeOf(q[i], rd)])) <= n
Since(q, ep) == LET T(x) == x.ep >= ep IN SelectSeq(q, T)

SizeReading(h, v) ==
    IF MeanOK(v, h.resps, "doc") \/ MeanOK(v, Since(h.resps, h.ep), "doc") THEN "doc"
    ELSE IF MeanOK(v, h.resps, "eng") \/ MeanOK(v, Since(h.resps, h.ep), "eng") THEN "eng"
    ELSE "none"

\* ------------------------------------------------------------------------------------------------------ M7
\* the metric lists in force: of the file now or of the start-up file (M8)
ListedNow(h, name)   == name \in SeqSet(h.fileNow.gm) \cup SeqSet(h.fileNow.sm)
ListedStart(h, name) == name \in SeqSet(h.fileStart.gm) \cup SeqSet(h.fileStart.sm)
MustBeThere(h, name) == ListedNow(h, name) /\ ListedStart(h, name)
MayBeThere(h, name)  == ListedNow(h, name) \/ ListedStart(h, name)

Single(h, S, fam, name, law) ==
    LET F == Fam(S, fam) IN
    IF F = {} THEN (IF MustBeThere(h, name) THEN law \o "-Missing" ELSE "ok")
    ELSE IF ~MayBeThere(h, name) THEN law \o "-Unlisted"
    ELSE IF Cardinality(F) # 1 \/ (CHOOSE s \in F : TRUE).l # Gw(h) THEN law \o "-Series"
    ELSE "ok"
Val(S, fam) == (CHOOSE s \in Fam(S, fam) : TRUE).v
Pos(S, fam) == (CHOOSE s \in {x \in S : x.n = fam} : TRUE).p = 1

SizeLaw(h, S) ==
    LET s1 == Single(h, S, "api_call_size", "api_call_size", "M3") IN
    IF s1 # "ok" THEN s1
    ELSE IF Fam(S, "api_call_size") = {} THEN "ok"
    ELSE IF SizeReading(h, Val(S, "api_call_size")) = "none" THEN "M3-Mean" ELSE "ok"

\* ------------------------------------------------------------------------------------------------------ M4
\* h.reqs: the requests since the start, [flows : set of user flows run on the request side, any : some flow ran, ep]
NReq(h, from, Pred(_)) == Cardinality({i \in DOMAIN h.reqs : h.reqs[i].ep >= from /\ Pred(h.reqs[i])})

ActiveLaw(h, S) ==
    LET s1 == Single(h, S, "active_flows", "active_flows", "M4-active_flows") IN
    IF s1 # "ok" THEN s1
    ELSE IF Fam(S, "active_flows") = {} THEN "ok"
    ELSE IF Val(S, "active_flows") # 1000 * Len(h.flows) THEN "M4-active_flows" ELSE "ok"

ThroughLaw(h, S) ==
    LET s1 == Single(h, S, "requests_through_flows_total", "requests_through_flows", "M4-requests_through_flows")
        AnyRan(r) == r.any IN
    IF s1 # "ok" THEN s1
    ELSE IF Fam(S, "requests_through_flows_total") = {} THEN "ok"
    ELSE IF Val(S, "requests_through_flows_total") \notin {1000 * NReq(h, 0, AnyRan), 1000 * NReq(h, h.ep, AnyRan)} THEN "M4-requests_through_flows"
    ELSE "ok"

InvocationsLaw(h, S) ==
    LET F == Fam(S, "flow_invocations_total")
        names == UNION {h.reqs[i].flows : i \in DOMAIN h.reqs}
        NameOf(s) == {kv[2] : kv \in {x \in s.l : x[1] = "flow_name"}}
        Tot(f) == LET P(r) == f \in r.flows IN NReq(h, 0, P)
        Ep(f)  == LET P(r) == f \in r.flows IN NReq(h, h.ep, P)
        \* one choice for all flows of a scrape: since the start or since the last reload
        \* (a flow that has not run may be shown with 0 or not at all)
        Fits(Cnt(_)) == /\ \A s \in F : \E f \in names \cup {x.name : x \in SeqSet(h.flows)} :
                                             NameOf(s) = {f} /\ s.l = {<<"flow_name", f>>} \cup Gw(h) /\ s.v = 1000 * Cnt(f)
                        /\ \A f \in names : Cnt(f) > 0 => \E s \in F : NameOf(s) = {f}
    IN  IF F # {} /\ ~MayBeThere(h, "flow_invocations") THEN "M4-flow_invocations-Unlisted"
        ELSE IF ~NoDup(S, "flow_invocations_total") THEN "M4-flow_invocations-Series"
        ELSE IF F = {} /\ ~MustBeThere(h, "flow_invocations") THEN "ok"
        ELSE IF Fits(Tot) \/ Fits(Ep) THEN "ok"
        ELSE "M4-flow_invocations"

\* ran(h, ep): something was executed since epoch ep; the gauge is positive exactly when something ran - since the start
\* or since the last reload
AvgLaw(h, S, fam, Ran(_)) ==
    LET s1 == Single(h, S, fam, fam, "M4-" \o fam) IN
    IF s1 # "ok" THEN s1
    ELSE IF Fam(S, fam) = {} THEN "ok"
    ELSE IF Val(S, fam) < 0 THEN "M4-" \o fam
    ELSE IF Pos(S, fam) /\ ~Ran(0) THEN "M4-" \o fam \o "-Positive"
    ELSE IF ~Pos(S, fam) /\ Ran(h.ep) THEN "M4-" \o fam \o "-Zero"
    ELSE "ok"

FlowRan(h, ep) == \E i \in DOMAIN h.reqs : h.reqs[i].ep >= ep /\ h.reqs[i].walked
ProcRan(h, ep) == \E i \in DOMAIN h.reqs : h.reqs[i].ep >= ep /\ h.reqs[i].nproc > 0

\* ------------------------------------------------------------------------------------------------------ M5
\* h.pexec: the processor executions since the start that count, [fam, l]
ProcFams == {"lunar_filter_processor_hit_count_total", "lunar_filter_processor_miss_count_total", "lunar_generated_response_count_total",
             "lunar_limiter_processor_below_count_total", "lunar_limiter_processor_above_count_total"}

ProcLaw(h, S) ==
    LET bad == {fam \in ProcFams :
                  LET T(x) == x.fam = fam
                      items == SelectSeq(h.pexec, T)
                      L(x) == x.l
                  IN  ~NoDup(S, fam) \/ Fam(S, fam) # CountBy(items, L)}
    IN  IF bad = {} THEN "ok" ELSE "M5-" \o (CHOOSE f \in bad : TRUE)

\* ------------------------------------------------------------------------------------------------ M11 / M12
\* histogram samples: v = 1000 x number of observations, sum = 1000 x their sum
HFam(S, name) == {[l |-> s.l, v |-> s.v, sum |-> s.sum] : s \in {x \in S : x.n = name}}
NoStatus(L) == {kv \in L : kv[1] # "status_code"}
MinOf(X) == CHOOSE x \in X : \A y \in X : x <= y
MaxOf(X) == CHOOSE x \in X : \A y \in X : x >= y

HistLaw(h, S, fam, name, Dur(_)) ==
    LET F == HFam(S, fam)
        fl == h.flushed
        Explained(s) ==
            /\ s.v >= 1000
            /\ \E c \in h.ever, rd \in {"doc", "eng"} :
                 LET Lab(r) == CallLabels(h, r, SeqSet(c.labels), c.lep, rd)
                     T == {i \in DOMAIN fl : NoStatus(Lab(fl[i])) = NoStatus(s.l)}
                 IN  /\ \E i \in DOMAIN fl : Lab(fl[i]) = s.l
                     /\ MinOf({Dur(fl[i]) : i \in T}) * s.v - 1000 <= s.sum
                     /\ s.sum <= MaxOf({Dur(fl[i]) : i \in T}) * s.v + 1000
    IN  IF F # {} /\ ~MayBeThere(h, name) THEN "M11-" \o name \o "-Unlisted"
        ELSE IF Cardinality(F) # Cardinality({s.l : s \in F}) THEN "M11-" \o name \o "-Series"
        ELSE IF \E s \in F : ~Explained(s) THEN "M11-" \o name
        ELSE IF F = {} /\ MustBeThere(h, name) /\ (\E i \in DOMAIN h.hcol : h.hcol[i] > 0) THEN "M11-" \o name \o "-Missing"
        ELSE "ok"

LegacyLabels(r) == {<<"method", r.m>>, <<"normalized_url", HostOf(r.nus)>>, <<"status_code", ToString(r.st)>>}
\* the counted transactions the legacy manager has met (up to its last collection) / those it met after their endpoint had
\* become known to it
LegacyMet(h) == IF Len(h.hcol) = 0 THEN {} ELSE 1..h.hcol[Len(h.hcol)]
LegacyFirst(h, i) ==       \* the first collection that met the endpoint of counted transaction i (0: none yet)
    LET K == {k \in SeqSet(h.hcol) : \E j \in 1..k : h.flushed[j].m = h.flushed[i].m /\ h.flushed[j].nus = h.flushed[i].nus}
    IN  IF K = {} THEN 0 ELSE MinOf(K)
LegacyAfterFirst(h) == {i \in LegacyMet(h) : LegacyFirst(h, i) > 0 /\ i > LegacyFirst(h, i)}

LegacyLaw(h, S) ==
    LET F == HFam(S, "lunar_transaction")
        fl == h.flushed
        all(L) == Cardinality({i \in LegacyMet(h) : LegacyLabels(fl[i]) = L})
        sure(L) == Cardinality({i \in LegacyAfterFirst(h) : LegacyLabels(fl[i]) = L})
        Ls == {LegacyLabels(fl[i]) : i \in LegacyAfterFirst(h)}
        Mean(s) == LET T == {i \in DOMAIN fl : fl[i].m = (CHOOSE kv \in s.l : kv[1] = "method")[2]
                                             /\ HostOf(fl[i].nus) = (CHOOSE kv \in s.l : kv[1] = "normalized_url")[2]}
                   IN  (MinOf({fl[i].d : i \in T}) - 1) * s.v <= s.sum /\ s.sum <= MaxOf({fl[i].d : i \in T}) * s.v
    IN  IF ~h.legacy THEN (IF F = {} THEN "ok" ELSE "M12-Unexpected")
        ELSE IF Cardinality(F) # Cardinality({s.l : s \in F}) THEN "M12-Series"
        ELSE IF \E s \in F : s.v < 1000 \/ all(s.l) = 0 \/ s.v > 1000 * all(s.l) THEN "M12-MoreThanCounted"
        ELSE IF \E s \in F : s.v < 1000 * sure(s.l) THEN "M12-Lost"
        ELSE IF \E L \in Ls : ~\E s \in F : s.l = L THEN "M12-Lost"
        ELSE IF \E s \in F : ~Mean(s) THEN "M12-Mean"
        ELSE "ok"

\* ------------------------------------------------------------------------------------------------------ M13
\* the gauges of the quota resource always carry a gateway_id label (empty when GATEWAY_INSTANCE_ID is not set: the
\* recording drops empty label values, which is what they mean to Prometheus)
QuotaLaw(h, S) ==
    LET Lim == Fam(S, "lunar_resources_quota_resource_quota_limit")
        Used == Fam(S, "lunar_resources_quota_resource_quota_used")
        cur == SeqSet(h.quotas)
        old == {q \in SeqSet(h.qold) : ~\E c \in cur : c.id = q.id}
        LimL(q) == {<<"quota_id", q.id>>} \cup Gw(h)
        UsedL(q) == {<<"quota_id", q.id>>, <<"group_id", q.grp>>} \cup Gw(h)
        St(q) == h.qs[CHOOSE i \in DOMAIN h.quotas : h.quotas[i] = q]
        over(q) == ~St(q).open \/ h.now - St(q).start >= q.w
        Doc(q) == IF over(q) THEN 0 ELSE St(q).cnt
        \* what the window has admitted (0 once it is over); the same, not yet reset although the window is over; 0 after a refusal
        Okay(q) == {Doc(q), St(q).cnt} \cup (IF St(q).refused THEN {0} ELSE {})
    IN  IF ~NoDup(S, "lunar_resources_quota_resource_quota_limit") \/ ~NoDup(S, "lunar_resources_quota_resource_quota_used") THEN "M13-Series"
        ELSE IF \E q \in cur : [l |-> LimL(q), v |-> 1000 * q.max] \notin Lim THEN "M13-quota_limit"
        ELSE IF \E s \in Lim : ~\E q \in cur \cup old : s.l = LimL(q) /\ s.v = 1000 * q.max THEN "M13-quota_limit-Unknown"
        ELSE IF \E q \in cur : St(q).charged /\ ~\E s \in Used : s.l = UsedL(q) /\ s.v \in {1000 * x : x \in Okay(q)} THEN "M13-quota_used"
        ELSE IF \E s \in Used : ~\E q \in cur \cup old : s.l = UsedL(q) THEN "M13-quota_used-Unknown"
        ELSE IF \E s \in Used : \E q \in cur : s.l = UsedL(q) /\ ~St(q).charged /\ ~\E o \in SeqSet(h.qold) : o.id = q.id THEN "M13-quota_used-NeverCharged"
        ELSE IF \E s \in Used : s.v < 0 \/ \E q \in cur \cup old : s.l = UsedL(q) /\ s.v > 1000 * q.max THEN "M13-quota_used-AboveLimit"
        ELSE "ok"

QuotaDevs(h, S) ==
    LET Lim == Fam(S, "lunar_resources_quota_resource_quota_limit")
        Used == Fam(S, "lunar_resources_quota_resource_quota_used")
        cur == SeqSet(h.quotas)
        St(q) == h.qs[CHOOSE i \in DOMAIN h.quotas : h.quotas[i] = q]
        over(q) == ~St(q).open \/ h.now - St(q).start >= q.w
        Doc(q) == IF over(q) THEN 0 ELSE St(q).cnt
    IN  (IF \E s \in Lim \cup Used : ~\E q \in cur : <<"quota_id", q.id>> \in s.l THEN {"quota-series-survive-reload"} ELSE {})
        \cup (IF \E q \in cur : St(q).charged /\ St(q).refused /\ Doc(q) # 0 /\ \E s \in Used : <<"quota_id", q.id>> \in s.l /\ s.v = 0
              THEN {"quota-used-zero-after-refusal"} ELSE {})

\* ------------------------------------------------------------------------------------------------ the scrape
HistFams == {"lunar_transaction_duration", "lunar_provider_transaction_duration", "lunar_transaction"}
KnownFams == ProcFams \cup HistFams \cup {"lunar_resources_quota_resource_quota_limit", "lunar_resources_quota_resource_quota_used",
                                          "api_call_count_total", "api_call_size", "active_flows", "flow_invocations_total",
                            "requests_through_flows_total", "avg_flow_execution_time", "avg_processor_execution_time"}

CountListLaw(h, S) ==
    \* M7 for api_call_count: listed and something counted -> there (DEV count-always: also when not listed)
    IF Fam(S, "api_call_count_total") = {} /\ Len(h.flushed) > 0 /\ MustBeThere(h, "api_call_count") THEN "M7-api_call_count-Missing" ELSE "ok"

\* M10 the scrape itself: GET /metrics answers.  The engine names the counters of all processors of one kind alike but
\* describes each by its processor key; the SDK keeps them apart, the Prometheus registry then meets the same series twice as
\* soon as two processors (of different keys) have counted under the same label set, and the whole scrape fails (HTTP 500)
\* until the process restarts.  Accepted exactly in that situation (DEV duplicate-series); nothing is shown then, so the
\* processor counters are not judged (the other families are, on what the registry could still collect).
Collide(pexec) == \E i, j \in DOMAIN pexec : pexec[i].fam = pexec[j].fam /\ pexec[i].l = pexec[j].l /\ pexec[i].key # pexec[j].key

ScrapeLaw(h, S, gerr) ==
    First(<< IF gerr /\ ~Collide(h.pexec) THEN "M10-ScrapeFailed" ELSE "ok",
             CountListLaw(h, S), CountLaw(h, S), SizeLaw(h, S), ActiveLaw(h, S), ThroughLaw(h, S), InvocationsLaw(h, S),
             AvgLaw(h, S, "avg_flow_execution_time", LAMBDA ep : FlowRan(h, ep)), AvgLaw(h, S, "avg_processor_execution_time", LAMBDA ep : ProcRan(h, ep)),
             IF gerr THEN "ok" ELSE ProcLaw(h, S),
             HistLaw(h, S, "lunar_transaction_duration", "transaction_duration", LAMBDA r : r.td),
             HistLaw(h, S, "lunar_provider_transaction_duration", "provider_transaction_duration", LAMBDA r : r.d),
             LegacyLaw(h, S), QuotaLaw(h, S) >>)

\* what only a named deviation explains (counted by the driver, never a verdict)
ScrapeDevs(h, S, gerr) ==
    QuotaDevs(h, S) \cup
    (IF gerr /\ Collide(h.pexec) THEN {"duplicate-series"} ELSE {}) \cup
    (IF CountReading(h, S) = "eng" THEN {"path-of-endpoint"} ELSE {})
    \cup (IF Fam(S, "api_call_size") # {} /\ SizeReading(h, Val(S, "api_call_size")) = "eng" THEN {"size-body-only"} ELSE {})
    \cup (IF Fam(S, "api_call_count_total") # {} /\ ~MayBeThere(h, "api_call_count") THEN {"count-always"} ELSE {})
    \cup (IF h.legacy /\ ((\E s \in HFam(S, "lunar_transaction") : s.v < 1000 * Cardinality({i \in LegacyMet(h) : LegacyLabels(h.flushed[i]) = s.l}))
                         \/ (\E i \in LegacyMet(h) : ~\E s \in HFam(S, "lunar_transaction") : s.l = LegacyLabels(h.flushed[i])))
          THEN {"legacy-first-sight"} ELSE {})
    \cup (IF h.docCand # {} /\ ~(\E c \in h.docCand : Fam(S, "api_call_count_total") \in {CountExpected(h, c, "doc"), CountExpected(h, c, "eng")})
             /\ Len(h.flushed) > 0 THEN {"reload-compares-with-startup"} ELSE {})

\* ------------------------------------------------------------------------------------------------------ M9
\* a flow: [name, pat, lim, fk, fm, fl, gate, st, gk, gm, gl, rf, rk, rm, rl, lq]
\*   ~lim: request:  start -> F (Filter header x-a=1);  F hit -> G (GenerateResponse st) when gate, else end;  F miss -> end
\*         response: start -> R (Filter status 500-599) -> end when rf, else start -> end;  G -> end
\*    lim: request:  start -> F (here a Limiter on quota lq: fk / fm / fl are its key and metric settings);
\*                   F above_limit -> G (GenerateResponse st);  F below_limit -> end          response: G -> end
\* a quota: [id, max, w, inc, grp]   inc = the key of its charging processor (system flow), grp = its group id
\* e.procs: the processor executions of the transaction, <<flow, key, dir ("req" | "resp"), outcome>> in order
FlowNamed(h, name) == LET I == {i \in DOMAIN h.flows : h.flows[i].name = name} IN IF I = {} THEN <<>> ELSE <<h.flows[CHOOSE i \in I : TRUE]>>

TxnLaw(h, e) ==
    LET ps == e.procs
        user(p) == FlowNamed(h, p[1])
        hit  == e.hx = "1"
        answering == {i \in DOMAIN ps : user(ps[i]) # <<>> /\ user(ps[i])[1].gate /\ ps[i][2] = user(ps[i])[1].gk /\ ps[i][3] = "req"}
        sys(p) == \E q \in SeqSet(h.quotas) : p[2] = q.inc
        U == {i \in DOMAIN ps : ~sys(ps[i])}            \* the executions in user flows
        opens(i) == IF user(ps[i])[1].lim THEN ps[i][4] = "above_limit" ELSE hit      \* the outcome of F that leads to G
    IN
    IF ~e.ans.answered \/ "err" \in DOMAIN e.ans THEN "M9-NoAnswer"
    ELSE IF \E i \in U : user(ps[i]) = <<>> THEN "M9-UnknownFlow"
    ELSE IF \E i \in U : ~Match(user(ps[i])[1].pat, e.us) THEN "M9-FlowNotSelected"
    ELSE IF \E i \in U : ~user(ps[i])[1].lim /\ ps[i][2] = user(ps[i])[1].fk /\ ps[i][4] # (IF hit THEN "hit" ELSE "miss") THEN "M9-FilterOutcome"
    ELSE IF \E i \in U : user(ps[i])[1].lim /\ ps[i][2] = user(ps[i])[1].fk /\ ps[i][4] \notin {"below_limit", "above_limit"} THEN "M9-LimiterOutcome"
    ELSE IF \E i \in U : user(ps[i])[1].gate /\ ps[i][2] = user(ps[i])[1].fk /\ opens(i)
                          /\ ~\E j \in answering : j > i /\ ps[j][1] = ps[i][1] THEN "M9-GateDidNotAnswer"
    ELSE IF \E j \in answering : ~\E i \in U : i < j /\ ps[i][1] = ps[j][1] /\ ps[i][2] = user(ps[i])[1].fk /\ opens(i) THEN "M9-AnsweredWithoutHit"
    ELSE IF e.ans.early # (answering # {}) THEN "M9-Early"
    ELSE IF e.ans.early /\ e.ans.st # user(ps[CHOOSE i \in answering : \A j \in answering : i <= j])[1].st THEN "M9-Status"
    ELSE IF ~e.ans.early /\ (~e.rans.answered \/ "err" \in DOMAIN e.rans) THEN "M9-NoAnswer"
    ELSE "ok"

\* ------------------------------------------------------------------------------------------- history record
\* labels of one processor execution p of transaction e (M5, M6)
ProcLabels(h, e, p, key, labels) ==
    LET real == p[3] = "resp" /\ ~e.ans.early IN          \* a response of the provider (an early answer has no status yet)
    (IF "flow_name" \in labels THEN {<<"flow_name", p[1]>>} ELSE {})
    \cup (IF "processor_key" \in labels THEN {<<"processor_key", key>>} ELSE {})
    \cup (IF "http_method" \in labels THEN {<<"http_method", e.m>>} ELSE {})
    \cup (IF "url" \in labels THEN {<<"url", UrlOf(e.us)>>} ELSE {})
    \cup (IF "host" \in labels THEN {<<"host", HostOf(e.us)>>} ELSE {})
    \cup (IF "status_code" \in labels /\ real THEN {<<"status_code", ToString(e.st)>>} ELSE {})
    \cup (IF "consumer_tag" \in labels /\ p[3] = "req" /\ e.tag # "-" THEN {<<"consumer_tag", e.tag>>} ELSE {})
    \cup Gw(h)

PExecOf(h, e) ==
    LET ps == e.procs
        item(p) ==
          LET F == FlowNamed(h, p[1]) IN
          IF F = <<>> THEN <<>>
          ELSE LET f == F[1] IN
               IF p[2] = f.fk /\ f.fm /\ f.lim THEN <<[key |-> f.fk, fam |-> IF p[4] = "above_limit" THEN "lunar_limiter_processor_above_count_total" ELSE "lunar_limiter_processor_below_count_total",
                                              l |-> ProcLabels(h, e, p, f.fk, SeqSet(f.fl))]>>
               ELSE IF p[2] = f.fk /\ f.fm THEN <<[key |-> f.fk, fam |-> IF p[4] = "hit" THEN "lunar_filter_processor_hit_count_total" ELSE "lunar_filter_processor_miss_count_total",
                                              l |-> ProcLabels(h, e, p, f.fk, SeqSet(f.fl))]>>
               ELSE IF f.rf /\ p[2] = f.rk /\ f.rm THEN <<[key |-> f.rk, fam |-> IF p[4] = "hit" THEN "lunar_filter_processor_hit_count_total" ELSE "lunar_filter_processor_miss_count_total",
                                              l |-> ProcLabels(h, e, p, f.rk, SeqSet(f.rl))]>>
               ELSE IF f.gate /\ p[2] = f.gk /\ f.gm THEN <<[key |-> f.gk, fam |-> "lunar_generated_response_count_total",
                                              l |-> ProcLabels(h, e, p, f.gk, SeqSet(f.gl))]>>
               ELSE <<>>
        RECURSIVE cat(_)
        cat(i) == IF i > Len(ps) THEN <<>> ELSE item(ps[i]) \o cat(i + 1)
    IN  cat(1)

\* the window of a quota (C01): opened by the first charge, w seconds long, at most max admissions
\* [open, start, cnt : admitted in this window, charged : charged at all since the configuration was loaded, refused : the last charge was refused]
QFresh == [open |-> FALSE, start |-> 0, cnt |-> 0, charged |-> FALSE, refused |-> FALSE]
QCharge(q, st, now) ==
    LET over == ~st.open \/ now - st.start >= q.w
        cnt0 == IF over THEN 0 ELSE st.cnt
        ok == cnt0 + 1 <= q.max
    IN  [open |-> (IF over THEN ok ELSE TRUE), start |-> (IF over /\ ok THEN now ELSE st.start), cnt |-> (IF ok THEN cnt0 + 1 ELSE cnt0),
         charged |-> TRUE, refused |-> ~ok]

Charges(flows, q, procs) == \E i \in DOMAIN procs : procs[i][3] = "req" /\ \E f \in SeqSet(flows) : f.lim /\ f.lq = q.id /\ f.name = procs[i][1] /\ f.fk = procs[i][2]

File(e) == [labels |-> e.labels, lep |-> e.lepp, gm |-> e.gm, sm |-> e.sm]
Cand(f) == [labels |-> f.labels, lep |-> f.lep]

\* the gateway process (re)starts with the file and the flows of e; the discovery state stays
PStart(h, e) ==
    [h EXCEPT !.gw = e.gw, !.fileStart = File(e), !.fileNow = File(e), !.cands = {Cand(File(e))}, !.docCand = {},
              !.flows = e.flows, !.pend = <<>>, !.resps = <<>>, !.reqs = <<>>, !.pexec = <<>>, !.ep = 0, !.up = TRUE,
              !.ever = {Cand(File(e))}, !.hcol = <<>>, !.legacy = ("legacy" \in DOMAIN e /\ e.legacy),
              !.quotas = e.quotas, !.qold = <<>>, !.qs = [i \in DOMAIN e.quotas |-> QFresh], !.now = 0]

PReload(h, e) ==
    LET f == File(e)
        doc == Cand(f)
        \* M8: the documented candidate, plus - where the new file repeats the start-up file - what was in force before
        stale == {[labels |-> IF f.labels = h.fileStart.labels THEN c.labels ELSE f.labels,
                   lep    |-> IF f.lep = h.fileStart.lep THEN c.lep ELSE f.lep] : c \in h.cands}
    IN  [h EXCEPT !.fileNow = f, !.cands = {doc} \cup stale, !.docCand = IF stale = {doc} THEN {} ELSE {doc},
                  !.flows = e.flows, !.ep = h.ep + 1, !.ever = h.ever \cup {doc} \cup stale,
                  !.quotas = e.quotas, !.qold = h.qold \o h.quotas, !.qs = [i \in DOMAIN e.quotas |-> QFresh]]

\* the clock moves on by d seconds
PTick(h, d) == [h EXCEPT !.now = h.now + d]

\* a collection tick of the histogram managers: it meets what has been flushed so far
PCollect(h) == [h EXCEPT !.hcol = Append(h.hcol, Len(h.flushed))]

PTxn(h, e) ==
    LET reqAll == {e.procs[i][1] : i \in {j \in DOMAIN e.procs : e.procs[j][3] = "req"}}
        reqFlows == {f \in reqAll : FlowNamed(h, f) # <<>>}          \* the user flows among them (a quota charges in a system flow)
        \* a quota a limiter refers to is charged where the limiter runs (its own system flow only marks the place)
        charges(q) == Charges(h.flows, q, e.procs)
        rq == [flows |-> reqFlows, any |-> reqAll # {}, walked |-> Len(e.procs) > 0, nproc |-> Len(e.procs), ep |-> h.ep]
    IN  [h EXCEPT !.pend = Append(h.pend, [m |-> e.logged.m, us |-> e.us, st |-> e.logged.st, tag |-> e.logged.tag, d |-> e.logged.d, td |-> e.logged.td]),
                  !.reqs = Append(h.reqs, rq),
                  !.resps = IF e.ans.early THEN h.resps ELSE Append(h.resps, [clen |-> e.clen, blen |-> e.blen, ep |-> h.ep]),
                  !.pexec = h.pexec \o PExecOf(h, e),
                  !.qs = [i \in DOMAIN h.quotas |-> IF charges(h.quotas[i]) THEN QCharge(h.quotas[i], h.qs[i], h.now) ELSE h.qs[i]]]

PFlush(h, n, attr) ==
    LET k == IF n > Len(h.pend) THEN Len(h.pend) ELSE n IN
    [h EXCEPT !.flushed = h.flushed \o [i \in 1..k |-> [m |-> h.pend[i].m, us |-> h.pend[i].us, nus |-> AttrOf(attr, h.pend[i].us),
                                                          st |-> h.pend[i].st, tag |-> h.pend[i].tag, d |-> h.pend[i].d, td |-> h.pend[i].td]],
              !.pend = SubSeq(h.pend, k + 1, Len(h.pend))]

\* a fresh installation: no discovery state yet
PReset(known) ==
    [known |-> known, gw |-> "", fileStart |-> [labels |-> <<>>, lep |-> <<>>, gm |-> <<>>, sm |-> <<>>],
     fileNow |-> [labels |-> <<>>, lep |-> <<>>, gm |-> <<>>, sm |-> <<>>], cands |-> {}, docCand |-> {}, flows |-> <<>>,
     flushed |-> <<>>, pend |-> <<>>, resps |-> <<>>, reqs |-> <<>>, pexec |-> <<>>, ep |-> 0, up |-> FALSE,
     ever |-> {}, hcol |-> <<>>, legacy |-> FALSE, quotas |-> <<>>, qold |-> <<>>, qs |-> <<>>, now |-> 0]
================================================================================
