CONSTANTS
  MaxOps = 2
  Rich = FALSE
  Bug = "set_first"
  Dev <- AllDev
SPECIFICATION Spec
INVARIANT Conf
CHECK_DEADLOCK FALSE
