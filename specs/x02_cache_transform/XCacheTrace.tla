----------------------------- MODULE XCacheTrace -----------------------------
(* X02 - ReadCache / WriteCache: trace validation of executions of a real engine built from   *)
(* a flow  ReadCache -cache_miss-> end | -cache_hit-> (answers) ; response side WriteCache     *)
(* against the property machine XCacheP.  trace.ndjson:                                        *)
(*   {"ev":"config","ttl":s,"recmax":bytes|-1,"maxmb":n,"dev":[accepted deviations]}            *)
(*   {"ev":"reset","parts":[["headers",name]|["query",name]|["body",field]|["path"]|["seg",i],..]} *)
(*        fresh engine, clock at 0 (with "refused": the loader refused, nothing follows)        *)
(*   {"ev":"adv","ms":d}                                                                         *)
(*   {"ev":"req","id","h":{..},"q":{..},"bf":{..},"path","segs":[..],                           *)
(*        "early":bool,"est","ebody"|"ebodygen","eh"}       request side and the real answer     *)
(*   {"ev":"resp","id","st","body"|"bodygen","h","sz","hsz"}  response side (always handed on)   *)
(* A step is possible only if XCacheP accepts the recorded answer: rejection = violation.       *)
EXTENDS TraceLib, Integers, FiniteSets

Cfg == TraceLog[1]
DevSet == {Cfg.dev[i] : i \in 1..Len(Cfg.dev)}

VARIABLES now, cands, held, open, cum, last, l, parts

P == INSTANCE XCacheP WITH Ttl <- Cfg.ttl, RecMax <- Cfg.recmax, MaxMb <- Cfg.maxmb, MiB <- 1048576,
        OverMul <- 6, OverAdd <- 2048, Dev <- DevSet

tvars == <<now, cands, held, open, cum, last, l, parts>>

Ev == TraceLog[l + 1]
Consume(name) == l < TraceLen /\ Ev.ev = name /\ l' = l + 1

Val(r, n) == IF n \in DOMAIN r THEN <<"v", r[n]>> ELSE <<"absent">>
PartVal(e, p) ==
    CASE p[1] = "headers" -> Val(e.h, p[2])
      [] p[1] = "query"   -> Val(e.q, p[2])
      [] p[1] = "body"    -> Val(e.bf, p[2])
      [] p[1] = "path"    -> <<"v", e.path>>
      [] p[1] = "seg"     -> IF p[2] + 1 <= Len(e.segs) THEN <<"v", e.segs[p[2] + 1]>> ELSE <<"absent">>
KeyOf(e) == [i \in 1..Len(parts) |-> PartVal(e, parts[i])]

BodyOf(e, f, g) == IF g \in DOMAIN e THEN <<"gen", e[g].v, e[g].pad>> ELSE <<"lit", e[f]>>
OutOf(e) == IF e.early THEN [kind |-> "hit", st |-> e.est, body |-> BodyOf(e, "ebody", "ebodygen"), h |-> e.eh]
            ELSE P!Miss

TInit == P!Init /\ l = 1 /\ parts = <<>>

TReset ==
    /\ Consume("reset")
    /\ parts' = Ev.parts
    /\ now' = 0 /\ cands' = {} /\ held' = {} /\ open' = <<>> /\ cum' = 0
    /\ last' = [ev |-> "reset"]

TAdv == Consume("adv") /\ P!Advance(Ev.ms) /\ UNCHANGED parts

TReq == /\ Consume("req") /\ "err" \notin DOMAIN Ev
        /\ P!Request(Ev.id, KeyOf(Ev), OutOf(Ev)) /\ UNCHANGED parts

TResp == /\ Consume("resp") /\ "err" \notin DOMAIN Ev
         /\ P!Response(Ev.id, Ev.st, BodyOf(Ev, "body", "bodygen"), Ev.h, Ev.sz, Ev.hsz) /\ UNCHANGED parts

TNext == TReset \/ TAdv \/ TReq \/ TResp
TraceSpec == TInit /\ [][TNext]_tvars

SizeBound == P!SizeBound
HWM == Mark(l)
Post == Report
=============================================================================
