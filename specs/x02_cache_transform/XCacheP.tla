------------------------------ MODULE XCacheP ------------------------------
(* X02 (growth) - flows-mode caching processors ReadCache / WriteCache: property          *)
(* specification (a history machine in the style of c12_resp_cache/CacheP).               *)
(*                                                                                      *)
(* STATEMENT (derived from streams/processors/registry/read_cache_processor.yaml           *)
(* "processor reading request from the cache", outputs cache_hit (a response) / cache_miss  *)
(* (the request goes on); write_cache_processor.yaml "processor storing request in the      *)
(* cache", ttl_seconds "time to live for the cache entry", record_max_size_bytes "maximum    *)
(* size of the record in bytes" (-1 unlimited), max_cache_size_mb "defines how much cache    *)
(* space used by this processor in MB", caching_key_parts "list of keys to be used to        *)
(* generate the cache key"; and from what the repository's own tests of the two processors   *)
(* expect: hit with the stored body for the same key parts, miss for another api_key, miss   *)
(* after the TTL, nothing stored above the record size):                                     *)
(*   OnlySameKeyFresh  ReadCache answers a request from the cache (cache_hit: an early       *)
(*        response with the stored status, body and headers) only with a response that       *)
(*        WriteCache saw for a transaction whose request had the SAME values of all          *)
(*        configured key parts, and only until ttl_seconds have passed since then;           *)
(*        otherwise the request goes on (cache_miss).                                        *)
(*   RecordLimit       a response larger than record_max_size_bytes is never served.          *)
(*   SizeBound         what the cache demonstrably holds at one time fits max_cache_size_mb.  *)
(*   Serve             a successful (2xx) response that was certainly stored (small enough    *)
(*        for every limit under any reasonable way of measuring a record; error responses     *)
(*        need not be kept) is served to a request with the                                   *)
(*        same complete key while it is certainly fresh (one second of slack: ttl_seconds     *)
(*        has the granularity of seconds).  This is what makes the two processors a cache;   *)
(*        the documentation promises no more, so everything else (which of several stored    *)
(*        responses of a key is served, evicting early, refusing to store when nearly full,  *)
(*        requests that lack a key part) is left open.                                        *)
(* Measures: a response counts with the size of its body (no record can be smaller) for      *)
(* RecordLimit and SizeBound, and with Over(body, headers) (no record is larger) for Serve.   *)
(*                                                                                      *)
(* DEVIATIONS of the engine as it is (accepted only when listed in Dev; reported by the      *)
(* check as documentation/code disagreements):                                               *)
(*   "private_stores"  in the build of this repository every ReadCache and every WriteCache   *)
(*        processor owns a private in-memory store (lunar-context/context.go NewSharedState    *)
(*        = NewMemoryState): nothing WriteCache stores is ever seen by ReadCache - Serve is    *)
(*        dropped.                                                                            *)
(*   "join_key"        the cache key is the key-part values joined with "_"                   *)
(*        (utils.BuildSharedMemoryKey): requests with DIFFERENT key-part values whose joined   *)
(*        strings coincide ("a_b","a" / "a","b_a") share one entry - key identity becomes      *)
(*        identity of the joined string.                                                      *)
EXTENDS Integers, Sequences, FiniteSets

CONSTANTS
    Ttl,        \* ttl_seconds
    RecMax,     \* record_max_size_bytes (-1 = unlimited)
    MaxMb,      \* max_cache_size_mb
    MiB,        \* bytes per MB (1048576; small in the bounded model)
    OverMul, OverAdd,   \* Over(sz, hsz) = OverMul * (sz + hsz) + OverAdd : upper bound of any record size
    Dev         \* accepted deviations

VARIABLES
    now,        \* ms
    cands,      \* responses seen: [k, st, body, h, sz, born, over]
    held,       \* contents served since the last response was seen: they were in the cache together
    open,       \* transaction id -> key of its request (requests that went on and wait for their response)
    cum,        \* upper bound of the bytes ever written
    last

pvars == <<now, cands, held, open, cum, last>>

\* a key = sequence of part values <<"v", text>> | <<"absent">>
Complete(k) == \A i \in 1..Len(k) : k[i][1] = "v" /\ k[i][2] # ""
RECURSIVE JoinFrom(_, _)
JoinFrom(k, i) == IF i > Len(k) THEN "" ELSE IF i = Len(k) THEN k[i][2] ELSE k[i][2] \o "_" \o JoinFrom(k, i + 1)
KeyId(k) == IF "join_key" \in Dev /\ Complete(k) THEN <<JoinFrom(k, 1)>> ELSE k
Same(k1, k2) == KeyId(k1) = KeyId(k2)

Over(sz, hsz) == OverMul * (sz + hsz) + OverAdd
Fresh(c) == now - c.born <= Ttl * 1000
SurelyFresh(c) == now - c.born + 1000 <= Ttl * 1000
Storable(c) == RecMax = -1 \/ c.sz <= RecMax
\* stored for sure when it arrived, and the cache cannot have been full since (whatever its eviction policy)
\* (only successful responses: a cache that does not keep error responses is a cache)
SurelyStored(c) == (RecMax = -1 \/ c.over <= RecMax) /\ cum <= MaxMb * MiB /\ c.st >= 200 /\ c.st <= 299

Miss == [kind |-> "miss"]
Matches(k, out) == {c \in cands : Same(c.k, k) /\ Fresh(c) /\ Storable(c)
                                  /\ c.st = out.st /\ c.body = out.body /\ c.h = out.h}
MustHit(k) == /\ "private_stores" \notin Dev /\ Complete(k)
              /\ \E c \in cands : c.k = k /\ SurelyStored(c) /\ SurelyFresh(c)

\* THE PROPERTY as a guard: may a request with key k be answered with `out` now?
Permitted(k, out) == \/ out.kind = "miss" /\ ~MustHit(k)
                     \/ out.kind = "hit" /\ Matches(k, out) # {}

RECURSIVE SumSz(_)
SumSz(S) == IF S = {} THEN 0 ELSE LET x == CHOOSE y \in S : TRUE IN x.sz + SumSz(S \ {x})
Fits(S) == SumSz(S) < (MaxMb + 1) * MiB

Init ==
    /\ now = 0 /\ cands = {} /\ held = {} /\ open = <<>> /\ cum = 0
    /\ last = [ev |-> "init"]

Advance(d) ==
    /\ d > 0 /\ now' = now + d
    /\ last' = [ev |-> "adv", d |-> d]
    /\ UNCHANGED <<cands, held, open, cum>>

SzOf(k, out) == (CHOOSE c \in Matches(k, out) : TRUE).sz

HeldAfter(k, out) == IF out.kind = "hit"
                     THEN held \cup {[k |-> KeyId(k), st |-> out.st, body |-> out.body, h |-> out.h, sz |-> SzOf(k, out)]}
                     ELSE held
\* the whole judgement of one answer
Accepts(k, out) == Permitted(k, out) /\ Fits(HeldAfter(k, out))

Request(id, k, out) ==
    /\ Accepts(k, out)
    /\ held' = HeldAfter(k, out)
    /\ open' = IF out.kind = "miss" THEN [i \in DOMAIN open \cup {id} |-> IF i = id THEN k ELSE open[i]] ELSE open
    /\ last' = [ev |-> "req", id |-> id, k |-> k, out |-> out]
    /\ UNCHANGED <<now, cands, cum>>

\* the provider's response of transaction id (status, body, headers; body and header sizes in bytes)
Response(id, st, body, h, sz, hsz) ==
    /\ IF id \in DOMAIN open
       THEN /\ cands' = cands \cup {[k |-> open[id], st |-> st, body |-> body, h |-> h, sz |-> sz, born |-> now,
                                     over |-> Over(sz, hsz)]}
            /\ cum' = cum + Over(sz, hsz)
            /\ open' = [i \in DOMAIN open \ {id} |-> open[i]]
       ELSE UNCHANGED <<cands, cum, open>>          \* no request known: nothing to build a key from
    /\ held' = {}
    /\ last' = [ev |-> "resp", id |-> id, st |-> st, body |-> body, h |-> h, sz |-> sz, hsz |-> hsz]
    /\ UNCHANGED now

SizeBound == Fits(held)
=============================================================================
