------------------------------ MODULE XTransI ------------------------------
(* X02 - TransformAPICall: implementation-shaped model (a transcription of              *)
(* transform-api-call/transformer.go as a function on documents).                        *)
(*   doTransform: performDelete . performSet . performObfuscate on the JSON image of the  *)
(*   API stream, then prepareRequest / prepareResponse: Headers and ParsedQuery are       *)
(*   zeroed and the JSON image is unmarshalled INTO the old transaction object (BodyMap   *)
(*   is not zeroed: encoding/json merges into the existing map, so a deleted body field   *)
(*   comes back; scalar fields missing from the image keep their value), the query string *)
(*   is re-encoded from ParsedQuery (nil unless something called OnRequest.init() before: *)
(*   `parsed`), the body is re-marshalled from BodyMap when BodyMap is not empty.         *)
(*   performSet: a path with suffix ".host" is taken as the new host; ".body." is         *)
(*   rewritten to ".body_map." (set only).                                                 *)
(* Obfuscated values are the MD5 of the old value: the model writes the token <<"s","#">>. *)
(* The content-length header (always rewritten) is not modelled.                          *)
EXTENDS XTransP

CONSTANT Bug        \* "none" | "obf_noop" | "hdr_merge" | "frame_drop" | "set_first" (benign) : variants of the model

Put(D, p, v) == (D \ Under(D, p)) \cup {<<p, v>>}
Parent(p) == SubSeq(p, 1, Len(p) - 1)
EmptyObj == <<"o", "{}">>
\* removing the last member of a nested object leaves the empty object (the harness reports it as a leaf of type "o")
Remove(D, p) == LET R == D \ Under(D, p) IN
                IF Len(p) >= 3 /\ Under(D, p) # {} /\ Under(R, Parent(p)) = {} THEN R \cup {<<Parent(p), EmptyObj>>} ELSE R
Tok == <<"s", "#">>

Sec(o) == o.path[1]
IsHostRule(o) == o.kind = "set" /\ Last(o.path) = "host"

\* one rule applied to the JSON image D (qp = the image has a parsed query)
ApplyDelete(D, o, qp) ==
    CASE Sec(o) = "headers" -> Remove(D, o.path)
      [] Sec(o) = "query"   -> IF qp THEN Remove(D, o.path) ELSE D
      [] Sec(o) = "body"    -> IF o.note = "body" THEN D   \* $.x.body is the body TEXT in the image: nothing below it
                               ELSE Remove(D, o.path)       \* removed from the image ... (a whole field: undone by the merge below)
      [] OTHER              -> D                            \* scalar struct fields keep their value

\* a body that is not a JSON object has an empty BodyMap: the first field set into it REPLACES the text
NoRaw(D) == {x \in D : ~(x[1] = <<"body">> /\ x[2][1] = "raw")}
ApplySet(D, o, qp, side) ==
    IF IsHostRule(o) THEN (IF side = "request" THEN Put(D, HostP, o.val) ELSE D)
    ELSE IF Sec(o) = "body" /\ ~Blocked(o, NoRaw(D)) THEN Put(NoRaw(D), o.path, o.val)
    ELSE IF Blocked(o, D) THEN D
    ELSE IF Sec(o) = "query" /\ ~qp THEN D
    ELSE Put(D, o.path, o.val)

ApplyObf(D, o, qp) ==
    IF Bug = "obf_noop" THEN D
    ELSE IF Sec(o) = "body" /\ o.note = "body" THEN D       \* $.x.body is the body TEXT in the image: nothing below it
    ELSE IF Sec(o) = "query" /\ ~qp THEN D
    ELSE IF Sec(o) \notin {"headers", "body", "query"} THEN D
    ELSE IF Under(D, o.path) = {} THEN D
    ELSE Put(D, o.path, Tok)

RECURSIVE Fold(_, _, _, _, _)
Fold(D, S, kind, qp, side) ==
    IF S = {} THEN D
    ELSE LET o == CHOOSE x \in S : TRUE
             D2 == CASE kind = "delete" -> ApplyDelete(D, o, qp)
                      [] kind = "set"    -> ApplySet(D, o, qp, side)
                      [] OTHER           -> ApplyObf(D, o, qp)
         IN Fold(D2, S \ {o}, kind, qp, side)

Kind(M, k) == {o \in M : o.kind = k}

\* the merge of prepareRequest / prepareResponse: encoding/json decodes the image into the EXISTING BodyMap, so a
\* top-level body field the image no longer has keeps its old value (nested objects are decoded afresh)
Merge(in, img) ==
    img \cup {x \in in : x[1][1] = "body" /\ Len(x[1]) >= 2
                         /\ ~\E y \in img : y[1][1] = "body" /\ Len(y[1]) >= 2 /\ y[1][2] = x[1][2]}
        \cup (IF Bug = "hdr_merge" THEN {x \in in : x[1][1] = "headers" /\ ~\E y \in img : y[1] = x[1]} ELSE {})

Eng(side, parsed, ops, in) ==
    LET M  == Mine(ops, side, {"host_suffix"})
        qp == side = "request" /\ parsed
        D0 == IF side = "request" /\ ~parsed THEN {x \in in : x[1][1] # "query"} ELSE in
        D1 == IF Bug = "set_first"
              THEN Fold(Fold(D0, Kind(M, "set"), "set", qp, side), Kind(M, "delete"), "delete", qp, side)
              ELSE Fold(Fold(D0, Kind(M, "delete"), "delete", qp, side), Kind(M, "set"), "set", qp, side)
        D2 == Fold(D1, Kind(M, "obfuscate"), "obfuscate", qp, side)
        D3 == Merge(in, D2)
    IN IF Bug = "frame_drop" /\ M # {} THEN {x \in D3 : x[1] # <<"headers", "xb">>} ELSE D3

\* comparison of a real result with the model: obfuscated values as the token, content-length left out
Norm(out, in, ops, side) ==
    {IF x[2][1] = "s" /\ x[2] \notin At(in, x[1]) /\ (\E o \in Mine(ops, side, {}) : o.kind = "obfuscate" /\ o.path = x[1])
     THEN <<x[1], Tok>> ELSE x : x \in {y \in out : y[1] # CLen}}
=============================================================================
