CONSTANTS
  Ttl = 1
  RecMax <- Unl
  MaxMb = 0
  MiB = 8
  OverMul = 2
  OverAdd = 0
  Dev <- DevNone
  Shared = TRUE
  RealMul = 2
  RealAdd = 0
  Bug = "nocap"
  KeyVals <- KV2
  Bodies <- BodiesSized
  Steps = {500, 1000}
  MaxNow = 500
  MaxTx = 4
  NParts = 1
SPECIFICATION ISpec
INVARIANT Conforms
INVARIANT SizeBound
CHECK_DEADLOCK FALSE
