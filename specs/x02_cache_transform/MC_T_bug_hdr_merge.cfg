CONSTANTS
  MaxOps = 2
  Rich = FALSE
  Bug = "hdr_merge"
  Dev <- AllDev
SPECIFICATION Spec
INVARIANT Conf
CHECK_DEADLOCK FALSE
