CONSTANTS
  MaxOps = 2
  Rich = TRUE
  Bug = "none"
  Dev <- AllDev
INIT GenInit
NEXT Next
CHECK_DEADLOCK FALSE
