CONSTANTS
  MaxOps = 1
  Rich = FALSE
  Bug = "none"
  Dev <- NoQD
SPECIFICATION Spec
INVARIANT Conf
CHECK_DEADLOCK FALSE
