CONSTANTS
  Ttl = 1
  RecMax = 4
  MaxMb = 1
  MiB = 8
  OverMul = 2
  OverAdd = 0
  Dev <- DevNone
  Shared = TRUE
  RealMul = 2
  RealAdd = 0
  Bug = "none"
  KeyVals <- KV2
  Bodies <- BodiesSized
  Steps = {500, 1000}
  MaxNow = 1500
  MaxTx = 5
  NParts = 1
SPECIFICATION ISpec
INVARIANT Conforms
INVARIANT SizeBound
CHECK_DEADLOCK FALSE
