CONSTANTS
  Ttl = 1
  RecMax <- Unl
  MaxMb = 1
  MiB = 8
  OverMul = 2
  OverAdd = 0
  Dev <- DevNone
  Shared = TRUE
  RealMul = 2
  RealAdd = 0
  Bug = "none"
  KeyVals <- KVabs
  Bodies <- BodiesSmall
  Steps = {500, 1000, 1500}
  MaxNow = 20000
  MaxTx = 40
  NParts = 2
  GenLen = 14
SPECIFICATION GSpec
INVARIANT Emit
CHECK_DEADLOCK FALSE
