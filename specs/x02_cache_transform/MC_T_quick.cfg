CONSTANTS
  MaxOps = 2
  Rich = FALSE
  Bug = "none"
  Dev <- AllDev
SPECIFICATION Spec
INVARIANT Conf
CHECK_DEADLOCK FALSE
