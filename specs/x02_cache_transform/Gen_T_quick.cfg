CONSTANTS
  MaxOps = 2
  Rich = FALSE
  Bug = "none"
  Dev <- AllDev
INIT GenInit
NEXT Next
CHECK_DEADLOCK FALSE
