CONSTANTS
  MaxOps = 1
  Rich = FALSE
  Bug = "none"
  Dev <- AllDev
SPECIFICATION Spec
INVARIANT WitObf
CHECK_DEADLOCK FALSE
