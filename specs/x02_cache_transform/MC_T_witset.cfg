CONSTANTS
  MaxOps = 1
  Rich = FALSE
  Bug = "none"
  Dev <- AllDev
SPECIFICATION Spec
INVARIANT WitSet
CHECK_DEADLOCK FALSE
