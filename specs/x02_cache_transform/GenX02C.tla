------------------------------- MODULE GenX02C -------------------------------
(* X02 - behaviour generation (spec -> code): random walks of the implementation-shaped cache  *)
(* model (tlc -simulate); the observable events are carried in `hist` and printed as one JSON   *)
(* line when the walk has GenLen events.  The recorded answers are the model's prediction; the   *)
(* real answers are judged by XCacheP (trace validation), a difference from the prediction alone *)
(* is model drift.  Sizes are in model units (MiB = 8 units).                                    *)
EXTENDS MC_X02C, Json
CONSTANT GenLen
VARIABLE hist
GInit == IInit /\ hist = <<[ev |-> "reset", ttl |-> Ttl, recmax |-> RecMax, maxmb |-> MaxMb, nparts |-> NParts]>>
GNext == INext /\ hist' = Append(hist, last')
GSpec == GInit /\ [][GNext]_<<vars, hist>>
Emit == (Len(hist) = GenLen + 1) => PrintT(<<"VH", ToJson(hist)>>)
=============================================================================
