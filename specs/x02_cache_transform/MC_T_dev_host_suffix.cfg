CONSTANTS
  MaxOps = 1
  Rich = FALSE
  Bug = "none"
  Dev <- NoHS
SPECIFICATION Spec
INVARIANT Conf
CHECK_DEADLOCK FALSE
