CONSTANTS
  Ttl = 1
  RecMax <- Unl
  MaxMb = 1
  MiB = 8
  OverMul = 2
  OverAdd = 0
  Dev <- DevNone
  Shared = TRUE
  RealMul = 2
  RealAdd = 0
  Bug = "none"
  KeyVals <- KV2
  Bodies <- BodiesSmall
  Steps = {500, 1000}
  MaxNow = 2500
  MaxTx = 3
  NParts = 2
SPECIFICATION ISpec
INVARIANT Conforms
INVARIANT SizeBound
CHECK_DEADLOCK FALSE
