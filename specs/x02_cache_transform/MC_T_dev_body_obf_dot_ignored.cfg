CONSTANTS
  MaxOps = 1
  Rich = FALSE
  Bug = "none"
  Dev <- NoBO
SPECIFICATION Spec
INVARIANT Conf
CHECK_DEADLOCK FALSE
