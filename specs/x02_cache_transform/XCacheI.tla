------------------------------ MODULE XCacheI ------------------------------
(* X02 - ReadCache / WriteCache: implementation-shaped model, run in lock step with the    *)
(* property machine XCacheP (product I x P: `ok` records that every answer of I was        *)
(* permitted by P in the state before it).                                                 *)
(*   WriteCache.Execute: key = flow "_" join(values of the key parts, "_")                  *)
(*        (utils.BuildSharedMemoryKey; a missing / empty part: nothing is stored),          *)
(*        entry = {TTL, StorageTime = now in whole seconds, Content}; refused when           *)
(*        (used + size) / MiB > max_cache_size_mb or size > record_max_size_bytes;           *)
(*        Set(key, entry) overwrites; used += size (never decreases).                        *)
(*   ReadCache.onRequest: same key (failure: miss), entry alive iff                          *)
(*        StorageTime + TTL > now in whole seconds; hit = stored status, body, headers.     *)
(* Shared = the two processors use one store (a deployment with the shared state; the        *)
(* harness arranges it through VerifSetStore); ~Shared = the private stores of this build.   *)
EXTENDS XCacheP, TLC

CONSTANTS
    Shared,
    RealMul, RealAdd,   \* size of the stored record of a response: RealMul * (sz + hsz) + RealAdd
    Bug,                \* "none" | "ge" | "nokeypart" | "norecmax" | "nocap" | "staletime" | "nostatus" | "ms_ttl" (benign)
    KeyVals, Bodies, Steps, MaxNow, MaxTx, NParts

VARIABLES store, used, ntx, ok

ivars == <<store, used, ntx, ok>>
vars == <<pvars, ivars>>

RealSize(sz, hsz) == RealMul * (sz + hsz) + RealAdd

\* the key string the code builds ("" = could not be built)
CodeKey(k) == IF ~Complete(k) THEN ""
              ELSE IF Bug = "nokeypart" THEN k[1][2]
              ELSE JoinFrom(k, 1)

Sec(t) == t \div 1000
Alive(e) == CASE Bug = "ge"     -> e.stime + Ttl >= Sec(now)
              [] Bug = "ms_ttl" -> e.born + Ttl * 1000 > now          \* benign: millisecond bookkeeping
              [] OTHER          -> e.stime + Ttl > Sec(now)

Lookup(k) == LET key == CodeKey(k) IN
    IF ~Shared \/ key = "" \/ key \notin DOMAIN store THEN Miss
    ELSE IF ~Alive(store[key]) THEN Miss
    ELSE [kind |-> "hit", st |-> IF Bug = "nostatus" THEN 200 ELSE store[key].st, body |-> store[key].body, h |-> store[key].h]

IInit == Init /\ store = <<>> /\ used = 0 /\ ntx = 0 /\ ok = TRUE

IAdv(d) == Advance(d) /\ UNCHANGED ivars

IReq(k) ==
    LET id == ntx + 1
        out == Lookup(k) IN
    /\ ntx < MaxTx
    /\ ntx' = id
    /\ ok' = (ok /\ Accepts(k, out))
    /\ IF Accepts(k, out) THEN Request(id, k, out)
       ELSE UNCHANGED <<now, cands, held, open, cum>> /\ last' = [ev |-> "req", id |-> id, k |-> k, out |-> out]
    /\ UNCHANGED <<store, used>>

IResp(id, b) ==
    LET k == open[id]
        key == CodeKey(k)
        rs == RealSize(b.sz, b.hsz)
        full == Bug # "nocap" /\ (used + rs) \div MiB > MaxMb
        toobig == Bug # "norecmax" /\ RecMax # -1 /\ rs > RecMax
        e == [st |-> b.st, body |-> b.body, h |-> b.h, born |-> now,
              stime |-> IF Bug = "staletime" /\ key \in DOMAIN store THEN store[key].stime ELSE Sec(now)] IN
    /\ id \in DOMAIN open
    /\ Response(id, b.st, b.body, b.h, b.sz, b.hsz)
    /\ IF key = "" \/ full \/ toobig THEN UNCHANGED <<store, used>>
       ELSE /\ store' = [x \in DOMAIN store \cup {key} |-> IF x = key THEN e ELSE store[x]]
            /\ used' = used + rs
    /\ UNCHANGED <<ntx, ok>>

Keys == [1..NParts -> KeyVals]

INext ==
    \/ \E d \in Steps : now + d <= MaxNow /\ IAdv(d)
    \/ \E k \in Keys : IReq(k)
    \/ \E id \in DOMAIN open, b \in Bodies : IResp(id, b)

ISpec == IInit /\ [][INext]_vars

Conforms == ok
=============================================================================
