CONSTANTS
  Ttl = 1
  RecMax = 4
  MaxMb = 1
  MiB = 8
  OverMul = 2
  OverAdd = 0
  Dev <- DevNone
  Shared = TRUE
  RealMul = 2
  RealAdd = 0
  Bug = "none"
  KeyVals <- KV2
  Bodies <- BodiesSized
  Steps = {500, 1000, 1500}
  MaxNow = 20000
  MaxTx = 40
  NParts = 1
  GenLen = 14
SPECIFICATION GSpec
INVARIANT Emit
CHECK_DEADLOCK FALSE
