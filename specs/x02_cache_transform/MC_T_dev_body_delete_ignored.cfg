CONSTANTS
  MaxOps = 1
  Rich = FALSE
  Bug = "none"
  Dev <- NoBD
SPECIFICATION Spec
INVARIANT Conf
CHECK_DEADLOCK FALSE
