CONSTANTS
  MaxOps = 1
  Rich = FALSE
  Bug = "none"
  Dev <- AllDev
SPECIFICATION Spec
INVARIANT WitDel
CHECK_DEADLOCK FALSE
