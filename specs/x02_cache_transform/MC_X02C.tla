------------------------------ MODULE MC_X02C ------------------------------
(* X02 - bounded instances of the cache model (I x P). *)
EXTENDS XCacheI

V(s) == <<"v", s>>
KV2 == {V("a"), V("b")}
KVabs == {V("a"), V("b"), <<"absent">>}
KVjoin == {V("a"), V("a_b"), V("b_a")}

H0 == [ct |-> "json"]
B(tag, st, sz) == [st |-> st, body |-> tag, h |-> H0, sz |-> sz, hsz |-> 0]
\* sizes in units: MiB = 8 units
BodiesSmall == {B("r1", 200, 1), B("r2", 200, 1), B("r3", 404, 1)}
BodiesTwo == {B("r1", 200, 1), B("r3", 404, 1)}
BodiesSized == {B("r1", 200, 1), B("r2", 200, 3), B("big", 200, 6)}

DevNone == {}
Unl == -1
DevPriv == {"private_stores"}
DevJoin == {"join_key"}

\* witnesses (expected to be violated)
WitHit == ~(last.ev = "req" /\ last.out.kind = "hit")
WitExpired == ~(last.ev = "req" /\ last.out.kind = "miss" /\ \E c \in cands : c.k = last.k /\ ~Fresh(c))
WitRefused == ~(last.ev = "req" /\ last.out.kind = "miss" /\ \E c \in cands : c.k = last.k /\ Fresh(c) /\ ~SurelyStored(c))
WitOverwrite == ~(last.ev = "req" /\ last.out.kind = "hit" /\ Cardinality({c \in cands : c.k = last.k /\ Fresh(c)}) >= 2)
=============================================================================
