------------------------------ MODULE XTransP ------------------------------
(* X02 (growth) - flows-mode TransformAPICall: property specification.                 *)
(*                                                                                     *)
(* STATEMENT (derived from streams/processors/registry/transform_api_call_processor.yaml *)
(* "A processor that transforms request according to the provided rules"; set: "Map of   *)
(* key/value for set operation ... The key is JSON path to the field to be set and the   *)
(* value is the value to be set"; delete: "Each value is JSON path to the field to be     *)
(* deleted"; obfuscate: "Each value is JSON path to the field to be obfuscated"; and from *)
(* the path forms the repository's own test transformation_test.go uses:                 *)
(* $.request.path, $.request.host, $.request.body.<field>, $.request.headers.<name>,      *)
(* $.request.parsed_query.<param>[0] / .<param>, $.response.body.<field>,                 *)
(* $.response.headers.<name>, $.response.status_code):                                    *)
(*   A TransformAPICall processor placed on the request (response) side of a flow hands   *)
(*   the proxy a request (response) in which                                              *)
(*     Set       every field named by a set rule of that side holds the rule's value,     *)
(*     Delete    every field named by a delete rule of that side is absent,               *)
(*     Obfuscate every field named by an obfuscate rule that was present holds a          *)
(*               different, non-empty string,                                             *)
(*     Frame     every other field (headers, body fields, query parameters, path, host,   *)
(*               status) is what it was; rules addressed to the other side of the         *)
(*               transaction change nothing.                                              *)
(* Where the documentation is silent the specification permits everything: rules whose    *)
(* paths overlap (which one wins), a set below a field that holds a plain value, the      *)
(* content-length header (the repository's test expects it to follow the body).           *)
(*                                                                                     *)
(* A transaction side is a finite DOCUMENT = set of leaves <<path, <<type, value>>>>,    *)
(* path = <<"headers", name>> | <<"body", field, ...>> | <<"query", param>> | <<"path">> *)
(* | <<"host">> | <<"status">>.  A rule = [kind, dir, path, val, note] (val only for     *)
(* set; note = the notation the rule was written in: "body" | "body_map" | "").          *)
(*                                                                                     *)
(* DEVIATIONS of the engine as it is (named, accepted only when listed in Dev; each is    *)
(* reported by the check as a documentation/code disagreement, see DESIGN notes in        *)
(* checks/x02.py):                                                                        *)
(*   "query_dropped"        a request-side transformation hands on a request WITHOUT any  *)
(*                          query string when nothing parsed the URL before it ran        *)
(*   "body_delete_ignored"  deleting a body field leaves the body as it was               *)
(*   "body_obf_dot_ignored" obfuscate written $.x.body.<f> (the notation set uses) leaves  *)
(*                          the body as it was; only $.x.body_map.<f> is obfuscated       *)
(*   "host_suffix"          a set rule whose path ends in ".host" (a header or body field *)
(*                          called host) redirects the request to that value instead      *)
EXTENDS Integers, Sequences, FiniteSets

Prefix(p, q) == Len(p) <= Len(q) /\ \A i \in 1..Len(p) : p[i] = q[i]      \* q is at or under p
Related(p, q) == Prefix(p, q) \/ Prefix(q, p)
Paths(D) == {x[1] : x \in D}
At(D, p) == {x[2] : x \in {y \in D : y[1] = p}}        \* the leaf exactly at p (empty or one value)
Under(D, p) == {x \in D : Prefix(p, x[1])}            \* the leaves at or under p
Last(p) == p[Len(p)]

CLen == <<"headers", "content-length">>
HostP == <<"host">>

\* the rules that speak about `side` (with the deviation "host_suffix" a set rule of EITHER direction whose path ends in
\* .host speaks about the host of the request)
HostLike(o) == o.kind = "set" /\ Last(o.path) = "host"
Mine(ops, side, Dev) == {o \in ops : o.dir = side \/ ("host_suffix" \in Dev /\ side = "request" /\ HostLike(o))}

\* another rule of the same side touches the same field / an enclosing or enclosed one: the documentation does not say which wins
\* (with the deviation "host_suffix" a rule whose path ends in .host also speaks about the host)
Eff(o, Dev) == {o.path} \cup (IF "host_suffix" \in Dev /\ HostLike(o) THEN {<<"host">>} ELSE {})
Conflict(o, M, Dev) == \E o2 \in M \ {o} : \E p \in Eff(o, Dev), p2 \in Eff(o2, Dev) : Related(p, p2)
\* the rule addresses something below a field that holds a plain value
Blocked(o, in) == \E x \in in : x[1] # o.path /\ Prefix(x[1], o.path)

QueryGone(side, out, Dev) == side = "request" /\ "query_dropped" \in Dev /\ \A x \in out : x[1][1] # "query"
HostRule(o, side) == HostLike(o) /\ (o.path # HostP \/ o.dir # side)

SetHolds(o, out) == Under(out, o.path) = {<<o.path, o.val>>}
Unchanged(o, in, out) == Under(out, o.path) = Under(in, o.path)

SetOK(o, side, in, out, M, Dev) ==
    \/ Conflict(o, M, Dev) \/ Blocked(o, in)
    \/ SetHolds(o, out)
    \/ o.path[1] = "query" /\ QueryGone(side, out, Dev)
    \/ /\ "host_suffix" \in Dev /\ HostRule(o, side) /\ Unchanged(o, in, out)
       /\ (side = "request" => At(out, HostP) = {o.val})

DelOK(o, side, in, out, M, Dev) ==
    \/ Conflict(o, M, Dev)
    \/ Under(out, o.path) = {}
    \/ "body_delete_ignored" \in Dev /\ o.path[1] = "body" /\ Unchanged(o, in, out)

Obfuscated(o, in, out) == \E x \in Under(out, o.path) :
    /\ Under(out, o.path) = {x} /\ x[1] = o.path
    /\ x[2][1] = "s" /\ x[2][2] # "" /\ x[2] \notin At(in, o.path)

ObfOK(o, side, in, out, M, Dev) ==
    \/ Conflict(o, M, Dev) \/ Blocked(o, in)
    \/ At(in, o.path) = {}                      \* nothing (or no plain value) there: nothing to hide
    \/ Obfuscated(o, in, out)
    \/ o.path[1] = "query" /\ QueryGone(side, out, Dev)
    \/ "body_obf_dot_ignored" \in Dev /\ o.path[1] = "body" /\ o.note = "body" /\ Unchanged(o, in, out)

RuleOK(o, side, in, out, M, Dev) ==
    CASE o.dir # side         -> SetOK(o, side, in, out, M, Dev) \/ Unchanged(o, in, out)     \* (only host-like rules get here)
      [] o.kind = "set"       -> SetOK(o, side, in, out, M, Dev)
      [] o.kind = "delete"    -> DelOK(o, side, in, out, M, Dev)
      [] o.kind = "obfuscate" -> ObfOK(o, side, in, out, M, Dev)
      [] OTHER                -> FALSE

\* fields no rule of this side speaks about
Framed(q, side, in, out, M, Dev) ==
    \/ \E o \in M : Related(o.path, q)
    \/ q = CLen
    \/ q[1] = "query" /\ QueryGone(side, out, Dev)
    \/ q = HostP /\ "host_suffix" \in Dev /\ \E o \in M : HostRule(o, side) /\ At(out, HostP) = {o.val}
    \/ At(in, q) = At(out, q)

\* what the property does not permit about one transformed side: violated rules and changed foreign fields
Bad(side, ops, in, out, Dev) ==
    LET M == Mine(ops, side, Dev) IN
    {<<o.kind, o.path>> : o \in {x \in M : ~RuleOK(x, side, in, out, M, Dev)}}
    \cup {<<"frame", q>> : q \in {p \in Paths(in) \cup Paths(out) : ~Framed(p, side, in, out, M, Dev)}}

\* THE PROPERTY: is `out` a permitted result of transforming `in` on `side` under the rules `ops`?
Permitted(side, ops, in, out, Dev) == Bad(side, ops, in, out, Dev) = {}

AllDev == {"query_dropped", "body_delete_ignored", "body_obf_dot_ignored", "host_suffix"}
=============================================================================
