CONSTANTS
  MaxOps = 2
  Rich = FALSE
  Bug = "frame_drop"
  Dev <- AllDev
SPECIFICATION Spec
INVARIANT Conf
CHECK_DEADLOCK FALSE
