CONSTANTS
  MaxOps = 2
  Rich = FALSE
  Bug = "obf_noop"
  Dev <- AllDev
SPECIFICATION Spec
INVARIANT Conf
CHECK_DEADLOCK FALSE
