----------------------------- MODULE XTransTrace -----------------------------
(* X02 - TransformAPICall: trace validation of executions of the real processor inside a   *)
(* real engine.  trace.ndjson:                                                             *)
(*   {"ev":"config","dev":[deviation names accepted]}                                      *)
(*   {"ev":"reset","ops":[{"kind","dir","path","val","note"},..],"qf":bool}   engine built  *)
(*        from a flow with one TransformAPICall per side carrying the rules of that side     *)
(*        (qf: the flow filter names a query parameter, so the URL is parsed before)         *)
(*   {"ev":"req"|"resp","doc_in":[[path,[type,value]],..],"doc_out":[..]}   one side of one  *)
(*        transaction: the document that arrived and the document the proxy is told to send  *)
(*        on (the returned modify action laid over the original; no action = unchanged)      *)
(* The step guard is the property XTransP!Permitted; a result the property does not permit   *)
(* is printed as <<"REJECT", line, Bad>> and validation goes on.  In the same pass the       *)
(* result is compared with the engine model XTransI!Eng (<<"DRIFT", line>>).                 *)
EXTENDS XTransI, TraceLib

VARIABLES l, ops, qf

Cfg == TraceLog[1]
DevSet == {Cfg.dev[i] : i \in 1..Len(Cfg.dev)}
Ev == TraceLog[l + 1]

ToDoc(s) == {<<s[i][1], s[i][2]>> : i \in 1..Len(s)}
ToOps(s) == {s[i] : i \in 1..Len(s)}
SideOf(e) == IF e.ev = "req" THEN "request" ELSE "response"

NoConflict(M) == \A o \in M : ~Conflict(o, M, DevSet)
NoCL(D) == {x \in D : x[1] # CLen}

Judge(e) ==
    LET side == SideOf(e)
        in == ToDoc(e.doc_in)
        out == ToDoc(e.doc_out)
        bad == Bad(side, ops, in, out, DevSet)
    IN /\ IF bad = {} THEN TRUE ELSE PrintT(<<"REJECT", l + 1, bad>>)
       /\ IF NoConflict(Mine(ops, side, DevSet)) /\ Norm(out, in, ops, side) # NoCL(Eng(side, qf, ops, in))
          THEN PrintT(<<"DRIFT", l + 1>>) ELSE TRUE

TInit == l = 1 /\ ops = {} /\ qf = FALSE
TReset == /\ l < TraceLen /\ Ev.ev = "reset"
          /\ ops' = ToOps(Ev.ops) /\ qf' = Ev.qf /\ l' = l + 1
TStep == /\ l < TraceLen /\ Ev.ev \in {"req", "resp"}
         /\ Judge(Ev)
         /\ l' = l + 1 /\ UNCHANGED <<ops, qf>>
TNext == TReset \/ TStep
TraceSpec == TInit /\ [][TNext]_<<l, ops, qf>>
HWM == Mark(l)
Post == Report
=============================================================================
