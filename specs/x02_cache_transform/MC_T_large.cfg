CONSTANTS
  MaxOps = 2
  Rich = TRUE
  Bug = "none"
  Dev <- AllDev
SPECIFICATION Spec
INVARIANT Conf
CHECK_DEADLOCK FALSE
