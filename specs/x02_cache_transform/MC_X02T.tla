------------------------------ MODULE MC_X02T ------------------------------
(* X02 - TransformAPICall: bounded input space.  One TLC state per case                  *)
(*   [side, parsed, ops, in]   (side of the transaction the processor sits on, whether the *)
(*   URL was parsed before it ran, the rules of BOTH sides, the document)                 *)
(* Conf: what the engine model computes is permitted by the property (with the named       *)
(* deviations Dev of the engine as it is).  The same module writes the case set for the    *)
(* replay on the real processor (GenT).                                                    *)
EXTENDS XTransI, TLC, Json

CONSTANTS MaxOps,     \* rules per configuration (1 or 2)
          Dev,        \* deviations accepted by the property in this run
          Rich        \* TRUE: the larger document set

S(v) == <<"s", v>>
R(k, d, p, v, n) == [kind |-> k, dir |-> d, path |-> p, val |-> v, note |-> n]
NoVal == <<"", "">>

ReqRules ==
    {R("set", "request", <<"headers", "xa">>, S("2"), ""), R("set", "request", <<"headers", "xc">>, S("2"), ""),
     R("set", "request", <<"headers", "host">>, S("h3.test"), ""),
     R("set", "request", <<"body", "f">>, S("2"), "body"), R("set", "request", <<"body", "o">>, S("2"), "body"),
     R("set", "request", <<"body", "o", "x">>, S("2"), "body"), R("set", "request", <<"body", "n">>, S("2"), "body"),
     R("set", "request", <<"body", "f", "x">>, S("2"), "body"), R("set", "request", <<"body", "host">>, S("h4.test"), "body"),
     R("set", "request", <<"query", "q">>, S("2"), ""), R("set", "request", <<"query", "n">>, S("2"), ""),
     R("set", "request", <<"path">>, S("/v2/b"), ""), R("set", "request", <<"host">>, S("h2.test"), ""),
     R("delete", "request", <<"headers", "xa">>, NoVal, ""), R("delete", "request", <<"headers", "xb">>, NoVal, ""),
     R("delete", "request", <<"body", "f">>, NoVal, "body"), R("delete", "request", <<"body", "f">>, NoVal, "body_map"),
     R("delete", "request", <<"body", "o", "x">>, NoVal, "body"), R("delete", "request", <<"body", "o", "x">>, NoVal, "body_map"),
     R("delete", "request", <<"body", "o">>, NoVal, "body_map"),
     R("delete", "request", <<"query", "q">>, NoVal, ""), R("delete", "request", <<"query", "r">>, NoVal, ""),
     R("obfuscate", "request", <<"headers", "xa">>, NoVal, ""),
     R("obfuscate", "request", <<"body", "f">>, NoVal, "body"), R("obfuscate", "request", <<"body", "f">>, NoVal, "body_map"),
     R("obfuscate", "request", <<"body", "o", "x">>, NoVal, "body_map"),
     R("obfuscate", "request", <<"query", "q">>, NoVal, "")}

RespRules ==
    {R("set", "response", <<"headers", "xa">>, S("2"), ""), R("set", "response", <<"headers", "xc">>, S("2"), ""),
     R("set", "response", <<"body", "f">>, S("2"), "body"), R("set", "response", <<"body", "o", "x">>, S("2"), "body"),
     R("set", "response", <<"body", "n">>, S("2"), "body"), R("set", "response", <<"body", "host">>, S("h4.test"), "body"),
     R("set", "response", <<"status">>, <<"n", "204">>, ""),
     R("delete", "response", <<"headers", "xa">>, NoVal, ""), R("delete", "response", <<"headers", "xb">>, NoVal, ""),
     R("delete", "response", <<"body", "f">>, NoVal, "body"), R("delete", "response", <<"body", "f">>, NoVal, "body_map"),
     R("delete", "response", <<"body", "o", "x">>, NoVal, "body_map"),
     R("obfuscate", "response", <<"headers", "xa">>, NoVal, ""),
     R("obfuscate", "response", <<"body", "f">>, NoVal, "body"), R("obfuscate", "response", <<"body", "f">>, NoVal, "body_map")}

Rules == ReqRules \cup RespRules

OpSets(n) == {{a} : a \in Rules} \cup (IF n >= 2 THEN {{a, b} : a \in Rules, b \in Rules} ELSE {})

HdrVariants == {{}, {<<<<"headers", "xa">>, S("1")>>}, {<<<<"headers", "xa">>, S("1")>>, <<<<"headers", "xb">>, S("1")>>}}
BodyVariants(rich) ==
    {{}, {<<<<"body", "f">>, S("1")>>, <<<<"body", "g">>, S("1")>>},
     {<<<<"body", "f">>, S("1")>>, <<<<"body", "o", "x">>, S("1")>>, <<<<"body", "o", "y">>, S("1")>>}}
    \cup (IF rich THEN {{<<<<"body">>, <<"raw", "plain text">>>>}, {<<<<"body", "f">>, S("1")>>}} ELSE {})
QueryVariants == {{}, {<<<<"query", "q">>, S("1")>>}, {<<<<"query", "q">>, S("1")>>, <<<<"query", "r">>, S("1")>>}}

ReqDocs(rich) == {UNION {h, b, q, {<<<<"path">>, S("/p/a")>>, <<<<"host">>, S("api.test")>>}} :
                        h \in HdrVariants, b \in BodyVariants(rich), q \in QueryVariants}
RespDocs(rich) == {UNION {h, b, {<<<<"status">>, <<"n", "200">>>>}} : h \in HdrVariants, b \in BodyVariants(rich)}

\* a configuration is worth running on a side only if one of its rules addresses that side (the other one checks "changes nothing")
Cases(n, rich) ==
    {[side |-> "request", parsed |-> p, ops |-> X, in |-> d] :
        p \in BOOLEAN, X \in {Y \in OpSets(n) : \E o \in Y : o.dir = "request"},
        d \in {dd \in ReqDocs(rich) : TRUE}}
    \cup {[side |-> "response", parsed |-> FALSE, ops |-> X, in |-> d] :
        X \in {Y \in OpSets(n) : \E o \in Y : o.dir = "response"}, d \in RespDocs(rich)}

\* with a query-parameter filter on the flow (the only way a configuration gets its URL parsed first) the
\* transaction must carry q=1
Runnable(c) == c.parsed => <<<<"query", "q">>, S("1")>> \in c.in

NoQD == AllDev \ {"query_dropped"}
NoBD == AllDev \ {"body_delete_ignored"}
NoBO == AllDev \ {"body_obf_dot_ignored"}
NoHS == AllDev \ {"host_suffix"}

VARIABLE c
Init == c \in {x \in Cases(MaxOps, Rich) : Runnable(x)}
Next == UNCHANGED c
Spec == Init /\ [][Next]_c

Out(x) == Eng(x.side, x.parsed, x.ops, x.in)
Conf == Permitted(c.side, c.ops, c.in, Out(c), Dev)

\* reachability witnesses (expected to be violated): the rule kinds do something in the model
WitSet == ~(\E o \in Mine(c.ops, c.side, {}) : o.kind = "set" /\ SetHolds(o, Out(c)) /\ ~SetHolds(o, c.in))
WitDel == ~(\E o \in Mine(c.ops, c.side, {}) : o.kind = "delete" /\ Under(c.in, o.path) # {} /\ Under(Out(c), o.path) = {})
WitObf == ~(\E o \in Mine(c.ops, c.side, {}) : o.kind = "obfuscate" /\ Obfuscated(o, c.in, Out(c)))

-----------------------------------------------------------------------------
\* spec -> code: the case set as JSON (sets as arrays)
RECURSIVE SetSeq(_)
SetSeq(X) == IF X = {} THEN <<>> ELSE LET x == CHOOSE y \in X : TRUE IN <<x>> \o SetSeq(X \ {x})

GenCases(n, rich) == {[side |-> x.side, parsed |-> x.parsed, ops |-> SetSeq(x.ops), in |-> SetSeq(x.in)] :
                            x \in {y \in Cases(n, rich) : Runnable(y)}}
GenInit == /\ c = [side |-> "gen"]
           /\ JsonSerialize("gen_cases.json", [cases |-> GenCases(MaxOps, Rich)])
           /\ PrintT(<<"GEN-CASES", Cardinality(GenCases(MaxOps, Rich))>>)
=============================================================================
