SPECIFICATION TraceSpec
INVARIANT SizeBound
CONSTRAINT HWM
POSTCONDITION Post
CHECK_DEADLOCK FALSE
