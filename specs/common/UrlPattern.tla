------------------------------ MODULE UrlPattern ------------------------------
(* Shared vocabulary for URL patterns (DESIGN.md section 3). Used by C03, C13, C14, C15.   *)
(*                                                                                          *)
(* A URL and a pattern have the same shape: a pair <<host, path>> of sequences of STRINGS,  *)
(*     <<  <<"a", "com">>,  <<"x", "{id}", "*">>  >>      rendered  "a.com/x/{id}/*"       *)
(* host = the dot-separated labels, path = the slash-separated segments.                    *)
(* In a pattern a segment is one of                                                         *)
(*     Lit    any other string          matches exactly that segment                        *)
(*     Param  "{name}"  (IsParam)       matches exactly one segment, binds name             *)
(*     Wild   "*"       (IsWild)        only as the very last part; matches the rest        *)
(* A URL has literal segments only.                                                         *)
(*                                                                                          *)
(* TLC cannot look inside a string, so "{name}" is recognised against the finite vocabulary *)
(* ParamNames (a definition: override it in a cfg with  CONSTANT ParamNames <- MyNames      *)
(* if you need other names; strings are built with \o, which TLC evaluates on strings).     *)
(*                                                                                          *)
(* Self-contained: EXTENDS Integers, Sequences, FiniteSets only; no CONSTANTS, no VARIABLES.*)
(* Stable interface - C03 extends/instances it; add, do not change.                         *)
EXTENDS Integers, Sequences, FiniteSets

-------------------------------------------------------------------------------
(* Segments *)

ParamNames == {"p", "q", "r", "id", "id2", "id_2", "i-d", "i.d", "user", "x", "y", "z"}

ParamSeg(name) == "{" \o name \o "}"
WildSeg        == "*"

\* the parameter segments of the vocabulary (a constant: TLC evaluates it once)
ParamSegs    == {ParamSeg(n) : n \in ParamNames}

IsWild(seg)  == seg = WildSeg
IsParam(seg) == seg \in ParamSegs
IsLit(seg)   == ~IsWild(seg) /\ ~IsParam(seg)
\* name bound by a parameter segment (only meaningful when IsParam(seg))
ParamName(seg) == CHOOSE n \in ParamNames : seg = ParamSeg(n)

\* specificity rank of a pattern segment: literal > parameter > wildcard
KLit   == 2
KParam == 1
KWild  == 0
Kind(seg) == IF IsWild(seg) THEN KWild ELSE IF IsParam(seg) THEN KParam ELSE KLit

-------------------------------------------------------------------------------
(* URLs / patterns as <<host, path>>; "parts" = the flattened sequence the engine's trie  *)
(* walks: host labels first (h = TRUE), then path segments (h = FALSE).                    *)

Host(u) == u[1]
Path(u) == u[2]
Mk(host, path) == <<host, path>>

Parts(u) == [i \in 1..(Len(u[1]) + Len(u[2])) |->
               IF i <= Len(u[1]) THEN [h |-> TRUE,  v |-> u[1][i]]
                                 ELSE [h |-> FALSE, v |-> u[2][i - Len(u[1])]]]
NParts(u) == Len(u[1]) + Len(u[2])

LastPart(u) == Parts(u)[NParts(u)]
EndsWild(p) == NParts(p) > 0 /\ IsWild(LastPart(p).v)
\* the parts before a trailing wildcard (all parts when there is none)
BodyLen(p)  == IF EndsWild(p) THEN NParts(p) - 1 ELSE NParts(p)

\* a pattern the engine accepts: non-empty host, no empty segment, wildcard only last
WellFormedPattern(p) ==
    /\ Len(Host(p)) >= 1
    /\ \A i \in 1..NParts(p) : Parts(p)[i].v # ""
    /\ \A i \in 1..(NParts(p) - 1) : ~IsWild(Parts(p)[i].v)
\* a concrete URL: non-empty host, literal non-empty segments only
WellFormedUrl(u) ==
    /\ Len(Host(u)) >= 1
    /\ \A i \in 1..NParts(u) : Parts(u)[i].v # "" /\ IsLit(Parts(u)[i].v)

\* positions (in Parts) of the parameter segments, and their names
ParamPositions(p) == {i \in 1..NParts(p) : IsParam(Parts(p)[i].v)}
ParamNamesOf(p)   == {ParamName(Parts(p)[i].v) : i \in ParamPositions(p)}
DistinctParams(p) == Cardinality(ParamNamesOf(p)) = Cardinality(ParamPositions(p))

-------------------------------------------------------------------------------
(* Matching *)

\* one non-wildcard pattern part against one URL part
PartMatches(pp, up) == /\ pp.h = up.h
                       /\ \/ IsParam(pp.v)
                          \/ (IsLit(pp.v) /\ pp.v = up.v)

\* MatchesW(p, u, minTail): every body part of p matches the URL part at the same position;
\* without a trailing wildcard the lengths are equal; with one, at least minTail URL parts
\* (of host or path) remain for it.
MatchesW(p, u, minTail) ==
    LET pp == Parts(p)  up == Parts(u)  b == BodyLen(p) IN
    /\ b <= Len(up)
    /\ \A i \in 1..b : PartMatches(pp[i], up[i])
    /\ IF EndsWild(p) THEN Len(up) - b >= minTail ELSE Len(up) = b

\* "a.com/x/*" matches "a.com/x" (the proxy expression (/.*)? and the policy trie agree on that)
Matches(p, u)       == MatchesW(p, u, 0)
\* the wildcard needs at least one segment: "a.com/x/*" does not match "a.com/x"
MatchesStrict(p, u) == MatchesW(p, u, 1)
\* the case on which the two readings differ (left open - "either" - by C03)
WildFacesNothing(p, u) == Matches(p, u) /\ ~MatchesStrict(p, u)

\* Host-shape-aware matching (added for C13/C14; Matches/MatchesStrict/MatchesW above are unchanged).
\* A trailing wildcard written as a PATH segment ("a.com/x/*") stands for path segments only: it must
\* not swallow further host labels ("a.com/*" does not match "a.com.evil.net/x"). A wildcard written as
\* the last HOST label ("*", "a.*") may stand for host labels and path segments.
WildInPath(p)     == EndsWild(p) /\ ~LastPart(p).h
HostShapeOK(p, u) == WildInPath(p) => Len(Host(u)) = Len(Host(p))
MatchesWX(p, u, minTail) == MatchesW(p, u, minTail) /\ HostShapeOK(p, u)
MatchesX(p, u)       == MatchesWX(p, u, 0)
MatchesStrictX(p, u) == MatchesWX(p, u, 1)

-------------------------------------------------------------------------------
(* Specificity: position by position, literal over parameter over wildcard.              *)
(* Rank(p, i): kind of the i-th part; past the end of a wildcard pattern everything is    *)
(* wildcard; past the end of an exact pattern the rank is that of a literal ("ends here"  *)
(* is more specific than "anything may follow").                                          *)

Rank(p, i) == IF i <= NParts(p) THEN Kind(Parts(p)[i].v)
              ELSE IF EndsWild(p) THEN KWild ELSE KLit

MaxI(a, b) == IF a >= b THEN a ELSE b

\* the ranks of positions 1..n at once (Parts(p) is built once)
RankSeq(p, n) == LET pp == Parts(p)
                     np == Len(pp)
                     tl == IF np > 0 /\ IsWild(pp[np].v) THEN KWild ELSE KLit
                 IN  [i \in 1..n |-> IF i <= np THEN Kind(pp[i].v) ELSE tl]

\* p is strictly more specific than q (meant for two patterns that both match u; u is kept
\* in the signature because "more specific" is only defined relative to a URL both match)
MoreSpecific(p, q, u) ==
    LET n  == MaxI(NParts(p), NParts(q))
        rp == RankSeq(p, n)
        rq == RankSeq(q, n)
    IN \E i \in 1..n :
          /\ rp[i] > rq[i]
          /\ \A j \in 1..(i - 1) : rp[j] = rq[j]

\* same pattern up to the names of the parameters
SameShape(p, q) ==
    /\ Len(Host(p)) = Len(Host(q)) /\ Len(Path(p)) = Len(Path(q))
    /\ \A i \in 1..NParts(p) :
          LET a == Parts(p)[i].v  b == Parts(q)[i].v IN
          IF IsLit(a) THEN a = b ELSE Kind(a) = Kind(b)

Matching(u, Ps)       == {p \in Ps : Matches(p, u)}
MatchingStrict(u, Ps) == {p \in Ps : MatchesStrict(p, u)}

\* the most specific patterns of Ps among those in Cand (all of one shape; a singleton when
\* Ps has no two patterns differing only in parameter names)
MostSpecific(Cand, u) == {p \in Cand : \A q \in Cand : ~MoreSpecific(q, p, u)}
BestSet(u, Ps)        == MostSpecific(Matching(u, Ps), u)
BestSetStrict(u, Ps)  == MostSpecific(MatchingStrict(u, Ps), u)
HasBest(u, Ps)        == BestSet(u, Ps) # {}
Best(u, Ps)           == CHOOSE p \in BestSet(u, Ps) : TRUE

-------------------------------------------------------------------------------
(* Path parameters *)

\* the set of <<name, value>> pairs p binds on u (meaningful when Matches(p, u))
ParamPairs(p, u) == {<<ParamName(Parts(p)[i].v), Parts(u)[i].v>> : i \in ParamPositions(p)}
\* as a function name -> value (when DistinctParams(p)); with a JSON object this is a record
ParamBindings(p, u) ==
    [n \in ParamNamesOf(p) |->
        LET i == CHOOSE i \in ParamPositions(p) : ParamName(Parts(p)[i].v) = n
        IN  Parts(u)[i].v]

-------------------------------------------------------------------------------
(* Rendering to the textual form the Go code takes:  "a.com/x/{id}/*"                     *)

RECURSIVE Join(_, _)
Join(s, sep) == IF Len(s) = 0 THEN ""
                ELSE IF Len(s) = 1 THEN s[1]
                ELSE s[1] \o sep \o Join(Tail(s), sep)

Render(u) == IF Len(Path(u)) = 0 THEN Join(Host(u), ".")
             ELSE Join(Host(u), ".") \o "/" \o Join(Path(u), "/")

-------------------------------------------------------------------------------
(* Generators for bounded input spaces *)

\* all sequences over S of length 0..n
SeqsUpTo(S, n) == UNION {[1..k -> S] : k \in 0..n}

\* patterns with a host from Hosts (a set of label sequences), path segments from Segs
\* (literals and "{name}" strings) of length 0..maxPath, optionally followed by "/*"
PatternsOver(Hosts, Segs, maxPath, withWild) ==
    {Mk(h, s) : h \in Hosts, s \in SeqsUpTo(Segs, maxPath)}
    \cup (IF withWild
          THEN {Mk(h, Append(s, WildSeg)) : h \in Hosts, s \in SeqsUpTo(Segs, maxPath - 1)}
          ELSE {})

UrlsOver(Hosts, Lits, maxPath) == {Mk(h, s) : h \in Hosts, s \in SeqsUpTo(Lits, maxPath)}

\* all orderings of a finite set, as sequences
Orderings(S) == {f \in [1..Cardinality(S) -> S] : \A i, j \in 1..Cardinality(S) : i # j => f[i] # f[j]}
================================================================================
