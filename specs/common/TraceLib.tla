------------------------------- MODULE TraceLib -------------------------------
(* Shared machinery for trace validation (DESIGN.md §2.3).                      *)
(* A recorded execution is an NDJSON file `trace.ndjson` in TLC's working       *)
(* directory; the trace specification keeps `l` = number of lines consumed.     *)
(* Acceptance is decided from the high-water mark of `l` over the whole search  *)
(* (register 1, updated from a CONSTRAINT; needs -workers 1) which the          *)
(* POSTCONDITION prints as  TRACE-HWM <consumed> <total>.                       *)
EXTENDS Naturals, Sequences, Json, TLC, TLCExt

TraceLog == ndJsonDeserialize("trace.ndjson")

TraceLen == Len(TraceLog)

\* evaluated in a CONSTRAINT of the trace spec: always TRUE, records max l
Mark(l) == IF TLCGetOrDefault(1, 0) < l THEN TLCSet(1, l) ELSE TRUE

\* POSTCONDITION of the trace spec: always TRUE, the driver reads the line
Report == LET d == TLCGet("stats").diameter IN
          PrintT("TRACE-HWM " \o ToString(TLCGetOrDefault(1, 0)) \o " " \o ToString(TraceLen) \o " d" \o ToString(d))

Has(r, f) == f \in DOMAIN r
Get(r, f, d) == IF f \in DOMAIN r THEN r[f] ELSE d
================================================================================
