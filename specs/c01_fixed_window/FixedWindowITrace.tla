-------------------------- MODULE FixedWindowITrace --------------------------
(* C01 - validation of hook-level recordings against the implementation-shaped  *)
(* model: every call of quota.Inc that reaches AtomicIncWindow emits, under      *)
(* quota.mutex, one event                                                        *)
(*   {"ev":"fw.inc","q":..,"k":..,"by":cost,"count":c,"restarted":b,"res":b}     *)
(* which must be exactly what FixedWindowOps!IncLocked computes from the stored  *)
(* window start / counter of that quota object at the current instant.           *)
(* A mismatch is MODEL-DRIFT (the code no longer behaves like the model), not a  *)
(* violation of the property.                                                    *)
EXTENDS FixedWindowCfg, FiniteSets
Ids == {"x"}
Variant == "none"

INSTANCE FixedWindowOps

VARIABLES now, cstart, ccount, l

tvars == <<now, cstart, ccount, l>>

Ev == TraceLog[l + 1]
Consume(name) == l < TraceLen /\ Ev.ev = name /\ l' = l + 1
Clean == [q \in Quota |-> [k \in Group |-> [i \in Ids |-> "n"]]]

TInit == now = 0 /\ cstart = [q \in Quota |-> [k \in Group |-> None]] /\ ccount = [q \in Quota |-> [k \in Group |-> 0]] /\ l = 1

TReset ==
    /\ Consume("reset")
    /\ now' = Ev.now
    /\ cstart' = [q \in Quota |-> [k \in Group |-> None]]
    /\ ccount' = [q \in Quota |-> [k \in Group |-> 0]]

TAdv == Consume("adv") /\ now' = now + Ev.d /\ UNCHANGED <<cstart, ccount>>

TInc ==
    /\ Consume("fw.inc")
    /\ LET r == IncLocked([cs |-> cstart, cc |-> ccount, mm |-> Clean, pm |-> Clean], Ev.q, Ev.k, "x", Ev.by, now) IN
       /\ Ev.res = (r.res = "increased")
       /\ Ev.restarted = r.restarted
       /\ Ev.count = (IF r.res = "increased" THEN r.S.cc[Ev.q][Ev.k] ELSE 0)
       /\ cstart' = r.S.cs /\ ccount' = r.S.cc
    /\ UNCHANGED now

TNext == TReset \/ TAdv \/ TInc
TraceSpec == TInit /\ [][TNext]_tvars
HWM == Mark(l)
Post == Report
================================================================================
