\* requests handled one at a time: I refines P; three-level chain, custom costs {1,2}
CONSTANTS
  Quota = {"r", "m", "l"}
  Parent <- dParent
  Max <- dMax
  W <- dW
  Grouped <- dGrouped
  Group = {"a", "default"}
  Gran = 2
  Costs = {1, 2}
  Steps = {1, 2, 3}
  MaxNow = 9
  Ids = {"x"}
  N = 1
  Mode = "seq"
  Variant = "none"
SPECIFICATION ISpec
PROPERTIES Refines ExactP NoCarryP
INVARIANTS BoundP MemoClean
CHECK_DEADLOCK FALSE
