------------------------------- MODULE MC_C01 -------------------------------
EXTENDS FixedWindowI, TLC
\* parent p (one window for all groups) with two grouped children
cParent  == ("p" :> "-") @@ ("c1" :> "p") @@ ("c2" :> "p")
cMax     == ("p" :> 2) @@ ("c1" :> 1) @@ ("c2" :> 2)
cW       == ("p" :> 4) @@ ("c1" :> 2) @@ ("c2" :> 2)
cGrouped == ("p" :> FALSE) @@ ("c1" :> TRUE) @@ ("c2" :> TRUE)
\* three-level chain r <- m <- l, the middle one grouped
dParent  == ("r" :> "-") @@ ("m" :> "r") @@ ("l" :> "m")
dMax     == ("r" :> 3) @@ ("m" :> 2) @@ ("l" :> 2)
dW       == ("r" :> 6) @@ ("m" :> 2) @@ ("l" :> 4)
dGrouped == ("r" :> FALSE) @@ ("m" :> TRUE) @@ ("l" :> FALSE)
\* two-level chain for the interleaving model
eParent  == ("p" :> "-") @@ ("c" :> "p")
eMax     == ("p" :> 2) @@ ("c" :> 1)
eW       == ("p" :> 4) @@ ("c" :> 2)
eGrouped == ("p" :> FALSE) @@ ("c" :> TRUE)
\* the last event is output only
ConcView == <<now, cstart, ccount, memo, pmemo, slot, used, epoch, hAdm>>
=============================================================================
