CONSTANTS
  Quota = {"p", "c1", "c2", "z"}
  Parent <- gParent
  Max <- gMax
  W <- gW
  Grouped <- gGrouped
  Group = {"a", "b", "default"}
  Gran = 2
  Costs = {1}
  Steps = {1, 2, 3, 4}
  MaxNow = 1000
  GenDepth = 24
SPECIFICATION GSpec
INVARIANT Emit
CHECK_DEADLOCK FALSE
