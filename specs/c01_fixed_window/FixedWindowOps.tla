----------------------------- MODULE FixedWindowOps -----------------------------
(* C01 - the critical sections of the fixed-window quota object as pure          *)
(* operators on a store S = [cs, cc, mm, pm] (stored window start, stored        *)
(* counter, memo, previous memo; each [Quota -> [Group -> ...]]).  Shared by     *)
(* FixedWindowI (model checking) and FixedWindowITrace (validation of the        *)
(* fw.inc hook events recorded inside quota.Inc).                                *)
EXTENDS Integers, Sequences, FiniteSets

CONSTANTS Quota, Parent, Max, W, Grouped, Group, Gran, Ids, Variant

None == -1

RECURSIVE Chain(_)
Chain(q) == IF Parent[q] = "-" THEN <<q>> ELSE <<q>> \o Chain(Parent[q])

Key(q, g) == IF Grouped[q] /\ Variant # "no_group" THEN g ELSE "default"
Trunc(t) == IF Variant = "no_trunc" THEN t ELSE (t \div Gran) * Gran
MaxOf(a, b) == IF a >= b THEN a ELSE b

-------------------------------------------------------------------------------
\* memory_state.AtomicIncWindow + quota.Inc on store S = [cs, cc, mm], for (q, k), id, cost c, at instant t.
\* Result: [S, res \in {"already","increased","blocked"}, restarted (memo cleared), exp (no live stored window)]
IncLocked(S, q, k, id, c, t) ==
    IF S.mm[q][k][id] # "n" \/ S.pm[q][k][id] # "n"
    THEN [S |-> S, res |-> "already", restarted |-> FALSE, exp |-> FALSE]
    ELSE
    LET ws        == IF S.cs[q][k] = None THEN t ELSE S.cs[q][k]
        restarted == IF Variant = "strict_gt" THEN t - ws > W[q] ELSE t - ws >= W[q]
        base      == IF restarted THEN 0 ELSE S.cc[q][k]
        newc      == base + c
        over      == newc > Max[q] /\ Variant # "no_error"
        clean     == [i \in Ids |-> "n"]
        m0        == IF restarted THEN clean ELSE [S.mm[q][k] EXCEPT ![id] = "f"]
        \* onWindowRestart: the memo (with this request's provisional "f") becomes the previous memo
        p0        == IF restarted THEN [S.mm[q][k] EXCEPT ![id] = "f"] ELSE S.pm[q][k]
    IN  IF over
        THEN [S |-> [S EXCEPT !.mm[q][k] = m0, !.pm[q][k] = p0], res |-> "blocked", restarted |-> restarted,
              exp |-> restarted \/ S.cs[q][k] = None]
        ELSE [S |-> [cs |-> [S.cs EXCEPT ![q][k] = Trunc(IF restarted THEN t ELSE ws)],
                     cc |-> [S.cc EXCEPT ![q][k] = newc],
                     mm |-> [S.mm EXCEPT ![q][k] = [m0 EXCEPT ![id] = "t"]],
                     pm |-> [S.pm EXCEPT ![q][k] = p0]],
              res |-> "increased", restarted |-> restarted, exp |-> restarted \/ S.cs[q][k] = None]

\* quota.Allowed: read-and-delete of the memo
AllowedLocked(S, q, k, id) ==
    LET v == IF S.mm[q][k][id] # "n" THEN S.mm[q][k][id] ELSE S.pm[q][k][id] IN
    [S |-> IF v = "n" \/ Variant = "no_delete" THEN S
           ELSE [S EXCEPT !.mm[q][k][id] = "n", !.pm[q][k][id] = "n"],
     ok |-> v = "t" \/ (Variant = "allow_unknown" /\ v = "n")]   \* (variant: no recorded verdict = allowed)

\* quota.ResetIn: clears the memo when the stored window has run out (does not restart it)
ResetInLocked(S, q, k, t) ==
    IF S.cs[q][k] # None /\ S.cs[q][k] + W[q] - t <= 0
    THEN [S EXCEPT !.mm[q][k] = [i \in Ids |-> "n"], !.pm[q][k] = S.mm[q][k]] ELSE S

================================================================================
