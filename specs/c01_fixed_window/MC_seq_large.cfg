\* requests handled one at a time: I refines P (exact verdicts); parent (one window) + grouped child, costs {1,2}, longer horizon
CONSTANTS
  Quota = {"p", "c"}
  Parent <- eParent
  Max <- eMax
  W <- eW
  Grouped <- eGrouped
  Group = {"a", "default"}
  Gran = 2
  Costs = {1, 2}
  Steps = {1, 2, 3}
  MaxNow = 13
  Ids = {"x"}
  N = 1
  Mode = "seq"
  Variant = "none"
SPECIFICATION ISpec
PROPERTIES Refines
INVARIANTS BoundP MemoClean
CHECK_DEADLOCK FALSE
