\* requests handled one at a time: I refines P; parent (one window) + two grouped children, costs {1,2}
CONSTANTS
  Quota = {"p", "c1", "c2"}
  Parent <- cParent
  Max <- cMax
  W <- cW
  Grouped <- cGrouped
  Group = {"a", "default"}
  Gran = 2
  Costs = {1, 2}
  Steps = {1, 2, 3}
  MaxNow = 8
  Ids = {"x"}
  N = 1
  Mode = "seq"
  Variant = "none"
SPECIFICATION ISpec
PROPERTIES Refines ExactP NoCarryP
INVARIANTS BoundP MemoClean
CHECK_DEADLOCK FALSE
