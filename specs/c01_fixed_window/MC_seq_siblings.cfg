\* requests handled one at a time: I refines P; parent with two children (one window each)
CONSTANTS
  Quota = {"p", "c1", "c2"}
  Parent <- cParent
  Max <- cMax
  W <- cW
  Grouped <- cGrouped
  Group = {"default"}
  Gran = 2
  Costs = {1}
  Steps = {1, 2, 3}
  MaxNow = 9
  Ids = {"x"}
  N = 1
  Mode = "seq"
  Variant = "none"
SPECIFICATION ISpec
PROPERTIES Refines
INVARIANTS BoundP MemoClean
CHECK_DEADLOCK FALSE
