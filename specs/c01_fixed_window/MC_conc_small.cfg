\* interleaved critical sections of 2 requests + clock advances + ResetIn: the bound holds in every window generation
CONSTANTS
  Quota = {"p", "c"}
  Parent <- eParent
  Max <- eMax
  W <- eW
  Grouped <- eGrouped
  Group = {"default"}
  Gran = 2
  Costs = {1}
  Steps = {1, 2, 3}
  MaxNow = 7
  Ids = {"x", "y", "z"}
  N = 2
  Mode = "conc"
  Variant = "none"
SPECIFICATION ISpec
INVARIANTS BoundI
VIEW ConcView
CHECK_DEADLOCK FALSE
