------------------------------- MODULE GenC01 -------------------------------
(* Behaviour generation for replay (spec -> code): random walks of FixedWindowP *)
(* (tlc -simulate) with the history of observable events carried in `hist`;     *)
(* every walk that reaches length GenDepth is printed as one JSON line.         *)
EXTENDS FixedWindowP, TLC, Json
CONSTANT GenDepth
VARIABLE hist
GInit == Init /\ hist = <<>>
GNext == Next /\ hist' = Append(hist, last')
GSpec == GInit /\ [][GNext]_<<vars, hist>>
Emit == (Len(hist) = GenDepth) => PrintT(<<"VH", ToJson(hist)>>)

\* the configuration of the walk (checks/c01.py GEN_CONFIG is the same object for the executor)
gParent  == ("p" :> "-") @@ ("c1" :> "p") @@ ("c2" :> "p") @@ ("z" :> "-")
gMax     == ("p" :> 3) @@ ("c1" :> 1) @@ ("c2" :> 2) @@ ("z" :> 2)
gW       == ("p" :> 4) @@ ("c1" :> 2) @@ ("c2" :> 2) @@ ("z" :> 6)
gGrouped == ("p" :> FALSE) @@ ("c1" :> TRUE) @@ ("c2" :> FALSE) @@ ("z" :> TRUE)
=============================================================================
