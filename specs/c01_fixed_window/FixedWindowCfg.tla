---------------------------- MODULE FixedWindowCfg ----------------------------
(* C01 - the configuration of a recorded run (line 1 of trace.ndjson) as the    *)
(* constants of FixedWindowP.  A quota is configured either explicitly (max,     *)
(* window, grouping) or as a share of its parent (`allocation_percentage`): a    *)
(* share inherits the parent's window and grouping and its maximum is            *)
(*      Max(child) = floor(Max(parent) * percentage / 100)                       *)
(* - DERIVED here from the configured percentages, through any depth, never      *)
(* taken from what the engine computed.  (The repository documents no rounding   *)
(* rule; integer division is what the quota loader of the pinned tree does.)     *)
EXTENDS TraceLib, Integers

Cfg == TraceLog[1]
SeqSet(s) == {s[i] : i \in 1..Len(s)}
Quota == SeqSet(Cfg.quotas)
Group == SeqSet(Cfg.groups)
Parent == Cfg.parent
Pct == IF "pct" \in DOMAIN Cfg THEN Cfg.pct ELSE [q \in Quota |-> 0]     \* 0 = configured explicitly

RECURSIVE MaxOfQ(_), WOfQ(_), GroupedOfQ(_)
MaxOfQ(q) == IF Pct[q] = 0 THEN Cfg.Max[q] ELSE (MaxOfQ(Parent[q]) * Pct[q]) \div 100
WOfQ(q) == IF Pct[q] = 0 THEN Cfg.W[q] ELSE WOfQ(Parent[q])
GroupedOfQ(q) == IF Pct[q] = 0 THEN Cfg.grouped[q] ELSE GroupedOfQ(Parent[q])

Max == [q \in Quota |-> MaxOfQ(q)]
W == [q \in Quota |-> WOfQ(q)]
Grouped == [q \in Quota |-> GroupedOfQ(q)]
Gran == 2
================================================================================
