\* interleaved critical sections of 3 requests + clock advances + ResetIn on a two-level chain
CONSTANTS
  Quota = {"p", "c"}
  Parent <- eParent
  Max <- eMax
  W <- eW
  Grouped <- eGrouped
  Group = {"default"}
  Gran = 2
  Costs = {1}
  Steps = {1, 2}
  MaxNow = 5
  Ids = {"x", "y", "z", "u"}
  N = 3
  Mode = "conc"
  Variant = "none"
SPECIFICATION ISpec
INVARIANTS BoundI
VIEW ConcView
CHECK_DEADLOCK FALSE
