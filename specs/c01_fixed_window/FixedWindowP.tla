----------------------------- MODULE FixedWindowP -----------------------------
(* C01 - fixed-window quotas: property specification (P).                       *)
(*                                                                             *)
(* Observable events only: at instant `now` (abstract ticks, 1 tick = 500 ms)   *)
(* a request addressed to quota `leaf`, carrying group header value g and cost  *)
(* c (1 for plain fixed windows, the header-supplied amount for custom-counter  *)
(* quotas), is answered "admit" or "refuse".                                    *)
(*                                                                             *)
(* Quotas form a forest (Parent); a request is judged by the chain              *)
(*   leaf, Parent[leaf], ... , root        in that order (child first).         *)
(* Each quota keeps one window per group key.  A window is opened by the first  *)
(* request that reaches the quota while no live window exists; it is anchored   *)
(* within one granule (Gran ticks = 1 s) *before or at* the opening instant -   *)
(* the specification does not say where: it only remembers the interval         *)
(* [lo, hi] of anchors still consistent with the decisions taken so far, and a  *)
(* window is expired at `now` iff  now >= anchor + W.  When that test has       *)
(* different answers for different feasible anchors, either answer is allowed   *)
(* (and narrows the interval).                                                  *)
(*                                                                             *)
(* Reading of "full" (level_note): a quota is full for a request of cost c when *)
(* the amount already *charged* to its current window plus c exceeds Max.  The   *)
(* gateway charges child first, so a request refused by an ancestor has been    *)
(* charged to the quotas below that ancestor.                                   *)
(*                                                                             *)
(* mode "seq"  : the request is handled on its own - the verdict is exact.      *)
(* mode "conc" : the request overlapped others - only the bound is required:    *)
(*               an admitted request found room in every quota of its chain; a  *)
(*               refused one was charged to some prefix of its chain.           *)
EXTENDS Integers, Sequences, FiniteSets

CONSTANTS
    Quota,      \* set of quota ids
    Parent,     \* [Quota -> Quota \cup {"-"}]
    Max,        \* [Quota -> Nat]  maximum charge per window
    W,          \* [Quota -> Nat]  window length in ticks
    Grouped,    \* [Quota -> BOOLEAN]  one window per header value / one window in all
    Group,      \* set of header values; "default" (= header absent) is one of them
    Gran,       \* anchor granularity in ticks
    Costs,      \* set of request costs (model checking / generation only)
    Steps,      \* set of clock advances (model checking / generation only)
    MaxNow      \* clock bound (model checking only)

VARIABLES
    now,
    lo, hi,     \* [Quota -> [Group -> feasible anchors lo..hi, or None when never opened]]
    charged,    \* [Quota -> [Group -> amount charged to the current window]]
    admitted,   \* [Quota -> [Group -> amount of it that belongs to admitted requests]]
    last        \* last observable event

vars == <<now, lo, hi, charged, admitted, last>>

None == -1

RECURSIVE Chain(_)
Chain(q) == IF Parent[q] = "-" THEN <<q>> ELSE <<q>> \o Chain(Parent[q])

Key(q, g) == IF Grouped[q] THEN g ELSE "default"

MaxOf(a, b) == IF a >= b THEN a ELSE b

\* expiry of the current window of (q, k) at `now`, as far as the feasible anchors decide it
SureExpired(q, k) == hi[q][k] = None \/ now >= hi[q][k] + W[q]
SureLive(q, k)    == hi[q][k] # None /\ now < lo[q][k] + W[q]
MayExpire(q, k)   == ~SureLive(q, k)
MayLive(q, k)     == ~SureExpired(q, k)

Init ==
    /\ now = 2
    /\ lo = [q \in Quota |-> [g \in Group |-> None]]
    /\ hi = [q \in Quota |-> [g \in Group |-> None]]
    /\ charged = [q \in Quota |-> [g \in Group |-> 0]]
    /\ admitted = [q \in Quota |-> [g \in Group |-> 0]]
    /\ last = [ev |-> "init"]

Advance(d) ==
    /\ d > 0 /\ now + d <= MaxNow
    /\ now' = now + d
    /\ last' = [ev |-> "adv", d |-> d]
    /\ UNCHANGED <<lo, hi, charged, admitted>>

\* A request for `leaf` with header value g and cost c is answered `out`.
Arrive(leaf, g, c, out, mode) ==
    LET ch == Chain(leaf)
        n  == Len(ch)
        K(i) == Key(ch[i], g)
    IN
    /\ last' = [ev |-> "arrive", q |-> leaf, g |-> g, cost |-> c, out |-> out, mode |-> mode]
    /\ \E exp \in [1..n -> BOOLEAN], s \in 0..n, persist \in BOOLEAN :
        LET Cnt(i) == IF exp[i] THEN 0 ELSE charged[ch[i]][K(i)]
            Room(i) == Cnt(i) + c <= Max[ch[i]]
            Touched(i) == s = 0 \/ i < s
        IN
        /\ out = IF s = 0 THEN "admit" ELSE "refuse"
        \* expiry decisions are consistent with the feasible anchors
        /\ \A i \in 1..n : (exp[i] => MayExpire(ch[i], K(i))) /\ (~exp[i] => MayLive(ch[i], K(i)))
        \* decisions of quotas the request never reaches are irrelevant: fix them
        /\ \A i \in 1..n : (s # 0 /\ i > s) => exp[i] = SureExpired(ch[i], K(i))
        \* a refusal at a window judged expired may or may not leave it reopened (empty)
        /\ persist => (s # 0 /\ exp[s])
        \* the verdict
        /\ IF mode = "seq"
           THEN s = IF \A i \in 1..n : Room(i) THEN 0
                    ELSE CHOOSE i \in 1..n : ~Room(i) /\ \A j \in 1..(i-1) : Room(j)
           ELSE \A i \in 1..n : Touched(i) => Room(i)
        \* the effect
        /\ charged' = [q \in Quota |-> [k \in Group |->
              IF \E i \in 1..n : ch[i] = q /\ K(i) = k /\ Touched(i)
              THEN LET i == CHOOSE i \in 1..n : ch[i] = q IN Cnt(i) + c
              ELSE IF s # 0 /\ ch[s] = q /\ K(s) = k /\ exp[s] /\ persist THEN 0
              ELSE charged[q][k]]]
        /\ admitted' = [q \in Quota |-> [k \in Group |->
              IF \E i \in 1..n : ch[i] = q /\ K(i) = k /\ Touched(i)
              THEN LET i == CHOOSE i \in 1..n : ch[i] = q
                   IN (IF exp[i] THEN 0 ELSE admitted[q][k]) + (IF s = 0 THEN c ELSE 0)
              ELSE IF s # 0 /\ ch[s] = q /\ K(s) = k /\ exp[s] /\ persist THEN 0
              ELSE admitted[q][k]]]
        /\ hi' = [q \in Quota |-> [k \in Group |->
              IF \E i \in 1..n : ch[i] = q /\ K(i) = k /\ (Touched(i) \/ (i = s /\ persist)) /\ exp[i]
              THEN now ELSE hi[q][k]]]
        /\ lo' = [q \in Quota |-> [k \in Group |->
              IF \E i \in 1..n : ch[i] = q /\ K(i) = k /\ (Touched(i) \/ i = s)
              THEN LET i == CHOOSE i \in 1..n : ch[i] = q IN
                   IF exp[i] THEN (IF Touched(i) \/ persist THEN now - Gran + 1 ELSE lo[q][k])
                   ELSE MaxOf(lo[q][k], now - W[q] + 1)      \* judged live: anchor > now - W
              ELSE lo[q][k]]]
        /\ UNCHANGED now

\* A storm: n simultaneous requests for `leaf`, all with header value g and cost c, of which `a` were admitted
\* (compact form of n overlapping Arrive(.., "conc") steps at one instant: every admitted one found room in
\* every quota of the chain; every refused one was charged to some prefix of the chain - r[i] of them reached
\* level i and were charged there, fewer the higher the level).
Storm(leaf, g, c, n, a) ==
    LET ch == Chain(leaf)
        m  == Len(ch)
        K(i) == Key(ch[i], g)
    IN
    /\ last' = [ev |-> "storm", q |-> leaf, g |-> g, cost |-> c, n |-> n, admitted |-> a]
    /\ a \in 0..n
    /\ \E exp \in [1..m -> BOOLEAN], rr \in [1..(m - 1) -> 0..(n - a)] :
        LET r(i) == IF i = m THEN 0 ELSE rr[i]
            Cnt(i) == IF exp[i] THEN 0 ELSE charged[ch[i]][K(i)]
            Touched(i) == a > 0 \/ r(i) > 0
        IN
        /\ \A i \in 1..m : (exp[i] => MayExpire(ch[i], K(i))) /\ (~exp[i] => MayLive(ch[i], K(i)))
        /\ \A i \in 1..m : ~Touched(i) => exp[i] = SureExpired(ch[i], K(i))
        /\ \A i \in 1..(m - 1) : r(i) >= r(i + 1)                     \* a refused request is charged below its refusing quota only
        /\ \A i \in 1..m : Cnt(i) + (a + r(i)) * c <= Max[ch[i]]      \* the bound
        /\ charged' = [q \in Quota |-> [k \in Group |->
              IF \E i \in 1..m : ch[i] = q /\ K(i) = k /\ Touched(i)
              THEN LET i == CHOOSE i \in 1..m : ch[i] = q IN Cnt(i) + (a + r(i)) * c
              ELSE charged[q][k]]]
        /\ admitted' = [q \in Quota |-> [k \in Group |->
              IF \E i \in 1..m : ch[i] = q /\ K(i) = k /\ Touched(i)
              THEN LET i == CHOOSE i \in 1..m : ch[i] = q IN (IF exp[i] THEN 0 ELSE admitted[q][k]) + a * c
              ELSE admitted[q][k]]]
        /\ hi' = [q \in Quota |-> [k \in Group |->
              IF \E i \in 1..m : ch[i] = q /\ K(i) = k /\ Touched(i) /\ exp[i] THEN now ELSE hi[q][k]]]
        /\ lo' = [q \in Quota |-> [k \in Group |->
              IF \E i \in 1..m : ch[i] = q /\ K(i) = k /\ Touched(i)
              THEN LET i == CHOOSE i \in 1..m : ch[i] = q IN
                   IF exp[i] THEN now - Gran + 1 ELSE MaxOf(lo[q][k], now - W[q] + 1)
              ELSE lo[q][k]]]
        /\ UNCHANGED now

Next ==
    \/ \E d \in Steps : Advance(d)
    \/ \E q \in Quota, g \in Group, c \in Costs, out \in {"admit", "refuse"} : Arrive(q, g, c, out, "seq")

Spec == Init /\ [][Next]_vars

-------------------------------------------------------------------------------
\* The property, stated over P's own variables (sanity: P satisfies it; I is checked against these)

\* never more admitted than charged, never more charged than the maximum
Bound == \A q \in Quota, k \in Group : admitted[q][k] <= charged[q][k] /\ charged[q][k] <= Max[q]

\* handled one at a time, a refusal is justified by a quota of the chain that is full
Exact == [][(last'.ev = "arrive" /\ last'.out = "refuse" /\ last'.mode = "seq") =>
              LET ch == Chain(last'.q) IN
              \E i \in 1..Len(ch) :
                  LET q == ch[i]  k == Key(q, last'.g) IN
                  \/ last'.cost > Max[q]
                  \/ (MayLive(q, k) /\ charged[q][k] + last'.cost > Max[q])]_vars

\* a window that is reopened starts from the opening request alone
NoCarry == [][\A q \in Quota, k \in Group :
                (hi'[q][k] # hi[q][k]) =>
                    /\ admitted'[q][k] <= charged'[q][k]
                    /\ IF last'.ev = "storm" THEN charged'[q][k] <= last'.n * last'.cost
                       ELSE charged'[q][k] \in {0, last'.cost}]_vars

TypeOK == /\ now \in 0..MaxNow
          /\ \A q \in Quota, k \in Group : lo[q][k] <= hi[q][k]
================================================================================
