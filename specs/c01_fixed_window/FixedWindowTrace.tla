-------------------------- MODULE FixedWindowTrace --------------------------
(* C01 - trace validation of recorded executions of the real engine             *)
(* (streams.Stream.ExecuteFlow on generated fixed-window quota configurations)  *)
(* against the property spec FixedWindowP.                                      *)
(*                                                                             *)
(* trace.ndjson: line 1 = configuration (FixedWindowCfg derives the constants   *)
(* of FixedWindowP from it, incl. the maxima of percentage shares), then        *)
(*   {"ev":"reset","now":t}                         fresh engine, clock at t    *)
(*   {"ev":"adv","d":d}                             clock advanced by d ticks   *)
(*   {"ev":"arrive","q":..,"g":..,"cost":c,"out":..} request handled on its own *)
(*   {"ev":"begin","id":i,"q":..,"g":..,"cost":c,"out":..} / {"ev":"end","id":i}*)
(*        a request handled concurrently with others; its linearization point   *)
(*        is placed by TLC between the two (Lin), judged in mode "conc".        *)
(*   {"ev":"storm","q":..,"g":..,"cost":c,"n":n,"admitted":a}  n simultaneous    *)
(*        identical requests (many goroutines), a of them admitted               *)
(*   {"ev":"resetin","q":..}                        reset-in query: no effect   *)
EXTENDS FixedWindowCfg, FiniteSets

VARIABLES now, lo, hi, charged, admitted, last, l, pend, done

P == INSTANCE FixedWindowP WITH Costs <- {}, Steps <- {}, MaxNow <- 1000000000

tvars == <<now, lo, hi, charged, admitted, last, l, pend, done>>

Ev == TraceLog[l + 1]
Consume(name) == l < TraceLen /\ Ev.ev = name /\ l' = l + 1

TInit == P!Init /\ l = 1 /\ pend = {} /\ done = {}

TReset ==
    /\ Consume("reset") /\ pend = {} /\ done = {}
    /\ now' = Ev.now
    /\ lo' = [q \in Quota |-> [g \in Group |-> -1]]
    /\ hi' = [q \in Quota |-> [g \in Group |-> -1]]
    /\ charged' = [q \in Quota |-> [g \in Group |-> 0]]
    /\ admitted' = [q \in Quota |-> [g \in Group |-> 0]]
    /\ last' = [ev |-> "reset"]
    /\ UNCHANGED <<pend, done>>

TAdv == Consume("adv") /\ P!Advance(Ev.d) /\ UNCHANGED <<pend, done>>

TArrive == Consume("arrive") /\ pend = {} /\ P!Arrive(Ev.q, Ev.g, Ev.cost, Ev.out, "seq") /\ UNCHANGED <<pend, done>>

\* a storm of simultaneous identical requests, recorded as one event (how many of the n were admitted)
TStorm == Consume("storm") /\ pend = {} /\ P!Storm(Ev.q, Ev.g, Ev.cost, Ev.n, Ev.admitted) /\ UNCHANGED <<pend, done>>

TResetIn == Consume("resetin") /\ UNCHANGED <<now, lo, hi, charged, admitted, last, pend, done>>

TBegin ==
    /\ Consume("begin")
    /\ pend' = pend \cup {[id |-> Ev.id, q |-> Ev.q, g |-> Ev.g, cost |-> Ev.cost, out |-> Ev.out]}
    /\ UNCHANGED <<now, lo, hi, charged, admitted, last, done>>

TLin == \E p \in pend :
    /\ P!Arrive(p.q, p.g, p.cost, p.out, "conc")
    /\ pend' = pend \ {p}
    /\ done' = done \cup {p.id}
    /\ UNCHANGED l

TEnd ==
    /\ Consume("end") /\ Ev.id \in done
    /\ done' = done \ {Ev.id}
    /\ UNCHANGED <<now, lo, hi, charged, admitted, last, pend>>

TNext == TReset \/ TAdv \/ TArrive \/ TStorm \/ TResetIn \/ TBegin \/ TLin \/ TEnd

TraceSpec == TInit /\ [][TNext]_tvars

Bound == P!Bound
HWM == Mark(l)
Post == Report
================================================================================
