----------------------------- MODULE FixedWindowI -----------------------------
(* C01 - implementation-shaped specification of the fixed-window quota strategy *)
(*   streams/resources/quota/fixed_strategy.go   (fixedWindow.Inc / .Allowed,   *)
(*        quota.Inc / quota.Allowed / quota.ResetIn under quota.mutex)          *)
(*   streams/lunar-context/memory_state.go       (AtomicIncWindow,              *)
(*        AtomicWindowResetIn under memoryState.mutex)                          *)
(*   streams/processors/limiter/limiter_processor.go  (Inc, then Allowed)       *)
(*                                                                             *)
(* One quota object per (quota, group key):                                     *)
(*   cstart  stored window start, truncated to whole seconds (even ticks), or   *)
(*           None while nothing was stored;  ccount  stored counter;            *)
(*   memo    request id -> "n" (absent) | "t" | "f"   (allowedByReqID);         *)
(*   pmemo   the memo as it was at the latest window restart                    *)
(*           (prevAllowedByReqID: verdicts not collected before the restart).   *)
(* A Limiter runs   Inc(leaf) ; Allowed(leaf)   where                           *)
(*   Inc(q)     = IncLocked(q) ; if it returned `increased` and q has a parent  *)
(*                then Inc(parent)                                              *)
(*   Allowed(q) = AllowedLocked(q) ; if true and q has a parent then            *)
(*                Allowed(parent)                                               *)
(* and every *Locked call is one critical section = one atomic step here.       *)
(*                                                                             *)
(* Mode "seq":  a request runs to completion as one step (requests handled one  *)
(*              at a time); checked to refine FixedWindowP (exact verdicts).    *)
(* Mode "conc": the steps of up to N requests, clock advances and ResetIn calls *)
(*              interleave arbitrarily; checked against the bound.              *)
(* Variant names a deliberate deviation of the model (non-vacuity runs).        *)
EXTENDS Integers, Sequences, FiniteSets

CONSTANTS Quota, Parent, Max, W, Grouped, Group, Gran, Costs, Steps, MaxNow,
          Ids,        \* transaction ids (mode "seq": reused once the previous holder is finished;
                      \*   mode "conc": each id names one transaction - the gateway's ids are unique)
          N,          \* number of request slots (mode "conc")
          Mode,       \* "seq" | "conc"
          Variant     \* "none" | "strict_gt" | "no_delete" | "no_parent" | "no_error" | "no_group" | "racy_inc" | "allow_unknown"
                      \* | "no_trunc" (benign: window start stored with full precision)

INSTANCE FixedWindowOps

VARIABLES
    now,
    cstart, ccount, memo, pmemo,   \* the quota objects
    slot,                      \* mode "conc": [1..N -> request record]
    used,                      \* mode "conc": ids already given to a transaction
    epoch, hAdm,               \* history: window generation per key, amount admitted in it
    hLo, hHi, hAdmP,           \* history: FixedWindowP's lo / hi / admitted (mode "seq")
    last

ivars == <<now, cstart, ccount, memo, pmemo, slot, used, epoch, hAdm, hLo, hHi, hAdmP, last>>

QK == [Quota -> [Group -> Int]]
Idle == [pc |-> "idle"]

Init ==
    /\ now = 2
    /\ cstart = [q \in Quota |-> [k \in Group |-> None]]
    /\ ccount = [q \in Quota |-> [k \in Group |-> 0]]
    /\ memo = [q \in Quota |-> [k \in Group |-> [i \in Ids |-> "n"]]]
    /\ pmemo = [q \in Quota |-> [k \in Group |-> [i \in Ids |-> "n"]]]
    /\ slot = [r \in 1..N |-> Idle]
    /\ used = {}
    /\ epoch = [q \in Quota |-> [k \in Group |-> 0]]
    /\ hAdm = [q \in Quota |-> [k \in Group |-> 0]]
    /\ hLo = [q \in Quota |-> [k \in Group |-> None]]
    /\ hHi = [q \in Quota |-> [k \in Group |-> None]]
    /\ hAdmP = [q \in Quota |-> [k \in Group |-> 0]]
    /\ last = [ev |-> "init"]

Store == [cs |-> cstart, cc |-> ccount, mm |-> memo, pm |-> pmemo]

-------------------------------------------------------------------------------
\* Mode "seq": the whole Limiter as one step.
\* IncRun(S, ch, i, ...) = [S, opened (levels whose window was (re)started), charged (levels increased), stop]
RECURSIVE IncRun(_, _, _, _, _, _, _)
IncRun(S, ch, i, g, id, c, t) ==
    LET q == ch[i]  k == Key(q, g)
        r == IncLocked(S, q, k, id, c, t)
        opened == IF r.exp THEN {i} ELSE {}
    IN  IF r.res = "increased" /\ i < Len(ch) /\ Variant # "no_parent"
        THEN LET rest == IncRun(r.S, ch, i + 1, g, id, c, t) IN
             [S |-> rest.S, opened |-> opened \cup rest.opened, charged |-> {i} \cup rest.charged,
              blockedAt |-> rest.blockedAt, blockedRestart |-> rest.blockedRestart]
        ELSE [S |-> r.S, opened |-> IF r.res = "increased" THEN opened ELSE {},
              charged |-> IF r.res = "increased" THEN {i} ELSE {},
              blockedAt |-> IF r.res = "blocked" THEN i ELSE 0,
              blockedRestart |-> r.res = "blocked" /\ r.exp]

RECURSIVE AllowRun(_, _, _, _, _)
AllowRun(S, ch, i, g, id) ==
    LET q == ch[i]  k == Key(q, g)
        r == AllowedLocked(S, q, k, id)
    IN  IF r.ok /\ i < Len(ch) /\ Variant # "no_parent" THEN AllowRun(r.S, ch, i + 1, g, id)
        ELSE [S |-> r.S, ok |-> r.ok]

SeqEffect(a, b, leaf, g, c) ==
    LET ch == Chain(leaf)
        n  == Len(ch)
        out == IF b.ok THEN "admit" ELSE "refuse"
        At(q, k) == {i \in 1..n : ch[i] = q /\ Key(q, g) = k}
    IN
    /\ cstart' = b.S.cs /\ ccount' = b.S.cc /\ memo' = b.S.mm /\ pmemo' = b.S.pm
    /\ last' = [ev |-> "arrive", q |-> leaf, g |-> g, cost |-> c, out |-> out, mode |-> "seq"]
    \* history variables following FixedWindowP's bookkeeping with the decisions the implementation took
    /\ hHi' = [q \in Quota |-> [k \in Group |->
          IF \E i \in At(q, k) : i \in a.opened THEN now ELSE hHi[q][k]]]
    /\ hLo' = [q \in Quota |-> [k \in Group |->
          IF \E i \in At(q, k) : i \in a.opened THEN now - Gran + 1
          ELSE IF \E i \in At(q, k) : i \in a.charged \/ (i = a.blockedAt /\ ~a.blockedRestart)
               THEN MaxOf(hLo[q][k], now - W[q] + 1)
          ELSE hLo[q][k]]]
    /\ hAdmP' = [q \in Quota |-> [k \in Group |->
          IF \E i \in At(q, k) : i \in a.charged
          THEN (IF \E i \in At(q, k) : i \in a.opened THEN 0 ELSE hAdmP[q][k]) + (IF b.ok THEN c ELSE 0)
          ELSE hAdmP[q][k]]]
    /\ UNCHANGED <<used, now, slot, epoch, hAdm>>

ArriveSeq(leaf, g, c, id) ==
    /\ Mode = "seq"
    \* (singleton quantification = evaluate the run once)
    /\ \E a \in {IncRun(Store, Chain(leaf), 1, g, id, c, now)} :
         \E b \in {AllowRun(a.S, Chain(leaf), 1, g, id)} : SeqEffect(a, b, leaf, g, c)

-------------------------------------------------------------------------------
\* Mode "conc": one critical section per step.
\* slot record: [pc \in {"inc","allow"}, leaf, g, c, id, lvl, ch (levels charged with their epoch)]
Begin(r, leaf, g, c, id) ==
    /\ Mode = "conc" /\ slot[r].pc = "idle" /\ id \notin used
    /\ used' = used \cup {id}
    /\ slot' = [slot EXCEPT ![r] = [pc |-> "inc", leaf |-> leaf, g |-> g, c |-> c, id |-> id, lvl |-> 1,
                                    ch |-> [i \in 1..Len(Chain(leaf)) |-> None]]]
    /\ last' = [ev |-> "begin", r |-> r]
    /\ UNCHANGED <<now, cstart, ccount, memo, pmemo, epoch, hAdm, hLo, hHi, hAdmP>>

\* Variant "racy_inc" (non-vacuity of the interleaving model): the counter is read in one step and
\* written in the next, as if quota.mutex / memoryState.mutex were not held across AtomicIncWindow
StepIncRead(r) ==
    LET s == slot[r]  ch == Chain(s.leaf)  q == ch[s.lvl]  k == Key(q, s.g) IN
    /\ Mode = "conc" /\ Variant = "racy_inc" /\ s.pc = "inc" /\ "seen" \notin DOMAIN s
    /\ slot' = [slot EXCEPT ![r] = [x \in DOMAIN s \cup {"seen"} |-> IF x = "seen" THEN ccount[q][k] ELSE s[x]]]
    /\ last' = [ev |-> "incread", r |-> r]
    /\ UNCHANGED <<used, now, cstart, ccount, memo, pmemo, epoch, hAdm, hLo, hHi, hAdmP>>

StepInc(r) ==
    LET s0 == slot[r]  ch == Chain(s0.leaf)  i == s0.lvl  q == ch[i]  k == Key(q, s0.g)
        s == [x \in DOMAIN s0 \ {"seen"} |-> s0[x]]
        St == IF "seen" \in DOMAIN s0 THEN [Store EXCEPT !.cc[q][k] = s0.seen] ELSE Store
        x == IncLocked(St, q, k, s.id, s.c, now)
        opened == x.res = "increased" /\ x.exp
        ep == IF opened THEN epoch[q][k] + 1 ELSE epoch[q][k]
    IN
    /\ Mode = "conc" /\ s.pc = "inc" /\ (Variant = "racy_inc" => "seen" \in DOMAIN s0)
    /\ cstart' = x.S.cs /\ ccount' = x.S.cc /\ memo' = x.S.mm /\ pmemo' = x.S.pm
    /\ epoch' = [epoch EXCEPT ![q][k] = ep]
    /\ hAdm' = IF opened THEN [hAdm EXCEPT ![q][k] = 0] ELSE hAdm
    /\ slot' = [slot EXCEPT ![r] =
          IF x.res = "increased" /\ i < Len(ch) /\ Variant # "no_parent"
          THEN [s EXCEPT !.lvl = i + 1, !.ch[i] = ep]
          ELSE [s EXCEPT !.pc = "allow", !.lvl = 1, !.ch[i] = IF x.res = "increased" THEN ep ELSE s.ch[i]]]
    /\ last' = [ev |-> "inc", r |-> r]
    /\ UNCHANGED <<used, now, hLo, hHi, hAdmP>>

StepAllow(r) ==
    LET s == slot[r]  ch == Chain(s.leaf)  i == s.lvl  q == ch[i]  k == Key(q, s.g)
        x == AllowedLocked(Store, q, k, s.id)
        more == x.ok /\ i < Len(ch) /\ Variant # "no_parent"
        admit == x.ok /\ ~more
    IN
    /\ Mode = "conc" /\ s.pc = "allow"
    /\ memo' = x.S.mm /\ pmemo' = x.S.pm
    /\ slot' = [slot EXCEPT ![r] = IF more THEN [s EXCEPT !.lvl = i + 1] ELSE Idle]
    \* an admitted request counts, at every quota of its chain, in the window that charged it;
    \* if no window charged it (stale memo) it counts in the current one
    /\ hAdm' = IF ~admit THEN hAdm ELSE
          [qq \in Quota |-> [kk \in Group |->
              IF \E j \in 1..Len(ch) : ch[j] = qq /\ Key(qq, s.g) = kk /\ s.ch[j] \in {None, epoch[qq][kk]}
              THEN hAdm[qq][kk] + s.c ELSE hAdm[qq][kk]]]
    /\ last' = IF more THEN [ev |-> "allow", r |-> r]
               ELSE [ev |-> "end", r |-> r, out |-> IF admit THEN "admit" ELSE "refuse"]
    /\ UNCHANGED <<used, now, cstart, ccount, epoch, hLo, hHi, hAdmP>>

ResetIn(q, k) ==
    LET S == ResetInLocked(Store, q, k, now) IN
    /\ Mode = "conc"
    /\ memo' = S.mm /\ pmemo' = S.pm /\ <<memo', pmemo'>> # <<memo, pmemo>>
    /\ last' = [ev |-> "resetin"]
    /\ UNCHANGED <<used, now, cstart, ccount, slot, epoch, hAdm, hLo, hHi, hAdmP>>

Advance(d) ==
    /\ d > 0 /\ now + d <= MaxNow
    /\ now' = now + d
    /\ last' = [ev |-> "adv", d |-> d]
    /\ UNCHANGED <<used, cstart, ccount, memo, pmemo, slot, epoch, hAdm, hLo, hHi, hAdmP>>

Next ==
    \/ \E d \in Steps : Advance(d)
    \/ \E q \in Quota, g \in Group, c \in Costs, id \in Ids : ArriveSeq(q, g, c, id)
    \/ \E r \in 1..N, q \in Quota, g \in Group, c \in Costs, id \in Ids : Begin(r, q, g, c, id)
    \/ \E r \in 1..N : StepIncRead(r) \/ StepInc(r) \/ StepAllow(r)
    \/ \E q \in Quota, k \in Group : ResetIn(q, k)

ISpec == Init /\ [][Next]_ivars

-------------------------------------------------------------------------------
\* mode "seq": I refines P (stored counter = charged; P's anchors / admitted amount are history variables)
P == INSTANCE FixedWindowP WITH lo <- hLo, hi <- hHi, charged <- ccount, admitted <- hAdmP

Refines == P!Spec
BoundP  == P!Bound
ExactP  == P!Exact
NoCarryP == P!NoCarry

\* mode "conc": in every window generation no more is admitted than was charged, no more charged than Max
BoundI == \A q \in Quota, k \in Group : hAdm[q][k] <= ccount[q][k] /\ ccount[q][k] <= Max[q]

\* the memo never outlives its request when requests are handled one at a time
MemoClean == Mode = "seq" => \A q \in Quota, k \in Group, i \in Ids : memo[q][k][i] = "n" /\ pmemo[q][k][i] = "n"
================================================================================
