SPECIFICATION TraceSpec
INVARIANT Bound
CONSTRAINT HWM
POSTCONDITION Post
CHECK_DEADLOCK FALSE
