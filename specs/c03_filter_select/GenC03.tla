------------------------------- MODULE GenC03 -------------------------------
(* Case generation for replay (spec -> code): the bounded input space of the exhaustive     *)
(* check as a constant set - every multiset of at most GenMaxFlows flows of GenFlows (as a  *)
(* sequence in one canonical order; the driver applies every permutation as load order) and *)
(* every transaction of GenTxns - written to GenOut with JsonSerialize.                     *)
EXTENDS MC_C03, Json, SequencesExt

CONSTANTS GenFlows, GenTxns, GenMaxFlows, GenOut

FSeq == SetToSeq(GenFlows)

NonDec(n) == {s \in [1..n -> 1..Len(FSeq)] : \A i \in 1..(n - 1) : s[i] <= s[i + 1]}

Configs == UNION {{[i \in 1..n |-> FSeq[s[i]]] : s \in NonDec(n)} : n \in 1..GenMaxFlows}

ASSUME /\ JsonSerialize(GenOut, [configs |-> Configs, txns |-> GenTxns])
       /\ PrintT(<<"GEN", Cardinality(Configs), Cardinality(GenTxns)>>)

VARIABLE z
GInit == z = 0
GNext == UNCHANGED z
GSpec == GInit /\ [][GNext]_z
=============================================================================
