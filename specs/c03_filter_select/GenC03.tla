------------------------------- MODULE GenC03 -------------------------------
(* Case generation for replay (spec -> code): the bounded input space of the exhaustive     *)
(* check as a constant set - every multiset of at most GenMaxFlows flows of GenFlows (as a  *)
(* sequence in one canonical order; the driver applies every permutation as load order) and *)
(* every transaction of GenTxns - written to GenOut with JsonSerialize.                     *)
EXTENDS MC_C03, Json, SequencesExt

CONSTANTS GenFlows, GenTxns, GenMaxFlows, GenOut

FSeq == SetToSeq(GenFlows)

NonDec(n) == {s \in [1..n -> 1..Len(FSeq)] : \A i \in 1..(n - 1) : s[i] <= s[i + 1]}

Configs == UNION {{[i \in 1..n |-> FSeq[s[i]]] : s \in NonDec(n)} : n \in 1..GenMaxFlows}

\* Coverage direction: the shape of the trie the implementation model builds for a configuration, with
\* literal edges abstracted to "L" - which kinds of children meet at which depth and how many flows share a
\* node.  The driver samples the generated space so that every shape is replayed (the rare shapes - a
\* wildcard next to a parameter, three flows on one node - are the ones a uniform sample misses).
AbsEdge(e) == IF e = PEdge \/ e = WEdge THEN e ELSE "L"
Shape(c) == LET t == Build(c) IN
            {<<[i \in 1..Len(p) |-> AbsEdge(p[i])], Len(t[p].val[1].fl)>> : p \in {q \in DOMAIN t : t[q].val # <<>>}}

ASSUME /\ JsonSerialize(GenOut, [configs |-> {[fl |-> c, shape |-> Shape(c)] : c \in Configs}, txns |-> GenTxns])
       /\ PrintT(<<"GEN", Cardinality(Configs), Cardinality(GenTxns)>>)

VARIABLE z
GInit == z = 0 /\ fs = <<>> /\ tree = EmptyTree
GNext == UNCHANGED <<z, fs, tree>>
GSpec == GInit /\ [][GNext]_<<z, fs, tree>>
=============================================================================
