CONSTANTS
  KF_NodeReq = FALSE
  LookupMode = "exact"
  KF_EndTest = FALSE
  KF_WildHost = FALSE
  KF_WildNew = TRUE
  FlowDomain = {}
  TxnDomain = {}
  SymLits <- SymNone
  MaxFlows = 0
SPECIFICATION TraceSpec
CONSTRAINT HWM
POSTCONDITION Post
CHECK_DEADLOCK FALSE
