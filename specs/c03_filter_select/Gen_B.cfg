CONSTANTS
  MaxPath = 1
  NFlowsA = 0
  SymLits <- SymNone
  MaxFlows = 0
  FlowDomain = {}
  TxnDomain = {}
  KF_NodeReq = FALSE
  LookupMode = "exact"
  KF_EndTest = FALSE
  KF_WildHost = FALSE
  KF_WildNew = TRUE
  GenFlows <- FlowsB1
  GenTxns <- TxnsB
  GenMaxFlows = 2
  GenOut = "gen_B.json"
SPECIFICATION GSpec
CHECK_DEADLOCK FALSE
