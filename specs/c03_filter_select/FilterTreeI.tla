----------------------------- MODULE FilterTreeI -----------------------------
(* C03 - implementation-shaped specification: a transcription of                           *)
(*   toolkit-core/urltree   InsertDeclaredURL, Lookup (lookupNode), Traversal (lookupFlow)  *)
(*   streams/filter         FilterTree.AddFlow / GetFlow, FilterNode qualification          *)
(*                                                                                         *)
(* The trie is a function from node paths (sequences of edge labels) to node records       *)
(*   [host |-> IsPartOfHost, val |-> <<>> (no value) or <<filterNode>>]                     *)
(* edge labels: a literal part value (ConstantChildren), PEdge (ParametricChild),          *)
(* WEdge (WildcardChild).  filterNode == [fl |-> indices of the flows on the node in the   *)
(* order added, req |-> which requirement kinds the FIRST flow added had (node-level copy)] *)
(*                                                                                         *)
(* The deviations of the code as found are kept as switchable behaviour (TRUE = the code   *)
(* as found, FALSE = the repaired code):                                                   *)
(*   KF_NodeReq   O7: a flow's constraint kind is skipped when the first flow of the node  *)
(*                had none of that kind (and defaulted methods are applied when it had)    *)
(*   LookupMode   how AddFlow finds the "existing node" of a declared URL:                 *)
(*                "old"   O8: request-style Lookup whose wildcard fallback fabricates the  *)
(*                        normalized URL from the looked-up parts (code as found)          *)
(*                "new"   request-style Lookup reporting the wildcard's own URL (urltree   *)
(*                        fix made for C13)                                                *)
(*                "exact" structural walk along the declared URL (repaired AddFlow)        *)
(*   KF_EndTest   O9: lookupFlow's end-of-URL test is also true when the walk broke at the *)
(*                last part, and the exact node is skipped when it has a wildcard child    *)
(*   KF_WildHost  lookupFlow collects a path wildcard also while host labels are consumed   *)
(*                (h.com/* selected for h.com.evil.net/x)                                   *)
(*   KF_WildNew   inserting a wildcard always creates a fresh wildcard child (drops the    *)
(*                flows of an existing one)                                                *)
EXTENDS FilterP

CONSTANTS KF_NodeReq, LookupMode, KF_EndTest, KF_WildNew, KF_WildHost

PEdge == "{}"
WEdge == "**"
Root  == <<>>

NewNode(h) == [host |-> h, val |-> <<>>]
EmptyTree  == (Root :> NewNode(FALSE))

HasNode(t, p) == p \in DOMAIN t
HasVal(t, p)  == p \in DOMAIN t /\ t[p].val # <<>>
Put(t, p, n)  == [q \in (DOMAIN t) \cup {p} |-> IF q = p THEN n ELSE t[q]]

EdgeOf(part) == IF (part.v = WildSeg) THEN WEdge ELSE IF IsParamF(part.v) THEN PEdge ELSE part.v

-------------------------------------------------------------------------------
(* url_tree_insert.go  insertWithConvergenceIndication(url, value, declaredURL = TRUE),    *)
(* tree built with NewURLTree(false, 0): no convergence                                    *)
RECURSIVE InsertFrom(_, _, _, _, _)
InsertFrom(t, ps, i, cur, value) ==
    IF i > Len(ps) THEN [t EXCEPT ![cur].val = <<value>>]
    ELSE LET part == ps[i]
             nxt  == Append(cur, EdgeOf(part))
         IN  IF (part.v = WildSeg) /\ KF_WildNew
             THEN InsertFrom(Put(t, nxt, NewNode(part.h)), ps, i + 1, nxt, value)
             ELSE IF HasNode(t, nxt) THEN InsertFrom(t, ps, i + 1, nxt, value)
             ELSE InsertFrom(Put(t, nxt, NewNode(part.h)), ps, i + 1, nxt, value)

(* url_tree_lookup.go  lookupNode; norm = the normalized URL as a sequence of parts.       *)
(* wn = the normalized URL reported for a fallback to the wildcard fw:                      *)
(*   LookupMode "old"  (code as found): what was consumed so far + the failing part's "*"   *)
(*   otherwise (urltree fix of C13):    the wildcard's own URL                              *)
WildNorm(t, norm, wc) == Append(norm, [h |-> t[wc].host, v |-> WildSeg])

RECURSIVE LookupFrom(_, _, _, _, _, _, _)
LookupFrom(t, ps, i, cur, fw, wn, norm) ==
    LET wc  == Append(cur, WEdge)
        old == LookupMode = "old"
    IN
    IF i > Len(ps)
    THEN IF HasVal(t, cur) THEN [match |-> TRUE, node |-> cur, norm |-> norm]
         ELSE IF HasNode(t, wc)
         THEN [match |-> TRUE, node |-> wc, norm |-> IF old THEN norm ELSE WildNorm(t, norm, wc)]
         ELSE IF fw # <<>> THEN [match |-> TRUE, node |-> fw[1], norm |-> IF old THEN norm ELSE wn]
         ELSE [match |-> FALSE, node |-> cur, norm |-> norm]
    ELSE LET part == ps[i]
             fw2  == IF HasNode(t, wc) THEN <<wc>> ELSE fw
             wn2  == IF HasNode(t, wc) THEN WildNorm(t, norm, wc) ELSE wn
             cc   == Append(cur, part.v)
             pc   == Append(cur, PEdge)
         IN  IF HasNode(t, cc) /\ t[cc].host = part.h
             THEN LookupFrom(t, ps, i + 1, cc, fw2, wn2, Append(norm, part))
             ELSE IF HasNode(t, pc) /\ t[pc].host = part.h
             THEN LookupFrom(t, ps, i + 1, pc, fw2, wn2,
                             Append(norm, [h |-> part.h, v |-> IF IsParamF(part.v) THEN part.v ELSE "{?}"]))
             ELSE IF IsParamF(part.v) THEN [match |-> FALSE, node |-> cur, norm |-> norm]
             ELSE IF fw2 # <<>>
             THEN [match |-> TRUE, node |-> fw2[1],
                   norm |-> IF old THEN Append(norm, [h |-> part.h, v |-> WildSeg]) ELSE wn2]
             ELSE [match |-> FALSE, node |-> cur, norm |-> norm]

\* repaired AddFlow: the node of exactly this declared URL (structural walk), if it holds a value
RECURSIVE ExactFrom(_, _, _, _)
ExactFrom(t, ps, i, cur) ==
    IF i > Len(ps) THEN (IF HasVal(t, cur) THEN <<cur>> ELSE <<>>)
    ELSE LET nxt == Append(cur, EdgeOf(ps[i])) IN
         IF HasNode(t, nxt) THEN ExactFrom(t, ps, i + 1, nxt) ELSE <<>>

-------------------------------------------------------------------------------
(* filter_tree.go AddFlow, filter_validation.go newFilterRequirements                     *)
IsUser(f) == f.typ = "user"

ReqOf(f) == IF IsUser(f) THEN [m |-> f.m # {}, h |-> f.h # {}, s |-> f.s # {}, q |-> f.q # {}]
            ELSE [m |-> FALSE, h |-> FALSE, s |-> FALSE, q |-> FALSE]

NewFilterNode(idx, f) == [fl |-> <<idx>>, req |-> ReqOf(f)]

AddFlow(t, idx, f) ==
    LET ps == Parts(f.pat) IN
    IF LookupMode # "exact"
    THEN LET r == LookupFrom(t, ps, 1, Root, <<>>, <<>>, <<>>) IN
         IF r.match /\ r.norm = ps
         THEN [t EXCEPT ![r.node].val = <<[@[1] EXCEPT !.fl = Append(@, idx)]>>]
         ELSE InsertFrom(t, ps, 1, Root, NewFilterNode(idx, f))
    ELSE LET e == ExactFrom(t, ps, 1, Root) IN
         IF e # <<>>
         THEN [t EXCEPT ![e[1]].val = <<[@[1] EXCEPT !.fl = Append(@, idx)]>>]
         ELSE InsertFrom(t, ps, 1, Root, NewFilterNode(idx, f))

RECURSIVE Build(_)
Build(fs) == IF Len(fs) = 0 THEN EmptyTree
             ELSE AddFlow(Build(SubSeq(fs, 1, Len(fs) - 1)), Len(fs), fs[Len(fs)])

-------------------------------------------------------------------------------
(* url_tree_flow_traversal.go lookupFlow: the node paths whose values are returned         *)
RECURSIVE Walk(_, _, _, _, _)
Walk(t, ps, i, cur, acc) ==
    IF i > Len(ps) THEN [cur |-> cur, k |-> Len(ps), acc |-> acc]
    ELSE LET part == ps[i]
             wc   == Append(cur, WEdge)
             acc2 == IF HasVal(t, wc) /\ (KF_WildHost \/ ~(part.h /\ t[cur].host /\ ~t[wc].host)) THEN Append(acc, wc) ELSE acc
             cc   == Append(cur, part.v)
             pc   == Append(cur, PEdge)
         IN  IF HasNode(t, cc) /\ t[cc].host = part.h THEN Walk(t, ps, i + 1, cc, acc2)
             ELSE IF HasNode(t, pc) /\ t[pc].host = part.h /\ part.v # "" THEN Walk(t, ps, i + 1, pc, acc2)   \* 2d3f081: a parameter needs a non-empty segment
             ELSE [cur |-> cur, k |-> i - 1, acc |-> acc2]

Collected(t, ps) ==
    LET w  == Walk(t, ps, 1, Root, <<>>)
        n  == Len(ps)
        wc == Append(w.cur, WEdge)
    IN  IF KF_EndTest
        THEN \* index == lookUpLength holds after a complete walk and after a break at the last part
             IF w.k >= n - 1 /\ HasVal(t, w.cur) /\ ~HasNode(t, wc) THEN Append(w.acc, w.cur)
             ELSE IF w.k >= n - 1 /\ ps[n].h /\ HasVal(t, wc) THEN Append(w.acc, wc)
             ELSE w.acc
        ELSE \* repaired: only a complete walk ends on a node; exact node and host-only wildcard both count
             IF w.k = n
             THEN (IF HasVal(t, w.cur) THEN Append(w.acc, w.cur) ELSE w.acc)
                  \o (IF ps[n].h /\ HasVal(t, wc) THEN <<wc>> ELSE <<>>)
             ELSE w.acc

-------------------------------------------------------------------------------
(* filter_lookup_validation.go / filter_node.go validate                                   *)
DefaultMethods == {"GET", "POST", "PUT", "DELETE", "PATCH", "HEAD", "OPTIONS", "CONNECT", "TRACE"}
Supported(f)   == IF f.m = {} THEN DefaultMethods ELSE f.m

\* "this kind of requirement is not configured" as the code sees it: asked of the node-level copy
\* (code as found) or of the flow's own filter (repaired); never skipped for system flows
OwnEmpty(kind, f) == CASE kind = "m" -> f.m = {} [] kind = "h" -> f.h = {} [] kind = "s" -> f.s = {} [] kind = "q" -> f.q = {}
Skip(kind, nodeReq, f) == IsUser(f) /\ (IF KF_NodeReq THEN ~nodeReq[kind] ELSE OwnEmpty(kind, f))

\* headerMap groups the allowed values by the key as written; the transaction's header map has
\* lower-case keys (GetHeader lower-cases the looked-up key) and values are compared with EqualFold
HeadersOK(nodeReq, f, x) ==
    \/ x.side = "resp"
    \/ Skip("h", nodeReq, f)
    \/ f.h = {}
    \/ \A e \in f.h : \E e2 \in f.h : /\ e2[1] = e[1]
                                      /\ \E g \in x.hdr : g[1] = CI(e[1]) /\ CI(g[2]) = CI(e2[2])

StatusOK(nodeReq, f, x) ==
    \/ Skip("s", nodeReq, f)
    \/ x.side = "req"
    \/ f.s = {}
    \/ x.status \in f.s

MethodOK(nodeReq, f, x) ==
    \/ Skip("m", nodeReq, f)
    \/ x.method \in Supported(f)

QueryOK(nodeReq, f, x) ==
    \/ x.side = "resp"
    \/ Skip("q", nodeReq, f)
    \/ \A e \in f.q : /\ \E g \in x.qry : g[1] = e[1]
                      /\ (e[2] = AnyValue \/ \E g \in x.qry : g[1] = e[1] /\ g[2] = e[2])

Qualifies(nodeReq, f, x) ==
    HeadersOK(nodeReq, f, x) /\ StatusOK(nodeReq, f, x) /\ MethodOK(nodeReq, f, x) /\ QueryOK(nodeReq, f, x)

\* FilterTree.GetFlow: indices (into fs) of the flows selected for x
Select(t, fs, x) ==
    LET col == Collected(t, Parts(x.url)) IN
    UNION { LET fn == t[col[c]].val[1] IN
            {fn.fl[j] : j \in {j \in 1..Len(fn.fl) : Qualifies(fn.req, fs[fn.fl[j]], x)}}
          : c \in 1..Len(col) }

-------------------------------------------------------------------------------
(* naming: a flow is identified by its filter and the copy number among equal filters, so  *)
(* that the same multiset of flows has the same names whatever the order                   *)
Occ(fs, i)    == Cardinality({j \in 1..i : fs[j] = fs[i]})
NameOf(fs, i) == <<fs[i], Occ(fs, i)>>
Named(fs, i)  == [name |-> NameOf(fs, i), pat |-> fs[i].pat, m |-> fs[i].m, h |-> fs[i].h,
                  q |-> fs[i].q, s |-> fs[i].s, typ |-> fs[i].typ]
FlowSet(fs)   == {Named(fs, i) : i \in 1..Len(fs)}
SelNames(t, fs, x) == {NameOf(fs, i) : i \in Select(t, fs, x)}

Swap(fs, i) == [j \in 1..Len(fs) |-> IF j = i THEN fs[i + 1] ELSE IF j = i + 1 THEN fs[i] ELSE fs[j]]

-------------------------------------------------------------------------------
(* the system: flows are added one at a time, in any order                                 *)
CONSTANTS FlowDomain, TxnDomain, MaxFlows, SymLits
VARIABLES fs, tree
vars == <<fs, tree>>

Init == fs = <<>> /\ tree = EmptyTree

Add(f) == /\ Len(fs) < MaxFlows
          /\ fs' = Append(fs, f)
          /\ tree' = AddFlow(tree, Len(fs) + 1, f)

SymNone == <<>>

\* Symmetry: when the instance is invariant under a permutation of path literals (cfg: SymLits = the
\* interchangeable literals in the order in which they have to appear first), only load sequences in
\* canonical form are explored - the first literal of SymLits met in the sequence is SymLits[1], the
\* next new one SymLits[2], ...  Every other sequence is a renaming of an explored one.  <<>> = off.
LitsOf(gs) == LET all == [i \in 1..Len(gs) |-> SelectSeq(gs[i].pat[2], LAMBDA v : \E k \in 1..Len(SymLits) : v = SymLits[k])]
                  RECURSIVE Cat(_)
                  Cat(i) == IF i > Len(gs) THEN <<>> ELSE all[i] \o Cat(i + 1)
              IN  Cat(1)
Canonical(gs) ==
    LET ls == LitsOf(gs) IN
    \A i \in 1..Len(ls) : \A k \in 2..Len(SymLits) :
        ls[i] = SymLits[k] => \E j \in 1..(i - 1) : ls[j] = SymLits[k - 1]

Next == \E f \in FlowDomain : Canonical(Append(fs, f)) /\ Add(f)

ISpec == Init /\ [][Next]_vars

\* I => Correct
InvCorrect == \A x \in TxnDomain : Correct(SelNames(tree, fs, x), x, FlowSet(fs))

\* I => OrderIndependent: every adjacent transposition of the load order selects the same flows
\* (all load orders are states of this system, so all orders agree by transitivity)
InvOrder == \A i \in 1..(Len(fs) - 1) :
               LET gs == Swap(fs, i)  t2 == Build(gs) IN
               \A x \in TxnDomain : SelNames(t2, gs, x) = SelNames(tree, fs, x)

\* the state variable and the fold agree (sanity of the transcription itself)
InvBuild == tree = Build(fs)
================================================================================
