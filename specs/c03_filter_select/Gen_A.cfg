CONSTANTS
  MaxPath = 2
  NFlowsA = 0
  SymLits <- SymNone
  MaxFlows = 0
  FlowDomain = {}
  TxnDomain = {}
  KF_NodeReq = FALSE
  LookupMode = "exact"
  KF_EndTest = FALSE
  KF_WildHost = FALSE
  KF_WildNew = TRUE
  GenFlows <- FlowsA
  GenTxns <- TxnsA
  GenMaxFlows = 3
  GenOut = "gen_A.json"
SPECIFICATION GSpec
CHECK_DEADLOCK FALSE
