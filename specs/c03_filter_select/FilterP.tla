------------------------------- MODULE FilterP -------------------------------
(* C03 - property specification: a flow runs for a transaction exactly when its own       *)
(* filter accepts it.                                                                      *)
(*                                                                                         *)
(* Function-like property: no state.  The observable is, for one configuration F (a set of *)
(* flows with their filters) and one transaction x, the set `sel` of flow names the engine *)
(* applied.  P classifies every flow three-valued                                          *)
(*     "yes"    the flow must run     (MustRun)                                            *)
(*     "no"     the flow must not run (MustNotRun)                                         *)
(*     "either" the statement leaves it open                                               *)
(* and Correct(sel, x, F) is the step guard of the trace specification.                    *)
(*                                                                                         *)
(* Open ("either") zones - each one is a place where the property statement does not      *)
(* decide, so that no reasonable implementation is rejected:                               *)
(*   Z1  trailing wildcard facing zero remaining segments   h.com/x/*  vs  h.com/x         *)
(*   Z2  filter satisfied but a more specific literal pattern is configured alongside      *)
(*       (Shadowed)                                                                        *)
(*   Z3  a constraint that cannot be observed on this side of the transaction: required    *)
(*       headers / query parameters when a response is filtered, status codes when a       *)
(*       request is filtered                                                               *)
(*   Z4  a required header value that differs from the transaction's only by letter case   *)
(*       (header NAMES are case-insensitive: that is decided)                              *)
(*   Z5  a filter without method constraint facing a method outside the documented default *)
(*       set (Filter.GetSupportedMethods: the nine standard HTTP methods)                  *)
(* Everything else is decided; in particular extra or missing trailing segments against a  *)
(* literal or parameter pattern are "no".                                                  *)
(*                                                                                         *)
(* Flow   == [name, pat, m, h, q, s, typ]   pat = <<host, path>> (UrlPattern), m = set of  *)
(*           methods, h / q = sets of <<key, value>> pairs, s = set of status codes;       *)
(*           an empty set = unconstrained.  Several pairs with one header key = any of the *)
(*           values; several keys = all of them.  A query pair with value AnyValue asks    *)
(*           for the presence of the key only.                                             *)
(* Txn    == [side, url, method, hdr, qry, status]  side \in {"req","resp","early"}; "early" *)
(*           = the response generated inside the gateway for a request a flow answered     *)
(*           (status = the generated status; the flows are looked up again for it); hdr,   *)
(*           qry =                                                                         *)
(*           sets of <<key, value>> pairs (one per key).                                   *)
EXTENDS UrlPattern, TLC

Yes    == "yes"
No     == "no"
Either == "either"

AnyValue == "<any>"

\* letter-case folding over the finite vocabulary used by the generators and the harness
FoldTable == ("X-Key" :> "x-key") @@ ("X-KEY" :> "x-key") @@ ("X-Other" :> "x-other")
          @@ ("V1" :> "v1") @@ ("V2" :> "v2") @@ ("Tok" :> "tok") @@ ("TOK" :> "tok")
CI(v) == IF v \in DOMAIN FoldTable THEN FoldTable[v] ELSE v

And3(vs) == IF No \in vs THEN No ELSE IF Either \in vs THEN Either ELSE Yes

MinI(a, b) == IF a <= b THEN a ELSE b

-------------------------------------------------------------------------------
(* URL pattern.  Same meaning as UrlPattern!MatchesX / MatchesStrictX / PartMatches (checked by *)
(* MC_C03!FastAgrees over the bounded domain) but evaluated on the part sequences computed   *)
(* once, and with parameter recognition by set membership instead of string building.       *)

ParamSegSet == {ParamSeg(n) : n \in ParamNames}
IsParamF(v) == v \in ParamSegSet
IsLitF(v)   == v # WildSeg /\ v \notin ParamSegSet
PartMatchesF(pp, up) == pp.h = up.h /\ (IsParamF(pp.v) \/ (IsLitF(pp.v) /\ pp.v = up.v))

\* [loose, strict, wild, body] of pattern parts pp against URL parts up
MatchInfo(pp, up) ==
    LET np   == Len(pp)
        nu   == Len(up)
        wild == np > 0 /\ pp[np].v = WildSeg
        b    == IF wild THEN np - 1 ELSE np
        body == b <= nu /\ \A i \in 1..b : PartMatchesF(pp[i], up[i])
        \* a wildcard written as a path segment stands for path segments only: it does not swallow
        \* further host labels (h.com/* does not match h.com.evil.net/x) - UrlPattern!HostShapeOK
        shape == (wild /\ ~pp[np].h) => Cardinality({i \in 1..nu : up[i].h}) = Cardinality({i \in 1..np : pp[i].h})
    IN  [loose  |-> body /\ shape /\ (wild \/ nu = b),
         strict |-> body /\ shape /\ (IF wild THEN nu - b >= 1 ELSE nu = b),
         wild   |-> wild, body |-> b]

\* q shadows p on u: q has a literal part equal to the URL's at a position where p has a
\* parameter or its trailing wildcard, and q matches the URL up to there
ShadowedByF(pp, pwild, pbody, qp, up) ==
    \E i \in 1..MinI(Len(qp), Len(up)) :
        /\ IsLitF(qp[i].v) /\ qp[i].v = up[i].v /\ qp[i].h = up[i].h
        /\ \/ (i <= pbody /\ IsParamF(pp[i].v))
           \/ (pwild /\ i > pbody)
        /\ \A j \in 1..(i - 1) : PartMatchesF(qp[j], up[j])

ShadowedBy(p, q, u) ==
    LET mi == MatchInfo(Parts(p), Parts(u)) IN ShadowedByF(Parts(p), mi.wild, mi.body, Parts(q), Parts(u))

Shadowed(p, u, Ps) == \E q \in Ps \ {p} : ShadowedBy(p, q, u)

UrlV(p, u, Ps) ==
    LET pp == Parts(p)
        up == Parts(u)
        mi == MatchInfo(pp, up)
    IN  IF ~mi.loose THEN No
        ELSE IF ~mi.strict THEN Either                                                       \* Z1
        ELSE IF \E q \in Ps \ {p} : ShadowedByF(pp, mi.wild, mi.body, Parts(q), up) THEN Either  \* Z2
        ELSE Yes

-------------------------------------------------------------------------------
(* the other constraints *)

\* Z5: without a method constraint the documented reading of the filter is "the supported methods"
\* (Filter.GetSupportedMethods: the nine standard methods the proxy registers); whether such a filter
\* also accepts an extension method (PROPFIND ...) is open
StandardMethods == {"GET", "POST", "PUT", "DELETE", "PATCH", "HEAD", "OPTIONS", "CONNECT", "TRACE"}
MethodV(f, x) == IF f.m = {} THEN (IF x.method \in StandardMethods THEN Yes ELSE Either)
                 ELSE IF x.method \in f.m THEN Yes ELSE No

ValuesOf(S, k) == {e[2] : e \in {e \in S : CI(e[1]) = CI(k)}}

HeaderV(f, x) ==
    IF f.h = {} THEN Yes
    ELSE IF x.side # "req" THEN Either                  \* Z3
    ELSE And3({ LET allowed == ValuesOf(f.h, e[1])
                    have    == ValuesOf(x.hdr, e[1])
                IN  IF have \cap allowed # {} THEN Yes
                    ELSE IF {CI(v) : v \in have} \cap {CI(v) : v \in allowed} # {} THEN Either   \* Z4
                    ELSE No
              : e \in f.h })

QueryV(f, x) ==
    IF f.q = {} THEN Yes
    ELSE IF x.side # "req" THEN Either                  \* Z3
    ELSE And3({ LET have == {g[2] : g \in {g \in x.qry : g[1] = e[1]}}
                IN  IF have = {} THEN No
                    ELSE IF e[2] = AnyValue \/ e[2] \in have THEN Yes
                    ELSE No
              : e \in f.q })

StatusV(f, x) ==
    IF f.s = {} THEN Yes
    ELSE IF x.side = "req" THEN Either                  \* Z3
    ELSE IF x.status \notin f.s THEN No
    ELSE IF x.side = "early" THEN Either                \* Z3: the generated response is not attached to the stream
    ELSE Yes

-------------------------------------------------------------------------------
(* the property *)

Pats(F) == {f.pat : f \in F}

Verdict(f, x, F) ==
    And3({UrlV(f.pat, x.url, Pats(F)), MethodV(f, x), HeaderV(f, x), QueryV(f, x), StatusV(f, x)})

\* loosest reading of "the transaction satisfies the flow's own filter"
Satisfied(f, x, F)  == Verdict(f, x, F) # No
MustRun(f, x, F)    == Verdict(f, x, F) = Yes
MustNotRun(f, x, F) == Verdict(f, x, F) = No

Names(F) == {f.name : f \in F}

Correct(sel, x, F) ==
    /\ sel \subseteq Names(F)
    /\ \A f \in F : LET v == Verdict(f, x, F) IN
                    /\ v = Yes => f.name \in sel
                    /\ v = No  => f.name \notin sel

\* sels = the selections obtained for the same F and x under different load orders
OrderIndependent(sels) == \A a, b \in sels : a = b

\* nact = number of actions the engine returned for the transaction
PassThrough(nact, x, F) == (\A f \in F : MustNotRun(f, x, F)) => nact = 0

\* evidence bookkeeping: the case exercises both directions of the property
NonTrivial(x, F) == (\E f \in F : MustRun(f, x, F)) /\ (\E f \in F : MustNotRun(f, x, F))
================================================================================
