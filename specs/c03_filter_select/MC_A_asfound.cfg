\* pattern space, code as found: must be refuted
CONSTANTS
  MaxPath = 2
  NFlowsA = 3
  SymLits <- SymA
  MaxFlows = 3
  FlowDomain <- FlowsA
  TxnDomain <- TxnsA
  KF_NodeReq = TRUE
  LookupMode = "old"
  KF_EndTest = TRUE
  KF_WildHost = TRUE
  KF_WildNew = TRUE
SPECIFICATION ISpec
INVARIANTS InvCorrect InvOrder InvBuild
CHECK_DEADLOCK FALSE
