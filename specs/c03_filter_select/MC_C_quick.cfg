\* overlapping patterns x constraints, repaired code: I => Correct /\ OrderIndependent
CONSTANTS
  MaxPath = 1
  NFlowsA = 0
  SymLits <- SymNone
  MaxFlows = 3
  FlowDomain <- FlowsC
  TxnDomain <- TxnsC
  KF_NodeReq = FALSE
  LookupMode = "exact"
  KF_EndTest = FALSE
  KF_WildHost = FALSE
  KF_WildNew = TRUE
SPECIFICATION ISpec
INVARIANTS InvCorrect InvOrder InvBuild Witnesses
CHECK_DEADLOCK FALSE
