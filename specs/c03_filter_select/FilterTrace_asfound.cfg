CONSTANTS
  KF_NodeReq = TRUE
  LookupMode = "old"
  KF_EndTest = TRUE
  KF_WildHost = TRUE
  KF_WildNew = TRUE
  FlowDomain = {}
  TxnDomain = {}
  SymLits <- SymNone
  MaxFlows = 0
SPECIFICATION TraceSpec
CONSTRAINT HWM
POSTCONDITION Post
CHECK_DEADLOCK FALSE
